"""Generic check flow (DESIGN.md section 3): proof audit, correspondence run,
property oracle, shrinking, reporting, evidence."""
import os
import sys
import time
import json
import random

from . import core
from .core import Case


class Spec:
    pid = 'C00'
    component = ''          # runner component
    driver = ''             # harness/drv_<driver>.c
    lib_srcs = []           # $REPO/src files linked into the driver
    driver_extra = ''
    header_words = ()
    level_note = ''
    trusted = []
    assumptions_text = []
    rule = ''

    def corpus(self):
        d = os.path.join(core.ROOT, 'corpus', self.pid)
        cases = []
        if os.path.isdir(d):
            for f in sorted(os.listdir(d)):
                cs = core.parse_script(open(os.path.join(d, f)).read(), origin='corpus')
                core.split_header(cs, self.header_words)
                for i, c in enumerate(cs):
                    c.name = 'corpus_%s_%d' % (os.path.splitext(f)[0], i)
                cases += cs
        return cases

    def closure(self, tier):
        """-> (cases, stats dict)"""
        return [], {}

    def random_cases(self, tier, seed):
        return []

    def oracle(self, case, impl):
        """Check the property text on the implementation's trace only.
        -> None (holds / outside domain) or (key, message)."""
        return None

    def nontrivial(self, case, model):
        return len(model) >= 2

    def bfs(self, args, origin='closure'):
        exe = os.path.join(core.BUILD, 'ocaml', 'runner')
        import subprocess
        p = subprocess.run([exe, self.component + '-bfs'] + [str(a) for a in args],
                           stdout=subprocess.PIPE, stderr=subprocess.PIPE, text=True, timeout=3000)
        cases = core.parse_script(p.stdout, origin=origin)
        core.split_header(cases, self.header_words)
        st = {}
        for tok in p.stderr.split('\n'):
            w = tok.split()
            if len(w) >= 6 and w[0] == 'states':
                st = dict(states=int(w[1]), transitions=int(w[3]), closed=(w[5] == 'true'))
        return cases, st


def run_pair(spec, cases, drivers, work):
    model = core.run_sharded(core.runner_cmd(spec.component), cases, work, 'm')
    impls = []
    for exe in drivers:
        impls.append(core.run_sharded(core.driver_cmd(exe), cases, work, 'i'))
    return model, impls


def single(spec, case, exe, work):
    """Run one case on model and one driver; -> (model_lines, impl_lines)"""
    import subprocess
    os.makedirs(work, exist_ok=True)
    p = os.path.join(work, 'one.%d.script' % os.getpid())
    c = Case('x', case.header, case.ops)
    with open(p, 'w') as f:
        f.write(c.text())
    m = subprocess.run([os.path.join(core.BUILD, 'ocaml', 'runner'), spec.component, p],
                       stdout=subprocess.PIPE, stderr=subprocess.DEVNULL, text=True, timeout=120).stdout
    try:
        i = subprocess.run([exe, p], stdout=subprocess.PIPE, stderr=subprocess.DEVNULL, text=True,
                           timeout=120).stdout
    except subprocess.TimeoutExpired:
        i = 'case x\ntimeout\nend\n'
    return core.parse_trace(m).get('x', []), core.parse_trace(i).get('x', [])


def vsign_variants(spec, cases):
    """A visit function may answer any non-zero value, also a negative one.  For specs that set
    `vsign_every = k`, every k-th case containing a foreach with a stop request is replayed with the header
    `vsign -1`: the driver's visitor then answers -stop and the driver prints the traversal's result times -1,
    so model and oracle (which see `stop`) are unchanged while `if (res > 0)`-style bugs show."""
    k = getattr(spec, 'vsign_every', 0)
    if not k or 'vsign' not in spec.header_words:
        return []
    out = []
    n = 0
    for c in cases:
        if any(h.split()[0] == 'vsign' for h in c.header):
            continue
        hit = False
        for o in c.ops:
            w = o.split()
            if w[0].startswith('foreach') and any(x.lstrip('-').isdigit() and int(x) > 0 for x in w[2:] if x.lstrip('-').isdigit()):
                hit = True
                break
            if w[0].startswith('foreach') and len(w) >= 3 and w[-1].isdigit() and int(w[-1]) > 0:
                hit = True
                break
            if w[0] == 'find' and len(w) >= 5 and w[3] != 'null' and getattr(spec, 'vsign_find', False):
                hit = True      # a find whose visit function accepts some element
                break
        if not hit:
            continue
        n += 1
        if n % k == 0:
            out.append(Case(c.name + 'n', c.header + ['vsign -1'], c.ops, c.origin))
    return out


def check(spec, tier, seed, replay=None):
    return check_parts(spec.pid, [spec], tier, seed, replay, main=spec)


def check_parts(pid, parts, tier, seed, replay=None, main=None):
    """Generic flow for one property decided over one or more components
    (`parts`: Spec instances; their oracles/generators are used as they are,
    the proof audit is the one of Properties_<pid>.v)."""
    t0 = time.time()
    main = main or parts[0]
    violations = []      # (replay_path, text, found_input)
    known_hits = []
    notes = []

    # 1. proofs
    ok_build, log = core.coq_build()
    proof = core.assumptions(pid)
    bad = core.hygiene()
    proof_ok = proof['ok'] and proof['discharged'] == len(proof['theorems']) and not bad \
        and len(proof['theorems']) > 0 and len(proof['printed']) >= len(proof['theorems'])
    if not proof_ok:
        notes.append('proof audit failed: build_ok=%s coqc_ok=%s discharged=%d/%d hygiene=%s' % (
            ok_build, proof['ok'], proof['discharged'], len(proof['theorems']), bad))
    if tier == 'thorough' and proof_ok and not replay:
        okc, chk = core.coqchk(pid)
        proof['coqchk'] = chk
        if not okc:
            proof_ok = False
            notes.append('coqchk failed: ' + chk['tail'][-400:])

    # 2. executables
    okr, logr = core.build_runner()
    if not okr:
        print(logr[-3000:])
        notes.append('runner build failed')

    replay_part = None
    replay_cases = None
    if replay:
        txt = open(replay).read()
        for line in txt.splitlines():
            if line.startswith('# part:'):
                replay_part = line.split(':', 1)[1].strip()
        replay_cases = txt

    known = dict(core.load_known(pid))
    nrep = 0
    tot = dict(evaluations=0, skipped=0, mism=0, states=0, transitions=0, closed=True, have_closure=False)
    nontrivial = set()
    hist = {}
    oracle_counts = {}
    samples = []
    drivers_used = []
    for spec in parts:
        if replay_part and spec.component != replay_part:
            continue
        work = os.path.join(core.BUILD, 'work', pid, spec.component)
        os.makedirs(work, exist_ok=True)
        drivers = []
        variants = [dict(ndebug=True, tag='')]
        if tier == 'thorough' and getattr(spec, 'assert_variant', True):
            variants.append(dict(ndebug=False, tag='_assert'))
        failed = False
        for v in variants:
            exe, logd = core.build_driver(spec.driver, spec.lib_srcs, spec.driver_extra, v['ndebug'], v['tag'])
            if exe is None:
                rp = core.replay_path(pid, nrep)
                nrep += 1
                with open(rp, 'w') as f:
                    f.write('driver drv_%s failed to build against %s\n%s\n' % (spec.driver, core.REPO, logd[-4000:]))
                print(logd[-2000:])
                violations.append((rp, 'driver drv_%s does not build against the tree' % spec.driver, False))
                notes.append('driver build failed: ' + spec.driver)
                failed = True
                break
            drivers.append(exe)
        if failed:
            continue
        drivers_used += [os.path.basename(d) for d in drivers]

        # 3. cases
        if replay_cases is not None:
            cases = core.parse_script(replay_cases, origin='replay')
            core.split_header(cases, spec.header_words)
            clo_stats = {}
        else:
            cases = spec.corpus()
            clo, clo_stats = spec.closure(tier)
            cases += clo
            cases += spec.random_cases(tier, seed)
            cases += vsign_variants(spec, cases)
            if hasattr(spec, 'more_variants'):
                cases += spec.more_variants(cases, tier, seed)
        for i, c in enumerate(cases):
            c.name = '%s_%d' % (c.name, i)
        if clo_stats:
            tot['have_closure'] = True
            tot['states'] += clo_stats.get('states', 0)
            tot['transitions'] += clo_stats.get('transitions', 0)
            tot['closed'] = tot['closed'] and bool(clo_stats.get('closed', False))

        model, impls = run_pair(spec, cases, drivers, work) if okr else ({}, [{} for _ in drivers])
        # further executable models of the same component (e.g. a pointer-level refinement): they must
        # produce the primary model's trace on every case
        for extra in getattr(spec, 'extra_models', ()):
            if not okr:
                break
            em = core.run_sharded(core.runner_cmd(extra), cases, work, 'x')
            bad_x = [c for c in cases if model.get(c.name) and model[c.name][-1] != 'precond'
                     and em.get(c.name) != model.get(c.name)]
            if bad_x:
                c = min(bad_x, key=lambda c: len(c.ops))
                rp = core.replay_path(pid, nrep)
                nrep += 1
                with open(rp, 'w') as f:
                    f.write('# the two Coq models %s and %s of the same code disagree on %d cases (first below)\n' % (
                        spec.component, extra, len(bad_x)))
                    f.write('# part: %s\n' % spec.component)
                    f.write(c.text())
                    f.write('# %s:\n' % spec.component + ''.join('#   %s\n' % l for l in model.get(c.name, [])))
                    f.write('# %s:\n' % extra + ''.join('#   %s\n' % l for l in em.get(c.name, [])))
                violations.append((rp, 'models %s and %s disagree' % (spec.component, extra), False))

        # 4. compare + oracle
        mism = []
        oracle_hits = {}
        for c in cases:
            m = model.get(c.name, ['<no model output>'])
            if m and m[-1] == 'precond':
                if getattr(spec, 'oracle_only', None) and spec.oracle_only(c):
                    # outside the model's domain on purpose (e.g. a re-entrant callback): the implementation's trace
                    # is judged by the property oracle (and the sanitizers) alone
                    tot['oracle_only'] = tot.get('oracle_only', 0) + 1
                    for di, impl in enumerate(impls):
                        r = spec.oracle(c, impl.get(c.name, ['<no impl output>']))
                        if r is not None:
                            oracle_hits.setdefault(r[0], []).append((c, di, r[1]))
                else:
                    tot['skipped'] += 1
                continue
            tot['evaluations'] += 1
            for o in c.ops:
                w = spec.component + '.' + o.split()[0] if len(parts) > 1 else o.split()[0]
                hist[w] = hist.get(w, 0) + 1
            if spec.nontrivial(c, m):
                nontrivial.add(spec.component + c.key())
            for di, impl in enumerate(impls):
                im = impl.get(c.name, ['<no impl output>'])
                d = core.first_diff(m, im)
                if d is not None:
                    mism.append((c, di, d))
                r = spec.oracle(c, im)
                if r is not None:
                    oracle_hits.setdefault(r[0], []).append((c, di, r[1]))
        tot['mism'] += len(mism)
        if cases:
            samples += [c.text().split('\n') for c in (cases[:1] + cases[len(cases) // 2:len(cases) // 2 + 1])]

        # 4a. property violations found on the implementation
        for key, hits in sorted(oracle_hits.items()):
            oracle_counts[spec.component + ':' + key] = len(hits)
            if key in known:
                known_hits.append((key, known[key], len(hits)))
                continue
            c, di, msg = min(hits, key=lambda h: len(h[0].ops))
            exe = drivers[di]

            def still(ops, _c=c, _exe=exe, _key=key, _spec=spec, _work=work):
                cc = Case('x', _c.header, ops)
                _, im = single(_spec, cc, _exe, _work)
                r = _spec.oracle(cc, im)
                return r is not None and r[0] == _key
            small = core.ddmin(c.ops, still) if len(c.ops) > 1 else c.ops
            cc = Case('violation', c.header, small)
            mm, im = single(spec, cc, exe, work)
            r = spec.oracle(cc, im)
            rp = core.replay_path(pid, nrep)
            nrep += 1
            with open(rp, 'w') as f:
                f.write('# property %s violated on the implementation (%s)\n# oracle: %s\n# key: %s\n' % (
                    pid, os.path.basename(exe), r[1] if r else msg, key))
                f.write('# part: %s\n' % spec.component)
                f.write('# replay: ./check %s --replay %s\n' % (pid, rp))
                f.write(cc.text())
                f.write('# implementation trace:\n' + ''.join('#   %s\n' % l for l in im))
                f.write('# model trace:\n' + ''.join('#   %s\n' % l for l in mm))
            violations.append((rp, msg, True))
        # 4b. correspondence breaks not explained by an oracle hit
        explained = set()
        for key, hits in oracle_hits.items():
            for c, di, _ in hits:
                explained.add((c.name, di))
        unexplained = [(c, di, d) for (c, di, d) in mism if (c.name, di) not in explained]
        if unexplained:
            c, di, d = min(unexplained, key=lambda h: len(h[0].ops))
            exe = drivers[di]

            def still2(ops, _c=c, _exe=exe, _spec=spec, _work=work):
                cc = Case('x', _c.header, ops)
                mm, im = single(_spec, cc, _exe, _work)
                if mm and mm[-1] == 'precond':
                    return False
                return core.first_diff(mm, im) is not None
            small = core.ddmin(c.ops, still2) if len(c.ops) > 1 else c.ops
            cc = Case('correspondence', c.header, small)
            mm, im = single(spec, cc, exe, work)
            rp = core.replay_path(pid, nrep)
            nrep += 1
            with open(rp, 'w') as f:
                f.write('# correspondence between the Coq model (%s, theorems of Properties_%s.v) and %s no longer checks\n' % (
                    spec.component, pid, os.path.basename(exe)))
                f.write('# %d of %d cases differ; smallest after shrinking below. first difference (line, model, impl): %s\n' % (
                    len(unexplained), len(cases), (core.first_diff(mm, im),)))
                f.write('# the property oracle found no input on which the implementation itself violates %s\n' % pid)
                f.write('# part: %s\n' % spec.component)
                f.write('# replay: ./check %s --replay %s\n' % (pid, rp))
                f.write(cc.text())
                f.write('# implementation trace:\n' + ''.join('#   %s\n' % l for l in im))
                f.write('# model trace:\n' + ''.join('#   %s\n' % l for l in mm))
            violations.append((rp, 'model/implementation correspondence broken (%s)' % spec.component, False))

    # 4c. proofs broken
    if (not proof_ok or not okr) and not any(v[2] for v in violations):
        rp = core.replay_path(pid, nrep)
        with open(rp, 'w') as f:
            f.write('# proof obligations of Properties_%s.v no longer check\n# %s\n' % (pid, '; '.join(notes)))
            f.write(proof['log'][-6000:])
        violations.append((rp, 'theorems of Properties_%s.v do not check' % pid, False))

    for key, text, n in known_hits:
        print('KNOWN-FINDING: property=%s %s (key=%s, %d cases)' % (pid, text, key, n))
    for rp, msg, found in violations:
        print('# %s' % msg)
        print('VIOLATION property=%s replay=%s%s' % (pid, rp, '' if found else ' no-failing-input-found'))

    cov = dict(
        evaluations=tot['evaluations'],
        distinct_nontrivial=len(nontrivial),
        skipped_outside_domain=tot['skipped'],
        mismatching_cases=tot['mism'],
        oracle_violations=oracle_counts,
        op_histogram=hist,
        drivers=drivers_used,
        components=[s.component for s in parts],
        samples=samples[:6],
    )
    if tot.get('oracle_only'):
        cov['judged_by_oracle_only_outside_model'] = tot['oracle_only']
    if tot['have_closure']:
        cov['states'] = tot['states']
        cov['transitions'] = tot['transitions']
        cov['traces_validated_against_impl'] = tot['evaluations']
        cov['exhaustive'] = bool(tot['closed'])
    rc = 1 if violations else 0
    finish(main, tier, seed, t0, proof, bad, cov, len(violations), notes, known_hits, pid=pid)
    return rc


def finish(spec, tier, seed, t0, proof, bad, cov, nviol, notes, known_hits=(), pid=None):
    pid = pid or spec.pid
    cov = dict(cov)
    cov.setdefault('evaluations', 0)
    cov.setdefault('distinct_nontrivial', 0)
    cov.setdefault('samples', [])
    cov['obligations'] = len(proof['theorems'])
    cov['discharged'] = proof['discharged']
    cov['theorems'] = proof['theorems']
    cov['checker_cmd'] = proof['cmd']
    cov['print_assumptions'] = ['%s: %s' % (n, b) for n, b in proof['printed']]
    cov['hygiene_hits'] = bad
    cov['rule'] = spec.rule
    cov['trusted_base'] = [
        'Coq 8.16.1 kernel (coqc, vm_compute); no native_compute',
        'axioms per Print Assumptions: %s' % (', '.join(proof['axioms']) if proof['axioms'] else 'none (closed under the global context)'),
        'extraction: ExtrOcamlBasic directives only (bool, option, unit, list, prod, sumbool, sumor -> OCaml types), no Extract Constant; OCaml 4.13.1; used only to run the model',
        'correspondence check: harness/drv_%s.c, runner/, lib/ (hand-written), gcc -fsanitize=address,undefined' % spec.driver,
    ] + list(spec.trusted)
    cov['notes'] = notes
    if 'coqchk' in proof:
        cov['coqchk'] = proof['coqchk']
    cov['known_findings_hit'] = [k for k, _, _ in known_hits]
    ev = dict(property_id=pid, tier=tier, seed=seed, level='proof', coverage=cov,
              assumptions=list(spec.assumptions_text), wall_s=round(time.time() - t0, 2), violations=nviol)
    core.write_evidence(pid, ev)
