#!/usr/bin/env python3
"""Regenerates MANIFEST.json from the table below."""
import json
import os

ROOT = os.path.dirname(os.path.dirname(os.path.abspath(__file__)))
ALL = ['C%02d' % i for i in range(1, 21)]

import importlib
import sys
sys.path.insert(0, ROOT)
CLAIMED = {}
NOT_APPLICABLE = {}
for pid in ALL:
    if os.path.exists(os.path.join(ROOT, 'checks', pid.lower() + '.py')):
        mod = importlib.import_module('checks.' + pid.lower())
        if getattr(mod, 'MANIFEST', None):
            CLAIMED[pid] = mod.MANIFEST
        elif getattr(mod, 'NOT_APPLICABLE', None):
            NOT_APPLICABLE[pid] = mod.NOT_APPLICABLE

PENDING_REASON = 'check not built yet in this revision (planned: see DESIGN.md section 6)'


def main():
    checks = []
    for pid in ALL:
        if pid not in CLAIMED:
            continue
        c = CLAIMED[pid]
        checks.append(dict(
            property_id=pid,
            quick_cmd='./check %s --tier quick' % pid,
            thorough_cmd='./check %s --tier thorough' % pid,
            evidence_file='evidence/%s.json' % pid,
            replay_cmd_template='./check %s --replay {path}' % pid,
            engine='coq-correspondence',
            level_claimed=dict(category='proof', text=c['text'], design_ref='DESIGN.md section ' + c['design']),
            level_note=c['note'],
            technique=c['technique'],
        ))
    m = dict(
        version=1,
        setup_cmd='./setup.sh',
        hooks=dict(guard='LIBCSTL_VERIF', enable='no source hooks: drivers link $REPO/src/*.c directly and intercept malloc/realloc/free, rand and <stdatomic.h> from outside',
                   baseline_off_cmd='make -C /repo -s test', source_commits=[], add_only=True),
        engines=[dict(name='coq-correspondence', path='check', serves_properties=sorted(CLAIMED),
                      kind_free_text='Coq 8.16 theorems about hand-written executable models + differential correspondence check '
                                     '(extracted OCaml model vs ASan/UBSan C drivers rebuilt from /repo) + independent property oracles')],
        checks=checks,
        notes='All checks honour REPO (default /repo), VERIF_SEED, VERIF_TIER. See DESIGN.md.',
        not_applicable=[dict(property_id=p, reason=NOT_APPLICABLE.get(p, PENDING_REASON)) for p in ALL if p not in CLAIMED],
    )
    with open(os.path.join(ROOT, 'MANIFEST.json'), 'w') as f:
        json.dump(m, f, indent=1)
        f.write('\n')


if __name__ == '__main__':
    main()
