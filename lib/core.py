"""Shared machinery of the checks: Coq build + assumption audit, extraction and
runner build, driver build from $REPO, parallel model-vs-implementation runs,
shrinking, known findings, evidence."""
import hashlib
import json
import os
import re
import subprocess
import sys
import time
from concurrent.futures import ThreadPoolExecutor

ROOT = os.path.dirname(os.path.dirname(os.path.abspath(__file__)))
REPO = os.environ.get('REPO', '/repo')
BUILD = os.path.join(ROOT, '.build')
COQ = os.path.join(ROOT, 'coq')
NPROC = 16

ALLOWED_AXIOMS = [
    # axioms declared by Coq's own standard library; named in the trusted base
    'ClassicalDedekindReals.sig_forall_dec', 'ClassicalDedekindReals.sig_not_dec',
    'FunctionalExtensionality.functional_extensionality_dep',
    'Classical_Prop.classic', 'Eqdep.Eq_rect_eq.eq_rect_eq', 'JMeq.JMeq_eq',
    'ProofIrrelevance.proof_irrelevance', 'PropExtensionality.propositional_extensionality',
]


def sh(cmd, timeout=600, cwd=None, env=None, inp=None):
    e = dict(os.environ)
    if env:
        e.update(env)
    try:
        p = subprocess.run(cmd, shell=isinstance(cmd, str), cwd=cwd, env=e, input=inp,
                           stdout=subprocess.PIPE, stderr=subprocess.STDOUT, timeout=timeout,
                           text=True, errors='replace')
        return p.returncode, p.stdout
    except subprocess.TimeoutExpired as ex:
        return 124, (ex.stdout or '') + '\nTIMEOUT'


# ---------------------------------------------------------------- Coq side

def coq_build():
    """Full .vo build of the development (no -vos). Returns (ok, log)."""
    os.makedirs(BUILD, exist_ok=True)
    vs = sorted(f for f in os.listdir(os.path.join(COQ, 'theories')) if f.endswith('.v'))
    proj = '-Q theories Cstl\n' + ''.join('theories/%s\n' % f for f in vs)
    pp = os.path.join(COQ, '_CoqProject')
    if not os.path.exists(pp) or open(pp).read() != proj or not os.path.exists(os.path.join(COQ, 'Makefile')):
        open(pp, 'w').write(proj)
        rc, out = sh('coq_makefile -f _CoqProject -o Makefile', cwd=COQ)
        if rc:
            return False, out
    rc, out = sh('timeout 3000 make -j%d -k 2>&1' % NPROC, cwd=COQ, timeout=3100)
    return rc == 0, out


def coq_vo_ok(name):
    return os.path.exists(os.path.join(COQ, 'theories', name + '.vo'))


def hygiene():
    """Forbidden constructs anywhere in the development."""
    pat = r'\b(Admitted|admit|Axiom|Axioms|Parameter|Parameters|Conjecture|Abort All)\b|Unset Guard|bypass_check|type-in-type|Admit Obligations|impredicative-set'
    bad = []
    for dp, _, fs in os.walk(COQ):
        for f in fs:
            if not f.endswith('.v'):
                continue
            path = os.path.join(dp, f)
            txt = open(path, errors='replace').read()
            # strip comments (non-nested approximation is enough: we never nest)
            txt = re.sub(r'\(\*.*?\*\)', '', txt, flags=re.S)
            for m in re.finditer(pat, txt):
                bad.append('%s: %s' % (os.path.relpath(path, ROOT), m.group(0)))
    # Variables/Hypotheses outside sections
    return bad


def assumptions(pid):
    """Re-check Properties_<pid>.v and parse its Print Assumptions output.
    Returns dict(theorems=[names], printed=[(name, text)], ok=bool, log=str)."""
    f = os.path.join(COQ, 'theories', 'Properties_%s.v' % pid)
    src = open(f).read()
    src_nc = re.sub(r'\(\*.*?\*\)', '', src, flags=re.S)
    theorems = re.findall(r'^\s*Theorem\s+(\w+)', src_nc, flags=re.M)
    printed_names = re.findall(r'^\s*Print Assumptions\s+(\w+)\s*\.', src_nc, flags=re.M)
    os.makedirs(os.path.join(BUILD, 'recheck'), exist_ok=True)
    out_vo = os.path.join(BUILD, 'recheck', 'Properties_%s.vo' % pid)
    t0 = time.time()
    rc, out = sh(['timeout', '1200', 'coqc', '-Q', 'theories', 'Cstl', f, '-o', out_vo], cwd=COQ, timeout=1300)
    # split output into blocks, one per Print Assumptions, in order.  Inside an
    # "Axioms:" block every line that starts in column 0 names an axiom (Coq wraps a
    # long type onto indented continuation lines, possibly leaving the name alone).
    blocks = []
    cur = None
    for line in out.splitlines():
        if line.startswith('Closed under the global context'):
            blocks.append('Closed under the global context')
            cur = None
        elif line.startswith('Axioms:'):
            cur = [line]
            blocks.append(cur)
        elif cur is not None:
            if line.startswith('File ') or line.startswith('Error') or line.startswith('Warning'):
                cur = None
            else:
                cur.append(line)
    blocks = [b if isinstance(b, str) else '\n'.join(b) for b in blocks]
    res = []
    discharged = 0
    for i, n in enumerate(printed_names):
        b = blocks[i] if i < len(blocks) else 'MISSING'
        res.append((n, b))
    ax_used = set()
    for n in theorems:
        b = dict(res).get(n)
        if b is None:
            continue
        if b.startswith('Closed'):
            discharged += 1
            continue
        axs = re.findall(r"^([A-Za-z_][\w\.']*)", b, flags=re.M)
        axs = [a for a in axs if a != 'Axioms']
        if axs and all(a in ALLOWED_AXIOMS for a in axs):
            discharged += 1
            ax_used.update(axs)
    return dict(theorems=theorems, printed=res, discharged=discharged if rc == 0 else 0,
                ok=(rc == 0), log=out, axioms=sorted(ax_used), wall=time.time() - t0,
                cmd='coqc -Q theories Cstl theories/Properties_%s.v (after make in coq/)' % pid)


def coqchk(pid):
    """Independent re-check of Properties_<pid>.vo and everything it depends on (thorough tier).
    -> (ok, summary text incl. the axioms coqchk lists)"""
    t0 = time.time()
    rc, out = sh(['timeout', '1500', 'coqchk', '-silent', '-o', '-Q', 'theories', 'Cstl', 'Cstl.Properties_%s' % pid],
                 cwd=COQ, timeout=1600)
    tail = out[-3000:]
    ax = []
    m = re.search(r'\* Axioms:(.*?)(\n\* |\Z)', out, flags=re.S)
    if m:
        ax = [l.strip() for l in m.group(1).splitlines() if l.strip()]
    return rc == 0, dict(ok=(rc == 0), wall_s=round(time.time() - t0, 1), axioms_listed=ax,
                         tail=tail if rc else tail[-600:])


def build_runner():
    """Extract the models (ExtrOcamlBasic only) and build the OCaml runner."""
    d = os.path.join(BUILD, 'ocaml')
    exe = os.path.join(d, 'runner')
    srcs = [os.path.join(ROOT, 'runner', f) for f in os.listdir(os.path.join(ROOT, 'runner')) if f.endswith('.ml')]
    deps = srcs + \
        [os.path.join(COQ, 'theories', f) for f in os.listdir(os.path.join(COQ, 'theories')) if f.endswith('Model.vo') or f == 'Prelude.vo']
    if os.path.exists(exe) and all(os.path.getmtime(x) <= os.path.getmtime(exe) for x in deps if os.path.exists(x)):
        return True, 'up to date'
    sh('rm -rf %s' % d)
    os.makedirs(d)
    mods = sorted(f[:-2] for f in os.listdir(os.path.join(COQ, 'theories')) if f.endswith('Model.v'))
    with open(os.path.join(d, 'Extract.v'), 'w') as f:
        f.write('(* generated by lib/core.py: ExtrOcamlBasic only, no Extract Constant *)\n'
                'Require Extraction.\nRequire Import ExtrOcamlBasic.\nExtraction Language OCaml.\n'
                'From Cstl Require %s.\nSeparate Extraction %s.\n' % (' '.join(mods), ' '.join(mods)))
    rc, out = sh('timeout 600 coqc -Q %s/theories Cstl Extract.v' % COQ, cwd=d, timeout=700)
    if rc:
        return False, out
    sh('cp %s/runner/*.ml .' % ROOT, cwd=d)
    rc, out2 = sh("ocamlfind ocamlopt -w -a -O3 -o runner $(ocamlfind ocamldep -sort *.mli $(ls *.ml | grep -v '^main.ml$')) main.ml", cwd=d, timeout=600)
    return rc == 0, out + out2


CFLAGS_SAN = '-std=gnu99 -O1 -g -fsanitize=address,undefined -fno-sanitize-recover=all -fno-omit-frame-pointer'


def build_driver(name, lib_srcs, extra='', ndebug=True, tag=''):
    """Compile harness/drv_<name>.c with the given sources of $REPO/src."""
    d = os.path.join(BUILD, 'c')
    os.makedirs(d, exist_ok=True)
    exe = os.path.join(d, 'drv_%s%s' % (name, tag))
    srcs = ' '.join(os.path.join(REPO, 'src', s) for s in lib_srcs)
    cmd = 'gcc %s %s -D_POSIX_C_SOURCE=199309L -I%s/include -I%s/harness %s -o %s %s/harness/drv_%s.c %s -lm' % (
        CFLAGS_SAN, '-DNDEBUG' if ndebug else '', REPO, ROOT, extra, exe, ROOT, name, srcs)
    rc, out = sh(cmd, timeout=300)
    return (exe if rc == 0 else None), out


# ---------------------------------------------------------------- scripts

class Case:
    __slots__ = ('name', 'header', 'ops', 'origin')

    def __init__(self, name, header, ops, origin='gen'):
        self.name = name
        self.header = list(header)
        self.ops = list(ops)
        self.origin = origin

    def text(self):
        return 'case %s\n%s%s\nend\n' % (self.name, ''.join(h + '\n' for h in self.header), '\n'.join(self.ops))

    def key(self):
        return hashlib.sha1(('\n'.join(self.header) + '\n--\n' + '\n'.join(self.ops)).encode()).hexdigest()[:16]


def parse_script(text, origin='file'):
    cases = []
    cur = None
    for line in text.splitlines():
        w = line.split()
        if not w:
            continue
        if w[0] == 'case':
            cur = Case(w[1] if len(w) > 1 else '?', [], [], origin)
        elif w == ['end']:
            if cur is not None:
                cases.append(cur)
            cur = None
        elif cur is not None:
            cur.ops.append(' '.join(w))
    return cases


def split_header(cases, header_words):
    for c in cases:
        h = [o for o in c.ops if o.split()[0] in header_words]
        c.header = h
        c.ops = [o for o in c.ops if o.split()[0] not in header_words]
    return cases


def parse_trace(text):
    """-> dict name -> list of normalised lines"""
    res = {}
    cur = None
    for line in text.splitlines():
        line = ' '.join(line.split())
        if not line:
            continue
        if line.startswith('case '):
            cur = line[5:]
            res[cur] = []
        elif line == 'end':
            cur = None
        elif cur is not None:
            res[cur].append(line)
    return res


def run_sharded(cmd_fn, cases, workdir, tag, timeout=3000, nshard=NPROC):
    """Write cases into shards, run cmd_fn(shard_path) -> argv in parallel,
    merge parsed traces."""
    os.makedirs(workdir, exist_ok=True)
    n = max(1, min(nshard, (len(cases) + 199) // 200))
    shards = [[] for _ in range(n)]
    for i, c in enumerate(cases):
        shards[i % n].append(c)
    paths = []
    for i, sh_cases in enumerate(shards):
        p = os.path.join(workdir, '%s.%d.script' % (tag, i))
        with open(p, 'w') as f:
            for c in sh_cases:
                f.write(c.text())
        paths.append(p)

    def one(p):
        argv, env = cmd_fn(p)
        e = dict(os.environ)
        e.update(env or {})
        try:
            r = subprocess.run(argv, stdout=subprocess.PIPE, stderr=subprocess.DEVNULL, timeout=timeout,
                               env=e, text=True, errors='replace')
            return r.stdout
        except subprocess.TimeoutExpired as ex:
            return (ex.stdout or b'').decode(errors='replace') if isinstance(ex.stdout, bytes) else (ex.stdout or '')

    with ThreadPoolExecutor(max_workers=n) as ex:
        outs = list(ex.map(one, paths))
    res = {}
    for o in outs:
        res.update(parse_trace(o))
    for p in paths:
        try:
            os.unlink(p)
        except OSError:
            pass
    return res


def runner_cmd(component):
    exe = os.path.join(BUILD, 'ocaml', 'runner')
    return lambda p: ([exe, component, p], None)


def driver_cmd(exe, env=None):
    return lambda p: ([exe, p], env)


def first_diff(a, b):
    for i in range(max(len(a), len(b))):
        x = a[i] if i < len(a) else '<missing>'
        y = b[i] if i < len(b) else '<missing>'
        if x != y:
            return i, x, y
    return None


def ddmin(ops, test):
    """Delta debugging: smallest sub-list of ops (order kept) for which test(ops) is true."""
    n = 2
    ops = list(ops)
    while len(ops) >= 2:
        chunk = max(1, len(ops) // n)
        subsets = [ops[i:i + chunk] for i in range(0, len(ops), chunk)]
        reduced = False
        for i in range(len(subsets)):
            comp = [x for j, s in enumerate(subsets) if j != i for x in s]
            if comp and test(comp):
                ops = comp
                n = max(n - 1, 2)
                reduced = True
                break
        if not reduced:
            if n >= len(ops):
                break
            n = min(len(ops), n * 2)
    return ops


# ---------------------------------------------------------------- findings

def load_known(pid):
    p = os.path.join(ROOT, 'known_findings.txt')
    res = []
    if os.path.exists(p):
        for line in open(p):
            line = line.strip()
            m = re.match(r'finding:\s+property=(\S+)\s+key=(\S+)\s+(.*)', line)
            if m and m.group(1) == pid:
                res.append((m.group(2), m.group(3)))
    return res


def write_evidence(pid, ev):
    # VERIF_EVIDENCE_DIR: used by selftest/seedtest/mutation_matrix so that runs against
    # deliberately broken trees do not overwrite the evidence of the unchanged tree
    d = os.environ.get('VERIF_EVIDENCE_DIR') or os.path.join(ROOT, 'evidence')
    os.makedirs(d, exist_ok=True)
    p = os.path.join(d, '%s.json' % pid)
    with open(p, 'w') as f:
        json.dump(ev, f, indent=1, sort_keys=True)
        f.write('\n')
    return p


def replay_path(pid, n=0):
    d = os.path.join(ROOT, 'replays')
    os.makedirs(d, exist_ok=True)
    return os.path.join(d, '%s-%d.replay' % (pid, n))
