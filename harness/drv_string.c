/* Correspondence driver for src/string.c + src/_string.c (C10, C16): the
 * narrow (char) and the wide (wchar_t) instantiation, selected per case by
 * the header line "width 1|4".  Script format: see runner/run_string.ml.
 *
 * After every library call the unused storage [count, cap] of every string's
 * vector is filled with 0xBE when the allocator log says it exists.
 * find and compare lines print the library's result followed by what libc
 * (strchr/strstr/strcmp, wcschr/wcsstr/wcscmp) says on a private copy of the
 * characters [0, size] taken before the call.
 *
 * append_str_n s n c*: the library is given the literal and the count n.  A
 * count beyond the literal is only meaningful when the library aborts before
 * reading the source (growth that cannot be satisfied): counts that stay
 * inside the driver's literal buffer or that the allocation wrapper can never
 * satisfy (>= 2^32 characters) are passed on, and "precond" is printed if the
 * call returns; the rest is "precond" without a call.
 * data s: "1" when cstl_(w)string_data is NULL, else "0 <block> <offset>"
 * (ha_locate; -1 when the pointer is not inside a live block) followed, when
 * the vector holds elements, by <data[size]==NUL> (-1: size+1 characters are
 * not readable there) and the characters data[0 .. size). */
#include "hcommon.h"
#include "halloc.h"
#include "cstl/string.h"
#include <wchar.h>

#define MAXS 4
#define MAXLIT 64
#define MAXPRINT 256

static struct cstl_string ns[MAXS];
static struct cstl_wstring ws[MAXS];
static int nstr = 1, wide;

static struct cstl_vector * vof(int i) { return wide ? &ws[i].v : &ns[i].v; }
static size_t W(void) { return wide ? sizeof(wchar_t) : 1; }

static char nlit[MAXLIT + 1];
static wchar_t wlit[MAXLIT + 1];
static size_t litlen;

static void read_lit(const struct h_line * l, int from)
{
    int k;
    litlen = 0;
    for (k = from; k < l->nw && litlen < MAXLIT; k++, litlen++) {
        nlit[litlen] = (char)h_u64(l, k);
        wlit[litlen] = (wchar_t)h_u64(l, k);
    }
    nlit[litlen] = 0;
    wlit[litlen] = 0;
}

static long long chr_at(const void * p, size_t i)
{
    return wide ? (long long)((const wchar_t *)p)[i] : (long long)((const unsigned char *)p)[i];
}

static const void * str_of(int i)
{
    return wide ? (const void *)cstl_wstring_str(&ws[i]) : (const void *)cstl_string_str(&ns[i]);
}
static size_t size_of(int i)
{
    return wide ? cstl_wstring_size(&ws[i]) : cstl_string_size(&ns[i]);
}
static size_t cap_of(int i)
{
    return wide ? cstl_wstring_capacity(&ws[i]) : cstl_string_capacity(&ns[i]);
}
static int is_static_nul(const void * p)
{
    return p == (const void *)&cstl_string_nul || p == (const void *)&cstl_wstring_nul;
}

/* can n characters be read at p?  (static NUL: one) */
static int readable(const void * p, size_t n)
{
    size_t off = 0;
    int b;
    if (is_static_nul(p)) return n <= 1;
    b = ha_locate(p, &off);
    if (b < 0) return 0;
    return (unsigned __int128)n * W() <= ha_block_size(b) - off;
}

static void poison(void)
{
    int i;
    for (i = 0; i < nstr; i++) {
        struct cstl_vector * v = vof(i);
        size_t off = 0;
        int b;
        if (v->elem.base == NULL || v->cap < v->count || v->cap == SIZE_MAX) continue;
        b = ha_locate(v->elem.base, &off);
        if (b < 0 || off != 0) continue;
        if ((unsigned __int128)(v->cap + 1) * v->elem.size > ha_block_size(b)) continue;
        memset((char *)v->elem.base + v->count * v->elem.size, 0xBE,
               (v->cap + 1 - v->count) * v->elem.size);
    }
}

static void dump(void)
{
    int i;
    for (i = 0; i < nstr; i++) {
        struct cstl_vector * v = vof(i);
        const void * p = str_of(i);
        size_t sz = size_of(i), k, off = 0;
        int blk = -1, nul = -1;
        if (v->elem.base != NULL) {
            blk = ha_locate(v->elem.base, &off);
            if (blk < 0 || off != 0) blk = -3;
        }
        if (sz < SIZE_MAX && readable(p, sz + 1)) nul = chr_at(p, sz) == 0;
        printf(" | S%d: %zu %zu %d %zu %zu %d", i, sz, cap_of(i), nul, v->count, v->cap, blk);
        if (blk >= 0) printf(" %zu", ha_block_size(blk)); else printf(" -1");
        if (nul >= 0)
            for (k = 0; k < sz && k < MAXPRINT; k++) printf(" %lld", chr_at(p, k));
    }
}

/* private copy of the characters [0, size] of string i (NULL if unreadable) */
static void * copy_of(int i)
{
    const void * p = str_of(i);
    size_t sz = size_of(i);
    void * c;
    if (sz == SIZE_MAX || !readable(p, sz + 1)) return NULL;
    c = malloc((sz + 1) * W());
    memcpy(c, p, (sz + 1) * W());
    return c;
}
static int sgn(int x) { return (x > 0) - (x < 0); }

static char outb[24 * (MAXPRINT + 8)];

static void finish_line(void)
{
    printf("ok%s", outb);
    dump();
    ha_print_events();
    printf("\n");
}

static void run_case(const struct h_case * c)
{
    int i, k, started = 0;

    nstr = 1; wide = 0;
    ha_reset();
    for (i = 0; i < c->nlines; i++) {
        const struct h_line * l = &c->lines[i];
        int a = (int)h_int(l, 1);
        size_t x = (size_t)h_u64(l, 2), y = (size_t)h_u64(l, 3);

        if (h_weq(l, 0, "width")) { wide = h_int(l, 1) != 1; continue; }
        if (h_weq(l, 0, "nstr")) { nstr = (int)h_int(l, 1); if (nstr > MAXS) nstr = MAXS; continue; }
        if (h_weq(l, 0, "fail")) {
            for (k = 1; k < l->nw; k++) {
                long o = (long)h_int(l, k);
                if (o >= 0 && o < (long)sizeof(ha_fail)) ha_fail[o] = 1;
            }
            continue;
        }
        if (h_weq(l, 0, "failfrom")) { ha_fail_from = (long)h_int(l, 1); continue; }
        if (!started) {
            for (k = 0; k < MAXS; k++) { cstl_string_init(&ns[k]); cstl_wstring_init(&ws[k]); }
            started = 1;
        }
        if (a < 0 || a >= nstr) { printf("precond\n"); return; }
        outb[0] = 0;
        if (h_weq(l, 0, "set")) {
            read_lit(l, 2);
            ha_active = 1;
            if (wide) cstl_wstring_set_str(&ws[a], wlit); else cstl_string_set_str(&ns[a], nlit);
            ha_active = 0;
        } else if (h_weq(l, 0, "insert_ch")) {
            unsigned long long ch = h_u64(l, 4);
            ha_active = 1;
            if (wide) cstl_wstring_insert_ch(&ws[a], x, y, (wchar_t)ch);
            else cstl_string_insert_ch(&ns[a], x, y, (char)ch);
            ha_active = 0;
        } else if (h_weq(l, 0, "insert_str")) {
            read_lit(l, 3);
            ha_active = 1;
            if (wide) cstl_wstring_insert_str(&ws[a], x, wlit); else cstl_string_insert_str(&ns[a], x, nlit);
            ha_active = 0;
        } else if (h_weq(l, 0, "insert_str_n")) {
            read_lit(l, 3);
            ha_active = 1;
            if (wide) cstl_wstring_insert_str_n(&ws[a], x, wlit, litlen);
            else cstl_string_insert_str_n(&ns[a], x, nlit, litlen);
            ha_active = 0;
        } else if (h_weq(l, 0, "insert")) {
            int t = (int)y;
            if (t < 0 || t >= nstr || t == a) { printf("precond\n"); return; }
            ha_active = 1;
            if (wide) cstl_wstring_insert(&ws[a], x, &ws[t]); else cstl_string_insert(&ns[a], x, &ns[t]);
            ha_active = 0;
        } else if (h_weq(l, 0, "append")) {
            int t = (int)x;
            if (t < 0 || t >= nstr || t == a) { printf("precond\n"); return; }
            ha_active = 1;
            if (wide) cstl_wstring_append(&ws[a], &ws[t]); else cstl_string_append(&ns[a], &ns[t]);
            ha_active = 0;
        } else if (h_weq(l, 0, "append_ch")) {
            ha_active = 1;
            if (wide) cstl_wstring_append_ch(&ws[a], x, (wchar_t)y); else cstl_string_append_ch(&ns[a], x, (char)y);
            ha_active = 0;
        } else if (h_weq(l, 0, "append_str")) {
            read_lit(l, 2);
            ha_active = 1;
            if (wide) cstl_wstring_append_str(&ws[a], wlit); else cstl_string_append_str(&ns[a], nlit);
            ha_active = 0;
        } else if (h_weq(l, 0, "erase")) {
            ha_active = 1;
            if (wide) cstl_wstring_erase(&ws[a], x, y); else cstl_string_erase(&ns[a], x, y);
            ha_active = 0;
        } else if (h_weq(l, 0, "substr")) {
            int t = (int)h_int(l, 4);
            if (t < 0 || t >= nstr || t == a) { printf("precond\n"); return; }
            ha_active = 1;
            if (wide) cstl_wstring_substr(&ws[a], x, y, &ws[t]); else cstl_string_substr(&ns[a], x, y, &ns[t]);
            ha_active = 0;
        } else if (h_weq(l, 0, "resize")) {
            ha_active = 1;
            if (wide) cstl_wstring_resize(&ws[a], x); else cstl_string_resize(&ns[a], x);
            ha_active = 0;
        } else if (h_weq(l, 0, "reserve")) {
            ha_active = 1;
            if (wide) cstl_wstring_reserve(&ws[a], x); else cstl_string_reserve(&ns[a], x);
            ha_active = 0;
        } else if (h_weq(l, 0, "swap")) {
            int t = (int)x;
            if (t < 0 || t >= nstr || t == a) { printf("precond\n"); return; }
            ha_active = 1;
            if (wide) cstl_wstring_swap(&ws[a], &ws[t]); else cstl_string_swap(&ns[a], &ns[t]);
            ha_active = 0;
        } else if (h_weq(l, 0, "clear")) {
            ha_active = 1;
            if (wide) cstl_wstring_clear(&ws[a]); else cstl_string_clear(&ns[a]);
            ha_active = 0;
        } else if (h_weq(l, 0, "at")) {
            const void * p;
            ha_active = 1;
            p = wide ? (const void *)cstl_wstring_at(&ws[a], x) : (const void *)cstl_string_at(&ns[a], x);
            ha_active = 0;
            snprintf(outb, sizeof(outb), " %zu %lld",
                     (size_t)((uintptr_t)p - (uintptr_t)vof(a)->elem.base), chr_at(p, 0));
        } else if (h_weq(l, 0, "at_const")) {
            const void * p;
            ha_active = 1;
            p = wide ? (const void *)cstl_wstring_at_const(&ws[a], x) : (const void *)cstl_string_at_const(&ns[a], x);
            ha_active = 0;
            snprintf(outb, sizeof(outb), " %zu %lld",
                     (size_t)((uintptr_t)p - (uintptr_t)vof(a)->elem.base), chr_at(p, 0));
        } else if (h_weq(l, 0, "append_str_n")) {
            read_lit(l, 3);
            if (x > litlen && x > MAXLIT && x < ((size_t)1 << 32)) { printf("precond\n"); return; }
            ha_active = 1;
            if (wide) cstl_wstring_append_str_n(&ws[a], wlit, x); else cstl_string_append_str_n(&ns[a], nlit, x);
            ha_active = 0;
            if (x > litlen) { printf("precond\n"); return; }
        } else if (h_weq(l, 0, "data")) {
            const void * p;
            size_t sz, k, off = 0;
            int b, n = 0;
            ha_active = 1;
            p = wide ? (const void *)cstl_wstring_data(&ws[a]) : (const void *)cstl_string_data(&ns[a]);
            ha_active = 0;
            if (p == NULL) snprintf(outb, sizeof(outb), " 1");
            else {
                b = ha_locate(p, &off);
                n = snprintf(outb, sizeof(outb), " 0 %d %zu", b, b < 0 ? (size_t)0 : off);
                sz = size_of(a);
                if (vof(a)->count > 0) {
                    if (sz < SIZE_MAX && !is_static_nul(p) && readable(p, sz + 1)) {
                        n += snprintf(outb + n, sizeof(outb) - n, " %d", chr_at(p, sz) == 0);
                        for (k = 0; k < sz && k < MAXPRINT && n < (int)sizeof(outb) - 24; k++)
                            n += snprintf(outb + n, sizeof(outb) - n, " %lld", chr_at(p, k));
                    } else n += snprintf(outb + n, sizeof(outb) - n, " -1");
                }
            }
        } else if (h_weq(l, 0, "find_ch")) {
            void * cp = copy_of(a);
            size_t sz = size_of(a), pos = y;
            long long r, e = -2;
            if (cp && pos < sz) {
                if (wide) {
                    const wchar_t * b = cp, * q = wcschr(b + pos, (wchar_t)x);
                    e = (q && q != b + sz) ? (long long)(q - b) : -1;
                } else {
                    const char * b = cp, * q = strchr(b + pos, (char)x);
                    e = (q && q != b + sz) ? (long long)(q - b) : -1;
                }
            }
            ha_active = 1;
            r = wide ? (long long)cstl_wstring_find_ch(&ws[a], (wchar_t)x, pos)
                     : (long long)cstl_string_find_ch(&ns[a], (char)x, pos);
            ha_active = 0;
            snprintf(outb, sizeof(outb), " %lld %lld", r, e);
            free(cp);
        } else if (h_weq(l, 0, "find_str") || h_weq(l, 0, "find")) {
            void * cp = copy_of(a), * cn = NULL;
            size_t sz = size_of(a), pos = x;
            int t = (int)y, isobj = h_weq(l, 0, "find");
            long long r, e = -2;
            if (isobj) {
                if (t < 0 || t >= nstr) { printf("precond\n"); return; }
                cn = copy_of(t);
            } else read_lit(l, 3);
            if (cp && pos < sz && (!isobj || cn)) {
                if (wide) {
                    const wchar_t * b = cp, * q = wcsstr(b + pos, isobj ? (const wchar_t *)cn : wlit);
                    e = q ? (long long)(q - b) : -1;
                } else {
                    const char * b = cp, * q = strstr(b + pos, isobj ? (const char *)cn : nlit);
                    e = q ? (long long)(q - b) : -1;
                }
            }
            ha_active = 1;
            if (isobj)
                r = wide ? (long long)cstl_wstring_find(&ws[a], &ws[t], pos)
                         : (long long)cstl_string_find(&ns[a], &ns[t], pos);
            else
                r = wide ? (long long)cstl_wstring_find_str(&ws[a], wlit, pos)
                         : (long long)cstl_string_find_str(&ns[a], nlit, pos);
            ha_active = 0;
            snprintf(outb, sizeof(outb), " %lld %lld", r, e);
            free(cp); free(cn);
        } else if (h_weq(l, 0, "compare") || h_weq(l, 0, "compare_str")) {
            int isobj = h_weq(l, 0, "compare"), t = (int)x, r, e = -2;
            void * cp = copy_of(a), * cn = NULL;
            if (isobj) {
                if (t < 0 || t >= nstr) { printf("precond\n"); return; }
                cn = copy_of(t);
            } else read_lit(l, 2);
            if (cp && (!isobj || cn)) {
                if (wide) e = sgn(wcscmp(cp, isobj ? (const wchar_t *)cn : wlit));
                else e = sgn(strcmp(cp, isobj ? (const char *)cn : nlit));
            }
            ha_active = 1;
            if (isobj) r = wide ? cstl_wstring_compare(&ws[a], &ws[t]) : cstl_string_compare(&ns[a], &ns[t]);
            else r = wide ? cstl_wstring_compare_str(&ws[a], wlit) : cstl_string_compare_str(&ns[a], nlit);
            ha_active = 0;
            snprintf(outb, sizeof(outb), " %d %d", sgn(r), e);
            free(cp); free(cn);
        } else { printf("badop %s\n", l->w[0]); return; }
        poison();
        finish_line();
    }
    if (!started)
        for (k = 0; k < MAXS; k++) { cstl_string_init(&ns[k]); cstl_wstring_init(&ws[k]); }
    for (k = 0; k < nstr; k++) {
        outb[0] = 0;
        ha_active = 1;
        if (wide) cstl_wstring_clear(&ws[k]); else cstl_string_clear(&ns[k]);
        ha_active = 0;
        poison();
        finish_line();
    }
    printf("fin %d\n", ha_live_count());
}

int main(int argc, char ** argv) { return h_main(argc, argv, run_case); }
