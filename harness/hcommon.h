/* Shared scaffolding of the correspondence drivers: script reader, one
 * forked child per case, classification of the way a case ended.
 * Output protocol (same as runner/): "case <name>", one line per executed
 * operation, then optionally "abort" / "fault" / "timeout", then "end". */
#ifndef HCOMMON_H
#define HCOMMON_H
#define _GNU_SOURCE
#include <stdio.h>
#include <stdlib.h>
#include <string.h>
#include <stdint.h>
#include <signal.h>
#include <unistd.h>
#include <sys/types.h>
#include <sys/wait.h>

#define H_MAXW 1024
#define H_MAXL 65536

struct h_line { int nw; char * w[H_MAXW]; };
struct h_case {
    char name[128];
    int nlines;
    struct h_line * lines;
};

const char * __asan_default_options(void)
{
    return "exitcode=77:detect_leaks=0:abort_on_error=0:allocator_may_return_null=1:"
           "max_allocation_size_mb=4096:handle_abort=0:detect_stack_use_after_return=0";
}
const char * __ubsan_default_options(void)
{
    return "halt_on_error=1:exitcode=78:print_stacktrace=0";
}

static int h_weq(const struct h_line * l, int i, const char * s)
{
    return i < l->nw && strcmp(l->w[i], s) == 0;
}
static long long h_int(const struct h_line * l, int i)
{
    return i < l->nw ? strtoll(l->w[i], NULL, 10) : 0;
}
static unsigned long long h_u64(const struct h_line * l, int i)
{
    return i < l->nw ? strtoull(l->w[i], NULL, 10) : 0;
}

static void h_split(char * s, struct h_line * l)
{
    char * save = NULL, * t;
    l->nw = 0;
    for (t = strtok_r(s, " \t\r\n", &save); t && l->nw < H_MAXW;
         t = strtok_r(NULL, " \t\r\n", &save)) {
        l->w[l->nw++] = strdup(t);
    }
}

/* every callback context ("priv") the drivers hand to the library is this cookie; a callback that
 * receives anything else stops the case ("badpriv" line, then the parent reports a fault) */
static char h_cookie_obj;
#define H_COOKIE ((void *)&h_cookie_obj)
static char h_cookie_obj2;
#define H_COOKIE2 ((void *)&h_cookie_obj2)   /* a second context, for APIs that take two different ones */
static void h_check_priv2(const void * p, const void * expected)
{
    if (p != expected) {
        printf("badpriv\n");
        fflush(stdout);
        _exit(3);
    }
}
static void h_check_priv(const void * p)
{
    if (p != H_COOKIE) {
        printf("badpriv\n");
        fflush(stdout);
        _exit(3);
    }
}

typedef void h_case_fn(const struct h_case *);

static int h_nofork = 0;

static void h_run_one(const struct h_case * c, h_case_fn * fn)
{
    pid_t pid;
    int st = 0;

    printf("case %s\n", c->name);
    fflush(stdout);
    if (h_nofork) {
        fn(c);
        printf("end\n");
        fflush(stdout);
        return;
    }
    pid = fork();
    if (pid == 0) {
        alarm(getenv("H_ALARM") ? (unsigned)atoi(getenv("H_ALARM")) : 8);
        fn(c);
        fflush(stdout);
        _exit(0);
    }
    waitpid(pid, &st, 0);
    if (WIFSIGNALED(st)) {
        int sg = WTERMSIG(st);
        if (sg == SIGABRT) printf("abort\n");
        else if (sg == SIGALRM) printf("timeout\n");
        else printf("fault\n");
    } else if (WIFEXITED(st) && WEXITSTATUS(st) != 0) {
        printf("fault\n");
    }
    printf("end\n");
    fflush(stdout);
}

static int h_main(int argc, char ** argv, h_case_fn * fn)
{
    FILE * in = stdin;
    char buf[H_MAXL];
    struct h_case cur;
    int incase = 0, cap = 0, i;

    for (i = 1; i < argc; i++) {
        if (strcmp(argv[i], "--nofork") == 0) h_nofork = 1;
        else in = fopen(argv[i], "r");
    }
    if (!in) { perror("open"); return 2; }
    setvbuf(stdout, NULL, _IOLBF, 0);
    memset(&cur, 0, sizeof(cur));
    while (fgets(buf, sizeof(buf), in)) {
        struct h_line l;
        h_split(buf, &l);
        if (l.nw == 0) continue;
        if (h_weq(&l, 0, "case")) {
            incase = 1;
            snprintf(cur.name, sizeof(cur.name), "%s", l.nw > 1 ? l.w[1] : "?");
            cur.nlines = 0;
        } else if (h_weq(&l, 0, "end") && l.nw == 1) {
            if (incase) h_run_one(&cur, fn);
            for (i = 0; i < cur.nlines; i++) {
                int k; for (k = 0; k < cur.lines[i].nw; k++) free(cur.lines[i].w[k]);
            }
            incase = 0;
            cur.nlines = 0;
        } else if (incase) {
            if (cur.nlines == cap) {
                cap = cap ? 2 * cap : 64;
                cur.lines = realloc(cur.lines, cap * sizeof(*cur.lines));
            }
            cur.lines[cur.nlines++] = l;
        }
    }
    return 0;
}
#endif
