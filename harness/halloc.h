/* malloc/realloc/free interception for the drivers (link with
 * -Wl,--wrap=malloc,--wrap=realloc,--wrap=free,--wrap=calloc).
 * Same policy as coq/theories/AllocModel.v: while [ha_active], every
 * malloc and every realloc with size > 0 is a numbered request; it fails
 * when its ordinal is listed in ha_fail[] / >= ha_fail_from, or when it asks
 * for more than HA_LIMIT bytes.  Successful allocations get sequential block
 * ids; events are logged in the model's aev_out encoding. */
#ifndef HALLOC_H
#define HALLOC_H
#include <stdio.h>
#include <stdlib.h>
#include <string.h>

void * __real_malloc(size_t);
void * __real_realloc(void *, size_t);
void __real_free(void *);
void * __real_calloc(size_t, size_t);

#define HA_LIMIT 4294967296ULL
#define HA_MAXB 65536
#define HA_MAXEV 65536

static int ha_active;
static unsigned long ha_ord;
static unsigned char ha_fail[4096];
static long ha_fail_from = -1;
static struct { void * p; size_t sz; int live; } ha_blk[HA_MAXB];
static int ha_nblk;
static char ha_evbuf[HA_MAXEV];
static int ha_evlen;

static void ha_reset(void)
{
    ha_active = 0; ha_ord = 0; ha_nblk = 0; ha_evlen = 0; ha_fail_from = -1;
    memset(ha_fail, 0, sizeof(ha_fail));
}
static int ha_deny(size_t sz)
{
    unsigned long o = ha_ord++;
    if (o < sizeof(ha_fail) && ha_fail[o]) return 1;
    if (ha_fail_from >= 0 && (long)o >= ha_fail_from) return 1;
    return (unsigned long long)sz > HA_LIMIT;
}
static int ha_find(void * p)
{
    int i;
    for (i = ha_nblk - 1; i >= 0; i--) if (ha_blk[i].live && ha_blk[i].p == p) return i;
    return -1;
}
/* block id of a pointer inside a live block, and the offset; -1 if none */
static int ha_locate(const void * p, size_t * off)
{
    int i;
    for (i = ha_nblk - 1; i >= 0; i--) {
        if (ha_blk[i].live && (const char *)p >= (const char *)ha_blk[i].p
            && (const char *)p <= (const char *)ha_blk[i].p + ha_blk[i].sz) {
            if (off) *off = (size_t)((const char *)p - (const char *)ha_blk[i].p);
            return i;
        }
    }
    return -1;
}
static size_t ha_block_size(int b) { return ha_blk[b].sz; }
static int ha_live_count(void)
{
    int i, n = 0;
    for (i = 0; i < ha_nblk; i++) n += ha_blk[i].live;
    return n;
}
#define HA_EV(...) do { if (ha_evlen < HA_MAXEV - 64) \
    ha_evlen += snprintf(ha_evbuf + ha_evlen, HA_MAXEV - ha_evlen, __VA_ARGS__); } while (0)

/* prints and clears the events logged since the last call: " ; 1 0 24 ; 6 0" */
static void ha_print_events(void)
{
    ha_evbuf[ha_evlen] = 0;
    printf(" ;;%s", ha_evbuf);
    ha_evlen = 0;
}

void * __wrap_malloc(size_t sz)
{
    void * p;
    if (!ha_active) return __real_malloc(sz);
    if (ha_deny(sz)) { HA_EV(" ; 2 %zu", sz); return NULL; }
    p = __real_malloc(sz);
    if (!p) { HA_EV(" ; 2 %zu", sz); return NULL; }
    ha_blk[ha_nblk].p = p; ha_blk[ha_nblk].sz = sz; ha_blk[ha_nblk].live = 1;
    HA_EV(" ; 1 %d %zu", ha_nblk, sz);
    ha_nblk++;
    return p;
}
void * __wrap_calloc(size_t n, size_t sz)
{
    void * p;
    if (!ha_active) return __real_calloc(n, sz);
    p = __wrap_malloc(n * sz);
    if (p) memset(p, 0, n * sz);
    return p;
}
void __wrap_free(void * p)
{
    int b;
    if (!ha_active || !p) { __real_free(p); return; }
    b = ha_find(p);
    if (b < 0) { HA_EV(" ; 7 -1"); __real_free(p); return; }
    ha_blk[b].live = 0;
    HA_EV(" ; 6 %d", b);
    __real_free(p);
}
void * __wrap_realloc(void * p, size_t sz)
{
    int b = -1;
    void * q;
    if (!ha_active) return __real_realloc(p, sz);
    if (p) {
        b = ha_find(p);
        if (b < 0) { HA_EV(" ; 7 -1"); return __real_realloc(p, sz); }
        if (sz == 0) { ha_blk[b].live = 0; HA_EV(" ; 5 %d", b); __real_free(p); return NULL; }
    }
    if (ha_deny(sz)) { HA_EV(" ; 4 %d %zu", b, sz); return NULL; }
    q = __real_realloc(p, sz);
    if (!q) { HA_EV(" ; 4 %d %zu", b, sz); return NULL; }
    if (b >= 0) ha_blk[b].live = 0;
    ha_blk[ha_nblk].p = q; ha_blk[ha_nblk].sz = sz; ha_blk[ha_nblk].live = 1;
    HA_EV(" ; 3 %d %d %zu", b, ha_nblk, sz);
    ha_nblk++;
    return q;
}
#define HA_WRAP_FLAGS "-Wl,--wrap=malloc,--wrap=realloc,--wrap=free,--wrap=calloc"
#endif
