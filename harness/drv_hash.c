/* Correspondence driver for src/hash.c + include/cstl/hash.h
 * (C03, C04, C17(b), C19; allocation-failure scripts for C16).
 *
 * hash.c is included textually: hash.h (as found) defines cstl_hash_size and
 * cstl_hash_load with external linkage, so a second translation unit that
 * includes the header cannot be linked against hash.o (defect F1 / C18).
 * Nothing of the library is changed by the inclusion.
 *
 * Script syntax: notes/C17b.md.  Link with HA_WRAP_FLAGS. */
#include "hcommon.h"
#include "halloc.h"
#include "../src/hash.c"

#define MAXE 256
#define MAXT 4
#define MAXLOG 8192

struct elem { int id; struct cstl_hash_node hn; };

static struct elem * pool[MAXE];
static unsigned long long keys[MAXE];
static int nkeys;
static struct cstl_hash tabs[MAXT];
static int ntabs = 1;

/* allocation of pool elements is not part of the modelled allocator */
static void * raw_malloc(size_t n) { return __real_malloc(n); }
static void raw_free(void * p) { __real_free(p); }

static struct elem * get(int id)
{
    if (id < 0 || id >= MAXE) abort();
    if (!pool[id]) {
        pool[id] = raw_malloc(sizeof(struct elem));
        pool[id]->id = id;
        pool[id]->hn.key = id < nkeys ? keys[id] : 0;
        pool[id]->hn.next = (void *)(uintptr_t)0xdeadbeef;
    }
    return pool[id];
}
static int idof(const void * e) { return e ? ((const struct elem *)e)->id : -1; }

/* ---- hash functions selectable from scripts; every call is logged ---- */
static unsigned long long hlog[MAXLOG][3];
static int hn;
static void hcall(int f, size_t k, size_t m)
{
    if (hn < MAXLOG) { hlog[hn][0] = f; hlog[hn][1] = k; hlog[hn][2] = m; }
    hn++;
}
static size_t hf1(size_t k, size_t m) { hcall(1, k, m); return cstl_hash_div(k, m); }
static size_t hf2(size_t k, size_t m) { hcall(2, k, m); return (3 * k + 1) % m; }
static size_t hf3(size_t k, size_t m) { hcall(3, k, m); return cstl_hash_mul(k, m); }
static size_t hf4(size_t k, size_t m) { hcall(4, k, m); return m; }
static size_t hf5(size_t k, size_t m) { hcall(5, k, m); return m + 1; }
static size_t hf6(size_t k, size_t m) { hcall(6, k, m); return SIZE_MAX; }
static size_t hf7(size_t k, size_t m) { hcall(7, k, m); return (k & 1) ? m : k % m; }
static cstl_hash_func_t * const fns[] = { cstl_hash_mul, hf1, hf2, hf3, hf4, hf5, hf6, hf7 };
#define NFNS ((int)(sizeof(fns) / sizeof(fns[0])))
static int fnid(cstl_hash_func_t * f)
{
    int i;
    if (!f) return -1;
    for (i = 0; i < NFNS; i++) if (fns[i] == f) return i;
    return 99;
}

/* ---- callbacks ---- */
static int vlog[MAXLOG], vn, vstop;          /* foreach visits */
static int olog[MAXLOG], on;                 /* elements offered by find */
static int xlog[MAXLOG], xn;                 /* clear callbacks */
static int acc[MAXE], nacc;
static struct cstl_hash * cur;

static int vsign = 1;   /* sign of the visitor's non-zero answer (header vsign); the result is printed times vsign */
static int visit_c(const void * e, void * p)
{
    (void)p;
    if (vn < MAXLOG) vlog[vn] = idof(e);
    vn++;
    return (vstop > 0 && vn == vstop) ? vsign * vstop : 0;
}
static int visit_m(void * e, void * p) { return visit_c(e, p); }
static void release(struct elem * x)
{
    pool[x->id] = NULL;
    memset(x, 0xA5, sizeof(*x));
    raw_free(x);
}
/* the library's own manual_clear idiom: erase the visited element, free it */
static int visit_erase(void * e, void * p)
{
    int r = visit_c(e, p);
    cstl_hash_erase(cur, e);
    release(e);
    return r;
}
static int offer(const void * e, void * p)
{
    int i, id = idof(e);
    (void)p;
    if (on < MAXLOG) olog[on] = id;
    on++;
    /* acceptance is any non-zero value: vary the magnitude, and the sign under the header vsign -1 */
    for (i = 0; i < nacc; i++) if (acc[i] == id) return vsign * (id + 1);
    return 0;
}
static void clr(void * e, void * p)
{
    (void)p;
    if (xn < MAXLOG) xlog[xn] = idof(e);
    xn++;
    release(e);
}

/* ---- state dump through the public structure ---- */
static int known_node(const struct cstl_hash_node * n)
{
    int i;
    for (i = 0; i < MAXE; i++) if (pool[i] && &pool[i]->hn == n) return 1;
    return 0;
}
static void dump(void)
{
    int t;
    for (t = 0; t < ntabs; t++) {
        const struct cstl_hash * h = &tabs[t];
        size_t i;
        printf(" | T%d: %zu %zu %zu %d %d %zu %zu %d %d", t, cstl_hash_size(h),
               h->bucket.count, h->bucket.capacity, fnid(h->bucket.hash), (int)h->bucket.cst,
               h->bucket.rh.count, h->bucket.rh.clean, fnid(h->bucket.rh.hash), h->bucket.at != NULL);
        for (i = 0; h->bucket.at && i < h->bucket.capacity; i++) {
            const struct cstl_hash_node * n;
            int guard = 0;
            printf(" / %d", (int)h->bucket.at[i].cst);
            for (n = h->bucket.at[i].n; n; n = n->next) {
                if (!known_node(n) || ++guard > 2 * MAXE) { printf(" ?"); break; }
                printf(" %d", idof(__cstl_hash_element(h, n)));
            }
        }
    }
}

struct geom { size_t count, cap, rcount; cstl_hash_func_t * hash, * rhash; int cst; };
static struct geom geom_of(const struct cstl_hash * h)
{
    struct geom g;
    g.count = h->bucket.count; g.cap = h->bucket.capacity; g.hash = h->bucket.hash;
    g.cst = h->bucket.cst; g.rhash = h->bucket.rh.hash;
    g.rcount = h->bucket.rh.hash ? h->bucket.rh.count : 0;
    return g;
}
static int geom_changed(struct geom a, struct geom b)
{
    return !(a.count == b.count && a.cap == b.cap && a.hash == b.hash && a.cst == b.cst
             && a.rhash == b.rhash && (a.rhash == NULL || a.rcount == b.rcount));
}

static unsigned char * dirty0;
static size_t dirty0_n;
static void snap_dirty(const struct cstl_hash * h)
{
    size_t i;
    dirty0_n = h->bucket.at ? h->bucket.capacity : 0;
    dirty0 = __real_realloc(dirty0, dirty0_n + 1);
    for (i = 0; i < dirty0_n; i++) dirty0[i] = (h->bucket.at[i].cst != h->bucket.cst);
}
static long cleaned_since(const struct cstl_hash * h)
{
    size_t i; long c = 0;
    for (i = 0; i < dirty0_n && i < h->bucket.capacity; i++)
        c += (dirty0[i] && h->bucket.at[i].cst == h->bucket.cst);
    return c;
}

static void print_logs(long cleaned)
{
    int k;
    printf(" # H");
    for (k = 0; k < hn && k < MAXLOG; k++) printf(" %llu %llu %llu", hlog[k][0], hlog[k][1], hlog[k][2]);
    if (cleaned >= 0) printf(" # C %ld", cleaned); else printf(" # C -");
    printf(" # O"); for (k = 0; k < on && k < MAXLOG; k++) printf(" %d", olog[k]);
    printf(" # V"); for (k = 0; k < vn && k < MAXLOG; k++) printf(" %d", vlog[k]);
    printf(" # X"); for (k = 0; k < xn && k < MAXLOG; k++) printf(" %d", xlog[k]);
}

static void run_case(const struct h_case * c)
{
    int i, k, started = 0;

    nkeys = 0; ntabs = 1; vsign = 1;
    memset(pool, 0, sizeof(pool));
    ha_reset();
    /* a case takes milliseconds; a broken library that loops must not hold up the run for
     * the 20 s that hcommon.h allows (not in --nofork mode, where there is no child) */
    if (!h_nofork) alarm(5);
    for (i = 0; i < c->nlines; i++) {
        const struct h_line * l = &c->lines[i];
        int a = (int)h_int(l, 1), b = (int)h_int(l, 2);
        struct cstl_hash * h;
        long cleaned = -1;

        if (h_weq(l, 0, "keys")) {
            /* several "keys" lines append (hcommon.h splits a line into at most 64 words) */
            for (k = 1; k < l->nw && nkeys < MAXE; k++) keys[nkeys++] = h_u64(l, k);
            continue;
        }
        if (h_weq(l, 0, "ntabs")) { ntabs = a; continue; }
        if (h_weq(l, 0, "vsign")) { vsign = a < 0 ? -1 : 1; continue; }
        if (h_weq(l, 0, "fail")) {
            for (k = 1; k < l->nw; k++) { long o = (long)h_int(l, k); if (o >= 0 && o < (long)sizeof(ha_fail)) ha_fail[o] = 1; }
            continue;
        }
        if (h_weq(l, 0, "failfrom")) { ha_fail_from = a; continue; }
        if (!started) {
            if (ntabs < 1 || ntabs > MAXT) { printf("precond\n"); return; }
            memset(tabs, 0, sizeof(tabs));
            for (k = 0; k < ntabs; k++) cstl_hash_init(&tabs[k], offsetof(struct elem, hn));
            started = 1;
        }
        if (a < 0 || a >= ntabs) { printf("precond\n"); return; }
        h = &tabs[a];
        hn = vn = on = xn = 0; vstop = 0; nacc = 0;
        cur = h;

        if (h_weq(l, 0, "insert")) {
            struct elem * e = get(b);
            snap_dirty(h);
            ha_active = 1; cstl_hash_insert(h, e->hn.key, e); ha_active = 0;
            cleaned = cleaned_since(h);
            printf("ok");
        } else if (h_weq(l, 0, "find")) {
            const void * r;
            size_t key = (size_t)h_u64(l, 2);
            int novisit = h_weq(l, 3, "null");
            for (k = 4; k < l->nw && nacc < MAXE; k++) acc[nacc++] = (int)h_int(l, k);
            snap_dirty(h);
            ha_active = 1; r = cstl_hash_find(h, key, novisit ? NULL : offer, NULL); ha_active = 0;
            cleaned = cleaned_since(h);
            printf("ok %d", idof(r));
        } else if (h_weq(l, 0, "erase")) {
            struct elem * e = get(b);
            snap_dirty(h);
            ha_active = 1; cstl_hash_erase(h, e); ha_active = 0;
            cleaned = cleaned_since(h);
            printf("ok");
        } else if (h_weq(l, 0, "resize")) {
            struct geom g = geom_of(h);
            cstl_hash_func_t * f = NULL;
            if (!h_weq(l, 3, "null")) {
                int id = (int)h_int(l, 3);
                if (id < 0 || id >= NFNS) { printf("precond\n"); return; }
                f = fns[id];
            }
            ha_active = 1; cstl_hash_resize(h, (size_t)h_u64(l, 2), f); ha_active = 0;
            printf("ok %d", geom_changed(g, geom_of(h)));
        } else if (h_weq(l, 0, "rehash")) {
            struct geom g = geom_of(h);
            ha_active = 1; cstl_hash_rehash(h); ha_active = 0;
            printf("ok %d", geom_changed(g, geom_of(h)));
        } else if (h_weq(l, 0, "shrink")) {
            struct geom g = geom_of(h);
            ha_active = 1; cstl_hash_shrink_to_fit(h); ha_active = 0;
            printf("ok %d", geom_changed(g, geom_of(h)));
        } else if (h_weq(l, 0, "swap")) {
            if (b < 0 || b >= ntabs) { printf("precond\n"); return; }
            if (a != b) cstl_hash_swap(&tabs[a], &tabs[b]);
            printf("ok");
        } else if (h_weq(l, 0, "foreach")) {
            int r;
            vstop = b;
            ha_active = 1; r = cstl_hash_foreach(h, visit_m, NULL); ha_active = 0;
            printf("ok %d", vsign * r);
        } else if (h_weq(l, 0, "foreach_erase")) {
            int r;
            vstop = b;
            ha_active = 1; r = cstl_hash_foreach(h, visit_erase, NULL); ha_active = 0;
            printf("ok %d", vsign * r);
        } else if (h_weq(l, 0, "foreach_const")) {
            int r;
            vstop = b;
            ha_active = 1; r = cstl_hash_foreach_const(h, visit_c, NULL); ha_active = 0;
            printf("ok %d", vsign * r);
        } else if (h_weq(l, 0, "clear")) {
            ha_active = 1; cstl_hash_clear(h, b ? clr : NULL); ha_active = 0;
            printf("ok");
        } else if (h_weq(l, 0, "size")) {
            printf("ok %zu", cstl_hash_size(h));
        } else if (h_weq(l, 0, "load")) {
            float L = cstl_hash_load(h);
            int32_t bits;
            memcpy(&bits, &L, sizeof(bits));
            printf("ok %d", (int)bits);
        } else { printf("badop %s\n", l->w[0]); return; }
        print_logs(cleaned);
        dump();
        ha_print_events();
        printf("\n");
    }
    printf("live %d\n", ha_live_count());
}

int main(int argc, char ** argv)
{
    if (sizeof(struct cstl_hash_bucket) != 16) { fprintf(stderr, "sizeof(bucket) != 16\n"); return 3; }
    return h_main(argc, argv, run_case);
}
