/* Correspondence driver for src/heap.c (C07).
 *
 * Script:  keys k0 k1 ...   (keys of the next elements; lines append; default 0)
 *          cmpmode 0|1|2    (optional: what the comparison callback returns, see cmp())
 *          dumpevery k      (optional: full level-order dump only after every
 *                            k-th operation and after the last one)
 *          push e | pop | get | size | clear
 * Trace:   ok <result> | <size> : <level order, "." for a NULL link> [MALFORMED why]
 *      or  ok <result> | <size> ~ <root id> [MALFORMED why]      (brief form)
 *
 * The tree is decoded through the public struct fields only (bt.root,
 * bt.size, node p/l/r).  Every parent pointer is checked at every step. */
#include "hcommon.h"
#include "cstl/heap.h"

#define MAXE 16384

struct elem { int key; int id; unsigned stamp; struct cstl_heap_node hn; char pad[40]; struct cstl_heap_node hn2; };

static struct elem * pool[MAXE];
static int keys[MAXE], nkeys;
/* Two heap objects whose elements embed the node at different offsets; the heap under test is *ph.  Header
 * `swapobj i j ..`: before the operations with these 0-based indices the two objects are exchanged with cstl_heap_swap
 * and the test carries on with the other one (everything the heap consists of travels with it: the model is unaffected). */
static struct cstl_heap heaps[2], * ph;
#define heap (*ph)
#define MAXSW 16
static int swap_at[MAXSW], nswap, cur_obj;
static unsigned stamp;

static struct elem * get(int id)
{
    if (id < 0 || id >= MAXE) abort();
    if (!pool[id]) {
        pool[id] = malloc(sizeof(struct elem));
        pool[id]->key = id < nkeys ? keys[id] : 0;
        pool[id]->id = id;
        pool[id]->stamp = 0;
        memset(&pool[id]->hn, 0xA5, sizeof(pool[id]->hn));
        memset(&pool[id]->hn2, 0xA5, sizeof(pool[id]->hn2));
    }
    return pool[id];
}
static int idof(const void * e) { return e ? ((const struct elem *)e)->id : -1; }

static struct elem * elem_of(const struct cstl_bintree_node * n)
{
    return (struct elem *)((uintptr_t)n - heap.bt.off);
}

/* The contract of cstl_compare_func_t only fixes the sign of the result.
 * cmpmode 0: -1/0/1; 1: difference of the keys; 2: the sign times a magnitude
 * that changes from call to call. */
static int cmpmode;
static unsigned cmp_calls;
static int cmp(const void * a, const void * b, void * p)
{
    const struct elem * x = a, * y = b;
    const int sign = (x->key > y->key) - (x->key < y->key);
    h_check_priv(p);
    cmp_calls++;
    if (cmpmode == 1) return x->key - y->key;
    if (cmpmode == 2) return sign * (int)(1 + (cmp_calls * 7u) % 13u);
    return sign;
}

static int clr_log[MAXE], clr_n;
static void clr(void * e, void * p)
{
    struct elem * x = e; (void)p;
    if (clr_n < MAXE) clr_log[clr_n] = x->id;
    clr_n++;
    /* the element is handed over: it must not be touched again (ASan) */
    pool[x->id] = NULL;
    memset(x, 0xA5, sizeof(*x));
    free(x);
}

static const struct cstl_bintree_node * queue[2 * MAXE + 4];

/* breadth-first decode; prints the level order when full != 0 */
static void dump(int full)
{
    const char * bad = NULL;
    size_t count = 0, qh = 0, qt = 0;
    const struct cstl_bintree_node * root = heap.bt.root;

    printf(" | %zu %s", heap.bt.size, full ? ":" : "~");
    if (!full) {
        if (root) printf(" %d", elem_of(root)->id); else printf(" .");
    }
    stamp++;
    if (root != NULL && root->p != NULL) bad = "root-has-parent";
    queue[qt++] = root;
    while (qh < qt) {
        const struct cstl_bintree_node * n = queue[qh++];
        struct elem * e;
        if (n == NULL) { if (full) printf(" ."); continue; }
        e = elem_of(n);
        if (e->id < 0 || e->id >= MAXE || pool[e->id] != e) { bad = "foreign-node"; break; }
        if (e->stamp == stamp) { bad = "node-reached-twice"; break; }
        e->stamp = stamp;
        count++;
        if (full) printf(" %d", e->id);
        if (n->l != NULL && n->l->p != n) bad = "left-child-parent-link";
        if (n->r != NULL && n->r->p != n) bad = "right-child-parent-link";
        if (qt + 2 >= sizeof(queue) / sizeof(queue[0])) { bad = "too-many-nodes"; break; }
        queue[qt++] = n->l;
        queue[qt++] = n->r;
    }
    if (!bad && count != heap.bt.size) bad = "size-field";
    if (bad) printf(" MALFORMED %s", bad);
    printf("\n");
}

static void run_case(const struct h_case * c)
{
    int i, k, every = 1, nops = 0, done = 0;

    nkeys = 0; cmpmode = 0; cmp_calls = 0; nswap = 0; cur_obj = 0; ph = &heaps[0];
    memset(pool, 0, sizeof(pool));
    for (i = 0; i < c->nlines; i++)
        if (!h_weq(&c->lines[i], 0, "keys") && !h_weq(&c->lines[i], 0, "dumpevery")
            && !h_weq(&c->lines[i], 0, "cmpmode") && !h_weq(&c->lines[i], 0, "swapobj")) nops++;
    cstl_heap_init(&heaps[0], cmp, H_COOKIE, offsetof(struct elem, hn));
    cstl_heap_init(&heaps[1], cmp, H_COOKIE, offsetof(struct elem, hn2));
    for (i = 0; i < c->nlines; i++) {
        const struct h_line * l = &c->lines[i];
        int a = (int)h_int(l, 1);
        if (h_weq(l, 0, "keys")) {
            /* every keys line appends (hcommon.h limits a line to 64 words) */
            for (k = 1; k < l->nw && nkeys < MAXE; k++) keys[nkeys++] = (int)h_int(l, k);
            continue;
        }
        if (h_weq(l, 0, "dumpevery")) { every = a > 0 ? a : 1; continue; }
        if (h_weq(l, 0, "cmpmode")) { cmpmode = a; continue; }
        if (h_weq(l, 0, "swapobj")) { for (k = 1; k < l->nw && nswap < MAXSW; k++) swap_at[nswap++] = (int)h_int(l, k); continue; }
        for (k = 0; k < nswap; k++) if (swap_at[k] == done) {
            cstl_heap_swap(&heaps[0], &heaps[1]);
            cur_obj = !cur_obj; ph = &heaps[cur_obj];
        }
        if (h_weq(l, 0, "push") && l->nw == 2) { cstl_heap_push(&heap, get(a)); printf("ok "); }
        else if (h_weq(l, 0, "pop") && l->nw == 1) { printf("ok %d", idof(cstl_heap_pop(&heap))); }
        else if (h_weq(l, 0, "get") && l->nw == 1) { printf("ok %d", idof(cstl_heap_get(&heap))); }
        else if (h_weq(l, 0, "size") && l->nw == 1) { printf("ok %zu", cstl_heap_size(&heap)); }
        else if (h_weq(l, 0, "clear") && l->nw == 1) {
            clr_n = 0;
            cstl_heap_clear(&heap, clr);
            printf("ok");
            for (k = 0; k < clr_n && k < MAXE; k++) printf(" %d", clr_log[k]);
        }
        else { printf("badop %s\n", l->w[0]); return; }
        done++;
        dump(done % every == 0 || done == nops);
    }
}

int main(int argc, char ** argv) { return h_main(argc, argv, run_case); }
