/* Correspondence driver for src/vector.c (C09, C16).
 * Script format: see runner/run_vector.ml.
 *
 * Elements carry a recognisable byte pattern per value ("tag"): byte j of an
 * element with tag t is (t + 31 * j) & 0xff; an element whose bytes are all
 * 0xBE reads as 190 (POISON).  After every library call the driver
 *   - fills the elements that entered [0, count) without a constructor, and
 *   - fills the whole unused storage [count, cap] (cap + 1 cells in total:
 *     the vector promises one scratch cell)
 * with 0xBE -- provided the allocator log says that storage exists; if it
 * does not, the dump says so (blk -3 / "over") and ASan is not provoked. */
#include "hcommon.h"
#include "halloc.h"
#include "cstl/vector.h"

#define MAXV 4
#define MAXPRINT 256
#define POISON 190
#define CTORV 193

static struct cstl_vector vec[MAXV];
static int nvec;
static struct cstl_vector * cur;      /* the vector the current call works on */

static char xlog[8192];
static int xlen;
#define XLOG(...) do { if (xlen < (int)sizeof(xlog) - 64) \
    xlen += snprintf(xlog + xlen, sizeof(xlog) - xlen, __VA_ARGS__); } while (0)

static void enc(unsigned char * p, size_t e, unsigned t)
{
    size_t j;
    for (j = 0; j < e; j++) p[j] = (unsigned char)(t + 31 * j);
}
static int dec(const unsigned char * p, size_t e)
{
    size_t j;
    int allbe = 1;
    for (j = 0; j < e; j++) if (p[j] != 0xBE) allbe = 0;
    if (allbe) return POISON;
    for (j = 0; j < e; j++) if (p[j] != (unsigned char)(p[0] + 31 * j)) return -2;
    return p[0];
}

static void cons(void * p, void * priv)
{
    (void)priv;
    XLOG(" 1 %zu", (size_t)(((uintptr_t)p - (uintptr_t)cur->elem.base) / cur->elem.size));
    enc(p, cur->elem.size, CTORV);
}
static void dest(void * p, void * priv)
{
    (void)priv;
    XLOG(" 2 %zu %d", (size_t)(((uintptr_t)p - (uintptr_t)cur->elem.base) / cur->elem.size),
         dec(p, cur->elem.size));
    memset(p, 0xDD, cur->elem.size);
}
/* header `samecb 1`: vectors with both callbacks get ONE function in both roles (the header allows it: "any or all
 * may be NULL", nothing says they differ).  It tells its role from the slot: at or above the element count the
 * vector had when the call started it is constructing, below it is destroying. */
static int samecb, atdiscard;
static size_t cb_oc;
static void both(void * p, void * priv)
{
    const size_t idx = (size_t)(((uintptr_t)p - (uintptr_t)cur->elem.base) / cur->elem.size);
    if (idx >= cb_oc) cons(p, priv); else dest(p, priv);
}
static int cmp(const void * a, const void * b, void * p)
{
    (void)p;
    return (int)*(const unsigned char *)a - (int)*(const unsigned char *)b;
}

/* does the live block behind v->elem.base hold n cells?  *blk: block id,
 * -1 no buffer, -3 a pointer that is not (the start of) a live block */
static int holds(const struct cstl_vector * v, size_t n, int * blk, size_t * bsz)
{
    size_t off = 0;
    int b;
    *bsz = 0;
    if (v->elem.base == NULL) { *blk = -1; return n == 0; }
    b = ha_locate(v->elem.base, &off);
    if (b < 0 || off != 0) { *blk = -3; return 0; }
    *blk = b;
    *bsz = ha_block_size(b);
    return (unsigned __int128)n * v->elem.size <= *bsz;
}

static void poison(struct cstl_vector * v, size_t oldcount)
{
    int blk;
    size_t bsz;
    unsigned char * base = v->elem.base;
    if (v->elem.xtor.cons == NULL && v->count > oldcount
        && holds(v, v->count, &blk, &bsz)) {
        memset(base + oldcount * v->elem.size, 0xBE, (v->count - oldcount) * v->elem.size);
    }
    if (base != NULL && v->cap >= v->count && v->cap < SIZE_MAX
        && holds(v, v->cap + 1, &blk, &bsz)) {
        memset(base + v->count * v->elem.size, 0xBE, (v->cap + 1 - v->count) * v->elem.size);
    }
}

static void dump(void)
{
    int i;
    for (i = 0; i < nvec; i++) {
        struct cstl_vector * v = &vec[i];
        int blk;
        size_t bsz, k;
        holds(v, 0, &blk, &bsz);
        printf(" | V%d: %zu %zu %zu %d", i, cstl_vector_size(v), cstl_vector_capacity(v),
               v->elem.size, blk);
        if (blk >= 0) printf(" %zu", bsz); else printf(" -1");
        for (k = 0; k < v->count && k < MAXPRINT; k++) {
            if (blk >= 0 && (unsigned __int128)(k + 1) * v->elem.size <= bsz)
                printf(" %d", dec((unsigned char *)v->elem.base + k * v->elem.size, v->elem.size));
            else { printf(" over"); break; }
        }
    }
}

static void finish_line(void)
{
    printf("ok%s", xlog);
    dump();
    ha_print_events();
    printf("\n");
}

static int do_clear(int a)
{
    size_t oc = vec[a].count;
    cur = &vec[a];
    cb_oc = oc;
    xlen = 0; xlog[0] = 0;
    ha_active = 1; cstl_vector_clear(cur); ha_active = 0;
    poison(cur, oc);
    finish_line();
    return 0;
}

static void run_case(const struct h_case * c)
{
    int i, k, started = 0;
    struct { size_t e; int c, d; } shape[MAXV];

    nvec = 0; samecb = 0; atdiscard = 0;
    ha_reset();
    for (i = 0; i < c->nlines; i++) {
        const struct h_line * l = &c->lines[i];
        int a = (int)h_int(l, 1);
        unsigned long long n = h_u64(l, 2), x = h_u64(l, 3);
        size_t oc;

        if (h_weq(l, 0, "vec")) {
            if (nvec < MAXV) {
                shape[nvec].e = (size_t)h_u64(l, 1);
                shape[nvec].c = (int)h_int(l, 2);
                shape[nvec].d = (int)h_int(l, 3);
                nvec++;
            }
            continue;
        }
        if (h_weq(l, 0, "fail")) {
            for (k = 1; k < l->nw; k++) {
                long o = (long)h_int(l, k);
                if (o >= 0 && o < (long)sizeof(ha_fail)) ha_fail[o] = 1;
            }
            continue;
        }
        if (h_weq(l, 0, "failfrom")) { ha_fail_from = (long)h_int(l, 1); continue; }
        if (h_weq(l, 0, "samecb")) { samecb = a; continue; }
        if (h_weq(l, 0, "atdiscard")) { atdiscard = a; continue; }
        if (!started) {
            for (k = 0; k < nvec; k++) {
                const int same = samecb && shape[k].c && shape[k].d;
                cstl_vector_init_complex(&vec[k], shape[k].e, same ? both : shape[k].c ? cons : NULL,
                                         same ? both : shape[k].d ? dest : NULL, NULL);
            }
            started = 1;
        }
        if (a < 0 || a >= nvec) { printf("precond\n"); return; }
        cur = &vec[a];
        oc = cur->count;
        cb_oc = oc;
        xlen = 0; xlog[0] = 0;
        if (h_weq(l, 0, "reserve")) {
            ha_active = 1; cstl_vector_reserve(cur, (size_t)n); ha_active = 0;
        } else if (h_weq(l, 0, "shrink")) {
            ha_active = 1; cstl_vector_shrink_to_fit(cur); ha_active = 0;
        } else if (h_weq(l, 0, "resize")) {
            ha_active = 1; cstl_vector_resize(cur, (size_t)n); ha_active = 0;
        } else if (h_weq(l, 0, "clear")) {
            ha_active = 1; cstl_vector_clear(cur); ha_active = 0;
        } else if (h_weq(l, 0, "at")) {
            const void * p;
            if (atdiscard && (size_t)n >= cur->count) {
                /* header `atdiscard 1`: a caller that only validates the index and discards the address; the call must
                 * still be made and must abort (a declaration that lets the compiler drop it would show here) */
                ha_active = 1; (void)cstl_vector_at_const(cur, (size_t)n); ha_active = 0;
                XLOG(" %zu", (size_t)n * cur->elem.size);
            } else {
            ha_active = 1; p = cstl_vector_at_const(cur, (size_t)n); ha_active = 0;
            XLOG(" %zu", (size_t)((uintptr_t)p - (uintptr_t)cur->elem.base));
            }
        } else if (h_weq(l, 0, "put")) {
            void * p;
            ha_active = 1; p = cstl_vector_at(cur, (size_t)n); ha_active = 0;
            enc(p, cur->elem.size, (unsigned)x);
        } else if (h_weq(l, 0, "swap")) {
            int b = (int)n;
            if (b < 0 || b >= nvec || a == b) { printf("precond\n"); return; }
            ha_active = 1; cstl_vector_swap(&vec[a], &vec[b]); ha_active = 0;
            oc = cur->count;
        } else if (h_weq(l, 0, "sort")) {
            ha_active = 1; cstl_vector_sort(cur, cmp, NULL); ha_active = 0;
        } else if (h_weq(l, 0, "reverse")) {
            if (cur->count > 2147483647u) { printf("precond\n"); return; }
            ha_active = 1; cstl_vector_reverse(cur); ha_active = 0;
        } else { printf("badop %s\n", l->w[0]); return; }
        poison(cur, oc);
        finish_line();
    }
    if (!started) {
        for (k = 0; k < nvec; k++)
            cstl_vector_init_complex(&vec[k], shape[k].e, shape[k].c ? cons : NULL,
                                     shape[k].d ? dest : NULL, NULL);
    }
    for (k = 0; k < nvec; k++) do_clear(k);
    printf("fin %d\n", ha_live_count());
}

int main(int argc, char ** argv) { return h_main(argc, argv, run_case); }
