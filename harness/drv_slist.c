/* Correspondence driver for src/slist.c (C13, C15). */
#include "hcommon.h"
#include "cstl/slist.h"

#define MAXE 64
#define MAXL 8

/* two node members: header `offs k0 k1 ..` threads list i through member k_i (different node offsets) */
struct elem { int key; int id; struct cstl_slist_node sn; long pad[3]; struct cstl_slist_node sn2; };
static int offs[MAXL];

static struct elem * pool[MAXE];
static int keys[MAXE], nkeys;
static struct cstl_slist lists[MAXL];
static int nlists = 1;

static struct elem * get(int id)
{
    if (id < 0 || id >= MAXE) abort();
    if (!pool[id]) {
        pool[id] = malloc(sizeof(struct elem));
        pool[id]->key = id < nkeys ? keys[id] : 0;
        pool[id]->id = id;
        pool[id]->sn.n = (void *)(uintptr_t)0xdeadbeef;
        pool[id]->sn2.n = (void *)(uintptr_t)0xdeadbeef;
    }
    return pool[id];
}
static int idof(const void * e) { return e ? ((const struct elem *)e)->id : -1; }

static int cmpmode, cmpcalls;
static int cmp(const void * a, const void * b, void * p)
{
    const struct elem * x = a, * y = b; h_check_priv(p);
    int sg = (x->key > y->key) - (x->key < y->key);
    cmpcalls++;
    if (cmpmode == 1) return x->key - y->key;
    if (cmpmode == 2) return sg * (1 + (cmpcalls * 7) % 13);
    return sg;
}

static int vis_log[4 * MAXE], vis_n, vis_stop;
static int vsign = 1;   /* sign of the visitor's non-zero answer (header vsign); the result is printed times vsign */
static int visit(void * e, void * p)
{
    h_check_priv(p);
    if (vis_n < 4 * MAXE) vis_log[vis_n] = idof(e);
    vis_n++;
    return (vis_stop > 0 && vis_n == vis_stop) ? vsign * vis_stop : 0;
}
/* foreach visitor that changes the lists: takes the element it is shown off the traversed list with
 * pop_front (and notes whether that returned the element), appends it to another list, answers like
 * visit().  Its context is a private structure: verified by address, a magic member and the usual cookie inside. */
#define FM_MAGIC 0x5eedf00dUL
struct fmove_ctx { unsigned long magic; void * cookie; struct cstl_slist * from, * to; int bad; };
static struct fmove_ctx * fm_expected;      /* the context handed to the running foreach */
static int visit_move(void * e, void * p)
{
    struct fmove_ctx * c = p;
    h_check_priv2(p, fm_expected);          /* compared before it is dereferenced */
    if (c->magic != FM_MAGIC) h_check_priv(NULL);
    h_check_priv(c->cookie);
    if (vis_n < 4 * MAXE) vis_log[vis_n] = idof(e);
    vis_n++;
    if (cstl_slist_pop_front(c->from) != e) c->bad++;
    cstl_slist_push_back(c->to, e);
    return (vis_stop > 0 && vis_n == vis_stop) ? vsign * vis_stop : 0;
}
static void clr(void * e, void * p)
{
    struct elem * x = e; (void)p;
    if (vis_n < 4 * MAXE) vis_log[vis_n] = x->id;
    vis_n++;
    pool[x->id] = NULL;
    memset(x, 0xA5, sizeof(*x));
    free(x);
}

static void dump(void)
{
    int i, k;
    for (i = 0; i < nlists; i++) {
        printf(" | L%d: %zu %d %d", i, cstl_slist_size(&lists[i]),
               idof(cstl_slist_front(&lists[i])), idof(cstl_slist_back(&lists[i])));
        vis_n = 0; vis_stop = 0;
        cstl_slist_foreach(&lists[i], visit, H_COOKIE);
        for (k = 0; k < vis_n && k < 4 * MAXE; k++) printf(" %d", vis_log[k]);
    }
    printf("\n");
}

static void run_case(const struct h_case * c)
{
    int i, k, started = 0;

    nkeys = 0; nlists = 1; cmpmode = 0; cmpcalls = 0; vsign = 1; memset(offs, 0, sizeof(offs));
    memset(pool, 0, sizeof(pool));
    for (i = 0; i < c->nlines; i++) {
        const struct h_line * l = &c->lines[i];
        int a = (int)h_int(l, 1), b = (int)h_int(l, 2), d = (int)h_int(l, 3);
        if (h_weq(l, 0, "keys")) {
            for (k = 1; k < l->nw && k <= MAXE; k++) keys[k - 1] = (int)h_int(l, k);
            nkeys = l->nw - 1;
            continue;
        }
        if (h_weq(l, 0, "nlists")) { nlists = a; continue; }
        if (h_weq(l, 0, "cmpmode")) { cmpmode = a; continue; }
        if (h_weq(l, 0, "vsign")) { vsign = a < 0 ? -1 : 1; continue; }
        if (h_weq(l, 0, "mixedconcat")) continue;   /* marks cases outside the model (see checks/c13.py) */
        if (h_weq(l, 0, "offs")) { for (k = 1; k < l->nw && k <= MAXL; k++) offs[k - 1] = (int)h_int(l, k) ? 1 : 0; continue; }
        if (!started) {
            for (k = 0; k < nlists; k++)
                cstl_slist_init(&lists[k], offs[k] ? offsetof(struct elem, sn2) : offsetof(struct elem, sn));
            started = 1;
        }
        if (a < 0 || a >= nlists) { printf("precond\n"); return; }
        if (h_weq(l, 0, "push_front")) { cstl_slist_push_front(&lists[a], get(b)); printf("ok "); }
        else if (h_weq(l, 0, "push_back")) { cstl_slist_push_back(&lists[a], get(b)); printf("ok "); }
        else if (h_weq(l, 0, "insert_after")) { cstl_slist_insert_after(&lists[a], get(b), get(d)); printf("ok "); }
        else if (h_weq(l, 0, "erase_after")) { printf("ok %d", idof(cstl_slist_erase_after(&lists[a], get(b)))); }
        else if (h_weq(l, 0, "pop_front")) { printf("ok %d", idof(cstl_slist_pop_front(&lists[a]))); }
        else if (h_weq(l, 0, "front")) { printf("ok %d", idof(cstl_slist_front(&lists[a]))); }
        else if (h_weq(l, 0, "back")) { printf("ok %d", idof(cstl_slist_back(&lists[a]))); }
        else if (h_weq(l, 0, "size")) { printf("ok %zu", cstl_slist_size(&lists[a])); }
        else if (h_weq(l, 0, "reverse")) { cstl_slist_reverse(&lists[a]); printf("ok "); }
        else if (h_weq(l, 0, "sort")) { cstl_slist_sort(&lists[a], cmp, H_COOKIE); printf("ok "); }
        else if (h_weq(l, 0, "concat")) {
            if (b < 0 || b >= nlists) { printf("precond\n"); return; }
            cstl_slist_concat(&lists[a], &lists[b]); printf("ok ");
        }
        else if (h_weq(l, 0, "swap")) {
            if (b < 0 || b >= nlists) { printf("precond\n"); return; }
            if (a != b) cstl_slist_swap(&lists[a], &lists[b]);
            printf("ok ");
        }
        else if (h_weq(l, 0, "foreach")) {
            int r;
            vis_n = 0; vis_stop = b;
            r = cstl_slist_foreach(&lists[a], visit, H_COOKIE);
            printf("ok %d", vsign * r);
            for (k = 0; k < vis_n && k < 4 * MAXE; k++) printf(" %d", vis_log[k]);
        }
        else if (h_weq(l, 0, "fmove")) {
            struct fmove_ctx fc;
            int r;
            if (b < 0 || b >= nlists || a == b) { printf("precond\n"); return; }
            fc.magic = FM_MAGIC; fc.cookie = H_COOKIE; fc.from = &lists[a]; fc.to = &lists[b]; fc.bad = 0;
            vis_n = 0; vis_stop = d; fm_expected = &fc;
            r = cstl_slist_foreach(&lists[a], visit_move, &fc);
            fm_expected = NULL;
            printf("ok %d %d", vsign * r, fc.bad);
            for (k = 0; k < vis_n && k < 4 * MAXE; k++) printf(" %d", vis_log[k]);
        }
        else if (h_weq(l, 0, "clear")) {
            vis_n = 0;
            cstl_slist_clear(&lists[a], clr);
            printf("ok");
            for (k = 0; k < vis_n && k < 4 * MAXE; k++) printf(" %d", vis_log[k]);
        }
        else { printf("badop %s\n", l->w[0]); return; }
        dump();
    }
}

int main(int argc, char ** argv) { return h_main(argc, argv, run_case); }
