/* Fail-stop driver for the bucket range check of src/hash.c (C17 b):
 * every keyed entry point (insert, find, erase) with a caller-supplied hash
 * function that returns an out-of-range value, before and during a pending
 * rehash.  One forked child per case (hcommon.h): SIGABRT -> "abort",
 * sanitizer report / SIGSEGV / any other death -> "fault".
 *
 * The caller hash is hf(k, m) = k % m, except while ARMED: then a call
 * whose table size m matches the armed size (0 = any size) and whose key
 * matches the armed key (-1 = any key) prints "badcall k=<k> m=<m> ret=<v>"
 * and returns v = m + d ("plus d") or SIZE_MAX ("max").
 *
 * Script lines inside a case (executed in order in the child):
 *   init <n>                cstl_hash_init + cstl_hash_resize(n, hf)
 *   ins <k>                 insert a fresh element with key k (hash in range)
 *   resize <n>              cstl_hash_resize(n, hf): leaves a rehash pending when
 *                           the table is not empty of buckets
 *   good <k>                cstl_hash_find(k) with the hash in range (advances the sweep)
 *   rehash                  cstl_hash_rehash (forces completion)
 *   arm <m> plus <d> <key>  arm the hash for table size m (0 = any), key (-1 = any)
 *   arm <m> max <key>
 *   every <n>               (before arm) only every n-th matching call of the armed hash answers out of range
 *   xinsert <k> | xfind <k> | xerase <k>
 *                           the operation under test.  Prints
 *                           "pre pending=<0|1> count=<n> rhcount=<n> cap=<n> size=<n>",
 *                           runs it, then "ok <result>" if it returned
 *                           (result: element id / -1 for find, size for the others)
 * Element identities are pool indices; addresses are never printed. */
#include "hcommon.h"
/* hash.h of the unchanged tree defines cstl_hash_size/cstl_hash_load with
 * external linkage (finding F1, property C18): a second translation unit
 * including it does not link.  Rename this unit's copies; works before and
 * after that defect is repaired. */
#define cstl_hash_size drv_unused_cstl_hash_size
#define cstl_hash_load drv_unused_cstl_hash_load
#include "cstl/hash.h"
#undef cstl_hash_size
#undef cstl_hash_load

#define MAXE 256

struct elem { int id; int in; size_t key; struct cstl_hash_node hn; };

static struct elem * pool[MAXE];
static int npool;
static struct cstl_hash H;

static int armed, arm_max;
static size_t arm_m, arm_d;
static long long arm_key;
/* `every n`: only every n-th matching call answers out of range (a hash function that misbehaves intermittently) */
static int arm_every = 1, arm_seen;

static size_t hf(const size_t k, const size_t m)
{
    if (armed && (arm_m == 0 || arm_m == m)
        && (arm_key < 0 || (size_t)arm_key == k)
        && (++arm_seen % arm_every) == 0) {
        /* "hi": a value >= 2^32 whose low 32 bits are an in-range index (catches a range check done on a narrower type);
         * "hi2": the in-range index shifted into the high half */
        const size_t v = arm_max == 1 ? SIZE_MAX
                       : arm_max == 2 ? (((size_t)1 << 32) + k % m)
                       : arm_max == 3 ? (((size_t)(k % m + 1)) << 32)
                       : m + arm_d;
        printf("badcall k=%zu m=%zu ret=%zu\n", k, m, v);
        fflush(stdout);
        return v;
    }
    return k % m;
}

static struct elem * fresh(const size_t k)
{
    struct elem * e;
    if (npool >= MAXE) abort();
    e = malloc(sizeof(*e));
    e->id = npool;
    e->in = 0;
    e->key = k;
    pool[npool++] = e;
    return e;
}

static struct elem * linked_with_key(const size_t k)
{
    int i;
    for (i = 0; i < npool; i++) {
        if (pool[i]->in && pool[i]->key == k) return pool[i];
    }
    return NULL;
}

static void pre(void)
{
    printf("pre pending=%d count=%zu rhcount=%zu cap=%zu size=%zu\n",
           H.bucket.rh.hash != NULL, H.bucket.count,
           H.bucket.rh.hash != NULL ? H.bucket.rh.count : (size_t)0,
           H.bucket.capacity, H.count);
    fflush(stdout);
}

static void run_case(const struct h_case * c)
{
    int i;

    npool = 0;
    armed = 0; arm_every = 1; arm_seen = 0;
    cstl_hash_init(&H, offsetof(struct elem, hn));
    for (i = 0; i < c->nlines; i++) {
        const struct h_line * l = &c->lines[i];
        const size_t a = (size_t)h_u64(l, 1);

        if (h_weq(l, 0, "init")) {
            cstl_hash_resize(&H, a, hf);
        } else if (h_weq(l, 0, "ins")) {
            struct elem * e = fresh(a);
            cstl_hash_insert(&H, a, e);
            e->in = 1;
        } else if (h_weq(l, 0, "resize")) {
            cstl_hash_resize(&H, a, hf);
        } else if (h_weq(l, 0, "good")) {
            (void)cstl_hash_find(&H, a, NULL, NULL);
        } else if (h_weq(l, 0, "rehash")) {
            cstl_hash_rehash(&H);
        } else if (h_weq(l, 0, "every")) {
            arm_every = a > 0 ? (int)a : 1;
        } else if (h_weq(l, 0, "arm")) {
            armed = 1; arm_seen = 0;
            arm_m = a;
            if (h_weq(l, 2, "hi") || h_weq(l, 2, "hi2")) {
                arm_max = h_weq(l, 2, "hi") ? 2 : 3; arm_d = 0; arm_key = h_int(l, 3);
            } else if (h_weq(l, 2, "max")) {
                arm_max = 1; arm_d = 0; arm_key = h_int(l, 3);
            } else {
                arm_max = 0; arm_d = (size_t)h_u64(l, 3); arm_key = h_int(l, 4);
            }
        } else if (h_weq(l, 0, "xinsert")) {
            struct elem * e = fresh(a);
            pre();
            cstl_hash_insert(&H, a, e);
            e->in = 1;
            printf("ok %zu\n", H.count);
        } else if (h_weq(l, 0, "xfind")) {
            const struct elem * e;
            pre();
            e = cstl_hash_find(&H, a, NULL, NULL);
            printf("ok %d\n", e ? e->id : -1);
        } else if (h_weq(l, 0, "xerase")) {
            struct elem * e = linked_with_key(a);
            if (!e) { printf("badop no element with key %zu\n", a); continue; }
            pre();
            cstl_hash_erase(&H, e);
            e->in = 0;
            printf("ok %zu\n", H.count);
        } else {
            printf("badop %s\n", l->w[0]);
        }
    }
}

int main(int argc, char ** argv)
{
    return h_main(argc, argv, run_case);
}
