/* Correspondence driver for the raw-array sorts / search / find / reverse of
 * src/array.c, called directly and through src/vector.c (C11).
 *
 * Script (see runner/run_sort.ml): header "esize s", "arr k...", "vcap x",
 * "cmpmode m" (magnitude of the comparison results, ignored by the model);
 * every operation runs on a fresh copy of the header array.
 *
 * Element layout (esize bytes): byte 0 = key; last byte = tag & 0xff;
 * byte 1 = tag >> 8, byte 2 = tag >> 16 (when present); every other byte a
 * filler derived from the element's original index, verified on output.
 * The array, the scratch element and the probe are separate exact-size
 * malloc blocks (ASan redzones on both sides of each).
 *
 * The comparison / swap callbacks translate their pointer arguments back to
 * indices (-1 = the probe, -9 = a pointer that is neither an element of the
 * array nor the probe) and log them; the swap callback also checks that the
 * scratch pointer and the length are the ones handed to the library.
 *
 * rand() is wrapped (-Wl,--wrap=rand): the script supplies the draws.
 *
 * "rawswap sz i j b0 b1 ..." (independent of the header): the (n+1)*sz byte
 * values are copied into a malloc block of exactly that size (ASan redzones
 * on both sides: any access of cstl_swap outside array + scratch is a fault),
 * cstl_swap(buf + i*sz, buf + j*sz, buf + n*sz, sz) is called directly and
 * the n*sz array bytes are printed, then "| ~" and the sz scratch bytes.
 * The header only says the scratch "may be used": the property oracle ignores
 * it; the comparison with the byte-level model (SwapModel.bytes_swap, which
 * follows the code: the scratch ends up holding the old *x) includes it.
 *
 * "big" operations (bigreverse / bigsearch) work on byte arrays of more than
 * 2^31 elements without logging; they are meant for the non-sanitized build. */
#include "hcommon.h"
#include "cstl/array.h"
#include "cstl/vector.h"

static unsigned char * g_base, * g_scratch, * g_probe;
static size_t g_count, g_size;
static int g_bad;

struct evt { int kind; long long i, j; };
static struct evt * g_log;
static size_t g_nlog, g_caplog;


static void logev(int kind, long long i, long long j)
{
    if (g_nlog == g_caplog) {
        g_caplog = g_caplog ? 2 * g_caplog : 1024;
        g_log = realloc(g_log, g_caplog * sizeof(*g_log));
    }
    g_log[g_nlog].kind = kind; g_log[g_nlog].i = i; g_log[g_nlog].j = j;
    g_nlog++;
}

static long long idx_of(const void * p)
{
    const unsigned char * q = p;
    if (q == g_probe) return -1;
    if (g_base && q >= g_base && q < g_base + g_count * g_size
        && (size_t)(q - g_base) % g_size == 0) {
        return (long long)((size_t)(q - g_base) / g_size);
    }
    g_bad = 1;
    return -9;
}

/* "cmpmode k": what the comparison callback returns besides the sign, which
 * is all the contract of cstl_compare_func_t fixes: 0 = -1/0/1, 1 = the
 * difference of the keys, 2 = the sign times a magnitude that changes from
 * call to call */
static int g_cmpmode = 1;
static unsigned long g_cmpcalls;
static int cmp_cb(const void * a, const void * b, void * priv)
{
    const long long i = idx_of(a), j = idx_of(b);
    const int d = (int)*(const unsigned char *)a - (int)*(const unsigned char *)b;
    const int sg = (d > 0) - (d < 0);
    h_check_priv(priv);
    if (i == -1) logev(2, j, 0); else logev(0, i, j);
    g_cmpcalls++;
    switch (g_cmpmode) {
    case 0: return sg;
    case 2: return sg * (int)(1 + (g_cmpcalls * 7) % 13);
    default: return d;
    }
}

static int g_swapmode;
static void swap_cb(void * a, void * b, void * t, size_t len)
{
    const long long i = idx_of(a), j = idx_of(b);
    if (t != (void *)g_scratch || len != g_size || i < 0 || j < 0) g_bad = 1;
    logev(1, (t != (void *)g_scratch || len != g_size) ? -9 : i, j);
    if (g_swapmode) {
        /* header `swapmode 1`: a caller's swap that works in place and ignores the scratch ("the callee is free to
         * ignore the t and len parameters"); like many in-place exchanges it is only correct for two DISTINCT objects.
         * The raw-array calls then pass NULL as scratch: the library itself must not touch it. */
        unsigned char * x = a, * y = b;
        size_t k;
        for (k = 0; k < g_size; k++) { x[k] ^= y[k]; y[k] ^= x[k]; x[k] ^= y[k]; }
    } else {
        cstl_swap(a, b, t, len);
    }
}

/* rand() replacement */
static long long * g_draws; static size_t g_ndraws, g_draw_pos;
static int g_lcg_on; static unsigned long long g_lcg;
int __wrap_rand(void);
int __wrap_rand(void)
{
    long long v;
    if (g_lcg_on) {
        g_lcg = (g_lcg * 1103515245ULL + 12345ULL) & 0x7fffffffULL;
        v = (long long)g_lcg;
    } else {
        v = g_draw_pos < g_ndraws ? g_draws[g_draw_pos] : 0;
        g_draw_pos++;
    }
    logev(3, v, 0);
    return (int)v;
}

static size_t tagmod(size_t es)
{
    return es <= 1 ? 1 : es == 2 ? 256 : es == 3 ? 65536 : 16777216;
}

static unsigned char filler(size_t idx, size_t pos)
{
    return (unsigned char)(idx * 7 + pos * 13 + 1);
}

static void put_elem(unsigned char * e, size_t es, int key, size_t idx)
{
    const size_t tag = idx % tagmod(es);
    size_t k;
    for (k = 0; k < es; k++) e[k] = filler(tag, k);
    e[0] = (unsigned char)key;
    if (es >= 2) e[es - 1] = (unsigned char)(tag & 0xff);
    if (es >= 3) e[1] = (unsigned char)((tag >> 8) & 0xff);
    if (es >= 4) e[2] = (unsigned char)((tag >> 16) & 0xff);
}

/* prints key:tag, or key:BAD when the filler bytes do not belong to the tag */
static void print_elem(const unsigned char * e, size_t es)
{
    size_t tag = 0, k;
    int ok = 1;
    if (es >= 2) tag |= e[es - 1];
    if (es >= 3) tag |= (size_t)e[1] << 8;
    if (es >= 4) tag |= (size_t)e[2] << 16;
    for (k = 3; k + 1 < es; k++) if (e[k] != filler(tag, k)) ok = 0;
    if (ok) printf(" %d:%zu", (int)e[0], tag); else printf(" %d:BAD", (int)e[0]);
}

#define LOG_LIMIT 300
static void print_log(void)
{
    size_t k;
    printf(" |");
    if (g_bad) printf(" BADPTR");
    if (g_nlog <= LOG_LIMIT) {
        for (k = 0; k < g_nlog; k++) {
            const struct evt * e = &g_log[k];
            switch (e->kind) {
            case 0: printf(" c%lld,%lld", e->i, e->j); break;
            case 1: printf(" s%lld,%lld", e->i, e->j); break;
            case 2: printf(" p%lld", e->i); break;
            default: printf(" r%lld", e->i); break;
            }
        }
    } else {
        long long h = 0;
        for (k = 0; k < g_nlog; k++) {
            const struct evt * e = &g_log[k];
            h = (h * 1000003 + e->kind * 7 + e->i * 131 + e->j * 31337 + 1) % 2147483647LL;
        }
        printf(" n=%zu h=%lld", g_nlog, h);
    }
    printf("\n");
}

static int keys_cap, nkeys;
static int * keys;

/* ---- cstl_swap by itself on raw bytes ---- */
static int run_rawswap(const struct h_line * l)
{
    const size_t sz = (size_t)h_u64(l, 1), i = (size_t)h_u64(l, 2), j = (size_t)h_u64(l, 3);
    const size_t nb = l->nw > 4 ? (size_t)(l->nw - 4) : 0;
    size_t n, k;
    unsigned char * buf;
    if (sz < 1 || nb < sz || nb % sz != 0) { printf("precond\n"); return 0; }
    n = nb / sz - 1;
    buf = malloc(nb);
    for (k = 0; k < nb; k++) buf[k] = (unsigned char)h_int(l, (int)k + 4);
    /* addresses as __cstl_raw_array_at computes them; out-of-range i / j run into the redzone */
    cstl_swap(buf + i * sz, buf + j * sz, buf + n * sz, sz);
    printf("ok 0 |");
    for (k = 0; k < n * sz; k++) printf(" %u", (unsigned)buf[k]);
    printf(" | ~");
    for (k = n * sz; k < nb; k++) printf(" %u", (unsigned)buf[k]);
    printf("\n");
    free(buf);
    return 1;
}

/* ---- operations on more than 2^31 one-byte elements (no logging) ---- */
static unsigned long long big_nswap, big_ncmp;
static unsigned char big_pat(size_t k) { return (unsigned char)(k * 131 + (k >> 13) + (k >> 27)); }
static void big_swap(void * a, void * b, void * t, size_t len)
{
    if ((unsigned char *)a < g_base || (unsigned char *)a >= g_base + g_count
        || (unsigned char *)b < g_base || (unsigned char *)b >= g_base + g_count
        || t != (void *)g_scratch || len != 1) g_bad = 1;
    big_nswap++;
    cstl_swap(a, b, t, len);
}
static int big_cmp(const void * a, const void * b, void * priv)
{
    (void)priv;
    if ((const unsigned char *)a != g_probe
        || (const unsigned char *)b < g_base || (const unsigned char *)b >= g_base + g_count) g_bad = 1;
    big_ncmp++;
    return (int)*(const unsigned char *)a - (int)*(const unsigned char *)b;
}
static void run_big(const struct h_line * l)
{
    const size_t count = (size_t)h_u64(l, 1);
    size_t k;
    g_base = malloc(count); g_scratch = malloc(1); g_probe = malloc(1);
    g_count = count; g_size = 1; g_bad = 0; big_nswap = big_ncmp = 0;
    if (!g_base) { printf("skip no-memory\n"); return; }
    if (h_weq(l, 0, "bigreverse")) {
        long long first_bad = -1;
        for (k = 0; k < count; k++) g_base[k] = big_pat(k);
        cstl_raw_array_reverse(g_base, count, 1, big_swap, g_scratch);
        for (k = 0; k < count; k++) {
            if (g_base[k] != big_pat(count - 1 - k)) { first_bad = (long long)k; break; }
        }
        printf("ok 0 | mirrored=%d first_bad=%lld |%s nswap=%llu\n", first_bad < 0, first_bad,
               g_bad ? " BADPTR" : "", big_nswap);
    } else {
        /* non-decreasing bytes: every value 0..255 present when count >= 256 */
        ssize_t r;
        unsigned v;
        for (v = 0; v < 256; v++) {
            /* a[k] = floor(k * 256 / count): value v occupies [ceil(v*count/256), ceil((v+1)*count/256)) */
            const size_t lo = (size_t)(((unsigned __int128)v * count + 255) / 256);
            const size_t hi = (size_t)(((unsigned __int128)(v + 1) * count + 255) / 256);
            if (hi > lo) memset(g_base + lo, (int)v, hi - lo);
        }
        *g_probe = (unsigned char)h_int(l, 2);
        r = cstl_raw_array_search(g_base, count, 1, g_probe, big_cmp, NULL);
        printf("ok found=%d |%s\n",
               r >= 0 && (size_t)r < count && g_base[r] == *g_probe, g_bad ? " BADPTR" : "");
    }
    free(g_base); free(g_scratch); free(g_probe);
}

static void run_case(const struct h_case * c)
{
    size_t es = 4, vcap = 0;
    int i, k;

    nkeys = 0; g_cmpmode = 1; g_cmpcalls = 0; g_swapmode = 0;
    for (i = 0; i < c->nlines; i++) {
        const struct h_line * l = &c->lines[i];
        const char * op = l->w[0];
        int isvec, ret_void = 1;
        long long ret = 0;
        unsigned char * arr = NULL;
        struct cstl_vector v;
        size_t n;

        if (h_weq(l, 0, "esize")) { es = (size_t)h_u64(l, 1); continue; }
        if (h_weq(l, 0, "vcap")) { vcap = (size_t)h_u64(l, 1); continue; }
        if (h_weq(l, 0, "cmpmode")) { g_cmpmode = (int)h_int(l, 1); continue; }
        if (h_weq(l, 0, "swapmode")) { g_swapmode = (int)h_int(l, 1); continue; }
        if (h_weq(l, 0, "arr")) {
            for (k = 1; k < l->nw; k++) {
                if (nkeys == keys_cap) {
                    keys_cap = keys_cap ? 2 * keys_cap : 256;
                    keys = realloc(keys, keys_cap * sizeof(*keys));
                }
                keys[nkeys++] = (int)h_int(l, k);
            }
            continue;
        }
        if (h_weq(l, 0, "bigreverse") || h_weq(l, 0, "bigsearch")) { run_big(l); continue; }
        if (h_weq(l, 0, "rawswap")) { if (!run_rawswap(l)) return; continue; }
        if (es < 1) { printf("precond\n"); return; }

        n = (size_t)nkeys;
        isvec = op[0] == 'v';
        if (isvec) op++;

        /* fresh storage */
        g_probe = malloc(es);
        put_elem(g_probe, es, 0, 16777215);
        if (isvec) {
            cstl_vector_init(&v, es);
            cstl_vector_reserve(&v, n + vcap);
            cstl_vector_resize(&v, n);
            arr = cstl_vector_data(&v);
            g_scratch = arr ? arr + cstl_vector_capacity(&v) * es : NULL;
        } else {
            arr = malloc(n * es);
            if (g_swapmode) {
                g_scratch = NULL;
            } else {
                g_scratch = malloc(es);
                memset(g_scratch, 0xEE, es);
            }
        }
        for (k = 0; k < (int)n; k++) put_elem(arr + (size_t)k * es, es, keys[k], (size_t)k);
        g_base = arr; g_count = n; g_size = es; g_bad = 0; g_nlog = 0;
        g_ndraws = 0; g_draw_pos = 0; g_lcg_on = 0;

        if (strcmp(op, "sort") == 0 || strcmp(op, "sortlcg") == 0) {
            const cstl_sort_algorithm_t sel = (cstl_sort_algorithm_t)h_int(l, 1);
            if (strcmp(op, "sortlcg") == 0) {
                g_lcg_on = 1; g_lcg = h_u64(l, 2);
            } else {
                g_ndraws = l->nw > 2 ? (size_t)(l->nw - 2) : 0;
                g_draws = realloc(g_draws, (g_ndraws + 1) * sizeof(*g_draws));
                for (k = 0; k < (int)g_ndraws; k++) g_draws[k] = h_int(l, k + 2);
            }
            if (isvec) __cstl_vector_sort(&v, cmp_cb, H_COOKIE, swap_cb, sel);
            else cstl_raw_array_sort(arr, n, es, cmp_cb, H_COOKIE, swap_cb, g_scratch, sel);
        } else if (strcmp(op, "sortd") == 0 && isvec) {
            cstl_vector_sort(&v, cmp_cb, H_COOKIE);
        } else if (strcmp(op, "reverse") == 0) {
            if (isvec) __cstl_vector_reverse(&v, swap_cb);
            else cstl_raw_array_reverse(arr, n, es, swap_cb, g_scratch);
        } else if (strcmp(op, "search") == 0 || strcmp(op, "find") == 0) {
            int sorted = 1;
            g_probe[0] = (unsigned char)h_int(l, 1);
            for (k = 0; k + 1 < (int)n; k++) if (keys[k] > keys[k + 1]) sorted = 0;
            ret_void = 0;
            if (strcmp(op, "search") == 0) {
                if (!sorted) { printf("precond\n"); return; }
                ret = isvec ? cstl_vector_search(&v, g_probe, cmp_cb, H_COOKIE)
                            : cstl_raw_array_search(arr, n, es, g_probe, cmp_cb, H_COOKIE);
            } else {
                ret = isvec ? cstl_vector_find(&v, g_probe, cmp_cb, H_COOKIE)
                            : cstl_raw_array_find(arr, n, es, g_probe, cmp_cb, H_COOKIE);
            }
        } else {
            printf("badop %s\n", l->w[0]);
            return;
        }

        printf("ok %lld |", ret_void ? 0LL : ret);
        if (isvec) {
            /* the vector must still describe the same storage */
            if (cstl_vector_size(&v) != n || cstl_vector_data(&v) != (void *)arr) printf(" VECTOR-CHANGED");
        }
        for (k = 0; k < (int)n; k++) print_elem(arr + (size_t)k * es, es);
        print_log();

        if (isvec) {
            cstl_vector_clear(&v);
        } else {
            free(arr);
            free(g_scratch);
        }
        free(g_probe);
    }
}

int main(int argc, char ** argv) { return h_main(argc, argv, run_case); }
