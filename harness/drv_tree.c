/* Correspondence driver for src/bintree.c and src/rbtree.c (C01, C02, C15).
 * Header lines: "keys k0 k1 ..." (key of element id i; further "keys" lines
 * continue the table), "kind bin|rb", "cmpmode 0|1|2" (magnitude of the
 * comparison results, see cmp()).
 * The tree is decoded through the public struct fields only: shape,
 * element identities, colours; every child's parent pointer, the root's
 * NULL parent, cycles / foreign nodes and the size field are checked and
 * reported as MALFORMED(...) inside the dump. */
#include "hcommon.h"
#include "cstl/bintree.h"
#include "cstl/rbtree.h"

#define MAXE 256

struct elem {
    int key;
    int id;
    struct cstl_bintree_node bn;   /* kind bin */
    struct cstl_rbtree_node rn;    /* kind rb  */
    char pad[24];
    struct cstl_bintree_node bn2;  /* node members of the second tree object (header swapobj) */
    struct cstl_rbtree_node rn2;
};

static struct elem * pool[MAXE];
static int keys[MAXE], nkeys;
static int rb;
/* Two tree objects whose elements embed the node at DIFFERENT offsets.  The tree under test lives in *pbt / *prt;
 * header `swapobj k1 k2 ..`: before the operations with these (0-based) indices the two objects are exchanged with
 * cstl_bintree_swap / cstl_rbtree_swap and the test continues on the other object - which must then behave exactly as
 * before (contents, comparison function, node offset all travel with the tree), so model and oracle are unaffected. */
static struct cstl_bintree bts[2], * pbt;
static struct cstl_rbtree rts[2], * prt;
static int cur_obj;
#define bt (*pbt)
#define rt (*prt)
#define MAXSW 16
static int swap_at[MAXSW], nswap;

static struct elem * get(int id)
{
    if (id < 0 || id >= MAXE) abort();
    if (!pool[id]) {
        pool[id] = malloc(sizeof(struct elem));
        memset(pool[id], 0x5A, sizeof(struct elem));
        pool[id]->key = id < nkeys ? keys[id] : 0;
        pool[id]->id = id;
    }
    return pool[id];
}
static int idof(const void * e) { return e ? ((const struct elem *)e)->id : -1; }

/* The contract of cstl_compare_func_t fixes only the sign of the result.
 * cmpmode 0: -1/0/1; 1: difference of the keys; 2: sign times a magnitude
 * that changes from call to call. */
static int cmpmode;
static unsigned cmp_calls;
static int cmp(const void * a, const void * b, void * p)
{
    const struct elem * x = a, * y = b; h_check_priv(p);
    int s = (x->key > y->key) - (x->key < y->key);
    cmp_calls++;
    if (cmpmode == 1) return x->key - y->key;
    if (cmpmode == 2) return s * (int)(1 + (cmp_calls * 7u) % 13u);
    return s;
}

#define MAXV (4 * MAXE)
static int vis_ord[MAXV], vis_id[MAXV], vis_n, vis_stop;
static int vsign = 1;   /* sign of the visitor's non-zero answer (header vsign); the result is printed times vsign */
/* header `nestwalk 1`: every visit first walks an auxiliary tree of three elements with another visitor and context
 * (stopping at its second visit): a traversal started from inside a visitor must not disturb the outer one */
static int nestwalk;
static struct cstl_bintree auxt;
static struct elem auxe[3];
static int aux_n;
static int aux_visit(const void * e, cstl_bintree_visit_order_t ord, void * p)
{
    (void)e; (void)ord;
    h_check_priv2(p, H_COOKIE2);
    return ++aux_n == 2 ? 77 : 0;
}
static int visit(const void * e, cstl_bintree_visit_order_t ord, void * p)
{
    h_check_priv(p);
    if (nestwalk) {
        aux_n = 0;
        if (cstl_bintree_foreach(&auxt, aux_visit, H_COOKIE2, CSTL_BINTREE_FOREACH_DIR_FWD) != 77 || aux_n != 2) {
            printf("badnest\n"); fflush(stdout); _exit(3);
        }
    }
    if (vis_n < MAXV) { vis_ord[vis_n] = (int)ord; vis_id[vis_n] = idof(e); }
    vis_n++;
    return (vis_stop > 0 && vis_n == vis_stop) ? vsign * vis_stop : 0;
}
/* clear callback: log, poison, free -- any later access is an ASan report */
static void clr(void * e, void * p)
{
    struct elem * x = e; (void)p;
    if (vis_n < MAXV) vis_id[vis_n] = x->id;
    vis_n++;
    pool[x->id] = NULL;
    memset(x, 0xA5, sizeof(*x));
    free(x);
}

/* ---- decoder ---- */
static int seen[MAXE], nodes;

static const struct cstl_bintree_node * root_of(void) { return rb ? rt.t.root : bt.root; }
static size_t node_off(void) { return rb ? rt.t.off : bt.off; }

static void dump_node(const struct cstl_bintree_node * n, const struct cstl_bintree_node * parent)
{
    const struct elem * e;
    int id;
    if (n == NULL) { printf(" ."); return; }
    if (nodes > MAXE) { printf(" MALFORMED(cycle)"); return; }
    e = (const struct elem *)((uintptr_t)n - node_off());
    /* is it one of ours? */
    for (id = 0; id < MAXE; id++) if (pool[id] == e) break;
    if (id == MAXE) { printf(" MALFORMED(foreign-node)"); return; }
    if (seen[id]) { printf(" MALFORMED(node-%d-reached-twice)", id); return; }
    seen[id] = 1;
    nodes++;
    printf(" ( %d", id);
    if (rb) {
        int c = (int)((const struct cstl_rbtree_node *)((uintptr_t)e + rt.off))->c;
        if (c == CSTL_RBTREE_COLOR_R) printf(" R");
        else if (c == CSTL_RBTREE_COLOR_B) printf(" B");
        else printf(" MALFORMED(colour)");
    }
    if (n->p != parent) printf(" MALFORMED(parent-of-%d)", id);
    dump_node(n->l, n);
    dump_node(n->r, n);
    printf(" )");
}

static void dump(void)
{
    size_t sz = rb ? cstl_rbtree_size(&rt) : cstl_bintree_size(&bt);
    memset(seen, 0, sizeof(seen));
    nodes = 0;
    printf(" | %zu", sz);
    dump_node(root_of(), NULL);
    if ((size_t)nodes != sz) printf(" MALFORMED(size-%zu-nodes-%d)", sz, nodes);
    printf("\n");
}

static void t_insert(struct elem * e, struct elem * hint)
{
    if (rb) cstl_rbtree_insert(&rt, e, hint); else cstl_bintree_insert(&bt, e, hint);
}
static const void * t_find(const struct elem * probe, const void ** par)
{
    return rb ? cstl_rbtree_find(&rt, probe, par) : cstl_bintree_find(&bt, probe, par);
}
static int linked(int id)
{
    /* membership by walking the tree (independent of the library's find) */
    return id >= 0 && id < MAXE && seen[id];
}

static void run_case(const struct h_case * c)
{
    int i, k, started = 0;

    int opno = 0;
    nkeys = 0; rb = 0; cmpmode = 0; cmp_calls = 0; vsign = 1; nswap = 0; cur_obj = 0; pbt = &bts[0]; prt = &rts[0]; nestwalk = 0;
    memset(pool, 0, sizeof(pool));
    memset(seen, 0, sizeof(seen));
    for (i = 0; i < c->nlines; i++) {
        const struct h_line * l = &c->lines[i];
        int a = (int)h_int(l, 1);
        if (h_weq(l, 0, "keys")) {
            /* further "keys" lines continue the table (hcommon.h limits a line to 64 words) */
            for (k = 1; k < l->nw && nkeys < MAXE; k++) keys[nkeys++] = (int)h_int(l, k);
            continue;
        }
        if (h_weq(l, 0, "kind")) { rb = h_weq(l, 1, "rb"); continue; }
        if (h_weq(l, 0, "cmpmode")) { cmpmode = a; continue; }
        if (h_weq(l, 0, "vsign")) { vsign = a < 0 ? -1 : 1; continue; }
        if (h_weq(l, 0, "nestwalk")) { nestwalk = a; continue; }
        if (h_weq(l, 0, "swapobj")) { for (k = 1; k < l->nw && nswap < MAXSW; k++) swap_at[nswap++] = (int)h_int(l, k); continue; }
        if (!started) {
            if (rb) {
                cstl_rbtree_init(&rts[0], cmp, H_COOKIE, offsetof(struct elem, rn));
                cstl_rbtree_init(&rts[1], cmp, H_COOKIE, offsetof(struct elem, rn2));
            } else {
                cstl_bintree_init(&bts[0], cmp, H_COOKIE, offsetof(struct elem, bn));
                cstl_bintree_init(&bts[1], cmp, H_COOKIE, offsetof(struct elem, bn2));
            }
            if (nestwalk) {
                cstl_bintree_init(&auxt, cmp, H_COOKIE, offsetof(struct elem, bn));
                for (k = 0; k < 3; k++) {
                    memset(&auxe[k], 0x5A, sizeof(auxe[k]));
                    auxe[k].key = 100 + (k * 2) % 3; auxe[k].id = -5;
                    cstl_bintree_insert(&auxt, &auxe[k], NULL);
                }
            }
            started = 1;
        }
        for (k = 0; k < nswap; k++) if (swap_at[k] == opno) {
            if (rb) cstl_rbtree_swap(&rts[0], &rts[1]); else cstl_bintree_swap(&bts[0], &bts[1]);
            cur_obj = !cur_obj; pbt = &bts[cur_obj]; prt = &rts[cur_obj];
        }
        opno++;
        if (h_weq(l, 0, "insert") || h_weq(l, 0, "inserth")) {
            struct elem * e;
            if (a < 0 || a >= MAXE || linked(a)) { printf("precond\n"); return; }
            e = get(a);
            if (h_weq(l, 0, "inserth")) {
                const void * par = NULL;
                (void)t_find(e, &par);
                t_insert(e, (struct elem *)par);
                printf("ok %d", idof(par));
            } else {
                t_insert(e, NULL);
                printf("ok ");
            }
        }
        else if (h_weq(l, 0, "find")) {
            struct elem probe;
            const void * par = (void *)(uintptr_t)0xdeadbeef, * f;
            memset(&probe, 0x5A, sizeof(probe));
            probe.key = a; probe.id = -2;
            f = t_find(&probe, &par);
            printf("ok %d %d", idof(f), idof(par));
        }
        else if (h_weq(l, 0, "erase")) {
            struct elem probe, * r;
            memset(&probe, 0x5A, sizeof(probe));
            probe.key = a; probe.id = -2;
            r = rb ? cstl_rbtree_erase(&rt, &probe) : cstl_bintree_erase(&bt, &probe);
            printf("ok %d", idof(r));
            if (r != NULL && r->id >= 0 && r->id < MAXE && pool[r->id] == r) {
                /* the caller owns it again: scribble over the links */
                memset(&r->bn, 0x5A, sizeof(r->bn));
                memset(&r->rn, 0x5A, sizeof(r->rn));
                memset(&r->bn2, 0x5A, sizeof(r->bn2));
                memset(&r->rn2, 0x5A, sizeof(r->rn2));
            }
        }
        else if (h_weq(l, 0, "foreach")) {
            int r, dirv = h_weq(l, 1, "rev");
            vis_n = 0; vis_stop = (int)h_int(l, 2);
            r = rb ? cstl_rbtree_foreach(&rt, visit, H_COOKIE,
                                         dirv ? CSTL_BINTREE_FOREACH_DIR_REV : CSTL_BINTREE_FOREACH_DIR_FWD)
                   : cstl_bintree_foreach(&bt, visit, H_COOKIE,
                                          dirv ? CSTL_BINTREE_FOREACH_DIR_REV : CSTL_BINTREE_FOREACH_DIR_FWD);
            printf("ok %d", vsign * r);
            for (k = 0; k < vis_n && k < MAXV; k++) printf(" %d %d", vis_ord[k], vis_id[k]);
        }
        else if (h_weq(l, 0, "clear")) {
            vis_n = 0;
            if (rb) cstl_rbtree_clear(&rt, clr, NULL); else cstl_bintree_clear(&bt, clr, NULL);
            printf("ok");
            for (k = 0; k < vis_n && k < MAXV; k++) printf(" %d", vis_id[k]);
        }
        else if (h_weq(l, 0, "height")) {
            size_t mn = 12345, mx = 12345;
            if (rb) cstl_rbtree_height(&rt, &mn, &mx); else cstl_bintree_height(&bt, &mn, &mx);
            printf("ok %zu %zu", mn, mx);
        }
        else if (h_weq(l, 0, "size")) {
            printf("ok %zu", rb ? cstl_rbtree_size(&rt) : cstl_bintree_size(&bt));
        }
        else { printf("badop %s\n", l->w[0]); return; }
        dump();
    }
}

int main(int argc, char ** argv) { return h_main(argc, argv, run_case); }
