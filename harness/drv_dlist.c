/* Correspondence driver for src/dlist.c (C12, C15). */
#include "hcommon.h"
#include "cstl/dlist.h"

#define MAXE 64
#define MAXL 8
#define BOUND 40      /* step bound of the raw link walks, same as runner/run_dlist.ml */

/* two node members: header `offs k0 k1 ..` threads list i through member k_i (0 = dn, 1 = dn2), so that
 * lists with DIFFERENT node offsets exist (cstl_dlist_swap must exchange the offsets as well) */
struct elem { int key; int id; struct cstl_dlist_node dn; long pad[3]; struct cstl_dlist_node dn2; };
static int offs[8];

static struct elem * pool[MAXE];
static int keys[MAXE], nkeys;
static struct cstl_dlist lists[MAXL];
static int nlists = 1;

#define JUNK ((struct cstl_dlist_node *)(uintptr_t)0xdeadbeef)

static struct elem * get(int id)
{
    if (id < 0 || id >= MAXE) abort();
    if (!pool[id]) {
        pool[id] = malloc(sizeof(struct elem));
        pool[id]->key = id < nkeys ? keys[id] : 0;
        pool[id]->id = id;
        pool[id]->dn.n = pool[id]->dn.p = JUNK;
        pool[id]->dn2.n = pool[id]->dn2.p = JUNK;
    }
    return pool[id];
}
static int idof(const void * e) { return e ? ((const struct elem *)e)->id : -1; }

/* node address -> element id (a head node that shows up inside a walk is
 * reported as -(100 + list number), anything else as -99) */
static int idofnode(const struct cstl_dlist_node * n)
{
    int i;
    for (i = 0; i < MAXL; i++) if (n == &lists[i].h) return -(100 + i);
    for (i = 0; i < MAXE; i++) if (pool[i] && (n == &pool[i]->dn || n == &pool[i]->dn2)) return i;
    return -99;
}

/* the contract of cstl_compare_func_t fixes only the sign of the result:
 * cmpmode 0 = -1/0/1, 1 = difference of the keys, 2 = sign times a
 * magnitude that changes from call to call */
static int cmpmode, cmp_calls;
static int cmp(const void * a, const void * b, void * p)
{
    const struct elem * x = a, * y = b;
    int s = (x->key > y->key) - (x->key < y->key);
    h_check_priv(p);
    if (cmpmode == 1) return x->key - y->key;
    if (cmpmode == 2) {
        static const int mag[] = { 1, 1000003, 2, 2147483647, 7, 65536, 3, 255 };
        return s * mag[cmp_calls++ & 7];
    }
    return s;
}

/* comparison used by find: the documented order of the arguments is (the caller's object, an object of the list)
 * ("comparing the user-supplied object with objects in the list"); a comparison that tells the two apart - a probe of
 * another shape than the elements - only works in that order */
static int cmp_find(const void * a, const void * b, void * p)
{
    const struct elem * x = a, * y = b;
    if (x->id != -7 || y->id < 0) {
        printf("badorder\n");
        fflush(stdout);
        _exit(3);
    }
    return cmp(a, b, p);
}

static int vis_log[4 * MAXE], vis_n, vis_stop, vis_erase;
static int vsign = 1;   /* sign of the visitor's non-zero answer (header vsign); the result is printed times vsign */
static struct cstl_dlist * vis_list, * vis_other;
static int visit(void * e, void * p)
{
    h_check_priv(p);
    if (vis_n < 4 * MAXE) vis_log[vis_n] = idof(e);
    vis_n++;
    if (vis_erase == 1) {
        /* unlink the visited element and release its storage */
        struct elem * x = e;
        cstl_dlist_erase(vis_list, e);
        pool[x->id] = NULL;
        memset(x, 0xA5, sizeof(*x));
        free(x);
    } else if (vis_erase == 2) {
        /* unlink the visited element and append it to another list */
        cstl_dlist_erase(vis_list, e);
        cstl_dlist_push_back(vis_other, e);
    }
    return (vis_stop > 0 && vis_n == vis_stop) ? vsign * vis_stop : 0;
}
static void clr(void * e, void * p)
{
    struct elem * x = e; (void)p;
    if (vis_n < 4 * MAXE) vis_log[vis_n] = x->id;
    vis_n++;
    pool[x->id] = NULL;
    memset(x, 0xA5, sizeof(*x));
    free(x);
}

static void dump(void)
{
    int i, k;
    for (i = 0; i < nlists; i++) {
        struct cstl_dlist * l = &lists[i];
        const struct cstl_dlist_node * c;
        printf(" | L%d: %zu %d %d", i, cstl_dlist_size(l),
               idof(cstl_dlist_front(l)), idof(cstl_dlist_back(l)));
        printf(" F");
        for (c = l->h.n, k = 0; c != &l->h && k < BOUND; c = c->n, k++) printf(" %d", idofnode(c));
        printf(" B");
        for (c = l->h.p, k = 0; c != &l->h && k < BOUND; c = c->p, k++) printf(" %d", idofnode(c));
        printf(" f");
        vis_n = 0; vis_stop = 0; vis_erase = 0;
        cstl_dlist_foreach(l, visit, H_COOKIE, CSTL_DLIST_FOREACH_DIR_FWD);
        for (k = 0; k < vis_n && k < 4 * MAXE; k++) printf(" %d", vis_log[k]);
        printf(" b");
        vis_n = 0;
        cstl_dlist_foreach(l, visit, H_COOKIE, CSTL_DLIST_FOREACH_DIR_REV);
        for (k = 0; k < vis_n && k < 4 * MAXE; k++) printf(" %d", vis_log[k]);
    }
    printf("\n");
}

static int pdir(const struct h_line * l, int i)
{
    return h_weq(l, i, "rev") ? CSTL_DLIST_FOREACH_DIR_REV : CSTL_DLIST_FOREACH_DIR_FWD;
}

static void run_case(const struct h_case * c)
{
    int i, k, started = 0;

    /* cases are tiny; a broken ring makes cstl_dlist_foreach spin forever, so do
     * not wait for hcommon.h's 20 s alarm */
    if (!h_nofork) alarm(3);
    nkeys = 0; nlists = 1; cmpmode = 0; cmp_calls = 0; vsign = 1; memset(offs, 0, sizeof(offs));
    memset(pool, 0, sizeof(pool));
    for (i = 0; i < c->nlines; i++) {
        const struct h_line * l = &c->lines[i];
        int a = (int)h_int(l, 1), b = (int)h_int(l, 2), d = (int)h_int(l, 3);
        if (h_weq(l, 0, "keys")) {
            for (k = 1; k < l->nw && k <= MAXE; k++) keys[k - 1] = (int)h_int(l, k);
            nkeys = l->nw - 1;
            continue;
        }
        if (h_weq(l, 0, "nlists")) { nlists = a; continue; }
        if (h_weq(l, 0, "cmpmode")) { cmpmode = a; continue; }
        if (h_weq(l, 0, "vsign")) { vsign = a < 0 ? -1 : 1; continue; }
        if (h_weq(l, 0, "offs")) { for (k = 1; k < l->nw && k <= MAXL; k++) offs[k - 1] = (int)h_int(l, k) ? 1 : 0; continue; }
        if (!started) {
            for (k = 0; k < nlists; k++)
                cstl_dlist_init(&lists[k], offs[k] ? offsetof(struct elem, dn2) : offsetof(struct elem, dn));
            started = 1;
        }
        if (a < 0 || a >= nlists) { printf("precond\n"); return; }
        if (h_weq(l, 0, "push_front")) { cstl_dlist_push_front(&lists[a], get(b)); printf("ok "); }
        else if (h_weq(l, 0, "push_back")) { cstl_dlist_push_back(&lists[a], get(b)); printf("ok "); }
        else if (h_weq(l, 0, "pop_front")) { printf("ok %d", idof(cstl_dlist_pop_front(&lists[a]))); }
        else if (h_weq(l, 0, "pop_back")) { printf("ok %d", idof(cstl_dlist_pop_back(&lists[a]))); }
        else if (h_weq(l, 0, "insert")) { cstl_dlist_insert(&lists[a], get(b), get(d)); printf("ok "); }
        else if (h_weq(l, 0, "erase")) { cstl_dlist_erase(&lists[a], get(b)); printf("ok "); }
        else if (h_weq(l, 0, "front")) { printf("ok %d", idof(cstl_dlist_front(&lists[a]))); }
        else if (h_weq(l, 0, "back")) { printf("ok %d", idof(cstl_dlist_back(&lists[a]))); }
        else if (h_weq(l, 0, "size")) { printf("ok %zu", cstl_dlist_size(&lists[a])); }
        else if (h_weq(l, 0, "foreach")) {
            int r;
            int o = (int)h_int(l, 5);
            vis_n = 0; vis_stop = d; vis_erase = (int)h_int(l, 4); vis_list = &lists[a];
            if (vis_erase == 2) {
                if (o < 0 || o >= nlists || o == a) { printf("precond\n"); return; }
                vis_other = &lists[o];
            }
            r = cstl_dlist_foreach(&lists[a], visit, H_COOKIE, pdir(l, 2));
            vis_erase = 0;
            printf("ok %d", vsign * r);
            for (k = 0; k < vis_n && k < 4 * MAXE; k++) printf(" %d", vis_log[k]);
        }
        else if (h_weq(l, 0, "find")) {
            struct elem probe;
            probe.key = b; probe.id = -7; probe.dn.n = probe.dn.p = JUNK;
            printf("ok %d", idof(cstl_dlist_find(&lists[a], &probe, cmp_find, H_COOKIE, pdir(l, 3))));
        }
        else if (h_weq(l, 0, "swap")) {
            if (b < 0 || b >= nlists || a == b) { printf("precond\n"); return; }
            cstl_dlist_swap(&lists[a], &lists[b]);
            printf("ok ");
        }
        else if (h_weq(l, 0, "clear")) {
            vis_n = 0;
            cstl_dlist_clear(&lists[a], clr);
            printf("ok");
            for (k = 0; k < vis_n && k < 4 * MAXE; k++) printf(" %d", vis_log[k]);
        }
        else if (h_weq(l, 0, "reverse")) { cstl_dlist_reverse(&lists[a]); printf("ok "); }
        else if (h_weq(l, 0, "sort")) { cstl_dlist_sort(&lists[a], cmp, H_COOKIE); printf("ok "); }
        else if (h_weq(l, 0, "concat")) {
            if (b < 0 || b >= nlists) { printf("precond\n"); return; }
            cstl_dlist_concat(&lists[a], &lists[b]); printf("ok ");
        }
        else { printf("badop %s\n", l->w[0]); return; }
        dump();
    }
}

int main(int argc, char ** argv) { return h_main(argc, argv, run_case); }
