/* C06 real-thread soak (thorough tier, supporting evidence only): the
 * unmodified src/memory.c built with -fsanitize=thread and the REAL
 * <stdatomic.h>; NT pthreads hammer share / weak_from / lock / reset /
 * weak_reset on ONE allocation per round.  Each round ends with every object
 * reset; the clear callback must have run exactly once, never while a thread
 * that holds an owner is looking at the memory (canary), and TSan must stay
 * silent.  usage: soak_conc <seconds> */
#define _GNU_SOURCE
#include <stdio.h>
#include <stdlib.h>
#include <stdint.h>
#include <string.h>
#include <time.h>
#include <pthread.h>
#include <stdatomic.h>
#include "cstl/memory.h"

#define NT 8
#define LIVE_MAGIC 0x600DF00Du
#define DEAD_MAGIC 0xDEADDEADu
#define OPS_PER_ROUND 400

static pthread_barrier_t bar;
static atomic_int clears, fails, stop;
static atomic_long locks_ok, locks_failed, rounds;
static cstl_shared_ptr_t root;
static cstl_shared_ptr_t sp[NT][3];
static cstl_weak_ptr_t wp[NT][2];

static void clr(void * mem, void * priv)
{
    (void)priv;
    atomic_fetch_add(&clears, 1);
    /* atomic store: a thread that wrongly still looks at the memory is an
       ownership error (counted below), not something to leave to chance */
    atomic_store((_Atomic uint32_t *)mem, DEAD_MAGIC);
}

static void look(cstl_shared_ptr_t * p)
{
    _Atomic uint32_t * m = cstl_shared_ptr_get(p);
    if (m != NULL && atomic_load(m) != LIVE_MAGIC) atomic_fetch_add(&fails, 1);
}

static uint32_t rnd(uint32_t * s)
{
    *s ^= *s << 13; *s ^= *s >> 17; *s ^= *s << 5;
    return *s;
}

static void * worker(void * arg)
{
    const int t = (int)(intptr_t)arg;
    uint32_t seed = 0x9E3779B9u * (uint32_t)(t + 1);
    int i;

    for (;;) {
        pthread_barrier_wait(&bar);          /* round set up by thread 0 */
        if (atomic_load(&stop)) break;
        for (i = 0; i < OPS_PER_ROUND; i++) {
            const uint32_t r = rnd(&seed);
            const int a = (r >> 8) % 3, b = (r >> 12) % 3, w = (r >> 16) % 2;
            switch (r % 8) {
            case 0: if (a != b) cstl_shared_ptr_share(&sp[t][a], &sp[t][b]); break;
            case 1: cstl_shared_ptr_reset(&sp[t][a]); break;
            case 2: if ((r >> 20) % 2) cstl_shared_ptr_reset(&sp[t][a]); else look(&sp[t][a]); break;
            case 3: cstl_weak_ptr_from(&wp[t][w], &sp[t][a]); break;
            case 4: case 5:
                cstl_weak_ptr_lock(&wp[t][w], &sp[t][a]);
                if (cstl_shared_ptr_get(&sp[t][a]) != NULL) { atomic_fetch_add(&locks_ok, 1); look(&sp[t][a]); }
                else atomic_fetch_add(&locks_failed, 1);
                break;
            case 6: if ((r >> 20) % 4 == 0) cstl_weak_ptr_reset(&wp[t][w]); break;
            default: look(&sp[t][a]); break;
            }
        }
        for (i = 0; i < 3; i++) cstl_shared_ptr_reset(&sp[t][i]);
        /* one more contended round of lock / reset on (mostly) dead memory */
        for (i = 0; i < 8; i++) {
            cstl_weak_ptr_lock(&wp[t][i % 2], &sp[t][0]);
            look(&sp[t][0]);
            cstl_shared_ptr_reset(&sp[t][0]);
        }
        for (i = 0; i < 2; i++) cstl_weak_ptr_reset(&wp[t][i]);
        pthread_barrier_wait(&bar);          /* everything let go: thread 0 audits */
    }
    return NULL;
}

int main(int argc, char ** argv)
{
    const int secs = argc > 1 ? atoi(argv[1]) : 30;
    pthread_t th[NT];
    time_t end = time(NULL) + secs;
    int t, i, bad = 0;

    pthread_barrier_init(&bar, NULL, NT + 1);
    cstl_shared_ptr_init(&root);
    for (t = 0; t < NT; t++) {
        for (i = 0; i < 3; i++) cstl_shared_ptr_init(&sp[t][i]);
        for (i = 0; i < 2; i++) cstl_weak_ptr_init(&wp[t][i]);
    }
    for (t = 0; t < NT; t++) pthread_create(&th[t], NULL, worker, (void *)(intptr_t)t);
    for (;;) {
        const int last = time(NULL) >= end || bad;
        if (!last) {
            uint32_t * m;
            atomic_store(&clears, 0);
            cstl_shared_ptr_alloc(&root, 64, clr);
            m = cstl_shared_ptr_get(&root);
            if (m == NULL) { printf("SOAK-FAIL alloc\n"); return 1; }
            atomic_store((_Atomic uint32_t *)m, LIVE_MAGIC);
            for (t = 0; t < NT; t++) {
                if (t % 4 != 3) cstl_shared_ptr_share(&root, &sp[t][0]);
                cstl_weak_ptr_from(&wp[t][0], &root);
            }
            cstl_shared_ptr_reset(&root);
        } else {
            atomic_store(&stop, 1);
        }
        pthread_barrier_wait(&bar);
        if (last) break;
        pthread_barrier_wait(&bar);
        atomic_fetch_add(&rounds, 1);
        if (atomic_load(&clears) != 1) {
            printf("SOAK-FAIL round %ld: memory cleared %d times\n", atomic_load(&rounds), atomic_load(&clears));
            bad = 1;
        }
        if (atomic_load(&fails) != 0) {
            printf("SOAK-FAIL round %ld: an owner saw destroyed memory\n", atomic_load(&rounds));
            bad = 1;
        }
    }
    for (t = 0; t < NT; t++) pthread_join(th[t], NULL);
    if (!bad) printf("SOAK-OK rounds=%ld locks_ok=%ld locks_failed=%ld threads=%d\n",
                     atomic_load(&rounds), atomic_load(&locks_ok), atomic_load(&locks_failed), NT);
    return bad;
}
