/* Correspondence driver for src/memory.c + the array views of src/array.c
 * (C05, C14, C20).  Same scripts and trace format as runner/run_mem.ml.
 *
 * The two library sources are #included so that the private structures
 * (struct cstl_shared_ptr_data, struct cstl_raw_array) can be decoded; the
 * code that runs is the code of $REPO.  Link with HA_WRAP_FLAGS. */
#include "hcommon.h"
#include "halloc.h"
#include <sys/mman.h>
#include "cstl/memory.h"
#include "cstl/array.h"
#include "../src/memory.c"
#include "../src/array.c"

#define MAXO 24
#define MAXX 8

union slot {
    cstl_unique_ptr_t u;
    cstl_shared_ptr_t s;    /* also cstl_weak_ptr_t */
    cstl_array_t a;
    struct cstl_guarded_ptr g;  /* kind G: the guarded pointer used directly */
};

static union slot pool_store[MAXO];
/* Where object i lives.  Normally a slot of the array above; with the header `farslots 1` object i sits in a page of its
 * own at FAR_BASE + i * 2^32, so that any two objects are a multiple of 4 GiB apart (a guard that compares truncated
 * addresses, or their truncated difference, cannot tell a stray copy from its original there). */
static union slot * slotp[MAXO];
#define FAR_BASE ((uintptr_t)0x200000000000ULL)
static char kind[MAXO];
static int nobj;
static void * extb[MAXX];
static size_t extc[MAXX];
static int next_;

static size_t kind_size(char k)
{
    switch (k) {
    case 'U': return sizeof(cstl_unique_ptr_t);
    case 'A': return sizeof(cstl_array_t);
    case 'G': return sizeof(struct cstl_guarded_ptr);
    default: return sizeof(cstl_shared_ptr_t);
    }
}

/* kind G: the script's pointer values are small integers, 0 = NULL; nothing
 * ever dereferences them */
#define GBASE 0x1000u
static void * gval_ptr(unsigned long long v)
{
    return (void *)(uintptr_t)(v ? GBASE + v : 0);
}
static long gptr_val(const void * p)
{
    return p ? (long)((uintptr_t)p - GBASE) : -1;
}

/* header `constapi 1`: every accessor that has a const variant is called
 * through it (cstl_unique_ptr_get_const, cstl_shared_ptr_get_const,
 * cstl_array_at_const, cstl_array_data_const, cstl_guarded_ptr_get_const);
 * same specification, same trace */
static int constapi;

/* block id of a pointer to the start of a live block: -1 NULL, -2 unknown */
static int blk(const void * p)
{
    int b;
    if (!p) return -1;
    b = ha_find((void *)p);
    return b >= 0 ? b : -2;
}

/* header `cbprobe w`: the clear callback re-enters the library and tries to lock weak pointer w into a
 * private shared pointer.  While a clear callback runs no owner of that memory exists any more, so the lock
 * must not yield an owner of the memory being destroyed (event 9 otherwise); the probe has no net effect on
 * any counter in a correct library (a successful lock on some OTHER live allocation is undone at once). */
static int cbprobe = -1;
/* header `cbwreset w`: the clear callback resets weak pointer w ("shared from this": an object that keeps a weak
 * reference, typically to its own allocation, and drops it when it is destroyed).  Not represented in the Coq
 * model (its callback is a logger): such cases are judged by the reference oracle and the sanitizers only. */
static int cbwreset = -1;
static int relnull;
static void junk_clr(void * p, void * q) { (void)p; (void)q; }
static cstl_shared_ptr_t probe_sp;
static void clr_log(void * p, void * priv)
{
    HA_EV(" ; 8 %d %d", blk(p), (int)(intptr_t)priv);
    if (cbprobe >= 0 && p != NULL) {
        cstl_weak_ptr_lock(&(*slotp[cbprobe]).s, &probe_sp);
        if (cstl_shared_ptr_get(&probe_sp) == p) HA_EV(" ; 9 %d", blk(p));
        cstl_shared_ptr_reset(&probe_sp);
    }
    if (cbwreset >= 0) cstl_weak_ptr_reset(&(*slotp[cbwreset]).s);
}

static int ext_index(const void * p)
{
    int e;
    for (e = 0; e < next_; e++) if (p == extb[e]) return e;
    return -1;
}

/* prints " <kind> <id> <byte offset>" of an address that has room for esz
 * bytes inside an external buffer or a live heap block; returns 0 if there
 * is no such place */
static int print_loc(char * out, const void * p, size_t esz)
{
    int e, i;
    if (!p) { sprintf(out, " -1"); return 1; }
    for (e = 0; e < next_; e++) {
        const char * b = extb[e];
        if ((const char *)p >= b && (const char *)p <= b + extc[e]
            && (size_t)((const char *)p - b) + esz <= extc[e]
            && (size_t)((const char *)p - b) + esz >= esz) {
            sprintf(out, " 1 %d %zu", e, (size_t)((const char *)p - b));
            return 1;
        }
    }
    for (i = ha_nblk - 1; i >= 0; i--) {
        const char * b = ha_blk[i].p;
        if (ha_blk[i].live && (const char *)p >= b && (const char *)p <= b + ha_blk[i].sz
            && (size_t)((const char *)p - b) + esz <= ha_blk[i].sz
            && (size_t)((const char *)p - b) + esz >= esz) {
            sprintf(out, " 0 %d %zu", i, (size_t)((const char *)p - b));
            return 1;
        }
    }
    return 0;
}

static struct cstl_guarded_ptr * gp_of(int i)
{
    switch (kind[i]) {
    case 'U': return &(*slotp[i]).u.gp;
    case 'A': return &(*slotp[i]).a.ptr.data;
    case 'G': return &(*slotp[i]).g;
    default: return &(*slotp[i]).s.data;
    }
}

/* the struct cstl_raw_array a (possibly stray) array object leads to, read
 * without going through the guarded getters; NULL if any link is not a
 * live block */
static const struct cstl_raw_array * raw_of(int i)
{
    const struct cstl_guarded_ptr * g = gp_of(i);
    const struct cstl_shared_ptr_data * d;
    int b = blk(g->ptr);
    if (b < 0 || ha_block_size(b) < sizeof(*d)) return NULL;
    d = g->ptr;
    b = blk(d->up.gp.ptr);
    if (b < 0 || ha_block_size(b) < sizeof(struct cstl_raw_array)) return NULL;
    return d->up.gp.ptr;
}

static void dump(void)
{
    int i, j;
    for (i = 0; i < nobj; i++) {
        const struct cstl_guarded_ptr * g = gp_of(i);
        int p = blk(g->ptr);
        printf(" | %c%d self=", kind[i], i);
        for (j = 0; j < nobj; j++) if (g->self == (void *)&(*slotp[j])) break;
        if (j < nobj) printf("%d", j); else printf("?");
        if (kind[i] == 'G') { printf(" p=%ld", gptr_val(g->ptr)); continue; }
        printf(" p=%d", p);
        if (kind[i] == 'U') {
            printf(" c=%d", (*slotp[i]).u.clr.func == clr_log ? (int)(intptr_t)(*slotp[i]).u.clr.priv
                   : (*slotp[i]).u.clr.func == NULL ? -1 : -3);
            continue;
        }
        if (p >= 0 && ha_block_size(p) >= sizeof(struct cstl_shared_ptr_data)) {
            struct cstl_shared_ptr_data * d = g->ptr;
            printf(" h=%zu s=%zu m=%d c=%d", (size_t)atomic_load(&d->ref.hard),
                   (size_t)atomic_load(&d->ref.soft), blk(d->up.gp.ptr),
                   d->up.clr.func == clr_log ? (int)(intptr_t)d->up.clr.priv
                   : d->up.clr.func == NULL ? -1 : -3);
        } else if (p >= 0) {
            printf(" nodata");
        }
        if (kind[i] == 'A') {
            const struct cstl_raw_array * ra = raw_of(i);
            printf(" off=%zu len=%zu", (*slotp[i]).a.off, (*slotp[i]).a.len);
            if (ra) {
                printf(" sz=%zu nm=%zu buf=", ra->sz, ra->nm);
                if (ra->buf == (void *)(ra + 1)) printf("I");
                else if (ext_index(ra->buf) >= 0) printf("E%d", ext_index(ra->buf));
                else printf("?");
            }
        }
    }
}

static void obj_init(int i)
{
    switch (kind[i]) {
    case 'U': cstl_unique_ptr_init(&(*slotp[i]).u); break;
    case 'S': cstl_shared_ptr_init(&(*slotp[i]).s); break;
    case 'W': cstl_weak_ptr_init(&(*slotp[i]).s); break;
    case 'A': cstl_array_init(&(*slotp[i]).a); break;
    case 'G': cstl_guarded_ptr_init(&(*slotp[i]).g); break;
    }
}
static void obj_reset(int i)
{
    switch (kind[i]) {
    case 'U': cstl_unique_ptr_reset(&(*slotp[i]).u); break;
    case 'S': cstl_shared_ptr_reset(&(*slotp[i]).s); break;
    case 'W': cstl_weak_ptr_reset(&(*slotp[i]).s); break;
    case 'A': cstl_array_reset(&(*slotp[i]).a); break;
    case 'G': cstl_guarded_ptr_init(&(*slotp[i]).g); break;   /* owns nothing */
    }
}

static void die_fault(void)
{
    fflush(stdout);
    _exit(79);
}

static void run_case(const struct h_case * c)
{
    int i, k, started = 0;

    ha_reset();
    nobj = 0; next_ = 0; cbprobe = -1; cbwreset = -1; constapi = 0; relnull = 0; cstl_shared_ptr_init(&probe_sp);
    for (i = 0; i < MAXO; i++) slotp[i] = &pool_store[i];
    for (i = 0; i < c->nlines; i++) {
        const struct h_line * l = &c->lines[i];
        int nw = l->nw, a, b, marks[H_MAXW], nmarks = 0;
        unsigned long long x2, x3, x4;
        char locbuf[96];

        if (h_weq(l, 0, "pool")) {
            for (k = 1; k < l->nw && k <= MAXO; k++) kind[k - 1] = l->w[k][0];
            nobj = l->nw - 1 > MAXO ? MAXO : l->nw - 1;
            continue;
        }
        if (h_weq(l, 0, "ext")) {
            for (k = 1; k < l->nw && k <= MAXX; k++) {
                extc[k - 1] = (size_t)h_u64(l, k);
                extb[k - 1] = __real_malloc(extc[k - 1] ? extc[k - 1] : 1);
            }
            next_ = l->nw - 1 > MAXX ? MAXX : l->nw - 1;
            continue;
        }
        if (h_weq(l, 0, "fail")) {
            for (k = 1; k < l->nw; k++)
                if (h_u64(l, k) < sizeof(ha_fail)) ha_fail[h_u64(l, k)] = 1;
            continue;
        }
        if (h_weq(l, 0, "failfrom")) { ha_fail_from = (long)h_int(l, 1); continue; }
        if (h_weq(l, 0, "cbprobe")) { cbprobe = (int)h_int(l, 1); continue; }
        if (h_weq(l, 0, "cbwreset")) { cbwreset = (int)h_int(l, 1); continue; }
        if (h_weq(l, 0, "relnull")) { relnull = (int)h_int(l, 1); continue; }
        if (h_weq(l, 0, "constapi")) { constapi = (int)h_int(l, 1); continue; }
        if (h_weq(l, 0, "farslots")) {
            if (h_int(l, 1)) for (k = 0; k < MAXO; k++) {
                void * m = mmap((void *)(FAR_BASE + ((uintptr_t)k << 32)), 4096, PROT_READ | PROT_WRITE,
                                MAP_PRIVATE | MAP_ANONYMOUS | MAP_FIXED_NOREPLACE, -1, 0);
                if (m != (void *)(FAR_BASE + ((uintptr_t)k << 32))) { printf("precond\n"); return; }   /* no room there */
                slotp[k] = m;
            }
            continue;
        }
        if (!started) {
            for (k = 0; k < nobj; k++) obj_init(k);
            started = 1;
        }
        /* "! k1 k2": relative ordinals of requests that fail in this call */
        for (k = 0; k < l->nw; k++) {
            if (strcmp(l->w[k], "!") == 0) {
                int q;
                nw = k;
                for (q = k + 1; q < l->nw; q++) {
                    unsigned long o = ha_ord + (unsigned long)h_int(l, q);
                    if (o < sizeof(ha_fail) && !ha_fail[o]) { ha_fail[o] = 1; marks[nmarks++] = (int)o; }
                }
                break;
            }
        }
        a = (int)h_int(l, 1); b = (int)h_int(l, 2);
        x2 = h_u64(l, 2); x3 = h_u64(l, 3); x4 = h_u64(l, 4);
        (void)nw;
        if (a < 0 || a >= nobj) { printf("precond\n"); return; }

        ha_active = 1;
        if (h_weq(l, 0, "uinit")) { cstl_unique_ptr_init(&(*slotp[a]).u); ha_active = 0; printf("ok "); }
        else if (h_weq(l, 0, "ualloc")) {
            long cb = (long)h_int(l, 3);
            cstl_unique_ptr_alloc(&(*slotp[a]).u, (size_t)x2, cb >= 0 ? clr_log : NULL,
                                  cb >= 0 ? (void *)(intptr_t)cb : NULL);
            ha_active = 0; printf("ok ");
        }
        else if (h_weq(l, 0, "uget")) {
            const void * p = constapi ? cstl_unique_ptr_get_const(&(*slotp[a]).u) : cstl_unique_ptr_get(&(*slotp[a]).u);
            ha_active = 0; printf("ok %d", blk(p));
        }
        else if (h_weq(l, 0, "urelease")) {
            /* both outputs must be overwritten, also when the pointer manages nothing */
            cstl_xtor_func_t * f = junk_clr; void * priv = (void *)&pool_store;
            void * p = cstl_unique_ptr_release(&(*slotp[a]).u, &f, &priv);
            int pb = blk(p);
            free(p);                      /* the caller owns it now */
            ha_active = 0;
            printf("ok %d %d", pb, f == clr_log ? (int)(intptr_t)priv : f == NULL ? -1 : -3);
        }
        else if (h_weq(l, 0, "uswap")) {
            if (b < 0 || b >= nobj) { printf("precond\n"); return; }
            cstl_unique_ptr_swap(&(*slotp[a]).u, &(*slotp[b]).u); ha_active = 0; printf("ok ");
        }
        else if (h_weq(l, 0, "ureset")) { cstl_unique_ptr_reset(&(*slotp[a]).u); ha_active = 0; printf("ok "); }
        else if (h_weq(l, 0, "sinit")) { cstl_shared_ptr_init(&(*slotp[a]).s); ha_active = 0; printf("ok "); }
        else if (h_weq(l, 0, "salloc")) {
            cstl_shared_ptr_alloc(&(*slotp[a]).s, (size_t)x2, h_int(l, 3) ? clr_log : NULL);
            ha_active = 0; printf("ok ");
        }
        else if (h_weq(l, 0, "sget")) {
            const void * p = constapi ? cstl_shared_ptr_get_const(&(*slotp[a]).s) : cstl_shared_ptr_get(&(*slotp[a]).s);
            ha_active = 0; printf("ok %d", blk(p));
        }
        else if (h_weq(l, 0, "sunique")) {
            int u = cstl_shared_ptr_unique(&(*slotp[a]).s);
            ha_active = 0; printf("ok %d", u);
        }
        else if (h_weq(l, 0, "sshare")) {
            if (b < 0 || b >= nobj) { printf("precond\n"); return; }
            cstl_shared_ptr_share(&(*slotp[a]).s, &(*slotp[b]).s); ha_active = 0; printf("ok ");
        }
        else if (h_weq(l, 0, "sswap")) {
            if (b < 0 || b >= nobj) { printf("precond\n"); return; }
            cstl_shared_ptr_swap(&(*slotp[a]).s, &(*slotp[b]).s); ha_active = 0; printf("ok ");
        }
        else if (h_weq(l, 0, "sreset")) { cstl_shared_ptr_reset(&(*slotp[a]).s); ha_active = 0; printf("ok "); }
        else if (h_weq(l, 0, "winit")) { cstl_weak_ptr_init(&(*slotp[a]).s); ha_active = 0; printf("ok "); }
        else if (h_weq(l, 0, "wfrom")) {
            if (b < 0 || b >= nobj) { printf("precond\n"); return; }
            cstl_weak_ptr_from(&(*slotp[a]).s, &(*slotp[b]).s); ha_active = 0; printf("ok ");
        }
        else if (h_weq(l, 0, "wlock")) {
            if (b < 0 || b >= nobj) { printf("precond\n"); return; }
            cstl_weak_ptr_lock(&(*slotp[a]).s, &(*slotp[b]).s); ha_active = 0; printf("ok ");
        }
        else if (h_weq(l, 0, "wswap")) {
            if (b < 0 || b >= nobj) { printf("precond\n"); return; }
            cstl_weak_ptr_swap(&(*slotp[a]).s, &(*slotp[b]).s); ha_active = 0; printf("ok ");
        }
        else if (h_weq(l, 0, "wreset")) { cstl_weak_ptr_reset(&(*slotp[a]).s); ha_active = 0; printf("ok "); }
        else if (h_weq(l, 0, "straycopy")) {
            ha_active = 0;
            if (b < 0 || b >= nobj) { printf("precond\n"); return; }
            memcpy(&(*slotp[b]), &(*slotp[a]), kind_size(kind[a]));
            printf("ok ");
        }
        else if (h_weq(l, 0, "ginit")) { cstl_guarded_ptr_init(&(*slotp[a]).g); ha_active = 0; printf("ok "); }
        else if (h_weq(l, 0, "gset")) { cstl_guarded_ptr_set(&(*slotp[a]).g, gval_ptr(x2)); ha_active = 0; printf("ok "); }
        else if (h_weq(l, 0, "gget")) {
            const void * p = constapi ? cstl_guarded_ptr_get_const(&(*slotp[a]).g) : cstl_guarded_ptr_get(&(*slotp[a]).g);
            ha_active = 0; printf("ok %ld", gptr_val(p));
        }
        else if (h_weq(l, 0, "ggetc")) {
            const void * p = cstl_guarded_ptr_get_const(&(*slotp[a]).g);
            ha_active = 0; printf("ok %ld", gptr_val(p));
        }
        else if (h_weq(l, 0, "gcopy")) {          /* gcopy dst src */
            if (b < 0 || b >= nobj) { printf("precond\n"); return; }
            cstl_guarded_ptr_copy(&(*slotp[a]).g, &(*slotp[b]).g); ha_active = 0; printf("ok ");
        }
        else if (h_weq(l, 0, "gswap")) {
            if (b < 0 || b >= nobj) { printf("precond\n"); return; }
            cstl_guarded_ptr_swap(&(*slotp[a]).g, &(*slotp[b]).g); ha_active = 0; printf("ok ");
        }
        else if (h_weq(l, 0, "ainit")) { cstl_array_init(&(*slotp[a]).a); ha_active = 0; printf("ok "); }
        else if (h_weq(l, 0, "aalloc")) {
            cstl_array_alloc(&(*slotp[a]).a, (size_t)x2, (size_t)x3); ha_active = 0; printf("ok ");
        }
        else if (h_weq(l, 0, "aset")) {
            if (b < 0 || b >= next_) { printf("precond\n"); return; }
            cstl_array_set(&(*slotp[a]).a, extb[b], (size_t)x3, (size_t)x4); ha_active = 0; printf("ok ");
        }
        else if (h_weq(l, 0, "arelease")) {
            void * p = (void *)&pool_store;     /* must be overwritten */
            if (relnull) {
                /* header `relnull 1`: the out-parameter is NULL ("may be NULL"); what would have been handed back is
                 * what the object referred to before, if it lets go of it */
                const void * before = cstl_array_data_const(&(*slotp[a]).a);
                cstl_array_release(&(*slotp[a]).a, NULL);
                p = (before != NULL && cstl_array_data_const(&(*slotp[a]).a) == NULL) ? (void *)before : NULL;
            } else
            cstl_array_release(&(*slotp[a]).a, &p);
            ha_active = 0;
            printf("ok %d", p ? (ext_index(p) >= 0 ? ext_index(p) : -2) : -1);
        }
        else if (h_weq(l, 0, "adata")) {
            const void * p = constapi ? cstl_array_data_const(&(*slotp[a]).a) : cstl_array_data(&(*slotp[a]).a);
            ha_active = 0;
            if (!print_loc(locbuf, p, 0)) { fprintf(stderr, "adata: address outside every live buffer\n"); die_fault(); }
            printf("ok%s", locbuf);
        }
        else if (h_weq(l, 0, "aat")) {
            void * p = constapi ? (void *)cstl_array_at_const(&(*slotp[a]).a, (size_t)x2)
                                : cstl_array_at(&(*slotp[a]).a, (size_t)x2);
            const struct cstl_raw_array * ra = raw_of(a);
            size_t esz = ra ? ra->sz : 1;
            ha_active = 0;
            if (!p) die_fault();
            if (!print_loc(locbuf, p, esz)) { fprintf(stderr, "aat: address outside every live buffer\n"); die_fault(); }
            printf("ok%s", locbuf);
            /* the access the caller is entitled to make */
            if (esz > 0 && esz <= 4096) memset(p, 0x5a, esz);
        }
        else if (h_weq(l, 0, "asize")) {
            size_t n = cstl_array_size(&(*slotp[a]).a);
            ha_active = 0; printf("ok %zu", n);
        }
        else if (h_weq(l, 0, "aslice")) {
            int t = (int)h_int(l, 4);
            if (t < 0 || t >= nobj) { printf("precond\n"); return; }
            cstl_array_slice(&(*slotp[a]).a, (size_t)x2, (size_t)x3, &(*slotp[t]).a); ha_active = 0; printf("ok ");
        }
        else if (h_weq(l, 0, "aunslice")) {
            if (b < 0 || b >= nobj) { printf("precond\n"); return; }
            cstl_array_unslice(&(*slotp[a]).a, &(*slotp[b]).a); ha_active = 0; printf("ok ");
        }
        else if (h_weq(l, 0, "areset")) { cstl_array_reset(&(*slotp[a]).a); ha_active = 0; printf("ok "); }
        else { ha_active = 0; printf("badop %s\n", l->w[0]); return; }

        for (k = 0; k < nmarks; k++) ha_fail[marks[k]] = 0;
        dump();
        ha_print_events();
        printf("\n");
    }
    if (!started) for (k = 0; k < nobj; k++) obj_init(k);
    /* reset every object (stray copies can only be re-initialised) */
    ha_active = 1;
    for (k = 0; k < nobj; k++) {
        if (gp_of(k)->self != (void *)&(*slotp[k])) obj_init(k);
        else obj_reset(k);
    }
    ha_active = 0;
    printf("final %d", ha_live_count());
    ha_print_events();
    printf("\n");
}

int main(int argc, char ** argv) { return h_main(argc, argv, run_case); }
