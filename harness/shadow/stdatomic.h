/* Shadow <stdatomic.h> for the C06 correspondence driver (harness/drv_conc.c).
 * Put first on the include path (-Iharness/shadow) so that the UNMODIFIED
 * src/memory.c compiles against it.  Counters are struct-wrapped (any direct
 * arithmetic on them in the library would not compile); every operation is
 * performed out of line by the driver, where it is a yield point of the
 * deterministic coroutine scheduler and is logged with its returned value.
 * Only the seq_cst forms used by memory.c map to plain steps; the _explicit
 * forms exist so that a change to a weaker ordering still compiles and is
 * reported (event "ev:weakorder") instead of being silently treated as SC. */
#ifndef SHADOW_STDATOMIC_H
#define SHADOW_STDATOMIC_H
#include <stddef.h>
#include <stdbool.h>

typedef struct { size_t v; } atomic_size_t;
typedef struct { int v; } atomic_flag;
#define ATOMIC_FLAG_INIT { 0 }

typedef enum {
    memory_order_relaxed, memory_order_consume, memory_order_acquire,
    memory_order_release, memory_order_acq_rel, memory_order_seq_cst
} memory_order;

enum shadow_kind {
    SHK_INIT, SHK_LOAD, SHK_STORE, SHK_FETCH_ADD, SHK_FETCH_SUB, SHK_TAS, SHK_FLAG_CLEAR
};

size_t shadow_size_op(enum shadow_kind k, const volatile atomic_size_t * p, size_t arg, memory_order mo);
int shadow_flag_op(enum shadow_kind k, volatile atomic_flag * p, memory_order mo);

#define atomic_init(p, val)        ((void)shadow_size_op(SHK_INIT, (p), (val), memory_order_seq_cst))
#define atomic_load(p)             shadow_size_op(SHK_LOAD, (p), 0, memory_order_seq_cst)
#define atomic_store(p, val)       ((void)shadow_size_op(SHK_STORE, (p), (val), memory_order_seq_cst))
#define atomic_fetch_add(p, x)     shadow_size_op(SHK_FETCH_ADD, (p), (x), memory_order_seq_cst)
#define atomic_fetch_sub(p, x)     shadow_size_op(SHK_FETCH_SUB, (p), (x), memory_order_seq_cst)
#define atomic_flag_test_and_set(p) ((bool)shadow_flag_op(SHK_TAS, (p), memory_order_seq_cst))
#define atomic_flag_clear(p)       ((void)shadow_flag_op(SHK_FLAG_CLEAR, (p), memory_order_seq_cst))

#define atomic_load_explicit(p, mo)          shadow_size_op(SHK_LOAD, (p), 0, (mo))
#define atomic_store_explicit(p, val, mo)    ((void)shadow_size_op(SHK_STORE, (p), (val), (mo)))
#define atomic_fetch_add_explicit(p, x, mo)  shadow_size_op(SHK_FETCH_ADD, (p), (x), (mo))
#define atomic_fetch_sub_explicit(p, x, mo)  shadow_size_op(SHK_FETCH_SUB, (p), (x), (mo))
#define atomic_flag_test_and_set_explicit(p, mo) ((bool)shadow_flag_op(SHK_TAS, (p), (mo)))
#define atomic_flag_clear_explicit(p, mo)    ((void)shadow_flag_op(SHK_FLAG_CLEAR, (p), (mo)))
#endif
