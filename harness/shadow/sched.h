/* Shadow <sched.h>: the real header, with sched_yield() redirected to the
 * deterministic scheduler of harness/drv_conc.c (recorded as "ev:yield"; the
 * retry of the test-and-set that follows is the yield point). */
#ifndef SHADOW_SCHED_H
#define SHADOW_SCHED_H
#include_next <sched.h>
int shadow_sched_yield(void);
#define sched_yield shadow_sched_yield
#endif
