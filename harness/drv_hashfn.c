/* Correspondence driver for the built-in hash functions of src/hash.c
 * (C17 a): cstl_hash_div, cstl_hash_mul.
 *
 * Script lines inside a case:
 *   env                      -> "ok flt_eval_method=<n> round_nearest=<0|1> phi_bits=<n> size_t_bits=<n>"
 *                               (facts about the target the Coq model assumes)
 *   mul <k> <m>              -> "ok <cstl_hash_mul(k, m)>"
 *   div <k> <m>              -> "ok <cstl_hash_div(k, m)>"   (m >= 1)
 *   sweep <klo> <khi> <m>... -> calls cstl_hash_mul(k, m) for every klo <= k < khi
 *                               and every listed m; prints
 *                               "ok calls=<n> top=<n> viol=<n>" followed by up to
 *                               8 " <k>:<m>:<r>" triples with r >= m
 *                               (top = number of calls that returned m - 1)
 * No floating-point value is ever printed. */
#include "hcommon.h"
/* hash.h of the unchanged tree defines cstl_hash_size/cstl_hash_load with
 * external linkage (finding F1, property C18): a second translation unit
 * including it does not link.  Rename this unit's copies; works before and
 * after that defect is repaired. */
#define cstl_hash_size drv_unused_cstl_hash_size
#define cstl_hash_load drv_unused_cstl_hash_load
#include "cstl/hash.h"
#undef cstl_hash_size
#undef cstl_hash_load
#include <float.h>
#include <fenv.h>

static void run_case(const struct h_case * c)
{
    int i, j;

    for (i = 0; i < c->nlines; i++) {
        const struct h_line * l = &c->lines[i];

        if (h_weq(l, 0, "env")) {
            /* the same literal as in src/hash.c, converted by the same compiler */
            static const float phi = 1.61803398875f;
            uint32_t bits;
            memcpy(&bits, &phi, sizeof(bits));
            printf("ok flt_eval_method=%d round_nearest=%d phi_bits=%lu size_t_bits=%d float_bits=%d\n",
                   (int)FLT_EVAL_METHOD, fegetround() == FE_TONEAREST,
                   (unsigned long)bits, (int)(8 * sizeof(size_t)),
                   (int)(8 * sizeof(float)) + (FLT_MANT_DIG == 24 && FLT_MAX_EXP == 128 ? 0 : 1000));
        } else if (h_weq(l, 0, "mul")) {
            printf("ok %zu\n", cstl_hash_mul((size_t)h_u64(l, 1), (size_t)h_u64(l, 2)));
        } else if (h_weq(l, 0, "div")) {
            printf("ok %zu\n", cstl_hash_div((size_t)h_u64(l, 1), (size_t)h_u64(l, 2)));
        } else if (h_weq(l, 0, "sweep")) {
            const size_t lo = (size_t)h_u64(l, 1), hi = (size_t)h_u64(l, 2);
            unsigned long long calls = 0, top = 0, viol = 0;
            size_t vk[8], vm[8], vr[8], k;
            for (j = 3; j < l->nw; j++) {
                const size_t m = (size_t)h_u64(l, j);
                for (k = lo; k < hi; k++) {
                    const size_t r = cstl_hash_mul(k, m);
                    calls++;
                    if (r >= m) {
                        if (viol < 8) { vk[viol] = k; vm[viol] = m; vr[viol] = r; }
                        viol++;
                    } else if (r == m - 1) {
                        top++;
                    }
                }
            }
            printf("ok calls=%llu top=%llu viol=%llu", calls, top, viol);
            for (j = 0; j < 8 && (unsigned long long)j < viol; j++) {
                printf(" %zu:%zu:%zu", vk[j], vm[j], vr[j]);
            }
            printf("\n");
        } else {
            printf("badop %s\n", l->w[0]);
        }
    }
}

int main(int argc, char ** argv)
{
    return h_main(argc, argv, run_case);
}
