/* Correspondence driver for src/map.c (C08, C15, C16).
 * map.c is #included so the private node structure can be decoded for the
 * shape dump; the other library sources are linked normally. */
#include "hcommon.h"
#include "halloc.h"
#include "map.c"

#define MAXK 64
#define MAXV 256

static int keytab[MAXK];          /* keytab[i] == i; keys passed by address */
static int valtab[MAXV];
static cstl_map_t map;
static int cmp_mod;               /* compare keys modulo cmp_mod when > 0 */
static int cmpmode, cmpcalls;

static int ptrrep;                /* 1: keys/values are integers cast to pointers (0 == NULL) */
/* header `cmpnest 1`: the comparison function of the map under test looks two things up in ANOTHER map before it
 * answers (keys ordered by a rank kept in a second map); nothing of the outer operation may be disturbed by that */
static int cmpnest;
static cstl_map_t rankmap;
static int rankkeys[3] = { 10, 20, 30 };
static char rank_cookie;
static int rcmp(const void * a, const void * b, void * p)
{
    h_check_priv2(p, &rank_cookie);
    return (*(const int *)a > *(const int *)b) - (*(const int *)a < *(const int *)b);
}
static int kcmp(const void * a, const void * b, void * p)
{
    int x = ptrrep ? (int)(uintptr_t)a : *(const int *)a;
    int y = ptrrep ? (int)(uintptr_t)b : *(const int *)b;
    h_check_priv(p);
    if (cmpnest) {
        cstl_map_iterator_t ri;
        cstl_map_find(&rankmap, &rankkeys[x & 1], &ri);
        cstl_map_find(&rankmap, &rankkeys[2], &ri);
        if (ri.key != &rankkeys[2]) { printf("badnest\n"); fflush(stdout); _exit(3); }
    }
    if (cmp_mod > 0) { x %= cmp_mod; y %= cmp_mod; }
    cmpcalls++;
    if (cmpmode == 1) return x - y;
    if (cmpmode == 2) return ((x > y) - (x < y)) * (1 + (cmpcalls * 7) % 13);
    return (x > y) - (x < y);
}
/* decode a key/value pointer of an entry that is present (pr != 0) or of an end iterator */
static int kidp(const void * k, int pr)
{
    if (!pr) return k ? -2 : -1;
    if (ptrrep) return (int)(uintptr_t)k;
    return k ? (int)((const int *)k - keytab) : -3;
}
static int vidp(const void * v, int pr)
{
    if (!pr) return v ? -2 : -1;
    if (ptrrep) return (int)(uintptr_t)v;
    return v ? (int)((const int *)v - valtab) : -3;
}
static const void * kptr(int k) { return ptrrep ? (const void *)(uintptr_t)k : (const void *)&keytab[k]; }
static void * vptr(int v) { return ptrrep ? (void *)(uintptr_t)v : (void *)&valtab[v]; }

/* per callback: key, val, number of live heap blocks at the time of the call (the node the
 * entry lives in must still be allocated while the user callback runs: map.c frees it afterwards) */
static int clr_log[3 * MAXV], clr_n, clr_bad;
/* header `nestclear 1`: the clear callback clears a second, always empty map with another callback and
 * context before it returns (maps whose values own maps do this); it must not disturb the outer clear */
static int nestclear;
static cstl_map_t auxmap;
static char aux_cookie;
static void clr_aux(void * ip, void * p) { (void)ip; (void)p; clr_bad = 1; }   /* the auxiliary map is empty: never called */
static void clr(void * ip, void * p)
{
    cstl_map_iterator_t * i = ip;
    h_check_priv2(p, H_COOKIE2);   /* the clear context is not the comparison context */
    if (nestclear) cstl_map_clear(&auxmap, clr_aux, &aux_cookie);
    if (clr_n < MAXV) {
        clr_log[3 * clr_n] = kidp(i->key, 1); clr_log[3 * clr_n + 1] = vidp(i->val, 1);
        clr_log[3 * clr_n + 2] = ha_live_count();
    }
    if (i->_ != NULL) clr_bad = 1;
    clr_n++;
}

static int malformed;
static void shape(const struct cstl_bintree_node * n, const struct cstl_bintree_node * parent, int depth)
{
    const struct cstl_rbtree_node * rn;
    const struct cstl_map_node * mn;
    if (!n) { printf(" ."); return; }
    if (depth > 200) { malformed = 1; printf(" !"); return; }
    if (n->p != parent) malformed = 1;
    rn = (const void *)((const char *)n - offsetof(struct cstl_rbtree_node, n));
    mn = (const void *)((const char *)rn - offsetof(struct cstl_map_node, n));
    printf(" (%d:%d%c", kidp(mn->key, 1), vidp(mn->val, 1), rn->c == CSTL_RBTREE_COLOR_R ? 'R' : 'B');
    shape(n->l, n, depth + 1);
    shape(n->r, n, depth + 1);
    printf(")");
}

static void dump(void)
{
    /* size field, then the number of calls of the user comparison made by this operation */
    printf(" | %zu | %d |", cstl_map_size(&map), cmpcalls);
    malformed = 0;
    shape(map.t.t.root, NULL, 0);
    if (malformed) printf(" MALFORMED");
    ha_print_events();
    printf("\n");
}

static void run_case(const struct h_case * c)
{
    int i, k, started = 0;
    cstl_map_iterator_t it;

    for (i = 0; i < MAXK; i++) keytab[i] = i;
    ha_reset();
    cmp_mod = 0; cmpmode = 0; cmpcalls = 0; ptrrep = 0; nestclear = 0; cmpnest = 0;
    for (i = 0; i < c->nlines; i++) {
        const struct h_line * l = &c->lines[i];
        int a = (int)h_int(l, 1), b = (int)h_int(l, 2), rc;
        if (h_weq(l, 0, "fail")) { for (k = 1; k < l->nw; k++) if (h_int(l, k) < 4096) ha_fail[h_int(l, k)] = 1; continue; }
        if (h_weq(l, 0, "failfrom")) { ha_fail_from = a; continue; }
        if (h_weq(l, 0, "cmpmod")) { cmp_mod = a; continue; }
        if (h_weq(l, 0, "cmpmode")) { cmpmode = a; continue; }
        if (h_weq(l, 0, "ptrrep")) { ptrrep = a; continue; }
        if (h_weq(l, 0, "nestclear")) { nestclear = a; continue; }
        if (h_weq(l, 0, "cmpnest")) { cmpnest = a; continue; }
        if (!started) {
            cstl_map_init(&map, kcmp, H_COOKIE); cstl_map_init(&auxmap, kcmp, H_COOKIE);
            if (cmpnest) {
                /* set up outside the accounted allocations (ha_active == 0 here) */
                cstl_map_init(&rankmap, rcmp, &rank_cookie);
                for (k = 0; k < 3; k++) cstl_map_insert(&rankmap, &rankkeys[k], NULL, NULL);
            }
            started = 1;
        }
        if (a < 0 || a >= MAXK || b < 0 || b >= MAXV) { printf("precond\n"); return; }
        ha_active = 1;
        cmpcalls = 0;
        if (h_weq(l, 0, "insert")) {
            rc = cstl_map_insert(&map, kptr(a), vptr(b), &it);
            ha_active = 0;
            printf("ok %d %d %d %d", rc, kidp(it.key, it._ != NULL), vidp(it.val, it._ != NULL), it._ != NULL);
        } else if (h_weq(l, 0, "insert_noiter")) {
            rc = cstl_map_insert(&map, kptr(a), vptr(b), NULL);
            ha_active = 0;
            printf("ok %d", rc);
        } else if (h_weq(l, 0, "find")) {
            cstl_map_find(&map, kptr(a), &it);
            ha_active = 0;
            printf("ok %d %d %d", kidp(it.key, it._ != NULL), vidp(it.val, it._ != NULL),
                   !cstl_map_iterator_eq(&it, cstl_map_iterator_end(&map)));
        } else if (h_weq(l, 0, "erase")) {
            rc = cstl_map_erase(&map, kptr(a), &it);
            ha_active = 0;
            printf("ok %d %d %d %d", rc, kidp(it.key, rc == 0), vidp(it.val, rc == 0), it._ != NULL);
        } else if (h_weq(l, 0, "erase_noiter")) {
            rc = cstl_map_erase(&map, kptr(a), NULL);
            ha_active = 0;
            printf("ok %d", rc);
        } else if (h_weq(l, 0, "erase_iter")) {
            cstl_map_find(&map, kptr(a), &it);
            if (cstl_map_iterator_eq(&it, cstl_map_iterator_end(&map))) { ha_active = 0; printf("precond\n"); return; }
            cstl_map_erase_iterator(&map, &it);
            ha_active = 0;
            printf("ok");
        } else if (h_weq(l, 0, "size")) {
            ha_active = 0;
            printf("ok %zu", cstl_map_size(&map));
        } else if (h_weq(l, 0, "clear") || h_weq(l, 0, "clear_nocb")) {
            clr_n = 0; clr_bad = 0;
            cstl_map_clear(&map, h_weq(l, 0, "clear") ? clr : NULL, H_COOKIE2);
            ha_active = 0;
            printf("ok");
            for (k = 0; k < clr_n && k < MAXV; k++) printf(" %d %d %d", clr_log[3 * k], clr_log[3 * k + 1], clr_log[3 * k + 2]);
            if (clr_bad) printf(" BADITER");
        } else if (h_weq(l, 0, "live")) {
            ha_active = 0;
            printf("ok %d", ha_live_count());
        } else { ha_active = 0; printf("badop %s\n", l->w[0]); return; }
        dump();
    }
}

int main(int argc, char ** argv) { return h_main(argc, argv, run_case); }
