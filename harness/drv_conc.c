/* Correspondence driver for C06: deterministic schedules on the REAL
 * src/memory.c, compiled unmodified against harness/shadow/{stdatomic,sched}.h.
 *
 * A case = initial reference configuration (per thread: counted shared
 * objects, empty shared objects, counted weak objects, empty weak objects,
 * all referring to ONE allocation) + one program per thread + a schedule
 * (list of thread ids).  Every thread is a ucontext coroutine; every atomic
 * operation of memory.c (shadow header), the clear callback, free() of the
 * bookkeeping block and cstl_shared_ptr_get are yield points: the thread
 * stops BEFORE performing them and the scheduler hands control to the
 * thread named next in the schedule (entries naming finished/non-existent
 * threads are skipped; after the schedule is exhausted, round-robin until all
 * threads have finished or STEP_BOUND steps were made -> "stuck").
 *
 * Output (same as runner/run_conc.ml):
 *   init H S MEM DATA
 *   s TID LABEL RET [ev:...]* [done OP RESULT]     one line per step
 *   [race TID TID]  [stuck]
 *   fin H S LOCK MEM DATA err=E | t0 sh 01 wk 0 | ...
 *
 * Freed blocks are quarantined (never handed back while the case runs) and
 * marked dead; every later access through the shadow atomics, get or the
 * clear path is reported as "ev:uaf", a second clear/free as "ev:double". */
#include "hcommon.h"
#include <ucontext.h>
#include <stdatomic.h>
#include <sched.h>
#include "cstl/memory.h"

void * __real_malloc(size_t);
void __real_free(void *);

#define MAXT 8
#define MAXO 8
#define MAXOPS 64
#define STEP_BOUND 4000
#define STACKSZ (256 * 1024)

enum opk { O_SHARE, O_RESET, O_WEAKFROM, O_LOCK, O_WEAKRESET, O_GET };
static const char * const opname[] = { "share", "reset", "weakfrom", "lock", "weakreset", "get" };
struct opr { enum opk k; int a, b; };

/* step kinds = labels of the model */
enum lab { L_NOP, L_GET0, L_GET1, L_SUBHARD, L_ADDHARD, L_SUBSOFT, L_ADDSOFT, L_TAS, L_FLAGCLEAR,
           L_CLEAR, L_FREEDATA, L_LOAD, L_OTHER };
static const char * const labname[] = { "nop", "get0", "get1", "subhard", "addhard", "subsoft", "addsoft",
                                        "tas", "flagclear", "clear", "freedata", "load", "other" };

static int nthreads;
static int cfg[MAXT][4];
static struct opr prog[MAXT][MAXOPS];
static int nops[MAXT];
static cstl_shared_ptr_t sh[MAXT][MAXO];
static cstl_weak_ptr_t wk[MAXT][MAXO];

/* the allocation */
static void * blk_data, * blk_mem;
static size_t blk_data_sz;
static int data_dead, mem_cleared, mem_freed;
static struct { void * p; size_t sz; } mlog[8];
static int nmalloc;
/* the counters are identified by what they do, not by name, field order or
   initialisation order: atomic_init registers them, set-up then finds out
   which one a weak reference increments (= soft; the other one is hard) */
static const volatile atomic_size_t * var_init[4];
static const volatile atomic_size_t * var_hard, * var_soft;
static volatile atomic_flag * var_lock;
static int ninit;

/* scheduler */
static ucontext_t main_ctx, ctx[MAXT];
static char stacks[MAXT][STACKSZ] __attribute__((aligned(64)));
static int cur = -1;             /* running coroutine, -1 = driver itself */
static int finished[MAXT];
static int pending[MAXT];        /* label of the step each suspended thread will perform next */
static int yields[MAXT];
static int w_active;             /* interception of malloc/free on */
static int any_err;

/* the line of the step being executed */
static char line[512];
static int linelen;
static int cur_lab;
static size_t cur_ret;

static void ev(const char * s)
{
    linelen += snprintf(line + linelen, sizeof(line) - linelen, " ev:%s", s);
    if (strcmp(s, "uaf") == 0 || strcmp(s, "double") == 0 || strcmp(s, "underflow") == 0) any_err = 1;
}

static void yield_point(int lab)
{
    if (cur < 0) return;         /* set-up: no scheduling */
    pending[cur] = lab;
    yields[cur]++;
    swapcontext(&ctx[cur], &main_ctx);
    /* resumed: this is the step */
    cur_lab = lab;
    cur_ret = 0;
}

static int in_block(const volatile void * p, const void * b, size_t sz)
{
    return b != NULL && (const volatile char *)p >= (const char *)b && (const volatile char *)p < (const char *)b + sz;
}
static void check_data_access(const volatile void * p)
{
    if (data_dead && in_block(p, blk_data, blk_data_sz)) ev("uaf");
}

/* ---- shadow <stdatomic.h> / <sched.h> implementation ---- */
size_t shadow_size_op(enum shadow_kind k, const volatile atomic_size_t * p, size_t arg, memory_order mo)
{
    volatile atomic_size_t * q = (volatile atomic_size_t *)p;
    size_t r = 0;
    int lab = L_OTHER;

    if (k == SHK_INIT) {
        if (ninit < 4) var_init[ninit] = p;
        ninit++;
        q->v = arg;
        return 0;
    }
    if (k == SHK_FETCH_ADD) lab = (p == var_hard) ? L_ADDHARD : (p == var_soft) ? L_ADDSOFT : L_OTHER;
    else if (k == SHK_FETCH_SUB) lab = (p == var_hard) ? L_SUBHARD : (p == var_soft) ? L_SUBSOFT : L_OTHER;
    else if (k == SHK_LOAD) lab = L_LOAD;
    yield_point(lab);
    if (mo != memory_order_seq_cst) ev("weakorder");
    check_data_access(p);
    r = q->v;
    if (k == SHK_FETCH_ADD) q->v = r + arg;
    else if (k == SHK_FETCH_SUB) { if (r < arg) ev("underflow"); q->v = r - arg; }
    else if (k == SHK_STORE) q->v = arg;
    cur_ret = r;
    return r;
}

int shadow_flag_op(enum shadow_kind k, volatile atomic_flag * p, memory_order mo)
{
    int r = 0;
    if (cur < 0 && k == SHK_FLAG_CLEAR) { var_lock = p; p->v = 0; return 0; }
    yield_point(k == SHK_TAS ? L_TAS : L_FLAGCLEAR);
    if (mo != memory_order_seq_cst) ev("weakorder");
    check_data_access(p);
    if (k == SHK_TAS) { r = p->v; p->v = 1; }
    else p->v = 0;
    cur_ret = (size_t)r;
    return r;
}

int shadow_sched_yield(void)
{
    if (cur >= 0) ev("yield");
    return 0;
}

/* ---- malloc/free interception (quarantine) ---- */
void * __wrap_malloc(size_t sz)
{
    void * p = __real_malloc(sz);
    if (w_active && cur < 0 && nmalloc < 8) {
        mlog[nmalloc].p = p; mlog[nmalloc].sz = sz;
        nmalloc++;
    }
    return p;
}

void __wrap_free(void * p)
{
    if (!w_active || p == NULL || (p != blk_data && p != blk_mem)) {
        if (w_active && p != NULL && cur >= 0) ev("strayfree");
        __real_free(p);
        return;
    }
    if (p == blk_data) {
        yield_point(L_FREEDATA);
        if (data_dead) ev("double"); else ev("freedata");
        data_dead = 1;
    } else {
        /* part of the clear step */
        if (data_dead) ev("uaf");
        if (mem_freed) ev("double"); else ev("freemem");
        mem_freed = 1;
    }
}

static void clr_cb(void * mem, void * priv)
{
    (void)priv;
    yield_point(L_CLEAR);
    if (data_dead) ev("uaf");
    if (mem != blk_mem || mem_cleared || mem_freed) ev("double"); else ev("clear");
    mem_cleared = 1;
}

/* ---- thread coroutines ---- */
static void done(const struct opr * o, int res)
{
    linelen += snprintf(line + linelen, sizeof(line) - linelen, " done %s %d", opname[o->k], res);
}

static void thread_main(int tid)
{
    int i;
    for (i = 0; i < nops[tid]; i++) {
        const struct opr * o = &prog[tid][i];
        int y0 = yields[tid], res = 0;
        switch (o->k) {
        case O_SHARE:
            cstl_shared_ptr_share(&sh[tid][o->a], &sh[tid][o->b]);
            res = sh[tid][o->b].data.ptr != NULL;
            break;
        case O_RESET: cstl_shared_ptr_reset(&sh[tid][o->a]); break;
        case O_WEAKFROM:
            cstl_weak_ptr_from(&wk[tid][o->b], &sh[tid][o->a]);
            res = wk[tid][o->b].data.ptr != NULL;
            break;
        case O_LOCK:
            cstl_weak_ptr_lock(&wk[tid][o->a], &sh[tid][o->b]);
            res = sh[tid][o->b].data.ptr != NULL;
            break;
        case O_WEAKRESET: cstl_weak_ptr_reset(&wk[tid][o->a]); break;
        case O_GET: {
            void * p;
            int nn = sh[tid][o->a].data.ptr != NULL;
            yield_point(nn ? L_GET1 : L_GET0);
            if (nn && data_dead) ev("uaf");
            p = cstl_shared_ptr_get(&sh[tid][o->a]);
            res = p == NULL ? 0 : (p == blk_mem && !mem_cleared && !mem_freed) ? 1 : 2;
            break;
        }
        }
        if (yields[tid] == y0) yield_point(L_NOP);
        done(o, res);
    }
    finished[tid] = 1;
}

static void print_line(int t)
{
    printf("s %d %s %zu%s\n", t, labname[cur_lab], cur_ret, line);
}

static int access_of(int lab)
{
    switch (lab) {
    case L_NOP: case L_GET0: return 0;
    case L_GET1: return 2;
    case L_CLEAR: return 3;
    case L_FREEDATA: return 4;
    default: return 1;
    }
}
static int race_reported;
static void race_check(void)
{
    int i, j;
    if (race_reported) return;
    for (i = 0; i < nthreads; i++) for (j = i + 1; j < nthreads; j++) {
        int a, b;
        if (finished[i] || finished[j]) continue;
        a = access_of(pending[i]); b = access_of(pending[j]);
        if (a == 0 || b == 0) continue;
        if (a == 4 || b == 4 || (a == 3 && b >= 2) || (b == 3 && a >= 2)) {
            printf("race %d %s %d %s\n", i, labname[pending[i]], j, labname[pending[j]]);
            race_reported = 1;
            return;
        }
    }
}

static int nsteps;
static int do_step(int t)
{
    if (t < 0 || t >= nthreads || finished[t] || nsteps >= STEP_BOUND) return 0;
    race_check();
    nsteps++;
    linelen = 0; line[0] = 0;
    cur = t;
    swapcontext(&main_ctx, &ctx[t]);
    cur = -1;
    print_line(t);
    return 1;
}

static int all_finished(void)
{
    int t;
    for (t = 0; t < nthreads; t++) if (!finished[t]) return 0;
    return 1;
}

static void run_case(const struct h_case * c)
{
    int i, t, k;
    DECLARE_CSTL_SHARED_PTR(tmp);

    nthreads = 0; nmalloc = 0; ninit = 0; blk_data = blk_mem = NULL; blk_data_sz = 0;
    data_dead = mem_cleared = mem_freed = 0; var_hard = var_soft = NULL; var_lock = NULL;
    any_err = 0; nsteps = 0; race_reported = 0; cur = -1;
    memset(nops, 0, sizeof(nops)); memset(finished, 0, sizeof(finished));
    memset(yields, 0, sizeof(yields)); memset(pending, 0, sizeof(pending));

    for (i = 0; i < c->nlines; i++) {
        const struct h_line * l = &c->lines[i];
        if (h_weq(l, 0, "thread") && nthreads < MAXT) {
            for (k = 0; k < 4; k++) cfg[nthreads][k] = (int)h_int(l, k + 1);
            if (cfg[nthreads][0] + cfg[nthreads][1] > MAXO || cfg[nthreads][2] + cfg[nthreads][3] > MAXO) {
                printf("badcase\n"); return;
            }
            nthreads++;
        } else if (h_weq(l, 0, "op")) {
            struct opr o; int ok = 1;
            t = (int)h_int(l, 1);
            o.a = (int)h_int(l, 3); o.b = (int)h_int(l, 4);
            if (h_weq(l, 2, "share")) o.k = O_SHARE;
            else if (h_weq(l, 2, "reset")) o.k = O_RESET;
            else if (h_weq(l, 2, "weakfrom")) o.k = O_WEAKFROM;
            else if (h_weq(l, 2, "lock")) o.k = O_LOCK;
            else if (h_weq(l, 2, "weakreset")) o.k = O_WEAKRESET;
            else if (h_weq(l, 2, "get")) o.k = O_GET;
            else ok = 0;
            if (!ok || t < 0 || t >= MAXT || nops[t] >= MAXOPS || o.a < 0 || o.a >= MAXO || o.b < 0 || o.b >= MAXO) {
                printf("badcase\n"); return;
            }
            prog[t][nops[t]++] = o;
        }
    }
    /* initial reference configuration, built sequentially with the library itself */
    for (t = 0; t < nthreads; t++) for (k = 0; k < MAXO; k++) {
        cstl_shared_ptr_init(&sh[t][k]);
        cstl_weak_ptr_init(&wk[t][k]);
    }
    w_active = 1;
    linelen = 0; line[0] = 0;
    cstl_shared_ptr_alloc(&tmp, 64, clr_cb);
    if (cstl_shared_ptr_get(&tmp) == NULL) { printf("badcase alloc\n"); w_active = 0; return; }
    /* which block is which: the shared pointer object points at the
       bookkeeping block, get() returns the managed memory */
    blk_data = tmp.data.ptr;
    blk_mem = cstl_shared_ptr_get(&tmp);
    for (k = 0; k < nmalloc; k++) if (mlog[k].p == blk_data) blk_data_sz = mlog[k].sz;
    /* which counter is which: a weak reference counts in soft only */
    if (ninit == 2 && blk_data_sz > 0) {
        DECLARE_CSTL_WEAK_PTR(probe);
        const size_t v0 = var_init[0]->v, v1 = var_init[1]->v;
        cstl_weak_ptr_from(&probe, &tmp);
        if (var_init[0]->v == v0 + 1 && var_init[1]->v == v1) { var_soft = var_init[0]; var_hard = var_init[1]; }
        else if (var_init[1]->v == v1 + 1 && var_init[0]->v == v0) { var_soft = var_init[1]; var_hard = var_init[0]; }
        cstl_weak_ptr_reset(&probe);
    }
    if (var_hard == NULL || var_soft == NULL || var_lock == NULL) { printf("badcase identify\n"); w_active = 0; return; }
    for (t = 0; t < nthreads; t++) {
        for (k = 0; k < cfg[t][0]; k++) cstl_shared_ptr_share(&tmp, &sh[t][k]);
        for (k = 0; k < cfg[t][2]; k++) cstl_weak_ptr_from(&wk[t][k], &tmp);
    }
    cstl_shared_ptr_reset(&tmp);
    printf("init %zu %zu %s %s\n", var_hard->v, var_soft->v, mem_cleared ? "dead" : "live", data_dead ? "dead" : "live");
    any_err = 0;

    /* coroutines; each is run up to its first yield point (thread-private prelude) */
    for (t = 0; t < nthreads; t++) {
        getcontext(&ctx[t]);
        ctx[t].uc_stack.ss_sp = stacks[t];
        ctx[t].uc_stack.ss_size = STACKSZ;
        ctx[t].uc_link = &main_ctx;
        makecontext(&ctx[t], (void (*)(void))thread_main, 1, t);
        cur = t;
        swapcontext(&main_ctx, &ctx[t]);
        cur = -1;
    }
    for (i = 0; i < c->nlines; i++) {
        const struct h_line * l = &c->lines[i];
        if (!h_weq(l, 0, "sched")) continue;
        for (k = 1; k < l->nw; k++) do_step((int)h_int(l, k));
    }
    while (!all_finished() && nsteps < STEP_BOUND)
        for (t = 0; t < nthreads; t++) do_step(t);
    if (!all_finished()) printf("stuck\n");

    printf("fin %zu %zu %d %s %s err=%d", var_hard->v, var_soft->v, var_lock ? var_lock->v : 0,
           mem_cleared ? "dead" : "live", data_dead ? "dead" : "live", any_err);
    for (t = 0; t < nthreads; t++) {
        printf(" | t%d sh ", t);
        for (k = 0; k < cfg[t][0] + cfg[t][1]; k++) printf("%d", sh[t][k].data.ptr != NULL);
        printf(" wk ");
        for (k = 0; k < cfg[t][2] + cfg[t][3]; k++) printf("%d", wk[t][k].data.ptr != NULL);
    }
    printf("\n");
    w_active = 0;
    if (blk_data) __real_free(blk_data);
    if (blk_mem) __real_free(blk_mem);
    blk_data = blk_mem = NULL;
}

int main(int argc, char ** argv)
{
    if (getenv("CONC_NOFORK")) h_nofork = 1;
    return h_main(argc, argv, run_case);
}
