#!/usr/bin/env python3
"""C18 translator: $REPO/include/cstl/*.h + freshly built libcstl.{a,so}  ->  facts.

For every public header (every include/cstl/*.h whose name does not start
with '_', the Makefile's convention for template files) it records
  * the public cstl headers it #includes (its own #include lines plus those
    of the template files it instantiates, e.g. _string.h for string.h),
  * whether its whole body is inside an include guard,
  * every function it declares by prototype only and every function it
    defines, each with its linkage (external / static),
  * whether a TU consisting of that single #include compiles with the
    project's CFLAGS (read from the Makefile) and -Werror,
and the function symbols defined by libcstl.a and libcstl.so, which are built
by the project's own Makefile (`make build`) in a private copy of the tree
under <framework>/.build/c18/tree.  Nothing is ever written into $REPO.

The function facts are obtained three independent ways and compared:
  1. gcc -aux-info  (the compiler's own list of every function declaration
     and definition of the TU, with file, line, storage class),
  2. a small scanner over the `gcc -E` output (external declarations split at
     top level, attributed to the file of the line marker in force),
  3. nm of the object files: defined external text symbols of the TU that
     only includes the header == external definitions; a TU that takes the
     address of every function must leave every prototype-only external
     function undefined and must define every defined function.
Include facts are compared with `gcc -MM`, guard facts with gcc's own
detection (`gcc -H`: "Multiple include guards may be useful for").  Every
disagreement is listed under "crosscheck_failures" and makes the check fail.

Output: coq/link/LinkFacts.v (never committed) and a JSON copy.
Usage:  python3 gen/headers.py [--repo DIR] [--out FILE.v] [--json FILE]
"""
import argparse
import json
import os
import re
import shutil
import subprocess
import sys
from concurrent.futures import ThreadPoolExecutor

ROOT = os.path.dirname(os.path.dirname(os.path.abspath(__file__)))
BUILD = os.path.join(ROOT, '.build', 'c18')
DEFAULT_CFLAGS = ('-Wall -Wextra -Werror=vla -Werror=declaration-after-statement '
                  '-std=c99 -pedantic -D_POSIX_C_SOURCE=199309L').split()
NPROC = 16


def sh(cmd, cwd=None, timeout=600):
    try:
        p = subprocess.run(cmd, cwd=cwd, stdout=subprocess.PIPE, stderr=subprocess.PIPE,
                           timeout=timeout, text=True, errors='replace')
        return p.returncode, p.stdout, p.stderr
    except subprocess.TimeoutExpired:
        return 124, '', 'TIMEOUT'


# ------------------------------------------------------------------ library

def build_library(repo, work):
    """Copy Makefile/src/include (and benches, referenced by the Makefile) to a
    private tree and run the project's own `make build` there.
    -> dict(ok, log, tree, a, so, cflags, cc, libsrcs)"""
    tree = os.path.join(work, 'tree')
    shutil.rmtree(tree, ignore_errors=True)
    os.makedirs(tree)
    for name in ('Makefile', 'src', 'include', 'benches'):
        s = os.path.join(repo, name)
        if os.path.isdir(s):
            shutil.copytree(s, os.path.join(tree, name))
        elif os.path.exists(s):
            shutil.copy2(s, os.path.join(tree, name))
    os.makedirs(os.path.join(tree, 'build'), exist_ok=True)
    res = dict(tree=tree, a=os.path.join(tree, 'build', 'libcstl.a'),
               so=os.path.join(tree, 'build', 'libcstl.so'), cflags=None, cc='gcc', libsrcs=[])
    rc, out, err = sh(['make', '-s', '--no-print-directory', '--eval',
                       'c18print: ; @echo $(CFLAGS) "|" $(CC) "|" $(LIBSRCS)', 'c18print'], cwd=tree)
    if rc == 0 and out.count('|') == 2:
        cf, cc, srcs = [x.split() for x in out.strip().split('|')]
        res['cflags'] = [x for x in cf if x not in ('-MMD', '-MD', '-MP')]
        res['cc'] = cc[0] if cc else 'gcc'
        res['libsrcs'] = srcs
        res['cflags_source'] = 'Makefile'
    else:
        res['cflags'] = list(DEFAULT_CFLAGS)
        res['cflags_source'] = 'default (could not read CFLAGS from the Makefile: %s)' % (err.strip()[:200])
    rc, out, err = sh(['make', '-k', '-j%d' % NPROC, '--no-print-directory', 'build'], cwd=tree, timeout=900)
    res['log'] = (out + err)[-6000:]
    res['a_ok'] = os.path.exists(res['a'])
    res['so_ok'] = os.path.exists(res['so'])
    res['ok'] = rc == 0 and res['a_ok'] and res['so_ok']
    return res


def lib_symbols(path, dynamic):
    """defined external symbols (functions and objects)"""
    if not os.path.exists(path):
        return [], 'missing'
    rc, out, err = sh(['nm', '-D' if dynamic else '-g', '--defined-only', path])
    syms = []
    for line in out.splitlines():
        w = line.split()
        if len(w) == 3 and w[1] in ('T', 'W', 'i', 'B', 'D', 'R', 'C', 'V', 'G', 'S'):
            if w[2] in ('_init', '_fini', '__bss_start', '_edata', '_end'):
                continue
            syms.append(w[2])
    return syms, err.strip()


def lib_undefined(path, dynamic):
    rc, out, err = sh(['nm', '-D' if dynamic else '-g', '--undefined-only', path])
    res = set()
    for line in out.splitlines():
        w = line.split()
        if len(w) == 2 and w[0] in ('U', 'w'):
            res.add(w[1].split('@')[0])
    return sorted(res)


# ------------------------------------------------------------------ text facts

def strip_comments(txt):
    def rep(m):
        s = m.group(0)
        if s.startswith('/'):
            return ' ' + '\n' * s.count('\n')
        return s
    return re.sub(r'//[^\n]*|/\*.*?\*/|"(?:\\.|[^"\\\n])*"|\'(?:\\.|[^\'\\\n])*\'', rep, txt, flags=re.S)


def text_includes(path):
    """cstl headers named by the #include lines of a file, in order"""
    txt = strip_comments(open(path, errors='replace').read())
    return re.findall(r'^[ \t]*#[ \t]*include[ \t]*["<]cstl/([^">]+)[">]', txt, flags=re.M)


def text_guarded(path):
    """True iff, comments aside, the file is  #ifndef X / #define X / ... / #endif
    with the #endif matching the opening #ifndef and nothing outside."""
    txt = strip_comments(open(path, errors='replace').read())
    txt = re.sub(r'\\\n', ' ', txt)
    lines = [l.strip() for l in txt.split('\n')]
    lines = [l for l in lines if l]
    if len(lines) < 3:
        return False
    m = re.match(r'#\s*ifndef\s+(\w+)\s*$', lines[0]) or re.match(r'#\s*if\s+!\s*defined\s*\(?\s*(\w+)\s*\)?\s*$', lines[0])
    if not m:
        # "#pragma once" is a gcc extension that has the same effect
        return bool(re.match(r'#\s*pragma\s+once\s*$', lines[0]))
    m2 = re.match(r'#\s*define\s+(\w+)\b', lines[1])
    if not m2 or m2.group(1) != m.group(1):
        return False
    depth = 0
    for i, l in enumerate(lines):
        if re.match(r'#\s*(if|ifdef|ifndef)\b', l):
            depth += 1
        elif re.match(r'#\s*endif\b', l):
            depth -= 1
            if depth == 0 and i != len(lines) - 1:
                return False
    return depth == 0 and bool(re.match(r'#\s*endif\b', lines[-1]))


# ------------------------------------------------------------------ scanner over gcc -E

TOK = re.compile(r'''
   (?P<id>[A-Za-z_]\w*)
 | (?P<num>\.?\d(?:[eEpP][+-]|[\w.])*)
 | (?P<str>L?"(?:\\.|[^"\\])*")
 | (?P<chr>L?'(?:\\.|[^'\\])*')
 | (?P<punct>\.\.\.|[^\s\w])
''', re.X)

KEYWORDS = set('''auto break case char const continue default do double else enum extern float for goto if
inline int long register restrict return short signed sizeof static struct switch typedef union unsigned void
volatile while _Bool _Complex _Imaginary __inline __inline__ __const __restrict __restrict__ __volatile__
__signed__ __extension__ _Noreturn __int128 _Float128 __float128 _Float64 _Float32 _Float64x _Float32x'''.split())
SKIP_CALL = set('__attribute__ __attribute __asm__ __asm asm __declspec __typeof__ __typeof typeof '
                '_Static_assert __alignof__ _Alignas __nonnull __builtin_va_arg'.split())


def tokenize_cpp(text):
    """-> list of (tok, file, line) from `gcc -E` output (line markers kept up to date)."""
    toks = []
    cur, line = '<start>', 0
    for raw in text.split('\n'):
        if raw.startswith('#'):
            m = re.match(r'#\s*(?:line\s+)?(\d+)\s+"((?:\\.|[^"\\])*)"', raw)
            if m:
                line = int(m.group(1)) - 1
                cur = m.group(2)
            continue
        line += 1
        for m in TOK.finditer(raw):
            toks.append((m.group(0), cur, line))
    return toks


def scan_functions(text):
    """External declarations of a preprocessed TU that declare or define a function.
    -> list of dict(file, line, name, kind ('decl'|'def'), ext (bool), plain_inline (bool))
       and a list of constructs the scanner could not classify."""
    toks = tokenize_cpp(text)
    res, odd = [], []
    decl = []          # tokens of the current external declaration, nested {...} collapsed
    i, n = 0, len(toks)

    def skip_braces(j):
        d = 0
        while j < n:
            t = toks[j][0]
            if t == '{':
                d += 1
            elif t == '}':
                d -= 1
                if d == 0:
                    return j + 1
            j += 1
        return j

    def is_name(t):
        return TOK.match(t).lastgroup == 'id' and t not in KEYWORDS

    def objects(decl):
        """file-scope declaration that is neither a typedef nor a function: the objects it
        declares (extern, no initialiser) or defines."""
        out, k = [], 0
        while k < len(decl):              # drop __attribute__((...)) and the like
            if decl[k][0] in SKIP_CALL and k + 1 < len(decl) and decl[k + 1][0] == '(':
                d = 0
                k += 1
                while k < len(decl):
                    if decl[k][0] == '(':
                        d += 1
                    elif decl[k][0] == ')':
                        d -= 1
                        if d == 0:
                            break
                    k += 1
                k += 1
                continue
            out.append(decl[k])
            k += 1
        words = [t[0] for t in out]
        has_type = any(w in ('void', 'char', 'short', 'int', 'long', 'float', 'double', 'signed', 'unsigned',
                             '_Bool', '_Complex') for w in words)
        rest, k = [], 0
        while k < len(out):               # drop struct/union/enum specifiers
            if out[k][0] in ('struct', 'union', 'enum'):
                has_type = True
                k += 1
                if k < len(out) and is_name(out[k][0]):
                    k += 1
                if k < len(out) and out[k][0] == '{}':
                    k += 1
                continue
            rest.append(out[k])
            k += 1
        # split into declarators at top-level commas, cut initialisers
        parts, cur, d, has_init, skipping = [], [], 0, False, False
        for t in rest:
            w = t[0]
            if w in '([':
                d += 1
            elif w in ')]':
                d -= 1
            if d == 0 and w == ',':
                parts.append(cur)
                cur, skipping = [], False
                continue
            if d == 0 and w == '=':
                has_init = skipping = True
            if not skipping and w != '{}':
                cur.append(t)
        parts.append(cur)
        for pi, part in enumerate(parts):
            pw = [t[0] for t in part]
            name = None
            for j in range(len(pw) - 2):
                if pw[j] == '(' and pw[j + 1] == '*' and is_name(pw[j + 2]):
                    name = part[j + 2]
                    break
            if name is None:
                ids, d = [], 0
                for t in part:
                    if t[0] in '([':
                        d += 1
                    elif t[0] in ')]':
                        d -= 1
                    elif d == 0 and is_name(t[0]):
                        ids.append(t)
                if pi == 0 and not (len(ids) >= 2 or (ids and has_type)):
                    continue              # a type specifier only (struct x; enum {...};)
                if ids:
                    name = ids[-1]
            if name is None:
                continue
            res.append(dict(file=name[1], line=name[2], name=name[0],
                            kind='decl' if ('extern' in words and not has_init) else 'def',
                            ext='static' not in words, obj=True, plain_inline=False))

    def finish(is_def):
        if not decl:
            return
        words = [t[0] for t in decl]
        if 'typedef' in words:
            return
        p = 0
        name = None
        before = []
        k = 0
        while k < len(decl):
            t = words[k]
            if t == '(':
                p += 1
            elif t == ')':
                p -= 1
            elif p == 0 and t == '=':
                break                      # initialiser: an object, not a function
            elif p == 0 and TOK.match(t).lastgroup == 'id' and k + 1 < len(decl) and words[k + 1] == '(':
                if t in SKIP_CALL:
                    # skip the parenthesised argument
                    d = 0
                    k += 1
                    while k < len(decl):
                        if words[k] == '(':
                            d += 1
                        elif words[k] == ')':
                            d -= 1
                            if d == 0:
                                break
                        k += 1
                    k += 1
                    continue
                if t in KEYWORDS:
                    before.append(t)
                    k += 1
                    continue
                if k + 2 < len(decl) and words[k + 2] == '*':
                    # T (*name)(...)  -- pointer to function (an object), or function returning one
                    if is_def:
                        odd.append('%s:%d: complex declarator with a body' % (decl[k][1], decl[k][2]))
                        return
                    break
                name = decl[k]
                break
            if p == 0:
                before.append(t)
            k += 1
        if name is None:
            if is_def:
                odd.append('%s:%d: body without a recognisable function name' % (decl[0][1], decl[0][2]))
            else:
                objects(decl)
            return
        res.append(dict(file=name[1], line=name[2], name=name[0], kind='def' if is_def else 'decl',
                        ext='static' not in before, obj=False,
                        plain_inline=(any(w in before for w in ('inline', '__inline', '__inline__'))
                                      and 'static' not in before and 'extern' not in before)))

    paren = 0
    while i < n:
        t = toks[i][0]
        if t == '(':
            paren += 1
        elif t == ')':
            paren -= 1
        if t == '{' and paren == 0:
            prev = decl[-1][0] if decl else ''
            prev2 = decl[-2][0] if len(decl) > 1 else ''
            agg = prev in ('struct', 'union', 'enum') or (prev2 in ('struct', 'union', 'enum') and prev != ')')
            if not agg and prev == ')' and '=' not in [x[0] for x in decl]:
                i = skip_braces(i)
                finish(True)
                decl = []
                continue
            i = skip_braces(i)
            decl.append(('{}', toks[i - 1][1], toks[i - 1][2]))
            continue
        if t == ';' and paren == 0:
            finish(False)
            decl = []
            i += 1
            continue
        decl.append(toks[i])
        i += 1
    return res, odd


# ------------------------------------------------------------------ gcc -aux-info

def parse_aux(path):
    res = []
    if not os.path.exists(path):
        return res
    for line in open(path, errors='replace'):
        m = re.match(r'/\* (.*?):(\d+):([NIO])([CF]) \*/ (.*)$', line)
        if not m:
            continue
        rest = m.group(5)
        rest = re.sub(r'/\*.*?\*/', '', rest)
        name = None
        for mm in re.finditer(r'([A-Za-z_]\w*) \(', rest):
            if mm.group(1) in KEYWORDS or mm.group(1) in SKIP_CALL:
                continue
            name = mm.group(1)
            break
        if name is None:
            continue
        res.append(dict(file=m.group(1), line=int(m.group(2)), name=name,
                        kind='def' if m.group(4) == 'F' else 'decl',
                        ext=not rest.lstrip().startswith('static')))
    return res


# ------------------------------------------------------------------ per-header work

def nm_syms(obj):
    rc, out, err = sh(['nm', obj])
    # T: external definitions (functions and objects, any section); t: local text symbols
    res = dict(T=set(), t=set(), U=set(), other=set())
    for line in out.splitlines():
        w = line.split()
        if len(w) == 2 and w[0] in ('U', 'w', 'v'):
            res['U'].add(w[1])
        elif len(w) >= 3:
            if w[-2] in ('T', 'W', 'B', 'D', 'R', 'C', 'V', 'G', 'S'):
                res['T'].add(w[-1])
            elif w[-2] == 't':
                res['t'].add(w[-1])
            else:
                res['other'].add(w[-1])
    return res


def header_probe(h, inc, cc, cflags, work):
    """Everything gcc/nm say about the TU `#include "cstl/<h>"`."""
    base = os.path.join(work, 'one_' + h.replace('.', '_'))
    src = base + '.c'
    with open(src, 'w') as f:
        f.write('#include "cstl/%s"\n' % h)
    r = dict(header=h, src=src)
    cmd = [cc] + cflags + ['-Werror', '-I', inc, '-c', src, '-o', base + '.o', '-aux-info', base + '.aux']
    for p in (base + '.o', base + '.aux'):
        if os.path.exists(p):
            os.unlink(p)
    rc, out, err = sh(cmd)
    r['compile_cmd'] = ' '.join(cmd)
    r['compiles_alone'] = rc == 0
    r['diagnostics'] = (out + err)[-3000:]
    r['aux'] = parse_aux(base + '.aux') if rc == 0 else None
    r['nm'] = {k: sorted(v) for k, v in nm_syms(base + '.o').items()} if rc == 0 else None
    rc2, out2, err2 = sh([cc] + cflags + ['-I', inc, '-E', '-H', src])
    r['preprocesses'] = rc2 == 0
    r['scan'], r['scan_odd'] = scan_functions(out2) if rc2 == 0 else ([], ['preprocessing failed'])
    # gcc's own include-guard detection
    ung = []
    if 'Multiple include guards may be useful for:' in err2:
        ung = [l.strip() for l in err2.split('Multiple include guards may be useful for:')[1].splitlines() if l.strip()]
    r['gcc_unguarded'] = ung
    rc3, out3, err3 = sh([cc] + cflags + ['-I', inc, '-MM', src])
    r['deps'] = [w for w in out3.replace('\\\n', ' ').split()[2:]] if rc3 == 0 else None
    return r


def addr_probe(h, fns, objs, inc, cc, cflags, work):
    """nm of a TU that includes h and takes the address of every function in fns and object in objs."""
    base = os.path.join(work, 'addr_' + h.replace('.', '_'))
    with open(base + '.c', 'w') as f:
        f.write('#include "cstl/%s"\ntypedef void (*c18_fn)(void);\nc18_fn const c18_addr[] = {\n' % h)
        for n in fns:
            f.write('    (c18_fn)%s,\n' % n)
        f.write('    (c18_fn)0\n};\nconst void *const c18_objs[] = {\n')
        for n in objs:
            f.write('    &%s,\n' % n)
        f.write('    (const void *)0\n};\n')
    rc, out, err = sh([cc] + cflags + ['-I', inc, '-c', base + '.c', '-o', base + '.o'])
    if rc:
        return None, (out + err)[-2000:]
    return nm_syms(base + '.o'), ''


def extract(repo, work=BUILD, out_v=None, out_json=None):
    os.makedirs(work, exist_ok=True)
    repo = os.path.abspath(repo)
    incdir = os.path.join(repo, 'include')
    cstl = os.path.join(incdir, 'cstl')
    fails = []          # cross-check failures
    notes = []
    lib = build_library(repo, work)
    cc, cflags = lib['cc'], lib['cflags']
    allh = sorted(f for f in os.listdir(cstl) if f.endswith('.h')) if os.path.isdir(cstl) else []
    public = [h for h in allh if not h.startswith('_')]
    templates = [h for h in allh if h.startswith('_')]

    probe_dir = os.path.join(work, 'probe')
    shutil.rmtree(probe_dir, ignore_errors=True)
    os.makedirs(probe_dir)
    with ThreadPoolExecutor(max_workers=NPROC) as ex:
        probes = list(ex.map(lambda h: header_probe(h, incdir, cc, cflags, probe_dir), public))
    probes = dict((p['header'], p) for p in probes)

    # --- text facts: includes (templates folded into the includer), guards
    tinc = dict((h, text_includes(os.path.join(cstl, h))) for h in allh)
    tguard = dict((h, text_guarded(os.path.join(cstl, h))) for h in allh)
    hinc, htempl = {}, {}
    for h in public:
        incs, tm, todo, seen_t = [], [], list(tinc[h]), set()
        while todo:
            x = todo.pop(0)
            if x.startswith('_'):
                if x not in tm:
                    tm.append(x)
                if x not in seen_t and x in tinc:
                    seen_t.add(x)
                    todo = list(tinc[x]) + todo
            elif x not in incs and x != h:
                incs.append(x)
            elif x == h and x not in incs:
                incs.append(x)       # a header including itself: keep the fact
        hinc[h], htempl[h] = incs, tm

    def closure(h):
        seen, todo = [], [h]
        while todo:
            x = todo.pop()
            if x in seen:
                continue
            seen.append(x)
            todo += hinc.get(x, []) + htempl.get(x, []) if not x.startswith('_') else tinc.get(x, [])
        return seen

    def rel(path):
        ap = os.path.abspath(path)
        return os.path.relpath(ap, cstl) if ap.startswith(cstl + os.sep) else None

    # --- function facts per file, from every TU in which the file is seen
    per_file = {}         # file -> {source -> set of (name, kind, ext)}  per TU, compared
    obj_names = set()     # names that are objects, not functions (only the scanner sees them)
    for h in public:
        p = probes[h]
        sets = {}
        if p['aux'] is not None:
            sets['aux'] = set((rel(d['file']), d['name'], d['kind'], d['ext']) for d in p['aux'] if rel(d['file']))
        sets['scan'] = set((rel(d['file']), d['name'], d['kind'], d['ext']) for d in p['scan'] if rel(d['file']) and not d['obj'])
        scan_objs = set((rel(d['file']), d['name'], d['kind'], d['ext']) for d in p['scan'] if rel(d['file']) and d['obj'])
        obj_names.update(n for (_, n, _, _) in scan_objs)
        for d in p['scan']:
            if rel(d['file']) and d['plain_inline']:
                notes.append('%s: %s is `inline` without static/extern (C99 inline definition, no external definition is emitted)' % (rel(d['file']), d['name']))
        for o in p['scan_odd']:
            if rel(o.split(':')[0]):
                fails.append('scanner could not classify: %s' % o)
        if 'aux' in sets and sets['aux'] != sets['scan']:
            fails.append('TU of %s: gcc -aux-info and the gcc -E scanner disagree: only aux-info %s; only scanner %s' % (
                h, sorted(sets['aux'] - sets['scan'])[:6], sorted(sets['scan'] - sets['aux'])[:6]))
        best = sets.get('aux', sets['scan']) | scan_objs
        p['facts_source'] = 'aux-info' if 'aux' in sets else 'scanner only (header does not compile alone)'
        byf = {}
        for (f, n, k, e) in best:
            byf.setdefault(f, set()).add((n, k, e))
        for f, s in byf.items():
            per_file.setdefault(f, {})[h] = s
        p['tu_facts'] = sorted(best)
        # nm: external definitions of the TU
        if p['nm'] is not None:
            extdefs = set(n for (f, n, k, e) in best if k == 'def' and e)
            if set(p['nm']['T']) != extdefs:
                fails.append('TU of %s: nm defines %s externally, the declaration/definition facts say %s' % (
                    h, sorted(p['nm']['T']), sorted(extdefs)))
        # includes: transitive closure of the text facts == gcc -MM
        if p['deps'] is not None:
            got = set(rel(d) for d in p['deps'] if rel(d))
            want = set(closure(h))
            if got != want:
                fails.append('%s: files read according to gcc -MM %s differ from the closure of the #include lines %s' % (
                    h, sorted(got), sorted(want)))
        # guard: text == gcc
        g_gcc = not any(rel(u) == h for u in p['gcc_unguarded'])
        if p['preprocesses'] and g_gcc != tguard[h]:
            fails.append('%s: include guard: text scan says %s, gcc -H says %s' % (h, tguard[h], g_gcc))

    for f, by_tu in sorted(per_file.items()):
        vals = list(by_tu.values())
        if any(v != vals[0] for v in vals[1:]):
            fails.append('%s: function facts differ between the TUs that see it (%s)' % (f, sorted(by_tu)))

    def file_facts(f):
        by_tu = per_file.get(f, {})
        if not by_tu:
            return set()
        # prefer the TU of the header itself
        return by_tu.get(f) or by_tu[sorted(by_tu)[0]]

    lines_of = {}
    for h in public:
        for src in (probes[h]['aux'] or []) + probes[h]['scan']:
            r = rel(src['file'])
            if r:
                lines_of.setdefault((r, src['name'], src['kind']), src['line'])

    headers = []
    for h in public:
        facts = set()
        for f in [h] + htempl[h]:
            facts |= set((n, k, e, f) for (n, k, e) in file_facts(f))
        order = sorted(facts, key=lambda x: (x[3] != h, lines_of.get((x[3], x[0], x[1]), 0), x[0]))
        decls, defs = [], []
        for (n, k, e, f) in order:
            tgt = defs if k == 'def' else decls
            if (n, e) not in tgt:
                tgt.append((n, e))
        headers.append(dict(name=h, includes=hinc[h], templates=htempl[h], guarded=tguard[h],
                            decls=decls, defs=defs, objects=sorted(set(n for n, _ in decls + defs) & obj_names),
                            compiles_alone=probes[h]['compiles_alone'],
                            compile_cmd=probes[h]['compile_cmd'], diagnostics=probes[h]['diagnostics'],
                            facts_source=probes[h]['facts_source']))

    # --- nm cross-check with an address-taking TU (only meaningful when the header compiles)
    def addr_job(hd):
        if not hd['compiles_alone']:
            return None
        fns = []
        for x in closure(hd['name']):
            for (n, k, e) in file_facts(x):
                if n not in fns:
                    fns.append(n)
        syms, diag = addr_probe(hd['name'], sorted(set(fns) - obj_names), sorted(set(fns) & obj_names),
                                incdir, cc, cflags, probe_dir)
        return (hd['name'], sorted(fns), syms, diag)

    with ThreadPoolExecutor(max_workers=NPROC) as ex:
        for r in ex.map(addr_job, headers):
            if r is None:
                continue
            h, fns, syms, diag = r
            tu = set()
            for x in closure(h):
                tu |= file_facts(x)
            defined = set(n for (n, k, e) in tu if k == 'def')
            want_u = set(n for (n, k, e) in tu if k == 'decl' and e) - defined
            want_t = set(n for (n, k, e) in tu if k == 'def' and not e and n not in obj_names)
            want_T = set(n for (n, k, e) in tu if k == 'def' and e)
            if syms is None:
                # e.g. a static prototype without body: recorded, the configurations will show it
                notes.append('%s: the address-taking probe does not compile: %s' % (h, diag.strip().splitlines()[-1] if diag.strip() else ''))
                continue
            if not want_u <= syms['U']:
                fails.append('%s: declared-only external functions/objects %s are not undefined symbols of the address-taking TU' % (h, sorted(want_u - syms['U'])[:6]))
            if not want_t <= syms['t']:
                fails.append('%s: static definitions %s are not local text symbols of the address-taking TU' % (h, sorted(want_t - syms['t'])[:6]))
            syms['T'] -= set(['c18_addr', 'c18_objs'])
            if want_T != syms['T']:
                fails.append('%s: external definitions %s vs nm %s in the address-taking TU' % (h, sorted(want_T), sorted(syms['T'])))
            known = set(fns)
            stray = set(s for s in syms['U'] if s.startswith('cstl_') or s.startswith('__cstl_')) - known
            if stray:
                fails.append('%s: undefined cstl symbols %s are referenced but declared by no header fact' % (h, sorted(stray)))

    a_syms, a_err = lib_symbols(lib['a'], False)
    so_syms, so_err = lib_symbols(lib['so'], True)
    res = dict(repo=repo, cc=cc, cflags=cflags, cflags_source=lib.get('cflags_source'),
               public=public, templates=templates, headers=headers,
               lib_a=a_syms, lib_so=so_syms, lib_ok=lib['ok'], lib_a_ok=lib['a_ok'], lib_so_ok=lib['so_ok'], lib_log=lib['log'],
               lib_a_path=lib['a'], lib_so_path=lib['so'], libsrcs=lib['libsrcs'],
               lib_so_undefined=lib_undefined(lib['so'], True) if lib['so_ok'] else [],
               lib_a_undefined=[u for u in (lib_undefined(lib['a'], False) if lib['a_ok'] else []) if u not in set(a_syms)],
               crosscheck_failures=fails, notes=sorted(set(notes)),
               crosschecks=['aux-info == scanner (per TU)', 'nm T == external definitions (per TU)',
                            'address-taking TU: U/t/T symbols', 'closure(#include lines) == gcc -MM',
                            'text guard == gcc -H', 'per-file facts equal in every TU that sees the file'])
    if not lib['ok']:
        res['notes'].append('library build failed')
    if out_v:
        os.makedirs(os.path.dirname(out_v), exist_ok=True)
        with open(out_v, 'w') as f:
            f.write(to_coq(res))
    if out_json:
        with open(out_json, 'w') as f:
            json.dump(res, f, indent=1)
    return res


# ------------------------------------------------------------------ Coq output

def cstr(s):
    return '"%s"' % s.replace('"', '""')


def clist(items, ind='    ', width=96):
    if not items:
        return '[]'
    out, cur = [], '['
    for i, it in enumerate(items):
        piece = it + ('; ' if i + 1 < len(items) else ']')
        if len(cur) + len(piece) > width:
            out.append(cur.rstrip())
            cur = ind + ' '
        cur += piece
    out.append(cur)
    return '\n'.join(out)


def cident(h):
    return 'h_' + re.sub(r'\W', '_', h[:-2] if h.endswith('.h') else h)


def to_coq(res):
    o = []
    o.append('(* GENERATED by gen/headers.py from %s on every run of ./check C18.\n'
             '   Do not edit, do not commit.  Facts: what gcc -aux-info / gcc -E / gcc -MM / nm\n'
             '   say about include/cstl/*.h and the freshly built libcstl.a, libcstl.so. *)' % res['repo'])
    o.append('From Coq Require Import List String.')
    o.append('From Cstl Require Import LinkSpec.')
    o.append('Import ListNotations.')
    o.append('Open Scope string_scope.')
    o.append('Open Scope list_scope.')
    o.append('')
    for h in res['headers']:
        sym = lambda l: clist(['(%s, %s)' % (cstr(n), 'true' if e else 'false') for (n, e) in l])
        o.append('Definition %s : header := {|' % cident(h['name']))
        o.append('  hname := %s;' % cstr(h['name']))
        o.append('  hincludes := %s;' % clist([cstr(x) for x in h['includes']]))
        o.append('  hguarded := %s;' % ('true' if h['guarded'] else 'false'))
        o.append('  hdecls :=\n    %s;' % sym(h['decls']))
        o.append('  hdefs :=\n    %s;' % sym(h['defs']))
        o.append('  hcompiles_alone := %s' % ('true' if h['compiles_alone'] else 'false'))
        o.append('|}.')
        o.append('')
    o.append('Definition facts : LinkSpec.facts := {|')
    o.append('  headers := %s;' % clist([cident(h['name']) for h in res['headers']]))
    o.append('  lib_a :=\n    %s;' % clist([cstr(x) for x in res['lib_a']]))
    o.append('  lib_so :=\n    %s' % clist([cstr(x) for x in res['lib_so']]))
    o.append('|}.')
    o.append('')
    return '\n'.join(o)


def main():
    ap = argparse.ArgumentParser()
    ap.add_argument('--repo', default=os.environ.get('REPO', '/repo'))
    ap.add_argument('--out', default=os.path.join(ROOT, 'coq', 'link', 'LinkFacts.v'))
    ap.add_argument('--json', default=os.path.join(BUILD, 'facts.json'))
    a = ap.parse_args()
    res = extract(a.repo, BUILD, a.out, a.json)
    print('%d public headers, %d declared / %d defined functions and objects, %d + %d library symbols, library build %s' % (
        len(res['headers']), sum(len(h['decls']) for h in res['headers']),
        sum(len(h['defs']) for h in res['headers']), len(res['lib_a']), len(res['lib_so']),
        'ok' if res['lib_ok'] else 'FAILED'))
    for n in res['notes']:
        print('note:', n)
    for f in res['crosscheck_failures']:
        print('CROSS-CHECK FAILED:', f)
    print('wrote', a.out)
    return 1 if res['crosscheck_failures'] else 0


if __name__ == '__main__':
    sys.exit(main())
