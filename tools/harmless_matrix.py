#!/usr/bin/env python3
"""Apply each behaviour-preserving refactoring in harmless/ to a scratch worktree of /repo and run the
checks of every property anchored in the touched file: all must stay silent. Writes HARMLESS_MATRIX.md."""
import os, subprocess, sys, tempfile, shutil, time, re
ROOT = os.path.dirname(os.path.dirname(os.path.abspath(__file__)))
MAP = {
 'src/bintree.c': ['C01', 'C02', 'C07', 'C08', 'C15'], 'src/rbtree.c': ['C01', 'C02', 'C08'],
 'src/heap.c': ['C07', 'C15'], 'src/hash.c': ['C03', 'C04', 'C19', 'C17', 'C16'],
 'src/memory.c': ['C05', 'C06', 'C20', 'C14', 'C16'], 'src/array.c': ['C11', 'C14', 'C09', 'C16'],
 'src/vector.c': ['C09', 'C10', 'C11', 'C16'], 'src/_string.c': ['C10', 'C16'],
 'src/dlist.c': ['C12', 'C15'], 'src/slist.c': ['C13', 'C15'], 'src/map.c': ['C08', 'C15', 'C16'],
 'include/cstl/common.h': ['C11', 'C18', 'C13'], 'include/cstl/memory.h': ['C05', 'C20', 'C18'],
}
rows = []
for f in sorted(os.listdir(os.path.join(ROOT, 'harmless'))):
    if not f.endswith('.patch'):
        continue
    patch = os.path.join(ROOT, 'harmless', f)
    files = re.findall(r'^\+\+\+ b/(\S+)', open(patch).read(), flags=re.M)
    pids = sorted({p for x in files for p in MAP.get(x, [])})
    d = tempfile.mkdtemp(prefix='hm-', dir='/tmp'); wt = os.path.join(d, 'repo')
    subprocess.run(['git', '-C', '/repo', 'worktree', 'add', '-q', '--detach', wt, 'HEAD'], check=True)
    try:
        r = subprocess.run(['git', '-C', wt, 'apply', patch], capture_output=True, text=True)
        if r.returncode:
            rows.append((f, files, [('-', 'does not apply')])); continue
        out = []
        for pid in pids:
            env = dict(os.environ, REPO=wt, VERIF_EVIDENCE_DIR='/tmp/verif-evidence-scratch')
            t0 = time.time()
            c = subprocess.run(['./check', pid], cwd=ROOT, env=env, capture_output=True, text=True)
            v = [l for l in c.stdout.splitlines() if l.startswith('VIOLATION')]
            out.append((pid, 'silent' if c.returncode == 0 and not v else 'ALARM rc=%d %s' % (c.returncode, ' '.join(v[:1]))))
            print(f, pid, out[-1][1], '%.0fs' % (time.time() - t0), flush=True)
        rows.append((f, files, out))
    finally:
        subprocess.run(['git', '-C', '/repo', 'worktree', 'remove', '--force', wt]); shutil.rmtree(d, ignore_errors=True)
with open(os.path.join(ROOT, 'HARMLESS_MATRIX.md'), 'w') as fo:
    fo.write('# Behaviour-preserving refactorings (harmless/, written by an independent sub-agent) vs checks, quick tier\n\n')
    fo.write('| change | file | checks run | result |\n|---|---|---|---|\n')
    for f, files, out in rows:
        fo.write('| %s | %s | %s | %s |\n' % (f, ', '.join(files), ', '.join(p for p, _ in out),
                 'all silent' if all(r == 'silent' for _, r in out) else '; '.join('%s: %s' % o for o in out if o[1] != 'silent')))
