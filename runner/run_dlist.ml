open Util
open DListModel

let bound = 40   (* step bound of the raw link walks, same as in harness/drv_dlist.c *)

let pdir = function "fwd" -> Some Fwd | "rev" -> Some Rev | _ -> None

let parse_op (w : string list) : op option =
  match w with
  | ["push_front"; l; e] -> Some (PushFront (ni l, ni e))
  | ["push_back"; l; e] -> Some (PushBack (ni l, ni e))
  | ["pop_front"; l] -> Some (PopFront (ni l))
  | ["pop_back"; l] -> Some (PopBack (ni l))
  | ["insert"; l; b; e] -> Some (Insert (ni l, ni b, ni e))
  | ["erase"; l; e] -> Some (Erase (ni l, ni e))
  | ["front"; l] -> Some (Front (ni l))
  | ["back"; l] -> Some (Back (ni l))
  | ["size"; l] -> Some (Size (ni l))
  | ["foreach"; l; d; stop; "0"] ->
    (match pdir d with Some d -> Some (Foreach (ni l, d, ni stop, VPlain)) | None -> None)
  | ["foreach"; l; d; stop; "1"] ->
    (match pdir d with Some d -> Some (Foreach (ni l, d, ni stop, VFree)) | None -> None)
  | ["foreach"; l; d; stop; "2"; o] ->
    (match pdir d with Some d -> Some (Foreach (ni l, d, ni stop, VMove (ni o))) | None -> None)
  | ["find"; l; k; d] ->
    (match pdir d with Some d -> Some (Find (ni l, z_of_string k, d)) | None -> None)
  | ["swap"; a; b] -> Some (Swap (ni a, ni b))
  | ["clear"; l] -> Some (Clear (ni l))
  | ["reverse"; l] -> Some (Reverse (ni l))
  | ["sort"; l] -> Some (Sort (ni l))
  | ["concat"; d; s] -> Some (Concat (ni d, ni s))
  | _ -> None

let dump_sys (s : sys) : string =
  let n = int_of_nat s.nl in
  S.concat " " (L.init n (fun i ->
    let ((((sz, fr), bk), (f, b)), (ff, fb)) = dump (nat_of_int bound) s (nat_of_int i) in
    Printf.sprintf "| L%d: %s %s %s F %s B %s f %s b %s" i (string_of_n sz) (string_of_z fr)
      (string_of_z bk) (zs f) (zs b) (zs ff) (zs fb)))

let run_case (c : case) =
  Printf.printf "case %s\n" c.name;
  let keys = ref [||] and nlists = ref 1 in
  let st = ref None in
  let dead = ref false in
  L.iter (fun w ->
    if not !dead then
    match w with
    | "keys" :: ks -> keys := Array.of_list (L.map z_of_string ks)
    | ["nlists"; n] -> nlists := int_of_string n
    | "vsign" :: _ -> ()
    | "offs" :: _ -> ()       (* which node member each list is threaded through: invisible to the model *)
    | "cmpmode" :: _ -> ()      (* how the driver's comparator scales its result; the model sees only signs *)
    | _ ->
      let key n = let i = int_of_nat n in if i < Array.length !keys then !keys.(i) else BinNums.Z0 in
      let s = match !st with Some s -> s | None -> sys_init (nat_of_int !nlists) in
      (match parse_op w with
       | None -> Printf.printf "badop %s\n" (S.concat " " w); dead := true
       | Some o ->
         (match step key s o with
          | Prelude.Done (s', out) ->
            st := Some s';
            Printf.printf "ok %s %s\n" (zs out) (dump_sys s')
          | Prelude.Abort -> print_endline "abort"; dead := true
          | Prelude.Fault -> print_endline "fault"; dead := true
          | Prelude.Precond -> print_endline "precond"; dead := true))) c.lines;
  print_endline "end"

let main ic = L.iter run_case (read_cases ic)

(* Breadth-first closure.  Model states contain functions (the memory), so
   states are identified by their observable dump (sizes and the raw link
   walks in both directions of every list) instead of structurally; apart
   from that this is Util.bfs. *)
let bfs_keyed (type st) (type op) ~(header : string list) ~(init : st) ~(skey : st -> string)
    ~(ops : (string * op) list) ~(step : st -> op -> st Prelude.outcome)
    ~(max_states : int) ~(prefix : string) (oc : out_channel) : int * int * bool =
  let seen : (string, int) Hashtbl.t = Hashtbl.create 4096 in
  let paths : (int, (int * string)) Hashtbl.t = Hashtbl.create 4096 in
  let q = Queue.create () in
  Hashtbl.replace seen (skey init) 0; Queue.add (init, 0) q;
  let nstates = ref 1 and ntrans = ref 0 and closed = ref true in
  let rec path id acc = if id = 0 then acc else
      let (p, t) = Hashtbl.find paths id in path p (t :: acc) in
  while not (Queue.is_empty q) do
    let (s, id) = Queue.pop q in
    let pth = path id [] in
    L.iter (fun (txt, o) ->
      match step s o with
      | Prelude.Precond -> ()
      | r ->
        incr ntrans;
        Printf.fprintf oc "case %s%d\n" prefix !ntrans;
        L.iter (fun h -> output_string oc h; output_char oc '\n') header;
        L.iter (fun t -> output_string oc t; output_char oc '\n') pth;
        output_string oc txt; output_string oc "\nend\n";
        (match r with
         | Prelude.Done (s', _) ->
           let k = skey s' in
           if not (Hashtbl.mem seen k) then begin
             if !nstates < max_states then begin
               let nid = !nstates in
               incr nstates;
               Hashtbl.replace seen k nid;
               Hashtbl.replace paths nid (id, txt);
               Queue.add (s', nid) q
             end else closed := false
           end
         | _ -> ())) ops
  done;
  (!nstates, !ntrans, !closed)

(* closure exploration: nlists lists, elements 0..ne-1 with the given keys;
   level 0 = full alphabet, 1 = reduced (fewer foreach/find variants) *)
let explore (nlists : int) (level : int) (keys : int list) (max_states : int) =
  let ne = L.length keys in
  let rng n = L.init n (fun i -> i) in
  let ops = ref [] in
  let add fmt = Printf.ksprintf (fun s -> match parse_op (words s) with
      | Some o -> ops := (s, o) :: !ops | None -> failwith s) fmt in
  let kvals = L.sort_uniq compare keys in
  let kprobe = kvals @ [1 + L.fold_left max 0 keys] in
  L.iter (fun l ->
    L.iter (fun e -> add "push_front %d %d" l e; add "push_back %d %d" l e;
             add "erase %d %d" l e;
             L.iter (fun b -> if b <> e && (level = 0 || (b + e) mod 2 = 1) then add "insert %d %d %d" l b e) (rng ne))
      (rng ne);
    add "pop_front %d" l; add "pop_back %d" l; add "reverse %d" l; add "sort %d" l; add "clear %d" l;
    if level = 0 then begin
      add "front %d" l; add "back %d" l; add "size %d" l;
      L.iter (fun d ->
        L.iter (fun stop -> add "foreach %d %s %d 0" l d stop; add "foreach %d %s %d 1" l d stop;
                 L.iter (fun m -> if m <> l then add "foreach %d %s %d 2 %d" l d stop m) (rng nlists)) [0; 1; 2; 3];
        L.iter (fun k -> add "find %d %d %s" l k d) kprobe) ["fwd"; "rev"]
    end else begin
      add "foreach %d fwd 2 1" l; add "foreach %d rev 2 1" l; add "foreach %d rev 0 1" l;
      add "foreach %d fwd 3 0" l; add "foreach %d rev 1 0" l;
      add "foreach %d fwd 0 2 %d" l ((l + 1) mod nlists); add "foreach %d rev 2 2 %d" l ((l + nlists - 1) mod nlists);
      L.iter (fun k -> add "find %d %d fwd" l k; add "find %d %d rev" l k) kvals
    end;
    L.iter (fun m -> add "concat %d %d" l m; if l < m then add "swap %d %d" l m) (rng nlists))
    (rng nlists);
  let karr = Array.of_list (L.map z_of_int keys) in
  let key n = let i = int_of_nat n in if i < Array.length karr then karr.(i) else BinNums.Z0 in
  let header = [ "keys " ^ S.concat " " (L.map string_of_int keys); Printf.sprintf "nlists %d" nlists ] in
  let (st, tr, closed) =
    bfs_keyed ~header ~init:(sys_init (nat_of_int nlists)) ~skey:dump_sys ~ops:(L.rev !ops) ~step:(step key)
      ~max_states ~prefix:"bfs" stdout in
  Printf.eprintf "states %d transitions %d closed %b\n" st tr closed

let () =
  register "dlist" (fun argv -> main (input_of argv 2));
  register "dlist-bfs" (fun argv ->
    (* dlist-bfs <nlists> <max_states> <level> k0 k1 ... *)
    let keys = L.map int_of_string (Array.to_list (Array.sub argv 5 (Array.length argv - 5))) in
    explore (int_of_string argv.(2)) (int_of_string argv.(4)) keys (int_of_string argv.(3)))
