open Util
open HeapModel

let parse_op (w : string list) : op option =
  match w with
  | ["push"; e] -> Some (Push (ni e))
  | ["pop"] -> Some Pop
  | ["get"] -> Some Get
  | ["size"] -> Some Size
  | ["clear"] -> Some Clear
  | _ -> None

(* level order: a node prints its element id and enqueues both child links,
   a NULL link prints "." *)
let dump_full (h : heap) : string =
  let b = Buffer.create 256 in
  Buffer.add_string b (string_of_n h.size);
  Buffer.add_string b " :";
  let q = Queue.create () in
  Queue.add h.root q;
  while not (Queue.is_empty q) do
    (match Queue.pop q with
     | E -> Buffer.add_string b " ."
     | T (l, x, r) ->
       Buffer.add_char b ' ';
       Buffer.add_string b (string_of_int (int_of_nat x.eid));
       Queue.add l q; Queue.add r q)
  done;
  Buffer.contents b

let dump_brief (h : heap) : string =
  Printf.sprintf "%s ~ %s" (string_of_n h.size)
    (match h.root with E -> "." | T (_, x, _) -> string_of_int (int_of_nat x.eid))

let run_case (c : case) =
  Printf.printf "case %s\n" c.name;
  let keys = ref [||] and every = ref 1 in
  let st = ref h_init in
  let dead = ref false in
  let nops = L.length (L.filter (fun w -> match w with ("keys" | "dumpevery" | "cmpmode") :: _ -> false | _ -> true) c.lines) in
  let i = ref 0 in
  L.iter (fun w ->
    if not !dead then
    match w with
    | "keys" :: ks -> keys := Array.append !keys (Array.of_list (L.map z_of_string ks))
    | ["dumpevery"; n] -> every := max 1 (int_of_string n)
    | "cmpmode" :: _ -> ()      (* only the sign of a comparison is inspected *)
    | _ ->
      let key n = let i = int_of_nat n in if i < Array.length !keys then !keys.(i) else BinNums.Z0 in
      incr i;
      (match parse_op w with
       | None -> Printf.printf "badop %s\n" (S.concat " " w); dead := true
       | Some o ->
         (match step key !st o with
          | Prelude.Done (s', out) ->
            st := s';
            let full = (!i mod !every = 0) || !i = nops in
            Printf.printf "ok %s | %s\n" (zs out) (if full then dump_full s' else dump_brief s')
          | Prelude.Abort -> print_endline "abort"; dead := true
          | Prelude.Fault -> print_endline "fault"; dead := true
          | Prelude.Precond -> print_endline "precond"; dead := true))) c.lines;
  print_endline "end"

let main ic = L.iter run_case (read_cases ic)

(* closure exploration: elements 0..ne-1 with the given keys *)
let explore (keys : int list) (max_states : int) =
  let ne = L.length keys in
  let ops = ref [] in
  let add s = match parse_op (words s) with
    | Some o -> ops := (s, o) :: !ops | None -> failwith s in
  L.iter (fun e -> add (Printf.sprintf "push %d" e)) (L.init ne (fun i -> i));
  add "pop"; add "get"; add "size"; add "clear";
  let karr = Array.of_list (L.map z_of_int keys) in
  let key n = let i = int_of_nat n in if i < Array.length karr then karr.(i) else BinNums.Z0 in
  let header = [ "keys " ^ S.concat " " (L.map string_of_int keys) ] in
  let (st, tr, closed) =
    bfs ~header ~init:h_init ~ops:(L.rev !ops) ~step:(step key)
      ~max_states ~prefix:"bfs" stdout in
  Printf.eprintf "states %d transitions %d closed %b\n" st tr closed

let () =
  register "heap" (fun argv -> main (input_of argv 2));
  (* heap-bfs <max_states> k0 k1 ... *)
  register "heap-bfs" (fun argv ->
    let keys = L.map int_of_string (Array.to_list (Array.sub argv 3 (Array.length argv - 3))) in
    explore keys (int_of_string argv.(2)))
