open Util
open HeapModel

let parse_op (w : string list) : op option =
  match w with
  | ["push"; e] -> Some (Push (ni e))
  | ["pop"] -> Some Pop
  | ["get"] -> Some Get
  | ["size"] -> Some Size
  | ["clear"] -> Some Clear
  | _ -> None

(* level order: a node prints its element id and enqueues both child links,
   a NULL link prints "." *)
let dump_full (h : heap) : string =
  let b = Buffer.create 256 in
  Buffer.add_string b (string_of_n h.size);
  Buffer.add_string b " :";
  let q = Queue.create () in
  Queue.add h.root q;
  while not (Queue.is_empty q) do
    (match Queue.pop q with
     | E -> Buffer.add_string b " ."
     | T (l, x, r) ->
       Buffer.add_char b ' ';
       Buffer.add_string b (string_of_int (int_of_nat x.eid));
       Queue.add l q; Queue.add r q)
  done;
  Buffer.contents b

let dump_brief (h : heap) : string =
  Printf.sprintf "%s ~ %s" (string_of_n h.size)
    (match h.root with E -> "." | T (_, x, _) -> string_of_int (int_of_nat x.eid))

(* ---- pointer-level shadow (HeapLinksModel): executed next to the functional
   model for small pools; its decoded structure must be the same text *)
module PL = HeapLinksModel

let shadow_limit = 160   (* pools up to this many elements *)

(* the extracted memory is a closure chain; flatten it after every operation *)
let compact (ne : int) (h : PL.pheap) : PL.pheap =
  let arr = Array.init ne (fun a -> h.PL.pm (nat_of_int a)) in
  let dflt = { PL.np = None; PL.nl = None; PL.nr = None } in
  { h with PL.pm = (fun a -> let i = int_of_nat a in if i < ne then arr.(i) else dflt) }

(* same decoding as harness/drv_heap.c: level order through l/r, every parent
   pointer checked, every node at most once, count = size *)
let dump_links (ne : int) (full : bool) (h : PL.pheap) : string =
  let b = Buffer.create 256 in
  Buffer.add_string b (string_of_n h.PL.psize);
  Buffer.add_string b (if full then " :" else " ~");
  let m a = h.PL.pm a in
  let bad = ref None in
  let seen = Hashtbl.create 64 in
  let count = ref 0 in
  (match h.PL.proot with
   | Some r -> if (m r).PL.np <> None then bad := Some "root-has-parent";
               if not full then (Buffer.add_char b ' '; Buffer.add_string b (string_of_int (int_of_nat r)))
   | None -> if not full then Buffer.add_string b " .");
  let q = Queue.create () in
  Queue.add h.PL.proot q;
  (try
    while not (Queue.is_empty q) do
      match Queue.pop q with
      | None -> if full then Buffer.add_string b " ."
      | Some a ->
        let i = int_of_nat a in
        if Hashtbl.mem seen i then (bad := Some "node-reached-twice"; raise Exit);
        Hashtbl.replace seen i ();
        incr count;
        if !count > 4 * ne + 4 then (bad := Some "too-many-nodes"; raise Exit);
        if full then (Buffer.add_char b ' '; Buffer.add_string b (string_of_int i));
        let n = m a in
        (match n.PL.nl with Some l when (m l).PL.np <> Some a -> bad := Some "left-child-parent-link" | _ -> ());
        (match n.PL.nr with Some r when (m r).PL.np <> Some a -> bad := Some "right-child-parent-link" | _ -> ());
        Queue.add n.PL.nl q; Queue.add n.PL.nr q
    done
  with Exit -> ());
  if !bad = None && string_of_int !count <> string_of_n h.PL.psize then bad := Some "size-field";
  (match !bad with Some w -> Buffer.add_string b (" MALFORMED " ^ w) | None -> ());
  Buffer.contents b

let run_case (c : case) =
  Printf.printf "case %s\n" c.name;
  let keys = ref [||] and every = ref 1 in
  let st = ref h_init in
  let pst = ref (Some PL.ph_init) in      (* None: shadow switched off for this case *)
  let dead = ref false in
  let nops = L.length (L.filter (fun w -> match w with ("keys" | "dumpevery" | "cmpmode" | "swapobj") :: _ -> false | _ -> true) c.lines) in
  let i = ref 0 in
  L.iter (fun w ->
    if not !dead then
    match w with
    | "keys" :: ks -> keys := Array.append !keys (Array.of_list (L.map z_of_string ks))
    | ["dumpevery"; n] -> every := max 1 (int_of_string n)
    | "cmpmode" :: _ -> ()      (* only the sign of a comparison is inspected *)
    | "swapobj" :: _ -> ()      (* the driver moves the heap between two objects: contents unchanged *)
    | _ ->
      let key n = let i = int_of_nat n in if i < Array.length !keys then !keys.(i) else BinNums.Z0 in
      incr i;
      (match parse_op w with
       | None -> Printf.printf "badop %s\n" (S.concat " " w); dead := true
       | Some o ->
         (match step key !st o with
          | Prelude.Done (s', out) ->
            st := s';
            let full = (!i mod !every = 0) || !i = nops in
            let d = if full then dump_full s' else dump_brief s' in
            Printf.printf "ok %s | %s\n" (zs out) d;
            (* the pointer-level model must agree on results and structure *)
            let ne = Array.length !keys in
            if ne > shadow_limit then pst := None;
            (match !pst with
             | None -> ()
             | Some ph ->
               (match PL.p_step key ph o with
                | Prelude.Done (ph', pout) ->
                  let ph' = compact ne ph' in
                  pst := Some ph';
                  let pd = dump_links ne full ph' in
                  if zs pout <> zs out || pd <> d then
                    Printf.printf "LINKS-MISMATCH ok %s | %s\n" (zs pout) pd
                | _ -> print_endline "LINKS-MISMATCH pointer-level model did not return"))
          | Prelude.Abort -> print_endline "abort"; dead := true
          | Prelude.Fault -> print_endline "fault"; dead := true
          | Prelude.Precond -> print_endline "precond"; dead := true))) c.lines;
  print_endline "end"

let main ic = L.iter run_case (read_cases ic)

(* closure exploration: elements 0..ne-1 with the given keys *)
let explore (keys : int list) (max_states : int) =
  let ne = L.length keys in
  let ops = ref [] in
  let add s = match parse_op (words s) with
    | Some o -> ops := (s, o) :: !ops | None -> failwith s in
  L.iter (fun e -> add (Printf.sprintf "push %d" e)) (L.init ne (fun i -> i));
  add "pop"; add "get"; add "size"; add "clear";
  let karr = Array.of_list (L.map z_of_int keys) in
  let key n = let i = int_of_nat n in if i < Array.length karr then karr.(i) else BinNums.Z0 in
  let header = [ "keys " ^ S.concat " " (L.map string_of_int keys) ] in
  let (st, tr, closed) =
    bfs ~header ~init:h_init ~ops:(L.rev !ops) ~step:(step key)
      ~max_states ~prefix:"bfs" stdout in
  Printf.eprintf "states %d transitions %d closed %b\n" st tr closed

let () =
  register "heap" (fun argv -> main (input_of argv 2));
  (* heap-bfs <max_states> k0 k1 ... *)
  register "heap-bfs" (fun argv ->
    let keys = L.map int_of_string (Array.to_list (Array.sub argv 3 (Array.length argv - 3))) in
    explore keys (int_of_string argv.(2)))
