(* Runner for the smart-pointer / array-view system (MemModel.v,
   ArrayViewModel.v): components "mem" (repaired code), "mem_v0" (as found)
   and "mem-bfs" (closure exploration with its own canonicalisation).

   Script syntax
     header:  pool U U S S W A G ... kinds of the pool slots (G = a struct cstl_guarded_ptr used directly)
              constapi 1             driver only: call the *_const variants of the accessors (same specification,
                                     so the model ignores the line)
              ext 40 40              byte sizes of the caller's external buffers
              fail o1 o2 ...         absolute ordinals of failing allocator requests
              failfrom n             every request with ordinal >= n fails
     ops:     one per line, optionally followed by  ! k1 k2 ...  = the k-th
              allocator request made *by this call* fails (relative ordinals)
   Trace: "ok <results> | <slot dump>... ;; <events of this call>", then
   at the end of a completed case "final <live blocks> ;; <events>" after
   resetting every object (stray copies are re-initialised). *)
open Util
open MemModel
open ArrayViewModel

let nn = n_of_string

let parse_op (w : string list) : op option =
  let cb s = let i = int_of_string s in if i < 0 then None else Some (nat_of_int i) in
  match w with
  | ["uinit"; u] -> Some (OM (UInit (ni u)))
  | ["ualloc"; u; sz; c] -> Some (OM (UAlloc (ni u, nn sz, cb c)))
  | ["uget"; u] -> Some (OM (UGet (ni u)))
  | ["urelease"; u] -> Some (OM (URelease (ni u)))
  | ["uswap"; u; v] -> Some (OM (USwap (ni u, ni v)))
  | ["ureset"; u] -> Some (OM (UReset (ni u)))
  | ["sinit"; s] -> Some (OM (SInit (ni s)))
  | ["salloc"; s; sz; c] -> Some (OM (SAlloc (ni s, nn sz, int_of_string c <> 0)))
  | ["sget"; s] -> Some (OM (SGet (ni s)))
  | ["sunique"; s] -> Some (OM (SUnique (ni s)))
  | ["sshare"; e; n] -> Some (OM (SShare (ni e, ni n)))
  | ["sswap"; a; b] -> Some (OM (SSwap (ni a, ni b)))
  | ["sreset"; s] -> Some (OM (SReset (ni s)))
  | ["winit"; w] -> Some (OM (WInit (ni w)))
  | ["wfrom"; w; s] -> Some (OM (WFrom (ni w, ni s)))
  | ["wlock"; w; s] -> Some (OM (WLock (ni w, ni s)))
  | ["wswap"; a; b] -> Some (OM (WSwap (ni a, ni b)))
  | ["wreset"; w] -> Some (OM (WReset (ni w)))
  | ["straycopy"; s; d] -> Some (OM (StrayCopy (ni s, ni d)))
  (* guarded pointer objects; a pointer value is a small integer, 0 = NULL *)
  | ["ginit"; g] -> Some (OM (GInit (ni g)))
  | ["gset"; g; v] -> Some (OM (GSet (ni g, (let i = int_of_string v in if i = 0 then None else Some (nat_of_int i)))))
  | ["gget"; g] -> Some (OM (GGet (ni g)))
  | ["ggetc"; g] -> Some (OM (GGetC (ni g)))
  | ["gcopy"; d; s] -> Some (OM (GCopy (ni d, ni s)))
  | ["gswap"; a; b] -> Some (OM (GSwap (ni a, ni b)))
  | ["ainit"; a] -> Some (OA (VInit (ni a)))
  | ["aalloc"; a; nm; sz] -> Some (OA (VAlloc (ni a, nn nm, nn sz)))
  | ["aset"; a; e; nm; sz] -> Some (OA (VSet (ni a, ni e, nn nm, nn sz)))
  | ["arelease"; a] -> Some (OA (VRelease (ni a)))
  | ["adata"; a] -> Some (OA (VData (ni a)))
  | ["aat"; a; i] -> Some (OA (VAt (ni a, nn i)))
  | ["asize"; a] -> Some (OA (VSize (ni a)))
  | ["aslice"; a; b; e; t] -> Some (OA (VSlice (ni a, nn b, nn e, ni t)))
  | ["aunslice"; s; a] -> Some (OA (VUnslice (ni s, ni a)))
  | ["areset"; a] -> Some (OA (VReset (ni a)))
  | _ -> None

(* split "op args ! k1 k2" *)
let split_fail (w : string list) : string list * int list =
  let rec go acc = function
    | [] -> (L.rev acc, [])
    | "!" :: r -> (L.rev acc, L.map int_of_string r)
    | x :: r -> go (x :: acc) r in
  go [] w

let kind_of_string = function
  | "U" -> KU | "S" -> KS | "W" -> KW | "A" -> KA | "G" -> KG | s -> failwith ("kind " ^ s)
let kind_letter = function KU -> "U" | KS -> "S" | KW -> "W" | KA -> "A" | KG -> "G"

let zopt_i (o : Datatypes.nat option) = match o with None -> -1 | Some n -> int_of_nat n

(* block id as printed: -1 NULL, -2 pointer to a block that is not live *)
let blk (s : st) (o : Datatypes.nat option) : int =
  match o with
  | None -> -1
  | Some b -> if AllocModel.is_live s.al b then int_of_nat b else -2

let dump_obj (s : st) (i : int) (o : obj) : string =
  let b = Buffer.create 64 in
  let self = match o.ogp.gself with ASlot j -> string_of_int (int_of_nat j) | AData d -> "D" ^ string_of_int (int_of_nat d) in
  (* a guarded pointer object holds a value of the caller, not a block *)
  let p = if o.okind = KG then zopt_i o.ogp.gp else blk s o.ogp.gp in
  Printf.bprintf b "| %s%d self=%s p=%d" (kind_letter o.okind) i self p;
  (match o.okind with
   | KG -> ()
   | KU -> Printf.bprintf b " c=%d" (zopt_i o.oclr)
   | _ ->
     let m = ref None in
     (if p >= 0 then
        match o.ogp.gp with
        | Some d ->
          (match lookup d s.datas with
           | Some dd ->
             Printf.bprintf b " h=%s s=%s m=%d c=%d" (string_of_n dd.hard) (string_of_n dd.soft)
               (blk s dd.dup.ugp.gp) (zopt_i dd.dup.uclr);
             if blk s dd.dup.ugp.gp >= 0 then m := dd.dup.ugp.gp
           | None -> Buffer.add_string b " nodata")
        | None -> ());
     if o.okind = KA then begin
       Printf.bprintf b " off=%s len=%s" (string_of_n o.ooff) (string_of_n o.olen);
       match !m with
       | Some mb ->
         (match lookup mb s.descs with
          | Some d ->
            Printf.bprintf b " sz=%s nm=%s buf=%s" (string_of_n d.dsz) (string_of_n d.dnm)
              (match d.dbuf with Inline -> "I" | Ext e -> "E" ^ string_of_int (int_of_nat e))
          | None -> Buffer.add_string b " nodesc")
       | None -> ()
     end);
  Buffer.contents b

let dump_st (s : st) : string = S.concat " " (L.mapi (dump_obj s) s.objs)

let ev_string (e : mev) : string =
  match e with
  | MA a -> " ; " ^ zs (AllocModel.aev_out a)
  | MClear (p, t) -> Printf.sprintf " ; 8 %d %d" (zopt_i p) (int_of_nat t)

(* events appended between two logs (newest first) in program order *)
let new_events (before : mev list) (after : mev list) : string =
  let k = L.length after - L.length before in
  let rec take n l = if n <= 0 then [] else match l with [] -> [] | x :: r -> x :: take (n - 1) r in
  " ;;" ^ S.concat "" (L.rev_map ev_string (take k after))

let make_oracle (fails : int list) (from : int option) (s : st) (rel : int list) =
  let base = AllocModel.script_oracle (L.map nat_of_int fails)
      (match from with None -> None | Some f -> Some (nat_of_int f)) in
  let o0 = int_of_nat s.al.AllocModel.ord in
  fun (n : Datatypes.nat) (sz : BinNums.coq_N) ->
    base n sz && not (L.mem (int_of_nat n - o0) rel)

let run_case ~(v0 : bool) (c : case) =
  Printf.printf "case %s\n" c.name;
  let kinds = ref [] and exts = ref [] and fails = ref [] and from = ref None in
  let st = ref None and dead = ref false in
  let state () = match !st with
    | Some s -> s
    | None -> st_init (L.map kind_of_string !kinds) (L.map nn !exts) in
  L.iter (fun w ->
    if not !dead then
    match w with
    | "pool" :: ks -> kinds := ks
    | "ext" :: es -> exts := es
    | "cbprobe" :: _ -> ()
    | "farslots" :: _ -> ()     (* where the driver places the objects in memory: invisible to the model *)
    | "relnull" :: _ -> ()      (* the driver passes NULL as out-parameter of cstl_array_release: same effect *)
    | "cbwreset" :: _ -> print_endline "precond"; dead := true   (* re-entrant callback: outside the model *)
    | "constapi" :: _ -> ()
    | "fail" :: os -> fails := L.map int_of_string os
    | ["failfrom"; n] -> from := Some (int_of_string n)
    | _ ->
      let (ow, rel) = split_fail w in
      let s = state () in
      (match parse_op ow with
       | None -> Printf.printf "badop %s\n" (S.concat " " w); dead := true
       | Some o ->
         (match step (make_oracle !fails !from s rel) v0 s o with
          | Prelude.Done (s', out) ->
            st := Some s';
            Printf.printf "ok %s %s%s\n" (zs out) (dump_st s') (new_events s.log s'.log)
          | Prelude.Abort -> print_endline "abort"; dead := true
          | Prelude.Fault -> print_endline "fault"; dead := true
          | Prelude.Precond -> print_endline "precond"; dead := true))) c.lines;
  if not !dead then begin
    let s = state () in
    match cleanup (make_oracle !fails !from s []) v0 s with
    | Prelude.Done (s', _) ->
      Printf.printf "final %d%s\n" (L.length s'.al.AllocModel.live) (new_events s.log s'.log)
    | Prelude.Abort -> print_endline "abort"
    | Prelude.Fault -> print_endline "fault"
    | Prelude.Precond -> print_endline "precond"
  end;
  print_endline "end"

let main ~v0 ic = L.iter (run_case ~v0) (read_cases ic)

(* ---------------------------------------------------------------- closure *)

(* canonical form of a state: block ids renamed in order of first
   occurrence, logs and request counters dropped *)
let canon (s : st) : string =
  let tbl = Hashtbl.create 16 and cnt = ref 0 in
  let b = Buffer.create 256 in
  let ren x = match Hashtbl.find_opt tbl x with
    | Some k -> k
    | None -> let k = !cnt in incr cnt; Hashtbl.add tbl x k; k in
  let pb (o : Datatypes.nat option) : Datatypes.nat option =
    match o with
    | None -> Buffer.add_string b "n "; None
    | Some x ->
      if AllocModel.is_live s.al x then begin
        Printf.bprintf b "b%d/%s " (ren (int_of_nat x))
          (match AllocModel.block_size s.al x with Some z -> string_of_n z | None -> "?");
        Some x end
      else begin Buffer.add_string b "x "; None end in
  L.iter (fun (o : obj) ->
    Printf.bprintf b "%s %s " (kind_letter o.okind)
      (match o.ogp.gself with ASlot j -> string_of_int (int_of_nat j) | AData d -> "D");
    let p = if o.okind = KG then begin Printf.bprintf b "v%d " (zopt_i o.ogp.gp); None end else pb o.ogp.gp in
    Printf.bprintf b "c%d o%s l%s " (zopt_i o.oclr) (string_of_n o.ooff) (string_of_n o.olen);
    (match o.okind, p with
     | KU, _ | KG, _ | _, None -> ()
     | _, Some d ->
       (match lookup d s.datas with
        | None -> Buffer.add_string b "nodata "
        | Some dd ->
          Printf.bprintf b "h%s s%s c%d " (string_of_n dd.hard) (string_of_n dd.soft) (zopt_i dd.dup.uclr);
          (match pb dd.dup.ugp.gp with
           | None -> ()
           | Some m ->
             (match lookup m s.descs with
              | None -> ()
              | Some d -> Printf.bprintf b "sz%s nm%s %s " (string_of_n d.dsz) (string_of_n d.dnm)
                            (match d.dbuf with Inline -> "I" | Ext e -> "E" ^ string_of_int (int_of_nat e))))));
    Buffer.add_string b "| ") s.objs;
  Printf.bprintf b "live%d" (L.length s.al.AllocModel.live);
  Buffer.contents b

let bfs_mem ~(header : string list) ~(init : st) ~(ops : string list) ~(v0 : bool)
    ~(max_states : int) ~(prefix : string) : int * int * bool =
  let parsed = L.map (fun txt ->
      let (ow, rel) = split_fail (words txt) in
      match parse_op ow with Some o -> (txt, o, rel) | None -> failwith txt) ops in
  let seen : (string, int) Hashtbl.t = Hashtbl.create 4096 in
  let paths : (int, (int * string)) Hashtbl.t = Hashtbl.create 4096 in
  let q = Queue.create () in
  Hashtbl.replace seen (canon init) 0; Queue.add (init, 0) q;
  let nstates = ref 1 and ntrans = ref 0 and closed = ref true in
  let rec path id acc = if id = 0 then acc else
      let (p, t) = Hashtbl.find paths id in path p (t :: acc) in
  while not (Queue.is_empty q) do
    let (s, id) = Queue.pop q in
    let pth = path id [] in
    L.iter (fun (txt, o, rel) ->
      match step (make_oracle [] None s rel) v0 s o with
      | Prelude.Precond -> ()
      | r ->
        incr ntrans;
        Printf.printf "case %s%d\n" prefix !ntrans;
        L.iter print_endline header;
        L.iter print_endline pth;
        print_endline txt; print_endline "end";
        (match r with
         | Prelude.Done (s', _) ->
           let k = canon s' in
           if not (Hashtbl.mem seen k) then begin
             if !nstates < max_states then begin
               let nid = !nstates in
               incr nstates;
               Hashtbl.replace seen k nid;
               Hashtbl.replace paths nid (id, txt);
               Queue.add (s', nid) q
             end else closed := false
           end
         | _ -> ())) parsed
  done;
  (!nstates, !ntrans, !closed)

let smax = "18446744073709551615"
let smax1 = "18446744073709551614"
let smax2 = "18446744073709551613"

(* alphabets of the closure scopes *)
let scope_ops (scope : string) : string list * string list =
  let ops = ref [] in
  let add fmt = Printf.ksprintf (fun s -> ops := s :: !ops) fmt in
  let rng a b = L.init (b - a) (fun i -> a + i) in
  let header =
    match scope with
    | "shared" ->
      (* 3 shared (0-2) + 2 weak (3,4) *)
      L.iter (fun s ->
        add "salloc %d 8 1" s; add "salloc %d 8 1 ! 0" s; add "salloc %d 8 1 ! 1" s;
        add "salloc %d 0 1" s; if s = 0 then add "salloc %d 16 0" s;
        add "sget %d" s; add "sunique %d" s; add "sreset %d" s;
        L.iter (fun n -> add "sshare %d %d" s n) (rng 0 3);
        L.iter (fun n -> if s <= n then add "sswap %d %d" s n) (rng 0 3);
        L.iter (fun w -> add "wfrom %d %d" w s; add "wlock %d %d" w s) (rng 3 5)) (rng 0 3);
      L.iter (fun w -> add "wreset %d" w) (rng 3 5);
      add "wswap 3 4"; add "wswap 3 3";
      ["pool S S S W W"]
    | "unique" ->
      L.iter (fun u ->
        add "ualloc %d 8 %d" u (5 + u); add "ualloc %d 8 -1" u; add "ualloc %d 8 %d ! 0" u (5 + u);
        add "ualloc %d 0 %d" u (5 + u);
        add "uget %d" u; add "urelease %d" u; add "ureset %d" u) (rng 0 2);
      add "uswap 0 1"; add "uswap 1 0";
      ["pool U U"]
    | "array" | "array3" ->
      let na = if scope = "array" then 2 else 3 in
      let bounds = [ "0 0"; "0 2"; "1 3"; "2 2"; "0 3"; "0 5"; "2 5"; "3 6"; "3 2"; "0 6"; "1 11";
                     "0 " ^ smax; "1 " ^ smax; "2 " ^ smax2; smax ^ " " ^ smax; "1 " ^ smax1 ] in
      L.iter (fun a ->
        L.iter (fun nm -> add "aalloc %d %s 4" a nm) ["0"; "3"; "5"];
        add "aalloc %d 3 4 ! 0" a; add "aalloc %d 3 4 ! 1" a;
        add "aalloc %d 4611686018427387905 4" a;          (* 2^62+1 elements of 4 bytes *)
        add "aalloc %d %s 1" a smax; add "aalloc %d 4611686018427387897 4" a;
        add "aalloc %d 18446744073709551607 1" a;           (* SIZE_MAX-8: the product fits, product + header does not *)
        add "aalloc %d 2305843009213693950 8" a;            (* (SIZE_MAX-15)/8 elements of 8 bytes *)
        add "aalloc %d 7 0" a;
        L.iter (fun e -> add "aset %d %d 5 4" a e) (rng 0 2);
        add "aset %d 0 10 4" a; add "aset %d 0 5 4 ! 0" a; add "aset %d 1 0 4" a;
        add "arelease %d" a; add "adata %d" a; add "asize %d" a; add "areset %d" a;
        L.iter (fun i -> add "aat %d %s" a i) ["0"; "2"; "3"; "4"; "5"; "9"; "10"; smax];
        L.iter (fun t ->
          L.iter (fun be -> add "aslice %d %s %d" a be t) bounds;
          add "aunslice %d %d" a t) (rng 0 na)) (rng 0 na);
      [Printf.sprintf "pool %s" (S.concat " " (L.init na (fun _ -> "A"))); "ext 40 40"]
    | "stray" ->
      (* 2 shared, 1 weak, 2 unique, 2 arrays; stray copies between equal kinds *)
      add "salloc 0 8 1"; add "sshare 0 1"; add "sreset 0"; add "sreset 1"; add "sget 1"; add "sunique 0";
      add "wfrom 2 0"; add "wlock 2 1"; add "wreset 2"; add "sswap 0 1";
      add "ualloc 3 8 3"; add "ureset 3"; add "ureset 4"; add "uget 4"; add "uswap 3 4"; add "urelease 4";
      add "aalloc 5 3 4"; add "aslice 5 1 2 6"; add "areset 5"; add "areset 6"; add "aat 6 0"; add "asize 6";
      add "adata 6"; add "aunslice 6 5"; add "arelease 6";
      add "straycopy 0 1"; add "straycopy 1 0"; add "straycopy 3 4"; add "straycopy 4 3";
      add "straycopy 5 6"; add "straycopy 6 5";
      add "sinit 0"; add "sinit 1"; add "winit 2"; add "uinit 3"; add "uinit 4"; add "ainit 5"; add "ainit 6";
      ["pool S S W U U A A"; "ext 40"]
    | "guarded" ->
      (* 3 guarded pointer objects; values NULL, 1, 2; stray copies between all of them *)
      L.iter (fun g ->
        add "ginit %d" g; add "gset %d 0" g; add "gset %d 1" g; add "gset %d 2" g; add "gget %d" g; add "ggetc %d" g;
        L.iter (fun h ->
          add "gcopy %d %d" g h; if g <= h then add "gswap %d %d" g h;
          if g <> h then add "straycopy %d %d" g h) (rng 0 3)) (rng 0 3);
      ["pool G G G"]
    | s -> failwith ("unknown scope " ^ s) in
  (header, L.rev !ops)

let explore ~v0 (scope : string) (max_states : int) =
  let (header, ops) = scope_ops scope in
  let kinds = ref [] and exts = ref [] in
  L.iter (fun h -> match words h with
      | "pool" :: ks -> kinds := ks
      | "ext" :: es -> exts := es
      | _ -> ()) header;
  let init = st_init (L.map kind_of_string !kinds) (L.map nn !exts) in
  let (st, tr, closed) = bfs_mem ~header ~init ~ops ~v0 ~max_states ~prefix:("bfs_" ^ scope ^ "_") in
  Printf.eprintf "states %d transitions %d closed %b\n" st tr closed

let () =
  register "mem" (fun argv -> main ~v0:false (input_of argv 2));
  register "mem_v0" (fun argv -> main ~v0:true (input_of argv 2));
  (* mem-bfs <scope> <max_states> *)
  register "mem-bfs" (fun argv -> explore ~v0:false argv.(2) (int_of_string argv.(3)));
  register "mem_v0-bfs" (fun argv -> explore ~v0:true argv.(2) (int_of_string argv.(3)))
