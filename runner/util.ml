(* Conversions between OCaml ints/strings and the extracted Coq numerals,
   script reading, trace printing.  Stdlib modules are referred to with the
   Stdlib. prefix because the extraction produces List.ml, Nat.ml, ... *)
module L = Stdlib.List
module S = Stdlib.String

let rec nat_of_int n : Datatypes.nat = if n <= 0 then Datatypes.O else Datatypes.S (nat_of_int (n - 1))
let rec int_of_nat (n : Datatypes.nat) = match n with Datatypes.O -> 0 | Datatypes.S m -> 1 + int_of_nat m

(* positive / N / Z <-> decimal strings through arbitrary-size arithmetic on
   little-endian bit lists, so 64-bit values survive OCaml's 63-bit ints *)
let rec pos_of_bits (bits : bool list) : BinNums.positive =
  match bits with
  | [] -> BinNums.Coq_xH
  | [true] -> BinNums.Coq_xH
  | b :: r -> if L.for_all (fun x -> not x) r then BinNums.Coq_xH
              else if b then BinNums.Coq_xI (pos_of_bits r) else BinNums.Coq_xO (pos_of_bits r)

(* decimal string -> list of bits (lsb first) *)
let bits_of_dec (s : string) : bool list =
  let digits = ref (L.map (fun c -> Char.code c - 48) (L.of_seq (S.to_seq s))) in
  let bits = ref [] in
  let is_zero d = L.for_all (fun x -> x = 0) d in
  while not (is_zero !digits) do
    let rem = ref 0 in
    digits := L.map (fun d -> let v = !rem * 10 + d in rem := v mod 2; v / 2) !digits;
    bits := (!rem = 1) :: !bits
  done;
  L.rev !bits

let strip_trailing_false bits =
  let r = ref (L.rev bits) in
  while (match !r with false :: _ -> true | _ -> false) do r := L.tl !r done;
  L.rev !r

let n_of_string (s : string) : BinNums.coq_N =
  let bits = strip_trailing_false (bits_of_dec s) in
  if bits = [] then BinNums.N0 else BinNums.Npos (pos_of_bits bits)

let z_of_string (s : string) : BinNums.coq_Z =
  let neg = S.length s > 0 && s.[0] = '-' in
  let body = if neg then S.sub s 1 (S.length s - 1) else s in
  match n_of_string body with
  | BinNums.N0 -> BinNums.Z0
  | BinNums.Npos p -> if neg then BinNums.Zneg p else BinNums.Zpos p

let rec bits_of_pos (p : BinNums.positive) : bool list =
  match p with
  | BinNums.Coq_xH -> [true]
  | BinNums.Coq_xO q -> false :: bits_of_pos q
  | BinNums.Coq_xI q -> true :: bits_of_pos q

(* bits (lsb first) -> decimal string *)
let dec_of_bits (bits : bool list) : string =
  (* digits little-endian base 10 *)
  let digits = ref [0] in
  L.iter (fun b ->
    let carry = ref (if b then 1 else 0) in
    digits := L.map (fun d -> let v = d * 2 + !carry in carry := v / 10; v mod 10) !digits;
    if !carry > 0 then digits := !digits @ [!carry]) (L.rev bits);
  S.concat "" (L.rev_map string_of_int !digits)

let string_of_pos p = dec_of_bits (bits_of_pos p)
let string_of_n (n : BinNums.coq_N) = match n with BinNums.N0 -> "0" | BinNums.Npos p -> string_of_pos p
let string_of_z (z : BinNums.coq_Z) =
  match z with BinNums.Z0 -> "0" | BinNums.Zpos p -> string_of_pos p | BinNums.Zneg p -> "-" ^ string_of_pos p

let n_of_int i = n_of_string (string_of_int i)
let z_of_int i = z_of_string (string_of_int i)
let int_of_z z = int_of_string (string_of_z z)
let int_of_n n = int_of_string (string_of_n n)

let zs (l : BinNums.coq_Z list) = S.concat " " (L.map string_of_z l)

let words (line : string) : string list =
  L.filter (fun w -> w <> "") (S.split_on_char ' ' (S.trim line))

(* A script is a sequence of cases:  "case <name>" header-lines... op-lines... "end" *)
type case = { name : string; lines : string list list }

let read_cases (ic : in_channel) : case list =
  let cases = ref [] and cur = ref None in
  (try
    while true do
      let w = words (input_line ic) in
      match w with
      | [] -> ()
      | "case" :: n :: _ -> cur := Some (n, [])
      | ["end"] ->
        (match !cur with
         | Some (n, ls) -> cases := { name = n; lines = L.rev ls } :: !cases; cur := None
         | None -> ())
      | _ ->
        (match !cur with
         | Some (n, ls) -> cur := Some (n, w :: ls)
         | None -> ())
    done
  with End_of_file -> ());
  L.rev !cases

let ni s = nat_of_int (int_of_string s)

(* Breadth-first closure over the model's reachable states.  [ops] is the
   finite alphabet (script text, operation); every edge whose outcome is not
   Precond is emitted as one case: shortest path to the source state + the
   operation.  Returns (states, transitions, closed). *)
let bfs (type st) (type op) ~(header : string list) ~(init : st)
    ~(ops : (string * op) list) ~(step : st -> op -> st Prelude.outcome)
    ~(max_states : int) ~(prefix : string) (oc : out_channel) : int * int * bool =
  let seen : (st, int) Hashtbl.t = Hashtbl.create 4096 in
  let paths : (int, (int * string)) Hashtbl.t = Hashtbl.create 4096 in  (* id -> parent, op text *)
  let q = Queue.create () in
  Hashtbl.replace seen init 0; Queue.add (init, 0) q;
  let nstates = ref 1 and ntrans = ref 0 and closed = ref true in
  let rec path id acc = if id = 0 then acc else
      let (p, t) = Hashtbl.find paths id in path p (t :: acc) in
  while not (Queue.is_empty q) do
    let (s, id) = Queue.pop q in
    let pth = path id [] in
    L.iter (fun (txt, o) ->
      match step s o with
      | Prelude.Precond -> ()
      | r ->
        incr ntrans;
        Printf.fprintf oc "case %s%d\n" prefix !ntrans;
        L.iter (fun h -> output_string oc h; output_char oc '\n') header;
        L.iter (fun t -> output_string oc t; output_char oc '\n') pth;
        output_string oc txt; output_string oc "\nend\n";
        (match r with
         | Prelude.Done (s', _) ->
           if not (Hashtbl.mem seen s') then begin
             if !nstates < max_states then begin
               let nid = !nstates in
               incr nstates;
               Hashtbl.replace seen s' nid;
               Hashtbl.replace paths nid (id, txt);
               Queue.add (s', nid) q
             end else closed := false
           end
         | _ -> ())) ops
  done;
  (!nstates, !ntrans, !closed)

(* component registry: every run_<x>.ml registers its entry points at load
   time; main.ml (linked last) dispatches on argv.(1) *)
let registry : (string, string array -> unit) Hashtbl.t = Hashtbl.create 16
let register (name : string) (f : string array -> unit) = Hashtbl.replace registry name f
let input_of (argv : string array) (i : int) : in_channel =
  if Array.length argv > i then open_in argv.(i) else stdin
