(* Runner for the hash-table model (HashModel.v): C03, C04, C17(b), C19;
   component hashl = the pointer-level model HashLinksModel.v.
   Script syntax: notes/C17b.md (section "script syntax"). *)
open Util
open HashModel

(* ---- cstl_hash_mul evaluated with doubles rounded to single precision
   after every operation (exact emulation for k, m < 2^24 * anything that a
   double holds exactly, i.e. k, m < 2^53) ---- *)
let f32 (x : float) : float = Int32.float_of_bits (Int32.bits_of_float x)
let phi = f32 1.61803398875
(* size_t -> float conversion with a single rounding (round to nearest even), for any 64-bit value *)
let f32_of_n (n : BinNums.coq_N) : float =
  match n with
  | BinNums.N0 -> 0.0
  | BinNums.Npos p ->
    let bits = Array.of_list (Util.bits_of_pos p) in          (* lsb first *)
    let len = Array.length bits in
    if len <= 24 then float_of_string (Util.string_of_n n)
    else begin
      let mant = ref 0 in
      for i = len - 1 downto len - 24 do mant := (!mant * 2) + (if bits.(i) then 1 else 0) done;
      let guard = bits.(len - 25) in
      let sticky = ref false in
      for i = 0 to len - 26 do if bits.(i) then sticky := true done;
      if guard && (!sticky || !mant land 1 = 1) then incr mant;
      ldexp (float_of_int !mant) (len - 24)
    end
let mulf (k : BinNums.coq_N) (m : BinNums.coq_N) : BinNums.coq_N =
  let kf = f32_of_n k in
  let mm = f32 (phi *. kf) in
  let fr = f32 (mm -. Stdlib.floor mm) in
  let r = f32 (fr *. f32_of_n m) in
  (* float -> size_t: truncation toward zero of a non-negative value below 2^64 *)
  n_of_string (Printf.sprintf "%.0f" (Stdlib.floor r))

let hf = script_hf mulf

let parse_fn = function "null" -> None | s -> Some (ni s)

let parse_op (w : string list) : op option =
  match w with
  | ["insert"; t; e] -> Some (Insert (ni t, ni e))
  | ["find"; t; k; "null"] -> Some (Find (ni t, n_of_string k, None))
  | "find" :: t :: k :: "acc" :: ids -> Some (Find (ni t, n_of_string k, Some (L.map ni ids)))
  | ["erase"; t; e] -> Some (Erase (ni t, ni e))
  | ["resize"; t; n; f] -> Some (Resize (ni t, n_of_string n, parse_fn f))
  | ["rehash"; t] -> Some (Rehash (ni t))
  | ["shrink"; t] -> Some (Shrink (ni t))
  | ["swap"; a; b] -> Some (Swap (ni a, ni b))
  | ["foreach"; t; stop] -> Some (Foreach (ni t, false, ni stop))
  | ["foreach_erase"; t; stop] -> Some (Foreach (ni t, true, ni stop))
  | ["foreach_const"; t; stop] -> Some (ForeachConst (ni t, ni stop))
  | ["clear"; t; cb] -> Some (Clear (ni t, cb <> "0"))
  | ["size"; t] -> Some (Size (ni t))
  | ["load"; t] -> Some (Load (ni t))
  | _ -> None

let sfn = function None -> "-1" | Some f -> string_of_int (int_of_nat f)
let sb b = if b then "1" else "0"

let dump_table (i : int) (t : table) : string =
  let b = Buffer.create 256 in
  Printf.bprintf b "| T%d: %s %s %s %s %s %s %s %s %s" i
    (string_of_n t.size) (string_of_n t.bcount) (string_of_n t.cap) (sfn t.hash) (sb t.cst)
    (string_of_n t.rcount) (string_of_n t.rclean) (sfn t.rhash)
    (match t.at_blk with None -> "0" | Some _ -> "1");
  L.iter (fun bk ->
    Printf.bprintf b " / %s" (sb bk.bbit);
    L.iter (fun e -> Printf.bprintf b " %d" (int_of_nat e)) bk.chain) t.bks;
  Buffer.contents b

let dump_sys (s : sys) : string = S.concat " " (L.mapi dump_table s.tabs)

let aev_str (e : AllocModel.aev) : string = " ; " ^ zs (AllocModel.aev_out e)

(* float bits of (float)size / (float)n *)
let load_bits (sz : BinNums.coq_Z) (n : BinNums.coq_Z) : string =
  let a = f32 (float_of_int (int_of_z sz)) and b = f32 (float_of_int (int_of_z n)) in
  Printf.sprintf "%ld" (Int32.bits_of_float (a /. b))

let fmt_events (keyed : bool) (w : ev list) : string =
  let h = Buffer.create 64 and o = Buffer.create 16 and v = Buffer.create 16 and x = Buffer.create 16 in
  let c = ref 0 in
  L.iter (function
    | EvHash (f, k, m) ->
      if int_of_nat f <> 0 then Printf.bprintf h " %d %s %s" (int_of_nat f) (string_of_n k) (string_of_n m)
    | EvClean _ -> incr c
    | EvOffer e -> Printf.bprintf o " %d" (int_of_nat e)
    | EvNext _ -> ()
    | EvVisit e -> Printf.bprintf v " %d" (int_of_nat e)
    | EvClear e -> Printf.bprintf x " %d" (int_of_nat e)) w;
  Printf.sprintf "# H%s # C %s # O%s # V%s # X%s" (Buffer.contents h)
    (if keyed then string_of_int !c else "-") (Buffer.contents o)
    (Buffer.contents v) (Buffer.contents x)

type cfg = { mutable keys : BinNums.coq_N array; mutable ntabs : int;
             mutable fails : int list; mutable from : int option }

let key_of (c : cfg) (e : Datatypes.nat) : BinNums.coq_N =
  let i = int_of_nat e in if i < Array.length c.keys then c.keys.(i) else BinNums.N0

let oracle_of (c : cfg) =
  AllocModel.script_oracle (L.map nat_of_int c.fails)
    (match c.from with None -> None | Some f -> Some (nat_of_int f))

let header (c : cfg) (w : string list) : bool =
  match w with
  | "keys" :: ks -> c.keys <- Array.append c.keys (Array.of_list (L.map n_of_string ks)); true
  | ["ntabs"; n] -> c.ntabs <- int_of_string n; true
  | "fail" :: os -> c.fails <- L.map int_of_string os; true
  | ["failfrom"; n] -> c.from <- Some (int_of_string n); true
  | ["vsign"; _] -> true   (* sign of the driver visitor's answer; the model is sign-agnostic *)
  | _ -> false

let run_case ~(vs : vers) (c : case) =
  Printf.printf "case %s\n" c.name;
  let cf = { keys = [||]; ntabs = 1; fails = []; from = None } in
  let st = ref None in
  let dead = ref false in
  let nev = ref 0 in
  L.iter (fun w ->
    if not !dead && not (header cf w) then begin
      let s = match !st with Some s -> s | None -> sys_init (nat_of_int cf.ntabs) in
      match parse_op w with
      | None -> Printf.printf "badop %s\n" (S.concat " " w); dead := true
      | Some o ->
        (match exec hf (key_of cf) vs (oracle_of cf) s o with
         | XDone (s', r, w) ->
           st := Some s';
           let evs = L.rev s'.al.AllocModel.events in
           let fresh = L.filteri (fun i _ -> i >= !nev) evs in
           nev := L.length evs;
           let rs = match o with
             | Load _ -> (match r with [a; b] -> load_bits a b | _ -> "?")
             | _ -> zs r in
           let keyed = match o with Insert _ | Find _ | Erase _ -> true | _ -> false in
           Printf.printf "ok %s %s %s ;;%s\n" rs (fmt_events keyed w) (dump_sys s')
             (S.concat "" (L.map aev_str fresh))
         | XAbort -> print_endline "abort"; dead := true
         | XFault -> print_endline "fault"; dead := true
         | XPrecond -> print_endline "precond"; dead := true)
    end) c.lines;
  if not !dead then begin
    let s = match !st with Some s -> s | None -> sys_init (nat_of_int cf.ntabs) in
    Printf.printf "live %d\n" (L.length s.al.AllocModel.live)
  end;
  print_endline "end"

let main ~vs ic = L.iter (run_case ~vs) (read_cases ic)

(* Budgeted breadth-first exploration of the model's reachable states.  The
   canonical form of a state is its table dump (allocator counters and block
   ids do not influence behaviour when no allocation fails).  One case per
   edge: prefix + shortest path to the source state + the operation. *)
let explore ~(vs : vers) (ntabs : int) (max_edges : int) (counts : int list) (fns : string list)
    (keys : int list) (prefix : string list) (tag : string) =
  let ne = L.length keys in
  let rng n = L.init n (fun i -> i) in
  let ops = ref [] in
  let add fmt = Printf.ksprintf (fun s -> match parse_op (words s) with
      | Some o -> ops := (s, o) :: !ops | None -> failwith s) fmt in
  let kset = L.sort_uniq compare keys in
  L.iter (fun t ->
    L.iter (fun e -> add "insert %d %d" t e; add "erase %d %d" t e) (rng ne);
    L.iter (fun k ->
      add "find %d %d null" t k; add "find %d %d acc" t k;
      (* accept only the last element carrying this key: earlier ones are offered and refused *)
      let es = L.filter (fun e -> L.nth keys e = k) (rng ne) in
      if L.length es > 1 then begin
        add "find %d %d acc %d" t k (L.nth es (L.length es - 1));
        add "find %d %d acc %d" t k (L.hd es)
      end) kset;
    L.iter (fun n -> L.iter (fun f -> add "resize %d %d %s" t n f) fns) counts;
    add "rehash %d" t; add "shrink %d" t;
    add "foreach %d 0" t; add "foreach %d 2" t; add "foreach_erase %d 0" t; add "foreach_erase %d 1" t;
    add "foreach_const %d 0" t; add "foreach_const %d 3" t;
    add "clear %d 1" t; add "clear %d 0" t; add "load %d" t;
    L.iter (fun u -> if t < u then add "swap %d %d" t u) (rng ntabs)) (rng ntabs);
  let ops = L.rev !ops in
  let cf = { keys = Array.of_list (L.map n_of_int keys); ntabs; fails = []; from = None } in
  let step s o = exec hf (key_of cf) vs (oracle_of cf) s o in
  let hdr = [ "keys " ^ S.concat " " (L.map string_of_int keys); Printf.sprintf "ntabs %d" ntabs ] in
  let init = L.fold_left (fun s line ->
      match parse_op (words line) with
      | Some o -> (match step s o with XDone (s', _, _) -> s' | _ -> failwith ("prefix: " ^ line))
      | None -> failwith ("prefix: " ^ line)) (sys_init (nat_of_int ntabs)) prefix in
  let seen : (string, int) Hashtbl.t = Hashtbl.create 4096 in
  let paths : (int, (int * string)) Hashtbl.t = Hashtbl.create 4096 in
  let q = Queue.create () in
  Hashtbl.replace seen (dump_sys init) 0; Queue.add (init, 0) q;
  let nstates = ref 1 and ntrans = ref 0 and closed = ref true in
  let rec path id acc = if id = 0 then acc else
      let (p, t) = Hashtbl.find paths id in path p (t :: acc) in
  while not (Queue.is_empty q) do
    let (s, id) = Queue.pop q in
    if !ntrans >= max_edges then closed := false
    else begin
      let pth = path id [] in
      L.iter (fun (txt, o) ->
        match step s o with
        | XPrecond -> ()
        | r ->
          incr ntrans;
          Printf.printf "case %s%d\n" tag !ntrans;
          L.iter print_endline hdr; L.iter print_endline prefix; L.iter print_endline pth;
          print_endline txt; print_endline "end";
          (match r with
           | XDone (s', _, _) ->
             let k = dump_sys s' in
             if not (Hashtbl.mem seen k) then begin
               let nid = !nstates in
               incr nstates;
               Hashtbl.replace seen k nid;
               Hashtbl.replace paths nid (id, txt);
               Queue.add (s', nid) q
             end
           | _ -> ())) ops
    end
  done;
  Printf.eprintf "states %d transitions %d closed %b\n" !nstates !ntrans !closed

(* ---- pointer-level model (HashLinksModel.v): component hashl.  Same scripts,
   same trace format as hash; the chains of the dump are produced by walking
   the node memory from every bucket's head pointer with a step bound, the
   way the C driver walks the real structure.  " FREED(e)" = the walk met a
   freed / never linked node e, " LOOP" = it did not end within the bound. *)
module HL = HashLinksModel

let walk_bound_steps = 2048

let dump_ltable (m : HL.mem) (i : int) (t : HL.ltable) : string =
  let b = Buffer.create 256 in
  Printf.bprintf b "| T%d: %s %s %s %s %s %s %s %s %s" i
    (string_of_n t.HL.l_size) (string_of_n t.HL.l_bcount) (string_of_n t.HL.l_cap) (sfn t.HL.l_hash) (sb t.HL.l_cst)
    (string_of_n t.HL.l_rcount) (string_of_n t.HL.l_rclean) (sfn t.HL.l_rhash)
    (match t.HL.l_at with None -> "0" | Some _ -> "1");
  L.iter (fun bk ->
    Printf.bprintf b " / %s" (sb bk.HL.lbit);
    let rec go steps cur =
      match cur with
      | None -> ()
      | Some e ->
        if steps >= walk_bound_steps then Buffer.add_string b " LOOP"
        else begin
          match HL.rd m e with
          | None -> Printf.bprintf b " FREED(%d)" (int_of_nat e)
          | Some nn -> Printf.bprintf b " %d" (int_of_nat e); go (steps + 1) nn
        end in
    go 0 bk.HL.hd) t.HL.lbks;
  Buffer.contents b

let dump_lsys (s : HL.lsys) : string = S.concat " " (L.mapi (dump_ltable s.HL.lmem) s.HL.ltabs)

let run_case_links (c : case) =
  Printf.printf "case %s\n" c.name;
  let cf = { keys = [||]; ntabs = 1; fails = []; from = None } in
  let st = ref None in
  let dead = ref false in
  let nev = ref 0 in
  L.iter (fun w ->
    if not !dead && not (header cf w) then begin
      let s = match !st with Some s -> s | None -> HL.lsys_init (nat_of_int cf.ntabs) in
      match parse_op w with
      | None -> Printf.printf "badop %s\n" (S.concat " " w); dead := true
      | Some o ->
        (match HL.lexec hf (key_of cf) (oracle_of cf) s o with
         | HL.LDone (s', r, w) ->
           st := Some s';
           let evs = L.rev s'.HL.lal.AllocModel.events in
           let fresh = L.filteri (fun i _ -> i >= !nev) evs in
           nev := L.length evs;
           let rs = match o with
             | Load _ -> (match r with [a; b] -> load_bits a b | _ -> "?")
             | _ -> zs r in
           let keyed = match o with Insert _ | Find _ | Erase _ -> true | _ -> false in
           Printf.printf "ok %s %s %s ;;%s\n" rs (fmt_events keyed w) (dump_lsys s')
             (S.concat "" (L.map aev_str fresh))
         | HL.LAbort -> print_endline "abort"; dead := true
         | HL.LFault -> print_endline "fault"; dead := true
         | HL.LPrecond -> print_endline "precond"; dead := true)
    end) c.lines;
  if not !dead then begin
    let s = match !st with Some s -> s | None -> HL.lsys_init (nat_of_int cf.ntabs) in
    Printf.printf "live %d\n" (L.length s.HL.lal.AllocModel.live)
  end;
  print_endline "end"

let () =
  let variants = [ ("hash", fixed); ("hash_v0", asfound);
                   ("hash_f2", { pre_f2 = true; pre_f3 = false; pre_f4 = false });
                   ("hash_f3", { pre_f2 = false; pre_f3 = true; pre_f4 = false });
                   ("hash_f4", { pre_f2 = false; pre_f3 = false; pre_f4 = true }) ] in
  L.iter (fun (name, vs) ->
    register name (fun argv -> main ~vs (input_of argv 2));
    (* <name>-bfs <ntabs> <max_edges> <counts,> <fns,> <keys,> <tag> [prefix op ; prefix op ...] *)
    register (name ^ "-bfs") (fun argv ->
      let ints s = L.map int_of_string (S.split_on_char ',' s) in
      let prefix = if Array.length argv > 8 then
          L.filter (fun s -> s <> "") (L.map S.trim (S.split_on_char ';' argv.(8))) else [] in
      explore ~vs (int_of_string argv.(2)) (int_of_string argv.(3)) (ints argv.(4))
        (S.split_on_char ',' argv.(5)) (ints argv.(6)) prefix argv.(7))) variants;
  register "hashl" (fun argv -> L.iter run_case_links (read_cases (input_of argv 2)))
