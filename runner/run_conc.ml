(* C06: runs the extracted interleaving model (ConcModel.v) on scenario +
   schedule scripts ("conc") and enumerates all interleavings of scenarios
   with visited-state pruning ("conc-explore").

   script:  case NAME / thread NF NE WF WE (one per thread) /
            op TID share S D | reset I | weakfrom S D | lock W D | weakreset I | get I /
            sched t t t ... (any number of lines) / end
   trace:   init H S MEM DATA / s TID LABEL RET [events] [done OP RESULT] ... /
            [stuck] / fin H S LOCK MEM DATA err=E | t0 sh.. wk.. | t1 ...          *)
open Util
open ConcModel

let step_bound = 4000

let parse_op (w : string list) : op option =
  match w with
  | ["share"; s; d] -> Some (Share (ni s, ni d))
  | ["reset"; i] -> Some (Reset (ni i))
  | ["weakfrom"; s; d] -> Some (WeakFrom (ni s, ni d))
  | ["lock"; s; d] -> Some (Lock (ni s, ni d))
  | ["weakreset"; i] -> Some (WeakReset (ni i))
  | ["get"; i] -> Some (Get (ni i))
  | _ -> None

let op_name = function
  | Share _ -> "share" | Reset _ -> "reset" | WeakFrom _ -> "weakfrom"
  | Lock _ -> "lock" | WeakReset _ -> "weakreset" | Get _ -> "get"

let label_name = function
  | LNop -> "nop" | LGet false -> "get0" | LGet true -> "get1"
  | LSubHard -> "subhard" | LAddHard -> "addhard" | LSubSoft -> "subsoft"
  | LAddSoft -> "addsoft" | LTas -> "tas" | LFlagClear -> "flagclear"
  | LClear -> "clear" | LFreeData -> "freedata"

let event_name = function
  | EClear -> "ev:clear" | EFreeMem -> "ev:freemem" | EFreeData -> "ev:freedata"
  | EYield -> "ev:yield" | EUaf -> "ev:uaf" | EDouble -> "ev:double" | EUnderflow -> "ev:underflow"

let life_name = function Live -> "live" | Dead -> "dead"

type scen = { threads : (int * int * int * int) list; progs : (int * op) list; sched : int list }

let parse_case (c : case) : scen =
  let th = ref [] and ops = ref [] and sc = ref [] in
  L.iter (fun w ->
    match w with
    | ["thread"; a; b; c'; d] -> th := (int_of_string a, int_of_string b, int_of_string c', int_of_string d) :: !th
    | "op" :: t :: rest ->
      (match parse_op rest with
       | Some o -> ops := (int_of_string t, o) :: !ops
       | None -> failwith ("bad op " ^ S.concat " " w))
    | "sched" :: ts -> sc := L.rev_append (L.map int_of_string ts) !sc
    | _ -> failwith ("bad line " ^ S.concat " " w)) c.lines;
  { threads = L.rev !th; progs = L.rev !ops; sched = L.rev !sc }

let init_of (sc : scen) : state =
  let ts = L.mapi (fun i (a, b, c, d) ->
    let p = L.filter_map (fun (t, o) -> if t = i then Some o else None) sc.progs in
    mk_thread (nat_of_int a) (nat_of_int b) (nat_of_int c) (nat_of_int d) p) sc.threads in
  init_state ts

let print_info (i : info) =
  let b = Buffer.create 64 in
  Buffer.add_string b (Printf.sprintf "s %d %s %s" (int_of_nat i.i_tid) (label_name i.i_lab) (string_of_n i.i_ret));
  L.iter (fun e -> Buffer.add_char b ' '; Buffer.add_string b (event_name e)) i.i_evs;
  (match i.i_done with
   | Some (o, r) -> Buffer.add_string b (Printf.sprintf " done %s %s" (op_name o) (string_of_n r))
   | None -> ());
  print_endline (Buffer.contents b)

let dump_fin (st : state) : string =
  let gl = st.g in
  let th = L.mapi (fun i t ->
    Printf.sprintf "| t%d sh %s wk %s" i
      (S.concat "" (L.map (fun o -> if s_null o then "0" else "1") t.sh))
      (S.concat "" (L.map (fun o -> if w_null o then "0" else "1") t.wk))) st.ths in
  Printf.sprintf "fin %s %s %d %s %s err=%d %s" (string_of_n gl.hard) (string_of_n gl.soft)
    (if gl.lock then 1 else 0) (life_name gl.mem) (life_name gl.data) (if gl.err then 1 else 0)
    (S.concat " " th)

let all_finished (st : state) = L.for_all finished st.ths

(* one model step with the log stripped; returns the new state and the info *)
let step1 (st : state) (tid : int) : (state * info) option =
  match step { st with log = [] } (nat_of_int tid) with
  | None -> None
  | Some st' -> (match st'.log with [i] -> Some ({ st' with log = [] }, i) | _ -> None)

let run_case (c : case) =
  Printf.printf "case %s\n" c.name;
  (try
    let sc = parse_case c in
    let st = ref (init_of sc) in
    let n = L.length sc.threads in
    let gl = !st.g in
    Printf.printf "init %s %s %s %s\n" (string_of_n gl.hard) (string_of_n gl.soft) (life_name gl.mem) (life_name gl.data);
    let steps = ref 0 in
    let doit tid =
      if !steps < step_bound then
      match step1 !st tid with
      | Some (st', i) -> incr steps; st := st'; print_info i
      | None -> () in
    L.iter doit sc.sched;
    (* round-robin extension until every thread has finished *)
    while not (all_finished !st) && !steps < step_bound do
      for t = 0 to n - 1 do doit t done
    done;
    if not (all_finished !st) then print_endline "stuck";
    print_endline (dump_fin !st)
  with Failure m -> Printf.printf "badcase %s\n" m);
  print_endline "end"

let main ic = L.iter run_case (read_cases ic)

(* ---------------------------------------------------------------- explore *)

let key_of (st : state) : string = Marshal.to_string (st.g, st.ths) [Marshal.No_sharing]

type node = { st : state; parent : int; ptid : int; mutable edges : (int * int * bool) list }
  (* edges: tid, successor id, is the step a spin *)

let explore_case (c : case) ~(max_states : int) ~(max_scheds : int)
    (tot : int array) =
  let sc = parse_case c in
  let n = L.length sc.threads in
  let init = { (init_of sc) with log = [] } in
  let seen : (string, int) Hashtbl.t = Hashtbl.create 1024 in
  let nodes : (int, node) Hashtbl.t = Hashtbl.create 1024 in
  let q = Queue.create () in
  Hashtbl.replace seen (key_of init) 0;
  Hashtbl.replace nodes 0 { st = init; parent = -1; ptid = -1; edges = [] };
  Queue.add 0 q;
  let nstates = ref 1 and ntrans = ref 0 and closed = ref true in
  let races = ref 0 and errs = ref 0 in
  let order = ref [] in
  while not (Queue.is_empty q) do
    let id = Queue.pop q in
    order := id :: !order;
    let nd = Hashtbl.find nodes id in
    if has_race nd.st then incr races;
    if nd.st.g.err then incr errs;
    let es = ref [] in
    for t = 0 to n - 1 do
      match step1 nd.st t with
      | None -> ()
      | Some (st', i) ->
        incr ntrans;
        let k = key_of st' in
        let sid =
          match Hashtbl.find_opt seen k with
          | Some sid -> sid
          | None ->
            if !nstates < max_states then begin
              let sid = !nstates in
              incr nstates;
              Hashtbl.replace seen k sid;
              Hashtbl.replace nodes sid { st = st'; parent = id; ptid = t; edges = [] };
              Queue.add sid q; sid
            end else (closed := false; -1) in
        if sid >= 0 then es := (t, sid, is_spin i) :: !es
    done;
    nd.edges <- L.rev !es
  done;
  (* cover every edge by complete schedules *)
  let covered : (int * int, unit) Hashtbl.t = Hashtbl.create 4096 in
  let rec path id acc = if id = 0 then acc else
      let nd = Hashtbl.find nodes id in path nd.parent (nd.ptid :: acc) in
  let nsched = ref 0 in
  L.iter (fun id ->
    let nd = Hashtbl.find nodes id in
    L.iter (fun (t, sid, _) ->
      if not (Hashtbl.mem covered (id, t)) && !nsched < max_scheds then begin
        Hashtbl.replace covered (id, t) ();
        let sched = ref (L.rev (path id [])) in   (* reversed *)
        sched := t :: !sched;
        let cur = ref sid and fuel = ref step_bound in
        let continue = ref true in
        while !continue && !fuel > 0 do
          decr fuel;
          let cn = Hashtbl.find nodes !cur in
          (match L.find_opt (fun (t', _, _) -> not (Hashtbl.mem covered (!cur, t'))) cn.edges with
           | Some (t', s', _) ->
             Hashtbl.replace covered (!cur, t') (); sched := t' :: !sched; cur := s'
           | None ->
             (match L.find_opt (fun (_, _, sp) -> not sp) cn.edges with
              | Some (t', s', _) -> sched := t' :: !sched; cur := s'
              | None -> continue := false))
        done;
        incr nsched;
        Printf.printf "case %s_x%d\n" c.name !nsched;
        L.iter (fun w -> match w with
          | "sched" :: _ -> ()
          | _ -> print_endline (S.concat " " w)) c.lines;
        let sl = L.rev !sched in
        (* wrap long schedules over several lines *)
        let rec chunks l = match l with
          | [] -> ()
          | _ ->
            let rec take k l acc = if k = 0 then (L.rev acc, l) else
                match l with [] -> (L.rev acc, []) | x :: r -> take (k - 1) r (x :: acc) in
            let (h, r) = take 60 l [] in
            print_endline ("sched " ^ S.concat " " (L.map string_of_int h)); chunks r in
        if sl = [] then print_endline "sched" else chunks sl;
        print_endline "end"
      end) nd.edges) (L.rev !order);
  tot.(0) <- tot.(0) + !nstates; tot.(1) <- tot.(1) + !ntrans;
  if not !closed || !nsched >= max_scheds then tot.(2) <- tot.(2) + 1;
  tot.(3) <- tot.(3) + !races; tot.(4) <- tot.(4) + !errs; tot.(5) <- tot.(5) + !nsched

let () =
  register "conc" (fun argv -> main (input_of argv 2));
  (* conc-explore <scenario file> <max_states per scenario> <max schedules per scenario> *)
  register "conc-explore" (fun argv ->
    let ic = open_in argv.(2) in
    let ms = int_of_string argv.(3) and mx = int_of_string argv.(4) in
    let tot = Array.make 6 0 in
    L.iter (fun c -> explore_case c ~max_states:ms ~max_scheds:mx tot) (read_cases ic);
    Printf.eprintf "states %d transitions %d closed %b races %d errs %d schedules %d\n"
      tot.(0) tot.(1) (tot.(2) = 0) tot.(3) tot.(4) tot.(5))
