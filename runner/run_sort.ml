(* Model runner for the raw-array sorts / search / find / reverse (C11).
   Script:
     esize <s>            element size in bytes (key in byte 0, tag in the rest)
     arr k0 k1 ...        keys, may be repeated (concatenated)
     vcap <extra>         (driver only: spare capacity of the vector)
     cmpmode <m>          (driver only: 0 = callback returns -1/0/1, 1 = key difference,
                           2 = sign times a magnitude varying from call to call)
   operations, each applied to the array of the header:
     sort <sel> [draws]   cstl_raw_array_sort, rand() returns the draws, then 0
     sortlcg <sel> <seed> same, rand() is the LCG x' = (1103515245 x + 12345) mod 2^31
     vsort / vsortlcg     through __cstl_vector_sort
     vsortd               cstl_vector_sort (library swap: only comparisons logged)
     reverse / vreverse, search <key> / vsearch, find <key> / vfind
     rawswap <sz> <i> <j> <b0> <b1> ...
                          the byte-level cstl_swap (SwapModel.bytes_swap) on a memory of
                          (n+1)*sz bytes given as decimal values: n elements + the scratch;
                          swaps elements i and j.  Independent of the header.
                          Output: ok 0 | array bytes | ~ scratch bytes
   Output per operation: ok <ret> | key:tag ... | event log (or n= h= when long)

   Byte level: for sort / reverse on arrays of at most byte_limit bytes the final elements
   are NOT printed from the element-level result: the runner builds the driver's memory
   image (put_elem below = put_elem of drv_sort.c), executes the swap events of the model's
   log on it with SwapModel.replay (cstl_swap transcribed byte by byte) and decodes key:tag
   from the resulting bytes like the driver's print_elem; BYTES-MISMATCH is printed if that
   differs from the element-level result (theorem C11_replay_bytes says it cannot). *)
open Util
open SortModel

type el = int * int

let cmp ((k1, _) : el) ((k2, _) : el) : BinNums.coq_Z =
  if k1 < k2 then BinNums.Zneg BinNums.Coq_xH
  else if k1 > k2 then BinNums.Zpos BinNums.Coq_xH else BinNums.Z0

let tagmod esize = if esize <= 1 then 1 else if esize = 2 then 256 else if esize = 3 then 65536 else 16777216

let fmt_ev (e : ev) : string =
  match e with
  | ECmp (i, j) -> Printf.sprintf "c%d,%d" (int_of_nat i) (int_of_nat j)
  | ESwap (i, j) -> Printf.sprintf "s%d,%d" (int_of_nat i) (int_of_nat j)
  | EProbe i -> Printf.sprintf "p%d" (int_of_nat i)
  | ERand (_, v) -> Printf.sprintf "r%s" (string_of_n v)

let ev_code (e : ev) : int * int * int =
  match e with
  | ECmp (i, j) -> (0, int_of_nat i, int_of_nat j)
  | ESwap (i, j) -> (1, int_of_nat i, int_of_nat j)
  | EProbe i -> (2, int_of_nat i, 0)
  | ERand (_, v) -> (3, int_of_n v, 0)

let log_limit = 300

let fmt_log (l : ev list) : string =
  let n = L.length l in
  if n <= log_limit then S.concat " " (L.map fmt_ev l)
  else begin
    let h = ref 0 in
    L.iter (fun e -> let (k, i, j) = ev_code e in
             h := (!h * 1000003 + k * 7 + i * 131 + j * 31337 + 1) mod 2147483647) l;
    Printf.sprintf "n=%d h=%d" n !h
  end

let fmt_arr (a : el list) : string =
  S.concat " " (L.map (fun (k, t) -> Printf.sprintf "%d:%d" k t) a)

(* ---- the driver's element layout (drv_sort.c put_elem / print_elem) ---- *)
let filler idx pos = (idx * 7 + pos * 13 + 1) land 255

let put_elem (es : int) ((key, tag) : el) : int list =
  L.init es (fun k ->
    if k = 0 then key land 255
    else if es >= 2 && k = es - 1 then tag land 255
    else if es >= 3 && k = 1 then (tag lsr 8) land 255
    else if es >= 4 && k = 2 then (tag lsr 16) land 255
    else filler tag k)

let decode_elem (es : int) (e : int array) : string =
  let tag = ref 0 in
  if es >= 2 then tag := !tag lor e.(es - 1);
  if es >= 3 then tag := !tag lor (e.(1) lsl 8);
  if es >= 4 then tag := !tag lor (e.(2) lsl 16);
  let ok = ref true in
  for k = 3 to es - 2 do if e.(k) <> filler !tag k then ok := false done;
  if !ok then Printf.sprintf "%d:%d" e.(0) !tag else Printf.sprintf "%d:BAD" e.(0)

let byte_limit = 512

(* final elements as decoded from the bytes after replaying the swap events of [l] with the
   byte-level cstl_swap; None when the array is too large for the byte-level run *)
let bytes_after (es : int) (a : el list) (l : ev list) : string option =
  let n = L.length a in
  if es < 1 || (n + 1) * es > byte_limit then None else begin
    let m0 = L.concat_map (put_elem es) a @ L.init es (fun _ -> 0xEE) in
    match SwapModel.replay (nat_of_int es) (nat_of_int n) m0 l with
    | Ok m ->
      let arr = Array.of_list m in
      Some (S.concat " " (L.init n (fun k -> decode_elem es (Array.sub arr (k * es) es))))
    | _ -> Some "BYTES-UB"
  end

let fmt_arr_bytes (es : int) (a : el list) (a' : el list) (l : ev list) : string =
  let elems = fmt_arr a' in
  match bytes_after es a l with
  | None -> elems
  | Some b -> if b = elems then b else b ^ " BYTES-MISMATCH"

let rawswap (ws : string list) : string =
  match L.map int_of_string ws with
  | sz :: i :: j :: bytes when sz >= 1 && L.length bytes mod sz = 0 && L.length bytes >= sz ->
    let n = L.length bytes / sz - 1 in
    (match SwapModel.bytes_swap bytes (SwapModel.at_off (nat_of_int sz) (nat_of_int i))
             (SwapModel.at_off (nat_of_int sz) (nat_of_int j))
             (SwapModel.at_off (nat_of_int sz) (nat_of_int n)) (nat_of_int sz) with
     | Ok m ->
       let f l = S.concat " " (L.map string_of_int l) in
       Printf.sprintf "ok 0 | %s | ~ %s" (f (L.filteri (fun k _ -> k < n * sz) m))
         (f (L.filteri (fun k _ -> k >= n * sz) m))
     | _ -> "fault")
  | _ -> "precond"

let lcg_next x = (x * 1103515245 + 12345) land 0x7fffffff

let rnd_of_draws (draws : int list) : Datatypes.nat -> BinNums.coq_N =
  let arr = Array.of_list draws in
  fun k -> let i = int_of_nat k in if i < Array.length arr then n_of_int arr.(i) else BinNums.N0

let rnd_of_lcg (seed : int) : Datatypes.nat -> BinNums.coq_N =
  let tbl = ref [||] and x = ref seed and n = ref 0 in
  fun k ->
    let i = int_of_nat k in
    while !n <= i do
      if !n >= Array.length !tbl then tbl := Array.append !tbl (Array.make (max 64 (Array.length !tbl)) 0);
      x := lcg_next !x; !tbl.(!n) <- !x; incr n
    done;
    n_of_int !tbl.(i)

let fin_res : 'x. bool ref -> 'x res -> ('x -> unit) -> unit = fun dead r f ->
  match r with
  | Ok x -> f x
  | Ub -> print_endline "fault"; dead := true
  | NoFuel -> print_endline "fault"; dead := true

let only_cmps (l : ev list) = L.filter (function ESwap _ -> false | _ -> true) l

let run_case ~(v0 : bool) (c : case) =
  Printf.printf "case %s\n" c.name;
  let esize = ref 4 and keys = ref [] in
  let dead = ref false in
  L.iter (fun w ->
    if not !dead then
    match w with
    | ["esize"; s] -> esize := int_of_string s
    | "arr" :: ks -> keys := !keys @ L.map int_of_string ks
    | ["vcap"; _] -> ()
    | ["swapmode"; _] -> ()  (* the driver's swap callback works in place and gets no scratch: same exchanges *)
    | ["cmpmode"; _] -> ()   (* magnitude of the C callback's results: the model only sees signs *)
    | "rawswap" :: ws ->
      let r = rawswap ws in
      print_endline r; if r = "fault" || r = "precond" then dead := true
    | _ ->
      let tm = tagmod !esize in
      let a : el list = L.mapi (fun i k -> (k, i mod tm)) !keys in
      let fin r f = fin_res dead r f in
      let do_sort ?(filter = fun l -> l) sel extra rnd =
        fin (sort cmp (z_of_string sel) (nat_of_int extra) rnd a)
          (fun (a', l) -> Printf.printf "ok 0 | %s | %s\n" (fmt_arr_bytes !esize a a' l) (fmt_log (filter l))) in
      (match w with
       | ("sort" | "vsort") :: sel :: draws ->
         let d = L.map int_of_string draws in
         do_sort sel (L.length d) (rnd_of_draws d)
       | [("sortlcg" | "vsortlcg"); sel; seed] ->
         do_sort sel 1000 (rnd_of_lcg (int_of_string seed))
       | ["vsortd"] -> do_sort ~filter:only_cmps "2" 0 (rnd_of_draws [])
       | ["reverse"] | ["vreverse"] ->
         fin ((if v0 then reverse_v0 else reverse) a)
           (fun (a', l) -> Printf.printf "ok 0 | %s | %s\n" (fmt_arr_bytes !esize a a' l) (fmt_log l))
       | [("search" | "vsearch"); p] ->
         if not (sortedb cmp a) then begin print_endline "precond"; dead := true end else
         fin ((if v0 then search_v0 else search) cmp (int_of_string p, 0) a)
           (fun (r, l) -> Printf.printf "ok %s | %s | %s\n" (string_of_z r) (fmt_arr a) (fmt_log l))
       | [("find" | "vfind"); p] ->
         let (r, l) = find cmp (int_of_string p, 0) a in
         Printf.printf "ok %s | %s | %s\n" (string_of_z r) (fmt_arr a) (fmt_log l)
       (* arrays of more than 2^31 one-byte elements cannot be materialised as
          lists: the expected line is the statement of the theorems
          reverse_correct (mirror image, count/2 swaps) and search_correct
          (a present key is found) of SortProofs.v *)
       | ["bigreverse"; n] ->
         Printf.printf "ok 0 | mirrored=1 first_bad=-1 | nswap=%d\n" (int_of_string n / 2)
       | ["bigsearch"; n; p] ->
         let present = int_of_string n >= 256 && int_of_string p >= 0 && int_of_string p <= 255 in
         Printf.printf "ok found=%d |\n" (if present then 1 else 0)
       | _ -> Printf.printf "badop %s\n" (S.concat " " w); dead := true)) c.lines;
  print_endline "end"

let main ~v0 ic = L.iter (run_case ~v0) (read_cases ic)

(* Enumeration of every distinguishable pivot-draw sequence of the randomised
   quicksort on every array of length <= maxlen over keys 0..nk-1: depth-first
   over the draws, the model reporting (ERand count _) how each draw is reduced.
   A sequence is extended only while the model still consumes draws beyond it
   (those read as 0); chains of retries are cut at depth len + 2. *)
let enum_draws (a : el list) : int list list =
  let n = L.length a in
  let out = ref [] in
  let rec go (pre : int list) =
    let np = L.length pre in
    match sort cmp (z_of_int 1) (nat_of_int (np + 2)) (rnd_of_draws pre) a with
    | Ok (_, l) ->
      let counts = L.filter_map (function ERand (c, _) -> Some (int_of_nat c) | _ -> None) l in
      if L.length counts <= np || np >= n + 2 then out := pre :: !out
      else
        let c = L.nth counts np in
        for v = 0 to c - 1 do go (pre @ [v]) done
    | _ -> out := pre :: !out
  in
  go []; L.rev !out

let explore (maxlen : int) (nk : int) (esizes : int list) =
  let cnt = ref 0 in
  let rec arrays len = if len = 0 then [[]] else
      L.concat_map (fun r -> L.init nk (fun k -> k :: r)) (arrays (len - 1)) in
  for len = 0 to maxlen do
    L.iter (fun keys ->
      let es = L.nth esizes (!cnt mod L.length esizes) in
      let tm = tagmod es in
      let a = L.mapi (fun i k -> (k, i mod tm)) keys in
      Printf.printf "case enumr%d\nesize %d\narr %s\n" !cnt es (S.concat " " (L.map string_of_int keys));
      L.iter (fun d -> Printf.printf "sort 1 %s\n" (S.concat " " (L.map string_of_int d))) (enum_draws a);
      print_endline "end";
      incr cnt) (arrays len)
  done;
  Printf.eprintf "states %d transitions %d closed true\n" !cnt !cnt

let () =
  register "sort" (fun argv -> main ~v0:false (input_of argv 2));
  register "sort_v0" (fun argv -> main ~v0:true (input_of argv 2));
  (* sort-bfs <maxlen> <nkeys> esize... *)
  register "sort-bfs" (fun argv ->
    let es = L.map int_of_string (Array.to_list (Array.sub argv 4 (Array.length argv - 4))) in
    explore (int_of_string argv.(2)) (int_of_string argv.(3)) es)
