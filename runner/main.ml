let () =
  let argv = Sys.argv in
  let comp = if Array.length argv > 1 then argv.(1) else "" in
  let arg i = argv.(i) in
  let file () = if Array.length argv > 2 then open_in argv.(2) else stdin in
  match comp with
  | "slist" -> Run_slist.main ~v0:false (file ())
  | "slist_v0" -> Run_slist.main ~v0:true (file ())
  | "slist-bfs" | "slist_v0-bfs" ->
    (* slist-bfs <nlists> <max_states> k0 k1 ... *)
    let keys = Stdlib.List.map int_of_string (Array.to_list (Array.sub argv 4 (Array.length argv - 4))) in
    Run_slist.explore ~v0:(comp = "slist_v0-bfs") (int_of_string (arg 2)) keys (int_of_string (arg 3))
  | _ -> prerr_endline ("unknown component " ^ comp); exit 2
