let () =
  let argv = Sys.argv in
  let comp = if Array.length argv > 1 then argv.(1) else "" in
  match Hashtbl.find_opt Util.registry comp with
  | Some f -> f argv
  | None -> prerr_endline ("unknown component " ^ comp); exit 2
