(* Runner for the vector model (C09).
   Script header:  vec <esize> <cons 0|1> <dest 0|1>   (one line per vector object)
                   fail <o1> <o2> ...                   (allocation requests that fail, by ordinal)
                   failfrom <n>                         (every request with ordinal >= n fails)
   Operations:     reserve v n | shrink v | resize v n | clear v | at v i | put v i x
                   | swap a b | sort v | reverse v
   After the last operation every vector is cleared (one line per clear) and
   "fin <live blocks>" is printed. *)
open Util
open VectorModel

let nn = n_of_string

let parse_op (w : string list) : op option =
  match w with
  | ["reserve"; v; n] -> Some (Reserve (ni v, nn n))
  | ["shrink"; v] -> Some (Shrink (ni v))
  | ["resize"; v; n] -> Some (Resize (ni v, nn n))
  | ["clear"; v] -> Some (Clear (ni v))
  | ["at"; v; i] -> Some (At (ni v, nn i))
  | ["put"; v; i; x] -> Some (Put (ni v, nn i, nn x))
  | ["swap"; a; b] -> Some (Swap (ni a, ni b))
  | ["sort"; v] -> Some (Sort (ni v))
  | ["reverse"; v] -> Some (Reverse (ni v))
  | _ -> None

let events_since (old_n : int) (al : AllocModel.alloc) : string =
  let evs = al.AllocModel.events in
  let k = L.length evs - old_n in
  let rec take n l = if n <= 0 then [] else match l with [] -> [] | x :: r -> x :: take (n - 1) r in
  let fresh = L.rev (take k evs) in
  " ;;" ^ S.concat "" (L.map (fun e -> " ; " ^ zs (AllocModel.aev_out e)) fresh)

(* at most max_print elements are printed (the drivers apply the same cap) *)
let max_print = 256
let rec take n l = if n <= 0 then [] else match l with [] -> [] | x :: r -> x :: take (n - 1) r

let dump_sys (s : sys) : string =
  S.concat " " (L.mapi (fun i v -> Printf.sprintf "| V%d: %s" i (zs (take (5 + max_print) (dump s.heap v)))) s.vecs)

type hdr = { mutable shape : ((BinNums.coq_N * bool) * bool) list;
             mutable fails : Datatypes.nat list; mutable from : Datatypes.nat option }

let oracle_of (h : hdr) = AllocModel.script_oracle h.fails h.from

let run_case ~(v0 : bool) (c : case) =
  Printf.printf "case %s\n" c.name;
  let h = { shape = []; fails = []; from = None } in
  let st = ref None in
  let dead = ref false in
  let exec (o : op) =
    let s = match !st with Some s -> s | None -> sys_init (L.rev h.shape) in
    let n0 = L.length s.heap.AllocModel.events in
    match step (oracle_of h) v0 s o with
    | Prelude.Done (s', out) ->
      st := Some s';
      Printf.printf "ok %s %s%s\n" (zs out) (dump_sys s') (events_since n0 s'.heap)
    | Prelude.Abort -> print_endline "abort"; dead := true
    | Prelude.Fault -> print_endline "fault"; dead := true
    | Prelude.Precond -> print_endline "precond"; dead := true in
  L.iter (fun w ->
    if not !dead then
    match w with
    | ["vec"; e; c; d] -> h.shape <- ((nn e, c = "1"), d = "1") :: h.shape
    | "fail" :: os -> h.fails <- L.map ni os
    | ["failfrom"; n] -> h.from <- Some (ni n)
    | "atdiscard" :: _ -> () (* the driver discards the address an out-of-range at() would return: same abort *)
    | "samecb" :: _ -> ()    (* the driver uses one function as constructor and destructor: same calls *)
    | _ ->
      (match parse_op w with
       | None -> Printf.printf "badop %s\n" (S.concat " " w); dead := true
       | Some o -> exec o)) c.lines;
  if not !dead then begin
    let nv = L.length h.shape in
    for i = 0 to nv - 1 do if not !dead then exec (Clear (nat_of_int i)) done;
    if not !dead then
      (match !st with
       | Some s -> Printf.printf "fin %d\n" (L.length s.heap.AllocModel.live)
       | None -> Printf.printf "fin 0\n")
  end;
  print_endline "end"

let main ~v0 ic = L.iter (run_case ~v0) (read_cases ic)

(* ---- closure exploration ----
   The allocator's history (events, ordinals, block numbering) is
   normalised away after every step so that the state space is finite:
   blocks are renumbered in vector order. *)
let norm (s : sys) : sys =
  let k = ref 0 in
  let live = ref [] in
  let vs = L.map (fun v ->
    match v.base with
    | None -> v
    | Some b ->
      let id = nat_of_int !k in
      incr k;
      (match AllocModel.block_size s.heap b with
       | Some sz -> live := (id, sz) :: !live
       | None -> ());
      { v with base = Some id }) s.vecs in
  { vecs = vs;
    heap = { AllocModel.live = L.rev !live; next = nat_of_int !k; ord = Datatypes.O; events = [] } }

let size_max = "18446744073709551615"
let dec_sub (a : string) (k : int) : string =
  (* a - k for a decimal string a >= k, k small *)
  let d = Array.of_list (L.map (fun c -> Char.code c - 48) (L.of_seq (S.to_seq a))) in
  let i = ref (Array.length d - 1) and borrow = ref k in
  while !borrow > 0 && !i >= 0 do
    let v = d.(!i) - (!borrow mod 10) in
    let b = !borrow / 10 in
    if v < 0 then begin d.(!i) <- v + 10; borrow := b + 1 end
    else begin d.(!i) <- v; borrow := b end;
    decr i
  done;
  let s = S.concat "" (L.map string_of_int (Array.to_list d)) in
  let j = ref 0 in
  while !j < S.length s - 1 && s.[!j] = '0' do incr j done;
  S.sub s !j (S.length s - !j)

let explore ~v0 (max_states : int) (maxn : int) (shape : (int * bool * bool) list) =
  let nv = L.length shape in
  let ops = ref [] in
  let add fmt = Printf.ksprintf (fun s -> match parse_op (words s) with
      | Some o -> ops := (s, o) :: !ops | None -> failwith s) fmt in
  L.iteri (fun v (es, _, _) ->
    let q = string_of_n (BinNat.N.div (nn size_max) (nn (string_of_int es))) in
    let huge = [size_max; dec_sub size_max 1; q; dec_sub q 1; dec_sub q 2] in
    let small = L.init (maxn + 1) string_of_int in
    L.iter (fun n -> add "reserve %d %s" v n; add "resize %d %s" v n) (small @ huge);
    add "shrink %d" v; add "clear %d" v; add "sort %d" v; add "reverse %d" v;
    L.iter (fun i -> add "at %d %s" v i) (small @ [size_max; q]);
    L.iter (fun i -> add "put %d %d 1" v i; add "put %d %d 2" v i) (L.init maxn (fun i -> i));
    L.iteri (fun u _ -> if v < u then add "swap %d %d" v u) shape) shape;
  ignore nv;
  let header = L.map (fun (e, c, d) ->
      Printf.sprintf "vec %d %d %d" e (if c then 1 else 0) (if d then 1 else 0)) shape in
  let init = sys_init (L.map (fun (e, c, d) -> ((nn (string_of_int e), c), d)) shape) in
  let ok = AllocModel.script_oracle [] None in
  let step' s o = match step ok v0 s o with
    | Prelude.Done (s', out) -> Prelude.Done (norm s', out)
    | r -> r in
  let (st, tr, closed) =
    bfs ~header ~init ~ops:(L.rev !ops) ~step:step' ~max_states ~prefix:"bfs" stdout in
  Printf.eprintf "states %d transitions %d closed %b\n" st tr closed

let () =
  register "vector" (fun argv -> main ~v0:false (input_of argv 2));
  register "vector_v0" (fun argv -> main ~v0:true (input_of argv 2));
  (* vector-bfs <max_states> <max small size> (<esize> <cons> <dest>)+ *)
  let bfs v0 argv =
    let a = Array.to_list (Array.sub argv 4 (Array.length argv - 4)) in
    let rec shp l = match l with
      | e :: c :: d :: r -> (int_of_string e, c = "1", d = "1") :: shp r
      | _ -> [] in
    explore ~v0 (int_of_string argv.(2)) (int_of_string argv.(3)) (shp a) in
  register "vector-bfs" (bfs false);
  register "vector_v0-bfs" (bfs true)
