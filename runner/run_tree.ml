(* Model runner for src/bintree.c and src/rbtree.c (C01, C02).
   Header lines of a case: "keys k0 k1 ..." (key of element id i; further
   "keys" lines continue the table),
   "kind bin|rb".  Components: tree (kind from the header, default bin),
   bintree, rbtree (default kind fixed), the closure explorers
   tree-bfs / bintree-bfs / rbtree-bfs, and treel / bintreel / rbtreel: the
   pointer-level model TreeLinksModel.v on the same scripts. *)
open Util
open TreeModel

let parse_op (w : string list) : op option =
  match w with
  | ["insert"; e] -> Some (Insert (ni e))
  | ["inserth"; e] -> Some (InsertH (ni e))
  | ["find"; k] -> Some (Find (z_of_string k))
  | ["erase"; k] -> Some (Erase (z_of_string k))
  | ["foreach"; d; stop] ->
    (match d with
     | "fwd" -> Some (Foreach (false, ni stop))
     | "rev" -> Some (Foreach (true, ni stop))
     | _ -> None)
  | ["clear"] -> Some Clear
  | ["height"] -> Some Height
  | ["size"] -> Some Size
  | _ -> None

let dump_tree (rb : bool) (t : tree) : string =
  let b = Buffer.create 256 in
  let rec go t =
    match t with
    | E -> Buffer.add_string b " ."
    | T (c, l, x, r) ->
      Buffer.add_string b " ( ";
      Buffer.add_string b (string_of_int (int_of_nat x.eid));
      if rb then Buffer.add_string b (match c with Red -> " R" | Black -> " B");
      go l; go r;
      Buffer.add_string b " )" in
  go t;
  Buffer.contents b

let dump_state (rb : bool) (s : tstate) : string =
  Printf.sprintf "| %s%s" (string_of_n s.sz) (dump_tree rb s.tr)

let kind_of_string = function "rb" -> RB | _ -> Bin

let run_case ~(dflt : kind) (c : case) =
  Printf.printf "case %s\n" c.name;
  let keys = ref [||] and kd = ref dflt in
  let st = ref t_init in
  let dead = ref false in
  L.iter (fun w ->
    if not !dead then
    match w with
    | "keys" :: ks -> keys := Array.append !keys (Array.of_list (L.map z_of_string ks))
    | ["kind"; k] -> kd := kind_of_string k
    | ["vsign"; _] -> ()
    | "swapobj" :: _ -> ()   (* the driver moves the tree between two objects: contents unchanged *)
    | ["nestwalk"; _] -> ()  (* the driver's visitor walks another tree first: no effect on this one *)
    | ["cmpmode"; _] -> ()   (* magnitude of the C comparator's results: only the sign matters *)
    | _ ->
      let key n = let i = int_of_nat n in if i < Array.length !keys then !keys.(i) else BinNums.Z0 in
      (match parse_op w with
       | None -> Printf.printf "badop %s\n" (S.concat " " w); dead := true
       | Some o ->
         (match step key !kd !st o with
          | Prelude.Done (s', out) ->
            st := s';
            Printf.printf "ok %s %s\n" (zs out) (dump_state (!kd = RB) s')
          | Prelude.Abort -> print_endline "abort"; dead := true
          | Prelude.Fault -> print_endline "fault"; dead := true
          | Prelude.Precond -> print_endline "precond"; dead := true))) c.lines;
  print_endline "end"

let main ~dflt ic = L.iter (run_case ~dflt) (read_cases ic)

(* ---- pointer-level model (TreeLinksModel.v): components treel / bintreel /
   rbtreel.  Same scripts, same trace format; the dump is produced from the
   pointer-level memory the way the C driver decodes the real structure
   (shape, ids, colours, every parent pointer, nodes reached twice), plus
   MALFORMED(decode) if the Coq decoder rejects a state the walk accepted. *)
module TL = TreeLinksModel

let dump_links (rb : bool) key (s : TL.lstate) : string =
  let b = Buffer.create 256 in
  let seen = Hashtbl.create 64 in
  let nodes = ref 0 and bad = ref false in
  let mal fmt = Printf.ksprintf (fun t -> bad := true; Buffer.add_string b (" MALFORMED(" ^ t ^ ")")) fmt in
  let rec go (a : Datatypes.nat option) (parent : Datatypes.nat option) =
    match a with
    | None -> Buffer.add_string b " ."
    | Some ad ->
      let i = int_of_nat ad in
      if !nodes > 256 then mal "cycle"
      else if i = 0 then mal "foreign-node"
      else if Hashtbl.mem seen i then mal "node-%d-reached-twice" (i - 1)
      else begin
        Hashtbl.replace seen i ();
        incr nodes;
        let n = TL.mget s.TL.lm ad in
        Buffer.add_string b (Printf.sprintf " ( %d" (i - 1));
        if rb then Buffer.add_string b (match n.TL.n_c with Red -> " R" | Black -> " B");
        if n.TL.n_p <> parent then mal "parent-of-%d" (i - 1);
        go n.TL.n_l a; go n.TL.n_r a;
        Buffer.add_string b " )"
      end in
  go s.TL.lroot None;
  let sz = string_of_n s.TL.lsz in
  if string_of_int !nodes <> sz then mal "size-%s-nodes-%d" sz !nodes;
  (match TL.decode key s with
   | None -> if not !bad then mal "decode"
   | Some _ -> ());
  Printf.sprintf "| %s%s" sz (Buffer.contents b)

let run_case_links ~(dflt : kind) (c : case) =
  Printf.printf "case %s\n" c.name;
  let keys = ref [||] and kd = ref dflt in
  let st = ref TL.l_init in
  let dead = ref false in
  L.iter (fun w ->
    if not !dead then
    match w with
    | "keys" :: ks -> keys := Array.append !keys (Array.of_list (L.map z_of_string ks))
    | ["kind"; k] -> kd := kind_of_string k
    | ["vsign"; _] -> ()
    | "swapobj" :: _ -> ()   (* the driver moves the tree between two objects: contents unchanged *)
    | ["nestwalk"; _] -> ()  (* the driver's visitor walks another tree first: no effect on this one *)
    | ["cmpmode"; _] -> ()
    | _ ->
      let key n = let i = int_of_nat n in if i < Array.length !keys then !keys.(i) else BinNums.Z0 in
      (match parse_op w with
       | None -> Printf.printf "badop %s\n" (S.concat " " w); dead := true
       | Some o ->
         (match TL.lstep key !kd !st o with
          | Prelude.Done (s', out) ->
            st := s';
            Printf.printf "ok %s %s\n" (zs out) (dump_links (!kd = RB) key s')
          | Prelude.Abort -> print_endline "abort"; dead := true
          | Prelude.Fault -> print_endline "fault"; dead := true
          | Prelude.Precond -> print_endline "precond"; dead := true))) c.lines;
  print_endline "end"

let main_links ~dflt ic = L.iter (run_case_links ~dflt) (read_cases ic)

(* closure exploration: elements 0..ne-1 with the given keys.
   mode "all": every operation of C01 with every stop position of the
   visitor; "all-sparse": fewer stop positions; "rb": insert (plain and with
   the hint reported by find, which for a duplicate key is the parent of
   the equal element found)/erase/height. *)
let explore (kd : kind) (mode : string) (keys : int list) (max_states : int) =
  let ne = L.length keys in
  let rng n = L.init n (fun i -> i) in
  let ks = L.sort_uniq compare keys in
  let probe = ks @ [ (L.fold_left max 0 keys) + 1 ] in
  let ops = ref [] in
  let add fmt = Printf.ksprintf (fun s -> match parse_op (words s) with
      | Some o -> ops := (s, o) :: !ops | None -> failwith s) fmt in
  L.iter (fun e -> add "insert %d" e; add "inserth %d" e) (rng ne);
  L.iter (fun k -> add "erase %d" k) ks;
  add "height";
  if mode = "all" || mode = "all-sparse" then begin
    L.iter (fun k -> add "find %d" k) probe;
    add "erase %d" (L.nth probe (L.length probe - 1));
    (* a tree of ne nodes yields at most 3*ne-2 visits: "all" tries every
       stop position in both directions (positions beyond the number of
       visits of a state behave like 0) *)
    let nev = 3 * ne - 2 in
    if mode = "all" then
      L.iter (fun j -> add "foreach fwd %d" j; add "foreach rev %d" j) (rng (nev + 2))
    else begin
      L.iter (fun j -> add "foreach fwd %d" j) [0; 1; 2; 4; 7; nev];
      L.iter (fun j -> add "foreach rev %d" j) [0; 3; 6; nev - 1]
    end;
    add "clear"; add "size"
  end;
  let karr = Array.of_list (L.map z_of_int keys) in
  let key n = let i = int_of_nat n in if i < Array.length karr then karr.(i) else BinNums.Z0 in
  let rb = (kd = RB) in
  let header = [ "keys " ^ S.concat " " (L.map string_of_int keys);
                 "kind " ^ (if rb then "rb" else "bin") ] in
  (* the dump string leads the state so that the generic hash of Util.bfs
     spreads well *)
  let step' (_, s) o =
    match step key kd s o with
    | Prelude.Done (s', out) -> Prelude.Done ((dump_state rb s', s'), out)
    | Prelude.Abort -> Prelude.Abort
    | Prelude.Fault -> Prelude.Fault
    | Prelude.Precond -> Prelude.Precond in
  let (st, tr, closed) =
    bfs ~header ~init:(dump_state rb t_init, t_init) ~ops:(L.rev !ops) ~step:step'
      ~max_states ~prefix:"bfs" stdout in
  Printf.eprintf "states %d transitions %d closed %b\n" st tr closed

let () =
  register "tree" (fun argv -> main ~dflt:Bin (input_of argv 2));
  register "bintree" (fun argv -> main ~dflt:Bin (input_of argv 2));
  register "rbtree" (fun argv -> main ~dflt:RB (input_of argv 2));
  register "treel" (fun argv -> main_links ~dflt:Bin (input_of argv 2));
  register "bintreel" (fun argv -> main_links ~dflt:Bin (input_of argv 2));
  register "rbtreel" (fun argv -> main_links ~dflt:RB (input_of argv 2));
  (* <x>-bfs <max_states> <mode> k0 k1 ...   (tree-bfs: kind first) *)
  let bfs kd off argv =
    let keys = L.map int_of_string (Array.to_list (Array.sub argv (off + 2) (Array.length argv - off - 2))) in
    explore kd argv.(off + 1) keys (int_of_string argv.(off)) in
  register "bintree-bfs" (bfs Bin 2);
  register "rbtree-bfs" (bfs RB 2);
  register "tree-bfs" (fun argv -> bfs (kind_of_string argv.(2)) 3 argv)
