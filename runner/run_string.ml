(* Runner for the string model (C10), both character widths.
   Script header:  width 1|4     nstr <n>     fail <o1> ...     failfrom <n>
   Characters and literals are given as decimal character codes.
   Operations:
     set s c*            | insert_ch s pos cnt c | insert_str s pos c* | insert_str_n s pos c*
     insert s pos t      | append s t            | append_ch s cnt c   | append_str s c*
     erase s pos len     | substr s pos len t    | resize s n          | reserve s n
     swap a b            | clear s               | at s i
     find_ch s c pos     | find_str s pos c*     | find s pos t
     compare a b         | compare_str a c*
     append_str_n s n c* | at_const s i          | data s
   append_str_n appends the first n of the given characters (NUL allowed);
   n beyond them is outside the domain unless the library aborts before
   reading the source.  data prints "1" for NULL, else "0 <block> <offset>"
   followed, when the vector holds elements, by <data[size]==NUL> and the
   characters data[0 .. size).
   find/compare lines carry the result twice: the second number is, on the
   implementation side, what libc says on a private copy of the string.
   After the last operation every string is cleared and "fin <live blocks>"
   is printed. *)
open Util
open VectorModel
open StrModel

let nn = n_of_string
let cs (l : string list) = L.map nn l

let parse_op (w : string list) : sop option =
  match w with
  | "set" :: s :: l -> Some (SSet (ni s, cs l))
  | ["insert_ch"; s; p; n; c] -> Some (SInsertCh (ni s, nn p, nn n, nn c))
  | "insert_str" :: s :: p :: l -> Some (SInsertStr (ni s, nn p, cs l))
  | "insert_str_n" :: s :: p :: l -> Some (SInsertStrN (ni s, nn p, cs l))
  | ["insert"; s; p; t] -> Some (SInsert (ni s, nn p, ni t))
  | ["append"; s; t] -> Some (SAppend (ni s, ni t))
  | ["append_ch"; s; n; c] -> Some (SAppendCh (ni s, nn n, nn c))
  | "append_str" :: s :: l -> Some (SAppendStr (ni s, cs l))
  | ["erase"; s; p; n] -> Some (SErase (ni s, nn p, nn n))
  | ["substr"; s; p; n; t] -> Some (SSubstr (ni s, nn p, nn n, ni t))
  | ["resize"; s; n] -> Some (SResize (ni s, nn n))
  | ["reserve"; s; n] -> Some (SReserve (ni s, nn n))
  | ["swap"; a; b] -> Some (SSwap (ni a, ni b))
  | ["clear"; s] -> Some (SClear (ni s))
  | ["at"; s; i] -> Some (SAt (ni s, nn i))
  | ["find_ch"; s; c; p] -> Some (SFindCh (ni s, nn c, nn p))
  | "find_str" :: s :: p :: l -> Some (SFindStr (ni s, cs l, nn p))
  | ["find"; s; p; t] -> Some (SFind (ni s, nn p, ni t))
  | ["compare"; a; b] -> Some (SCompare (ni a, ni b))
  | "compare_str" :: a :: l -> Some (SCompareStr (ni a, cs l))
  | "append_str_n" :: s :: n :: l -> Some (SAppendStrN (ni s, nn n, cs l))
  | ["at_const"; s; i] -> Some (SAtConst (ni s, nn i))
  | ["data"; s] -> Some (SData (ni s))
  | _ -> None

let twice (o : sop) = match o with
  | SFindCh _ | SFindStr _ | SFind _ | SCompare _ | SCompareStr _ -> true
  | _ -> false

let dump_sys (v0 : bool) (s : sys) : string =
  S.concat " " (L.mapi (fun i v -> Printf.sprintf "| S%d: %s" i (zs (Run_vector.take (7 + Run_vector.max_print) (sdump v0 s.heap v)))) s.vecs)

let run_case ~(v0 : bool) (c : case) =
  Printf.printf "case %s\n" c.name;
  let width = ref "1" and nstr = ref 1 in
  let fails = ref [] and from = ref None in
  let st = ref None in
  let dead = ref false in
  let exec (o : sop) =
    let s = match !st with Some s -> s | None -> str_init (nn !width) (nat_of_int !nstr) in
    let n0 = L.length s.heap.AllocModel.events in
    match sstep (AllocModel.script_oracle !fails !from) v0 s o with
    | Prelude.Done (s', out) ->
      st := Some s';
      let out = (match o with SData _ -> Run_vector.take (4 + Run_vector.max_print) out | _ -> out) in
      let o2 = if twice o then zs out ^ " " ^ zs out else zs out in
      Printf.printf "ok %s %s%s\n" o2 (dump_sys v0 s') (Run_vector.events_since n0 s'.heap)
    | Prelude.Abort -> print_endline "abort"; dead := true
    | Prelude.Fault -> print_endline "fault"; dead := true
    | Prelude.Precond -> print_endline "precond"; dead := true in
  L.iter (fun w ->
    if not !dead then
    match w with
    | ["width"; n] -> width := n
    | ["nstr"; n] -> nstr := int_of_string n
    | "fail" :: os -> fails := L.map ni os
    | ["failfrom"; n] -> from := Some (ni n)
    | _ ->
      (match parse_op w with
       | None -> Printf.printf "badop %s\n" (S.concat " " w); dead := true
       | Some o -> exec o)) c.lines;
  if not !dead then begin
    for i = 0 to !nstr - 1 do if not !dead then exec (SClear (nat_of_int i)) done;
    if not !dead then
      (match !st with
       | Some s -> Printf.printf "fin %d\n" (L.length s.heap.AllocModel.live)
       | None -> Printf.printf "fin 0\n")
  end;
  print_endline "end"

let main ~v0 ic = L.iter (run_case ~v0) (read_cases ic)

(* ---- closure exploration: alphabet {a, b, NUL}, two string objects,
   lengths <= maxlen; allocator history normalised as in run_vector ---- *)
let explore ~v0 (width : int) (maxlen : int) (max_states : int) =
  let nstr = 2 in
  let sm = Run_vector.size_max in
  let ops = ref [] in
  let add fmt = Printf.ksprintf (fun s -> match parse_op (words s) with
      | Some o -> ops := (s, o) :: !ops | None -> failwith s) fmt in
  let small = L.init (maxlen + 2) string_of_int in
  let huge = [sm; Run_vector.dec_sub sm 1; Run_vector.dec_sub sm 2;
              string_of_n (BinNat.N.div (nn sm) (nn (string_of_int width)));
              Run_vector.dec_sub (string_of_n (BinNat.N.div (nn sm) (nn (string_of_int width)))) 2] in
  let chars = ["97"; "98"; "0"] in
  (* object 0 is edited, object 1 is the auxiliary one *)
  add "set 0"; add "set 0 97"; add "set 0 97 98"; add "set 0 98 97 98";
  add "set 1"; add "set 1 98"; add "set 1 97 98";
  L.iter (fun p ->
    L.iter (fun n -> L.iter (fun c -> add "insert_ch 0 %s %s %s" p n c) ["97"; "0"])
      ["0"; "1"; "2"; sm; Run_vector.dec_sub sm 1];
    add "insert_str 0 %s" p; add "insert_str 0 %s 98" p; add "insert_str_n 0 %s 98 0" p;
    add "insert 0 %s 1" p;
    L.iter (fun n -> add "erase 0 %s %s" p n; add "substr 0 %s %s 1" p n) (small @ huge);
    add "at 0 %s" p; add "at_const 0 %s" p;
    L.iter (fun c -> add "find_ch 0 %s %s" c p) chars;
    add "find_str 0 %s" p; add "find_str 0 %s 98" p; add "find_str 0 %s 97 98" p;
    add "find 0 %s 1" p) (small @ [sm]);
  L.iter (fun n -> add "append_str_n 0 %s 98 0 97" n) ["0"; "1"; "2"; "3"; sm; Run_vector.dec_sub sm 1];
  add "data 0"; add "data 1";
  add "append 0 1"; add "append_ch 0 1 98"; add "append_ch 0 %s 98" sm; add "append_str 0 97";
  L.iter (fun n -> add "resize 0 %s" n) (small @ huge);
  L.iter (fun n -> add "reserve 0 %s" n) ["0"; "3"; sm; Run_vector.dec_sub sm 1];
  add "swap 0 1"; add "clear 0"; add "clear 1";
  add "compare 0 1"; add "compare 1 0"; add "compare_str 0 97"; add "compare_str 0 97 98"; add "compare_str 0";
  let header = [Printf.sprintf "width %d" width; Printf.sprintf "nstr %d" nstr] in
  let init = str_init (nn (string_of_int width)) (nat_of_int nstr) in
  let ok = AllocModel.script_oracle [] None in
  let maxn = n_of_int (maxlen + 2) in
  let step' s o = match sstep ok v0 s o with
    | Prelude.Done (s', out) ->
      if L.exists (fun v -> BinNat.N.ltb maxn v.count) s'.vecs then Prelude.Precond
      else Prelude.Done (Run_vector.norm s', out)
    | r -> r in
  let (st, tr, closed) =
    bfs ~header ~init ~ops:(L.rev !ops) ~step:step' ~max_states ~prefix:"bfs" stdout in
  Printf.eprintf "states %d transitions %d closed %b\n" st tr closed

let () =
  register "string" (fun argv -> main ~v0:false (input_of argv 2));
  register "string_v0" (fun argv -> main ~v0:true (input_of argv 2));
  (* string-bfs <width> <maxlen> <max_states> *)
  let bfs v0 argv =
    explore ~v0 (int_of_string argv.(2)) (int_of_string argv.(3)) (int_of_string argv.(4)) in
  register "string-bfs" (bfs false);
  register "string_v0-bfs" (bfs true)
