open Util
open SListModel

let parse_op (w : string list) : op option =
  match w with
  | ["push_front"; l; e] -> Some (PushFront (ni l, ni e))
  | ["push_back"; l; e] -> Some (PushBack (ni l, ni e))
  | ["insert_after"; l; b; e] -> Some (InsertAfter (ni l, ni b, ni e))
  | ["erase_after"; l; b] -> Some (EraseAfter (ni l, ni b))
  | ["pop_front"; l] -> Some (PopFront (ni l))
  | ["front"; l] -> Some (Front (ni l))
  | ["back"; l] -> Some (Back (ni l))
  | ["size"; l] -> Some (Size (ni l))
  | ["reverse"; l] -> Some (Reverse (ni l))
  | ["sort"; l] -> Some (Sort (ni l))
  | ["concat"; d; s] -> Some (Concat (ni d, ni s))
  | ["swap"; a; b] -> Some (Swap (ni a, ni b))
  | ["foreach"; l; stop] -> Some (Foreach (ni l, ni stop))
  | ["clear"; l] -> Some (Clear (ni l))
  | ["fmove"; l; d; stop] -> Some (FMove (ni l, ni d, ni stop))
  | _ -> None

let dump_sys (s : sys) : string =
  S.concat " " (L.mapi (fun i sl -> Printf.sprintf "| L%d: %s" i (zs (dump sl))) s)

let run_case ~(v0 : bool) (c : case) =
  Printf.printf "case %s\n" c.name;
  let keys = ref [||] and nlists = ref 1 in
  let st = ref None in
  let dead = ref false in
  L.iter (fun w ->
    if not !dead then
    match w with
    | "keys" :: ks -> keys := Array.of_list (L.map z_of_string ks)
    | ["nlists"; n] -> nlists := int_of_string n
    | ["cmpmode"; _] -> ()
    | ["vsign"; _] -> ()
    | "offs" :: _ -> ()
    | "mixedconcat" :: _ -> print_endline "precond"; dead := true   (* member offsets are not part of the model *)
    | _ ->
      let key n = let i = int_of_nat n in if i < Array.length !keys then !keys.(i) else BinNums.Z0 in
      let s = match !st with Some s -> s | None -> sys_init (nat_of_int !nlists) in
      (match parse_op w with
       | None -> Printf.printf "badop %s\n" (S.concat " " w); dead := true
       | Some o ->
         (match step key v0 s o with
          | Prelude.Done (s', out) ->
            st := Some s';
            Printf.printf "ok %s %s\n" (zs out) (dump_sys s')
          | Prelude.Abort -> print_endline "abort"; dead := true
          | Prelude.Fault -> print_endline "fault"; dead := true
          | Prelude.Precond -> print_endline "precond"; dead := true))) c.lines;
  print_endline "end"

let main ~v0 ic = L.iter (run_case ~v0) (read_cases ic)

(* closure exploration: nlists lists, elements 0..ne-1 *)
let explore ~v0 (nlists : int) (keys : int list) (max_states : int) =
  let ne = L.length keys in
  let rng n = L.init n (fun i -> i) in
  let ops = ref [] in
  let add fmt = Printf.ksprintf (fun s -> match parse_op (words s) with
      | Some o -> ops := (s, o) :: !ops | None -> failwith s) fmt in
  L.iter (fun l ->
    L.iter (fun e -> add "push_front %d %d" l e; add "push_back %d %d" l e;
             add "erase_after %d %d" l e;
             L.iter (fun b -> if b <> e then add "insert_after %d %d %d" l b e) (rng ne)) (rng ne);
    add "pop_front %d" l; add "reverse %d" l; add "sort %d" l; add "clear %d" l;
    add "foreach %d 2" l;
    (* foreach with the visitor that moves the visited element to list m *)
    L.iter (fun m -> if m <> l then begin add "fmove %d %d 0" l m; add "fmove %d %d 2" l m end) (rng nlists);
    L.iter (fun m -> if m <> l then add "concat %d %d" l m; if l < m then add "swap %d %d" l m) (rng nlists))
    (rng nlists);
  let karr = Array.of_list (L.map z_of_int keys) in
  let key n = let i = int_of_nat n in if i < Array.length karr then karr.(i) else BinNums.Z0 in
  let header = [ "keys " ^ S.concat " " (L.map string_of_int keys); Printf.sprintf "nlists %d" nlists ] in
  let (st, tr, closed) =
    bfs ~header ~init:(sys_init (nat_of_int nlists)) ~ops:(L.rev !ops) ~step:(step key v0)
      ~max_states ~prefix:"bfs" stdout in
  Printf.eprintf "states %d transitions %d closed %b\n" st tr closed

let () =
  register "slist" (fun argv -> main ~v0:false (input_of argv 2));
  register "slist_v0" (fun argv -> main ~v0:true (input_of argv 2));
  let bfs v0 argv =
    (* slist-bfs <nlists> <max_states> k0 k1 ... *)
    let keys = L.map int_of_string (Array.to_list (Array.sub argv 4 (Array.length argv - 4))) in
    explore ~v0 (int_of_string argv.(2)) keys (int_of_string argv.(3)) in
  register "slist-bfs" (bfs false);
  register "slist_v0-bfs" (bfs true)

(* pointer-level model (SListPtrModel): same scripts, same trace format *)
let run_case_ptr (c : case) =
  let open SListPtrModel in
  Printf.printf "case %s\n" c.name;
  let keys = ref [||] and nlists = ref 1 in
  let st = ref None in
  let dead = ref false in
  L.iter (fun w ->
    if not !dead then
    match w with
    | "keys" :: ks -> keys := Array.of_list (L.map z_of_string ks)
    | ["nlists"; n] -> nlists := int_of_string n
    | ["vsign"; _] -> ()
    | "offs" :: _ -> ()
    | "mixedconcat" :: _ -> print_endline "precond"; dead := true   (* member offsets are not part of the model *)
    | ["cmpmode"; _] -> ()
    | _ ->
      let key n = let i = int_of_nat n in if i < Array.length !keys then !keys.(i) else BinNums.Z0 in
      let s = match !st with Some s -> s | None -> p_init (nat_of_int !nlists) in
      (match parse_op w with
       | None -> Printf.printf "badop %s\n" (S.concat " " w); dead := true
       | Some o ->
         (match p_step key s o with
          | Prelude.Done (s', out) ->
            st := Some s';
            let d = S.concat " " (L.init !nlists (fun i ->
                Printf.sprintf "| L%d: %s" i (zs (p_dump s' (nat_of_int i))))) in
            Printf.printf "ok %s %s\n" (zs out) d
          | Prelude.Abort -> print_endline "abort"; dead := true
          | Prelude.Fault -> print_endline "fault"; dead := true
          | Prelude.Precond -> print_endline "precond"; dead := true))) c.lines;
  print_endline "end"

let () = register "slistp" (fun argv -> L.iter run_case_ptr (read_cases (input_of argv 2)))
