(* Model runner for src/map.c (C08, C15, C16).
   Header lines of a case: "fail o1 o2 .." / "failfrom n" (allocator oracle:
   failing request ordinals), "cmpmod m" (keys compare modulo m when m > 0),
   "cmpmode _" and "ptrrep _" (driver-only: magnitude of the comparator's
   results, representation of keys/values as pointers; the model sees key
   and value ids and the sign of comparisons only).
   Components: map, and the closure explorer
   map-bfs <nkeys> <max_states> <cmpmod>. *)
open Util
open MapModel

let parse_op (w : string list) : mop option =
  match w with
  | ["insert"; k; v] -> Some (MInsert (ni k, ni v, true))
  | ["insert_noiter"; k; v] -> Some (MInsert (ni k, ni v, false))
  | ["find"; k] -> Some (MFind (ni k))
  | ["erase"; k] -> Some (MErase (ni k, true))
  | ["erase_noiter"; k] -> Some (MErase (ni k, false))
  | ["erase_iter"; k] -> Some (MEraseIter (ni k))
  | ["size"] -> Some MSize
  | ["clear"] -> Some (MClear true)
  | ["clear_nocb"] -> Some (MClear false)
  | ["live"] -> Some MLive
  | _ -> None

(* "| size | [comparator calls of the operation |] shape" : pre-order,
   "(key:val colour left right)", "." = NULL *)
let dump_map ?(cmps : int option) (s : mstate) : string =
  let b = Buffer.create 256 in
  Buffer.add_string b (Printf.sprintf "| %s |" (string_of_n s.msz));
  (match cmps with Some n -> Buffer.add_string b (Printf.sprintf " %d |" n) | None -> ());
  let rec go t =
    match t with
    | TreeModel.E -> Buffer.add_string b " ."
    | TreeModel.T (c, l, x, r) ->
      (match tab_get s.mtab x.TreeModel.eid with
       | Some (k, v) -> Buffer.add_string b (Printf.sprintf " (%d:%d" (int_of_nat k) (int_of_nat v))
       | None -> Buffer.add_string b " (?:?");
      Buffer.add_char b (match c with TreeModel.Red -> 'R' | TreeModel.Black -> 'B');
      go l; go r;
      Buffer.add_string b ")" in
  go s.mt;
  Buffer.contents b

(* allocator events of one operation in the aev_out encoding, as halloc.h prints them *)
let dump_events (evs : AllocModel.aev list) : string =
  " ;;" ^ S.concat "" (L.map (fun e -> " ; " ^ zs (AllocModel.aev_out e)) evs)

type hdr = { mutable fails : int list; mutable from : int option; mutable cmod : int }

let oracle_of (h : hdr) =
  AllocModel.script_oracle (L.map nat_of_int h.fails)
    (match h.from with Some f -> Some (nat_of_int f) | None -> None)

let run_case (c : case) =
  Printf.printf "case %s\n" c.name;
  let h = { fails = []; from = None; cmod = 0 } in
  let st = ref m_init in
  let dead = ref false in
  L.iter (fun w ->
    if not !dead then
    match w with
    | "fail" :: os -> h.fails <- h.fails @ L.map int_of_string os
    | ["failfrom"; n] -> h.from <- Some (int_of_string n)
    | ["cmpmod"; m] -> h.cmod <- int_of_string m
    | ["cmpmode"; _] -> ()
    | ["ptrrep"; _] -> ()
    | ["nestclear"; _] -> ()
    | ["cmpnest"; _] -> ()     (* the driver's comparator consults another map: no effect on this one *)
    | _ ->
      (match parse_op w with
       | None -> Printf.printf "badop %s\n" (S.concat " " w); dead := true
       | Some o ->
         let ck = ck_mod (nat_of_int h.cmod) and ok = oracle_of h in
         (match step ck ok !st o with
          | Prelude.Done (s', out) ->
            let evs = new_events !st.mal s'.mal in
            let cmps = int_of_nat (op_cmps ck ok !st o) in
            st := s';
            Printf.printf "ok %s %s%s\n" (zs out) (dump_map ~cmps s') (dump_events evs)
          | Prelude.Abort -> print_endline "abort"; dead := true
          | Prelude.Fault -> print_endline "fault"; dead := true
          | Prelude.Precond -> print_endline "precond"; dead := true))) c.lines;
  print_endline "end"

let main ic = L.iter run_case (read_cases ic)

(* Closure exploration over keys 0..nkeys-1 and values 0..1.  Node (= heap
   block) ids and the request ordinal grow with every insert, so the model's
   states are explored up to renaming of block ids: two states are
   identified when size field, tree shape with colours and stored
   (key, value) pairs, number of live blocks and the request ordinal (capped
   at the first ordinal from which the oracle's answer no longer changes)
   agree.  The representative kept for a class is the state reached by the
   path that Util.bfs records for it.  Three allocator oracles: never
   failing (with both pointer representations of the driver), "fail 1",
   "failfrom 2". *)
let explore (nkeys : int) (max_states : int) (cmod : int) =
  let rng n = L.init n (fun i -> i) in
  let ops = ref [] in
  let add fmt = Printf.ksprintf (fun s -> match parse_op (words s) with
      | Some o -> ops := (s, o) :: !ops | None -> failwith s) fmt in
  L.iter (fun k -> add "insert %d 0" k; add "insert %d 1" k) (rng nkeys);
  L.iter (fun k -> add "find %d" k; add "erase %d" k; add "erase_iter %d" k) (rng nkeys);
  add "size"; add "clear"; add "clear_nocb";
  let ops = L.rev !ops in
  let ck = ck_mod (nat_of_int cmod) in
  let tot_s = ref 0 and tot_t = ref 0 and all_closed = ref true in
  let variant (tag : string) (hl : string list) (h : hdr) (cap : int) (ptrrep : int) =
    let ok = oracle_of h in
    let key (s : mstate) =
      Printf.sprintf "%s L%d O%d" (dump_map s) (L.length s.mal.AllocModel.live)
        (min cap (int_of_nat s.mal.AllocModel.ord)) in
    let reps : (string, mstate) Hashtbl.t = Hashtbl.create 4096 in
    let k0 = key m_init in
    Hashtbl.replace reps k0 m_init;
    let step' (k : string) o =
      match step ck ok (Hashtbl.find reps k) o with
      | Prelude.Done (s', out) ->
        let k' = key s' in
        if not (Hashtbl.mem reps k') then Hashtbl.replace reps k' s';
        Prelude.Done (k', out)
      | Prelude.Abort -> Prelude.Abort
      | Prelude.Fault -> Prelude.Fault
      | Prelude.Precond -> Prelude.Precond in
    let header = (if cmod > 0 then [Printf.sprintf "cmpmod %d" cmod] else [])
                 @ [Printf.sprintf "ptrrep %d" ptrrep] @ hl in
    let (st, tr, closed) =
      bfs ~header ~init:k0 ~ops ~step:step' ~max_states ~prefix:("bfs" ^ tag) stdout in
    tot_s := !tot_s + st; tot_t := !tot_t + tr; all_closed := !all_closed && closed in
  variant "n" [] { fails = []; from = None; cmod } 0 0;
  (* the NULL-valued-pointer representation without failures only in the small scopes; "fail 1" below
     runs with it in every scope and differs from the fault-free closure only around the second request *)
  if nkeys <= 4 then variant "p" [] { fails = []; from = None; cmod } 0 1;
  variant "s" ["fail 1"] { fails = [1]; from = None; cmod } 2 1;
  variant "f" ["failfrom 2"] { fails = []; from = Some 2; cmod } 2 0;
  Printf.eprintf "states %d transitions %d closed %b\n" !tot_s !tot_t !all_closed

let () =
  register "map" (fun argv -> main (input_of argv 2));
  register "map-bfs" (fun argv ->
    explore (int_of_string argv.(2)) (int_of_string argv.(3))
      (if Array.length argv > 4 then int_of_string argv.(4) else 0))
