#!/bin/sh
# Offline build of the whole framework from files on disk: Coq development
# (full .vo build), extraction, OCaml runner.
set -e
cd "$(dirname "$0")"
cd coq
(echo "-Q theories Cstl"; ls theories/*.v) > _CoqProject; coq_makefile -f _CoqProject -o Makefile >/dev/null
timeout 3000 make -j16
cd ..
python3 - <<'PY'
import sys
sys.path.insert(0, '.')
from lib import core
ok, log = core.build_runner()
print(log[-2000:] if not ok else 'runner ok')
sys.exit(0 if ok else 1)
PY
