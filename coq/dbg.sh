#!/bin/sh
# usage: dbg.sh File.v LINE  -- show goal before LINE
f=$1; n=$2
mkdir -p /tmp/dbg
sed "${n}s/^/Show. Abort. Definition dbgdummy := 0. Reset dbgdummy. (* /; ${n}s/\$/ *)/" "$f" | head -n "$n" > /tmp/dbg/D.v
cd "$(dirname "$0")" && timeout 120 coqc -Q theories Cstl /tmp/dbg/D.v 2>&1 | tail -${3:-40}
