(** Pointer-level model of the trees (TreeLinksModel.v), part 1: memory laws,
    the representation relation [rep] / [crep] between a memory and an
    inductive tree / a zipper context, frame lemmas, and the decoder. *)
From Coq Require Import FinFun.
From Cstl Require Import Prelude TreeModel TreeProofs RBProofs TreeLinksModel.
Local Open Scope Z_scope.

(** * The trie *)
Lemma pgss {A} p : forall (m : ptrie A) x, pget (pset m p x) p = Some x.
Proof. induction p as [p IH|p IH|]; intros [|l v r] x; cbn; auto. Qed.

Lemma pgso {A} p : forall (m : ptrie A) q x, p <> q -> pget (pset m p x) q = pget m q.
Proof.
  induction p as [p IH|p IH|]; intros [|l v r] [q|q|] x H; cbn; auto; try congruence;
    try (rewrite IH by congruence; auto); destruct q; reflexivity.
Qed.

Lemma mget_mset m a n b : mget (mset m a n) b = if Nat.eqb a b then n else mget m b.
Proof.
  unfold mget, mset. destruct (Nat.eqb_spec a b) as [->|Hn].
  - rewrite pgss. reflexivity.
  - rewrite pgso; auto. intros H. apply SuccNat2Pos.inj in H. auto.
Qed.

Lemma mget_init a : mget PLeaf a = node0.
Proof. reflexivity. Qed.

(** ** reads after writes, field by field *)
Section Fields.
  Variables (m : mem) (a b : nat).

  Ltac t := intros; unfold setp, setl, setr, setc, setlinks; rewrite mget_mset;
            destruct (Nat.eqb_spec a b) as [->|]; reflexivity.

  Lemma p_setp v : n_p (mget (setp m a v) b) = if Nat.eqb a b then v else n_p (mget m b). Proof. t. Qed.
  Lemma l_setp v : n_l (mget (setp m a v) b) = n_l (mget m b). Proof. t. Qed.
  Lemma r_setp v : n_r (mget (setp m a v) b) = n_r (mget m b). Proof. t. Qed.
  Lemma c_setp v : n_c (mget (setp m a v) b) = n_c (mget m b). Proof. t. Qed.

  Lemma p_setl v : n_p (mget (setl m a v) b) = n_p (mget m b). Proof. t. Qed.
  Lemma l_setl v : n_l (mget (setl m a v) b) = if Nat.eqb a b then v else n_l (mget m b). Proof. t. Qed.
  Lemma r_setl v : n_r (mget (setl m a v) b) = n_r (mget m b). Proof. t. Qed.
  Lemma c_setl v : n_c (mget (setl m a v) b) = n_c (mget m b). Proof. t. Qed.

  Lemma p_setr v : n_p (mget (setr m a v) b) = n_p (mget m b). Proof. t. Qed.
  Lemma l_setr v : n_l (mget (setr m a v) b) = n_l (mget m b). Proof. t. Qed.
  Lemma r_setr v : n_r (mget (setr m a v) b) = if Nat.eqb a b then v else n_r (mget m b). Proof. t. Qed.
  Lemma c_setr v : n_c (mget (setr m a v) b) = n_c (mget m b). Proof. t. Qed.

  Lemma p_setc k : n_p (mget (setc m a k) b) = n_p (mget m b). Proof. t. Qed.
  Lemma l_setc k : n_l (mget (setc m a k) b) = n_l (mget m b). Proof. t. Qed.
  Lemma r_setc k : n_r (mget (setc m a k) b) = n_r (mget m b). Proof. t. Qed.
  Lemma c_setc k : n_c (mget (setc m a k) b) = if Nat.eqb a b then k else n_c (mget m b). Proof. t. Qed.

  Lemma p_setlinks v : n_p (mget (setlinks m a v) b) = if Nat.eqb a b then n_p v else n_p (mget m b). Proof. t. Qed.
  Lemma l_setlinks v : n_l (mget (setlinks m a v) b) = if Nat.eqb a b then n_l v else n_l (mget m b). Proof. t. Qed.
  Lemma r_setlinks v : n_r (mget (setlinks m a v) b) = if Nat.eqb a b then n_r v else n_r (mget m b). Proof. t. Qed.
  Lemma c_setlinks v : n_c (mget (setlinks m a v) b) = n_c (mget m b). Proof. t. Qed.

  Lemma mget_setp_o v : a <> b -> mget (setp m a v) b = mget m b.
  Proof. intros H. unfold setp. rewrite mget_mset. apply Nat.eqb_neq in H. rewrite H. auto. Qed.
  Lemma mget_setl_o v : a <> b -> mget (setl m a v) b = mget m b.
  Proof. intros H. unfold setl. rewrite mget_mset. apply Nat.eqb_neq in H. rewrite H. auto. Qed.
  Lemma mget_setr_o v : a <> b -> mget (setr m a v) b = mget m b.
  Proof. intros H. unfold setr. rewrite mget_mset. apply Nat.eqb_neq in H. rewrite H. auto. Qed.
  Lemma mget_setc_o k : a <> b -> mget (setc m a k) b = mget m b.
  Proof. intros H. unfold setc. rewrite mget_mset. apply Nat.eqb_neq in H. rewrite H. auto. Qed.
  Lemma mget_setlinks_o v : a <> b -> mget (setlinks m a v) b = mget m b.
  Proof. intros H. unfold setlinks. rewrite mget_mset. apply Nat.eqb_neq in H. rewrite H. auto. Qed.

  (** the selector view *)
  Lemma sel_setsel d v : sel d (mget (setsel d m a v) b) = if Nat.eqb a b then v else sel d (mget m b).
  Proof. destruct d; cbn; [apply l_setl|apply r_setr]. Qed.
  Lemma selo_setsel d v : sel (opp d) (mget (setsel d m a v) b) = sel (opp d) (mget m b).
  Proof. destruct d; cbn; [apply r_setl|apply l_setr]. Qed.
  Lemma sel_setselo d v : sel d (mget (setsel (opp d) m a v) b) = sel d (mget m b).
  Proof. destruct d; cbn; [apply l_setr|apply r_setl]. Qed.
  Lemma p_setsel d v : n_p (mget (setsel d m a v) b) = n_p (mget m b).
  Proof. destruct d; cbn; [apply p_setl|apply p_setr]. Qed.
  Lemma c_setsel d v : n_c (mget (setsel d m a v) b) = n_c (mget m b).
  Proof. destruct d; cbn; [apply c_setl|apply c_setr]. Qed.
  Lemma sel_setp d v : sel d (mget (setp m a v) b) = sel d (mget m b).
  Proof. destruct d; cbn; [apply l_setp|apply r_setp]. Qed.
  Lemma sel_setc d k : sel d (mget (setc m a k) b) = sel d (mget m b).
  Proof. destruct d; cbn; [apply l_setc|apply r_setc]. Qed.
  Lemma mget_setsel_o d v : a <> b -> mget (setsel d m a v) b = mget m b.
  Proof. destruct d; cbn; [apply mget_setl_o|apply mget_setr_o]. Qed.
End Fields.

Section FieldsOpt.
  Variables (m : mem) (o : option nat) (b : nat) (v : option nat).
  Lemma p_setp_opt : n_p (mget (setp_opt m o v) b) = if oeqb o (Some b) then v else n_p (mget m b).
  Proof. destruct o; cbn; auto. apply p_setp. Qed.
  Lemma l_setp_opt : n_l (mget (setp_opt m o v) b) = n_l (mget m b).
  Proof. destruct o; cbn; auto. apply l_setp. Qed.
  Lemma r_setp_opt : n_r (mget (setp_opt m o v) b) = n_r (mget m b).
  Proof. destruct o; cbn; auto. apply r_setp. Qed.
  Lemma c_setp_opt : n_c (mget (setp_opt m o v) b) = n_c (mget m b).
  Proof. destruct o; cbn; auto. apply c_setp. Qed.
  Lemma sel_setp_opt d : sel d (mget (setp_opt m o v) b) = sel d (mget m b).
  Proof. destruct o; cbn; auto. apply sel_setp. Qed.
  Lemma mget_setp_opt_o : o <> Some b -> mget (setp_opt m o v) b = mget m b.
  Proof. destruct o; cbn; auto. intros H. apply mget_setp_o. congruence. Qed.
End FieldsOpt.

Lemma opp_opp d : opp (opp d) = d.
Proof. destruct d; reflexivity. Qed.

Lemma oeqb_refl o : oeqb o o = true.
Proof. destruct o; cbn; auto. apply Nat.eqb_refl. Qed.
Lemma oeqb_eq a b : oeqb a b = true <-> a = b.
Proof.
  destruct a, b; cbn; split; try congruence; auto.
  - intros H. apply Nat.eqb_eq in H. congruence.
  - intros [= ->]. apply Nat.eqb_refl.
Qed.
Lemma oeqb_neq a b : oeqb a b = false <-> a <> b.
Proof.
  rewrite <- oeqb_eq. destruct (oeqb a b); split; congruence.
Qed.

(** unconditional field rewrites *)
#[export] Hint Rewrite l_setp r_setp c_setp p_setl r_setl c_setl p_setr l_setr c_setr
     p_setc l_setc r_setc c_setlinks selo_setsel sel_setselo p_setsel c_setsel sel_setp sel_setc
     l_setp_opt r_setp_opt c_setp_opt sel_setp_opt opp_opp : msimp.

(** * Addresses *)
Definition adr (x : elem) : nat := addr (eid x).
Definition raddr (t : tree) : option nat := match t with E => None | T _ _ x _ => Some (adr x) end.
Definition addrs (t : tree) : list nat := map adr (inorder t).
Definition ctx_par (c : ctx) : option nat := match c with [] => None | f :: _ => Some (adr (fe f)) end.
Definition caddrs (c : ctx) : list nat := flat_map (fun f => adr (fe f) :: addrs (fs f)) c.

Lemma adr_nz x : adr x <> XADDR.
Proof. discriminate. Qed.
Lemma adr_inj x y : adr x = adr y -> eid x = eid y.
Proof. unfold adr, addr. congruence. Qed.

Lemma addrs_ids t : addrs t = map addr (ids t).
Proof. unfold addrs, ids. rewrite map_map. reflexivity. Qed.

Lemma NoDup_addrs t : NoDup (ids t) -> NoDup (addrs t).
Proof.
  rewrite addrs_ids. apply Injective_map_NoDup. intros a b. unfold addr. congruence.
Qed.

Lemma addrs_nz t : ~ In XADDR (addrs t).
Proof. unfold addrs. rewrite in_map_iff. intros (x & H & _). discriminate. Qed.
Lemma caddrs_nz c : ~ In XADDR (caddrs c).
Proof.
  unfold caddrs. rewrite in_flat_map. intros (f & _ & [H|H]); [discriminate|].
  eapply addrs_nz; eauto.
Qed.

Lemma addrs_T k l x r : addrs (T k l x r) = addrs l ++ adr x :: addrs r.
Proof. unfold addrs. cbn. rewrite map_app. reflexivity. Qed.
Lemma addrs_E : addrs E = [].
Proof. reflexivity. Qed.

Lemma addrs_mk d k a x b : Permutation (addrs (mk d k a x b)) (adr x :: addrs a ++ addrs b).
Proof.
  destruct d; cbn [mk]; rewrite addrs_T.
  - symmetry. apply Permutation_middle.
  - symmetry. etransitivity; [|apply Permutation_middle]. apply perm_skip. apply Permutation_app_comm.
Qed.

Lemma raddr_mk d k a x b : raddr (mk d k a x b) = Some (adr x).
Proof. destruct d; reflexivity. Qed.

Lemma raddr_in t a : raddr t = Some a -> In a (addrs t).
Proof.
  destruct t as [|k l x r]; cbn [raddr]; [discriminate|]. intros [= <-]. rewrite addrs_T.
  apply in_or_app. right. left. reflexivity.
Qed.

Lemma raddr_setcol k t : raddr (setcol k t) = raddr t.
Proof. destruct t; reflexivity. Qed.
Lemma raddr_blacken t : raddr (blacken t) = raddr t.
Proof. destruct t; reflexivity. Qed.
Lemma addrs_setcol k t : addrs (setcol k t) = addrs t.
Proof. unfold addrs. rewrite inorder_setcol. reflexivity. Qed.
Lemma addrs_blacken t : addrs (blacken t) = addrs t.
Proof. unfold addrs. rewrite inorder_blacken. reflexivity. Qed.

Lemma caddrs_cons f c : caddrs (f :: c) = adr (fe f) :: addrs (fs f) ++ caddrs c.
Proof. reflexivity. Qed.

Lemma caddrs_app a b : caddrs (a ++ b) = caddrs a ++ caddrs b.
Proof. unfold caddrs. apply flat_map_app. Qed.

Lemma addrs_plug1 f t : Permutation (addrs (plug1 f t)) (addrs t ++ adr (fe f) :: addrs (fs f)).
Proof.
  unfold plug1. rewrite addrs_mk. symmetry. etransitivity; [symmetry; apply Permutation_middle|].
  reflexivity.
Qed.

Lemma addrs_plug c : forall t, Permutation (addrs (plug c t)) (addrs t ++ caddrs c).
Proof.
  induction c as [|f c IH]; intros t; cbn [plug].
  - cbn. rewrite app_nil_r. reflexivity.
  - rewrite IH, addrs_plug1, caddrs_cons, <- app_assoc. reflexivity.
Qed.

(** * Representation *)

(** [rep m par t]: every node of [t] sits at the address of its element, its
    [p] is the address of its parent in [t] ([par] for the root), its [l] and
    [r] are the addresses of the roots of its subtrees (NULL for [E]), its
    colour is the one in [t] *)
Fixpoint rep (m : mem) (par : option nat) (t : tree) : Prop :=
  match t with
  | E => True
  | T c l x r =>
    let a := adr x in
    n_p (mget m a) = par /\ n_c (mget m a) = c /\
    n_l (mget m a) = raddr l /\ n_r (mget m a) = raddr r /\
    rep m (Some a) l /\ rep m (Some a) r
  end.

(** [crep m c h root]: the frames of [c] are represented, the hole of the
    innermost frame contains the pointer [h], the outermost frame's node is
    the root; with no frame, the root pointer itself is [h] *)
Fixpoint crep (m : mem) (c : ctx) (h root : option nat) : Prop :=
  match c with
  | [] => root = h
  | f :: c' =>
    let a := adr (fe f) in
    sel (fd f) (mget m a) = h /\ sel (opp (fd f)) (mget m a) = raddr (fs f) /\
    n_c (mget m a) = fc f /\ n_p (mget m a) = ctx_par c' /\
    rep m (Some a) (fs f) /\ crep m c' (Some a) root
  end.

Lemma rep_mk m par d k a x b :
  rep m par (mk d k a x b) <->
  n_p (mget m (adr x)) = par /\ n_c (mget m (adr x)) = k /\
  sel d (mget m (adr x)) = raddr a /\ sel (opp d) (mget m (adr x)) = raddr b /\
  rep m (Some (adr x)) a /\ rep m (Some (adr x)) b.
Proof. destruct d; cbn; tauto. Qed.

Lemma rep_plug m c : forall t root,
  (rep m None (plug c t) /\ root = raddr (plug c t)) <->
  (rep m (ctx_par c) t /\ crep m c (raddr t) root).
Proof.
  induction c as [|f c IH]; intros t root; cbn [plug crep ctx_par].
  - tauto.
  - rewrite IH. unfold plug1. rewrite rep_mk, raddr_mk. tauto.
Qed.

(** ** frames *)
Lemma rep_frame m m' : forall t par,
  (forall i, In i (addrs t) -> mget m' i = mget m i) -> rep m par t -> rep m' par t.
Proof.
  induction t as [|k l IHl x r IHr]; intros par H; cbn [rep]; auto.
  intros (Hp & Hc & Hl & Hr & Rl & Rr).
  assert (Hx : mget m' (adr x) = mget m (adr x)).
  { apply H. rewrite addrs_T. apply in_or_app. right. left. reflexivity. }
  rewrite Hx. repeat split; auto.
  - apply IHl; auto. intros i Hi. apply H. rewrite addrs_T. apply in_or_app. auto.
  - apply IHr; auto. intros i Hi. apply H. rewrite addrs_T. apply in_or_app. right. right. auto.
Qed.

Lemma crep_frame m m' : forall c h root,
  (forall i, In i (caddrs c) -> mget m' i = mget m i) -> crep m c h root -> crep m' c h root.
Proof.
  induction c as [|f c IH]; intros h root H; cbn [crep]; auto.
  intros (Hd & Ho & Hc & Hp & Rs & Rc).
  assert (Hx : mget m' (adr (fe f)) = mget m (adr (fe f))).
  { apply H. rewrite caddrs_cons. left. reflexivity. }
  rewrite Hx. repeat split; auto.
  - eapply rep_frame; [|exact Rs]. intros i Hi. apply H. rewrite caddrs_cons. right.
    apply in_or_app. auto.
  - apply IH; auto. intros i Hi. apply H. rewrite caddrs_cons. right. apply in_or_app. auto.
Qed.

(** [if (x != NULL) x->p = par'] on the root of a represented subtree *)
Lemma rep_reparent m par par' t :
  NoDup (addrs t) -> rep m par t -> rep (setp_opt m (raddr t) par') par' t.
Proof.
  destruct t as [|k l x r]; cbn [rep raddr setp_opt]; auto.
  rewrite addrs_T. intros Nd (Hp & Hc & Hl & Hr & Rl & Rr).
  apply NoDup_remove_2 in Nd. rewrite p_setp, Nat.eqb_refl. autorewrite with msimp.
  repeat split; auto.
  - eapply rep_frame; [|exact Rl]. intros i Hi. apply mget_setp_o. intros <-. apply Nd.
    apply in_or_app. auto.
  - eapply rep_frame; [|exact Rr]. intros i Hi. apply mget_setp_o. intros <-. apply Nd.
    apply in_or_app. auto.
Qed.

(** colour of the root *)
Lemma rep_setcol m par t a k :
  NoDup (addrs t) -> raddr t = Some a -> rep m par t -> rep (setc m a k) par (setcol k t).
Proof.
  destruct t as [|k0 l x r]; cbn [rep raddr setcol]; [discriminate|].
  rewrite addrs_T. intros Nd [= <-] (Hp & Hc & Hl & Hr & Rl & Rr).
  apply NoDup_remove_2 in Nd. rewrite c_setc, Nat.eqb_refl. autorewrite with msimp.
  repeat split; auto.
  - eapply rep_frame; [|exact Rl]. intros i Hi. apply mget_setc_o. intros <-. apply Nd.
    apply in_or_app. auto.
  - eapply rep_frame; [|exact Rr]. intros i Hi. apply mget_setc_o. intros <-. apply Nd.
    apply in_or_app. auto.
Qed.

(** ** reading through a representation *)
Lemma rep_root_p m par t a : rep m par t -> raddr t = Some a -> n_p (mget m a) = par.
Proof. destruct t; cbn; [discriminate|]. intros (H & _) [= <-]. auto. Qed.
Lemma rep_root_c m par t a : rep m par t -> raddr t = Some a -> n_c (mget m a) = col t.
Proof. destruct t; cbn; [discriminate|]. intros (_ & H & _) [= <-]. auto. Qed.

Lemma l_blk_rep m par t : rep m par t -> l_blk m (raddr t) = negb (is_red t).
Proof. destruct t as [|[] l x r]; cbn; auto; intros (_ & -> & _); reflexivity. Qed.

(** * NoDup plumbing *)
Lemma NoDup_app_iff {A} (l1 l2 : list A) :
  NoDup (l1 ++ l2) <-> NoDup l1 /\ NoDup l2 /\ (forall a, In a l1 -> ~ In a l2).
Proof.
  split; [apply NoDup_app_inv|]. intros (N1 & N2 & N3).
  induction l1 as [|x l1 IH]; cbn; auto.
  inversion N1 as [|? ? Hn Hd]; subst. constructor.
  - intros Hi. apply in_app_or in Hi. destruct Hi as [Hi|Hi]; auto. apply (N3 x); cbn; auto.
  - apply IH; auto. intros a Ha. apply N3. cbn; auto.
Qed.

Lemma NoDup_perm_l {A} (l l' r : list A) : Permutation l l' -> NoDup (l ++ r) -> NoDup (l' ++ r).
Proof. intros P. apply Permutation_NoDup. apply Permutation_app_tail. auto. Qed.

(** * The decoder *)
Section Decode.
  Variable key : nat -> Z.

  Definition keyed (l : list elem) : Prop := Forall (fun x => ekey x = key (eid x)) l.

  Lemma keyed_app a b : keyed (a ++ b) <-> keyed a /\ keyed b.
  Proof. apply Forall_app. Qed.

  Lemma keyed_elem x : ekey x = key (eid x) -> mkE (eid x) (key (eid x)) = x.
  Proof. destruct x; cbn; intros ->; reflexivity. Qed.

  Lemma keyed_perm a b : Permutation a b -> keyed a -> keyed b.
  Proof. intros P H. unfold keyed in *. eapply Permutation_Forall; eauto. Qed.

  Fixpoint theight (t : tree) : nat :=
    match t with E => O | T _ l _ r => S (Nat.max (theight l) (theight r)) end.

  Lemma theight_size t : (theight t <= length (inorder t))%nat.
  Proof.
    induction t as [|k l IHl x r IHr]; cbn; auto. rewrite app_length. cbn. lia.
  Qed.

  (** the "seen" set after decoding contains exactly the old members and the
      addresses of the decoded subtree *)
  Definition seen_ext (s s' : ptrie unit) (l : list nat) : Prop :=
    forall i, pget s' (Pos.of_succ_nat i) = None <->
              (pget s (Pos.of_succ_nat i) = None /\ ~ In i l).

  Lemma dec_rep m : forall t fuel par seen,
    (theight t <= fuel)%nat -> rep m par t -> keyed (inorder t) -> NoDup (addrs t) ->
    (forall i, In i (addrs t) -> pget seen (Pos.of_succ_nat i) = None) ->
    exists seen', dec key fuel m par (raddr t) seen = Some (t, seen') /\
                  seen_ext seen seen' (addrs t).
  Proof.
    induction t as [|k l IHl x r IHr]; intros fuel par seen Hf R K Nd Hs.
    - exists seen. split; [destruct fuel; reflexivity|]. intros i. cbn. tauto.
    - cbn [raddr]. destruct fuel as [|f]; [cbn in Hf; lia|]. cbn [theight] in Hf.
      cbn [rep] in R. destruct R as (Hp & Hc & Hl & Hr & Rl & Rr).
      cbn [inorder] in K. apply keyed_app in K. destruct K as (Kl & K). apply Forall_cons_iff in K. destruct K as (Kx & Kr).
      rewrite addrs_T in Nd, Hs.
      pose proof (NoDup_remove_2 _ _ _ Nd) as Nx. apply NoDup_remove_1 in Nd.
      apply NoDup_app_iff in Nd. destruct Nd as (Nl & Nr & Nlr).
      cbn [dec]. unfold adr at 1, addr at 1.
      change (S (eid x)) with (adr x).
      rewrite (Hs (adr x)) by (apply in_or_app; right; left; reflexivity).
      rewrite Hp, oeqb_refl, Hl, Hr.
      destruct (IHl f (Some (adr x)) (pset seen (Pos.of_succ_nat (adr x)) tt)) as (s1 & E1 & X1); auto.
      { lia. }
      { intros i Hi. rewrite pgso.
        - apply Hs. apply in_or_app; auto.
        - intros H. apply SuccNat2Pos.inj in H. subst i. apply Nx. apply in_or_app; auto. }
      rewrite E1. cbn [bind].
      destruct (IHr f (Some (adr x)) s1) as (s2 & E2 & X2); auto.
      { lia. }
      { intros i Hi. apply X1. split.
        - rewrite pgso.
          + apply Hs. apply in_or_app. right. right. auto.
          + intros H. apply SuccNat2Pos.inj in H. subst i. apply Nx. apply in_or_app; auto.
        - intros Hi'. apply (Nlr i); auto. }
      rewrite E2. cbn [bind]. rewrite Hc, keyed_elem by auto.
      exists s2. split; auto.
      unfold seen_ext in *. intros i. rewrite X2, X1.
      rewrite addrs_T, in_app_iff. cbn [In].
      destruct (Nat.eq_dec (adr x) i) as [<-|Hn].
      + rewrite pgss. split; [intros ((H & _) & _); discriminate|].
        intros (_ & H). exfalso. apply H. auto.
      + rewrite pgso by (intros H; apply SuccNat2Pos.inj in H; auto). tauto.
  Qed.

  Theorem decode_rep s t :
    rep (lm s) None t -> lroot s = raddr t -> keyed (inorder t) -> NoDup (ids t) ->
    lsz s = N.of_nat (length (inorder t)) ->
    decode key s = Some t.
  Proof.
    intros R Hr K Nd Hz. unfold decode, lfuel. rewrite Hr.
    destruct (dec_rep (lm s) t (S (N.to_nat (lsz s))) None PLeaf) as (s' & -> & _); auto.
    - rewrite Hz, Nat2N.id. pose proof (theight_size t). lia.
    - apply NoDup_addrs; auto.
  Qed.

  (** conversely, what [dec] accepts is represented: every parent pointer
      points back, the root's parent is [par] *)
  Lemma dec_sound m : forall fuel par a seen t seen',
    dec key fuel m par a seen = Some (t, seen') -> a = raddr t /\ rep m par t.
  Proof.
    induction fuel as [|f IH]; intros par a seen t seen' H.
    - destruct a; cbn in H; [discriminate|]. injection H as <- <-. split; cbn; auto.
    - destruct a as [i|]; cbn [dec] in H; [|injection H as <- <-; split; cbn; auto].
      destruct i as [|e]; [discriminate|].
      destruct (pget seen (Pos.of_succ_nat (S e))); [discriminate|].
      destruct (oeqb (n_p (mget m (S e))) par) eqn:Ep; [|discriminate].
      destruct (dec key f m (Some (S e)) (n_l (mget m (S e))) _) as [[l s1]|] eqn:E1; [|discriminate].
      cbn [bind] in H.
      destruct (dec key f m (Some (S e)) (n_r (mget m (S e))) s1) as [[r s2]|] eqn:E2; [|discriminate].
      cbn [bind] in H. injection H as <- <-.
      apply IH in E1. apply IH in E2. destruct E1 as (Hl & Rl), E2 as (Hr & Rr).
      apply oeqb_eq in Ep. cbn [raddr rep]. unfold adr, addr. cbn [eid]. repeat split; auto.
  Qed.

  Theorem decode_sound s t :
    decode key s = Some t -> lroot s = raddr t /\ rep (lm s) None t.
  Proof.
    unfold decode. destruct (dec key (lfuel s) (lm s) None (lroot s) PLeaf) as [[t' s']|] eqn:E; [|discriminate].
    cbn [bind]. intros [= <-]. eapply dec_sound; eauto.
  Qed.
End Decode.
