(** C05 - shared memory is destroyed exactly once, exactly when its last
    owner lets go.  Statements only; proofs are in MemProofs.v.

    [reach lmstep (st_init ks ex) s]: [s] is reachable from a pool of
    initialised objects of kinds [ks] by any history of calls of the unique /
    shared / weak pointer API (and stray bitwise copies), each call under an
    arbitrary allocator oracle.  [owners s d] / [weaks s d] count the
    well-formed shared (or array) / weak objects referring to block [d]. *)
From Cstl Require Import Prelude AllocModel MemModel ArrayViewModel MemProofs ArrayViewProofs.
Local Open Scope N_scope.

Section C05.
  Variables (ks : list kind) (ex : list N).
  Notation reachable := (reach lmstep (st_init ks ex)).

  (** counts_inv: the counters of every bookkeeping block are the numbers
      of referring objects *)
  Theorem C05_counts_inv s d D :
    reachable s -> lookup d (datas s) = Some D ->
    hard D = owners s d /\ soft D = owners s d + weaks s d.
  Proof.
    intros R L. destruct (reach_inv ks ex s R) as (I & _).
    split; [apply (inv_hard _ _ I d D L)|apply (inv_soft _ _ I d D L)].
  Qed.

  (** no call ever executes undefined behaviour (use after free, NULL
      dereference); a call aborts only because one of its object arguments is
      a stray copy; otherwise it returns in a state satisfying the invariant *)
  Theorem C05_step_safe s l :
    reachable s ->
    match lmstep s l with
    | Done s' _ => reachable s'
    | Abort => exists i, In i (margs (snd l)) /\ stray s i
    | Fault => False
    | Precond => True
    end.
  Proof.
    intros R. destruct (reach_inv ks ex s R) as (I & _).
    pose proof (mstep_outcome (fst l) s (snd l) I) as Q. unfold lmstep at 1.
    destruct (mstep (fst l) s (snd l)) as [s' out| | |] eqn:E; auto.
    eapply reach_step; eauto.
  Qed.

  (** destroy_exactly_once (1): a block is live iff it is a referenced
      bookkeeping block, the managed memory of a block that still has an owner,
      or held by a unique pointer -- never released earlier, never kept later *)
  Theorem C05_live_iff_owned s b :
    reachable s ->
    (is_live (al s) b = true <-> lookup b (datas s) <> None \/ managed s b \/ uowned s b).
  Proof. intros R. apply live_iff_owned. apply (reach_inv ks ex s R). Qed.

  (** ... the managed memory exists exactly while the owner count is positive *)
  Theorem C05_memory_iff_owner s d D :
    reachable s -> lookup d (datas s) = Some D ->
    (0 < owners s d <-> exists m, gp (ugp (dup D)) = Some m /\ is_live (al s) m = true).
  Proof. intros R. apply managed_iff_owner. apply (reach_inv ks ex s R). Qed.

  (** ... and the bookkeeping block exactly while a shared or weak reference exists *)
  Theorem C05_bookkeeping_iff_referenced s d :
    reachable s -> (lookup d (datas s) <> None <-> 0 < owners s d + weaks s d).
  Proof. intros R. apply data_iff_referenced. apply (reach_inv ks ex s R). Qed.

  (** destroy_exactly_once (2): every block id handed out so far is either
      live or has been released exactly once; no free of a dead or foreign
      pointer ever happened; the clear callback only ever ran on live memory
      that was released immediately afterwards (hence at most once per block) *)
  Theorem C05_released_exactly_once s :
    reachable s ->
    NoDup (freed (log s)) /\
    (forall b, In b (freed (log s)) <-> (b < next (al s))%nat /\ is_live (al s) b = false) /\
    (forall b, ~ In (MA (EvBadFree b)) (log s)) /\
    (forall l1 p t l2, log s = l1 ++ MClear p t :: l2 ->
       exists m l1', p = Some m /\ l1 = l1' ++ [MA (EvFree m)]).
  Proof.
    intros R. destruct (released_exactly_once s (proj1 (reach_inv ks ex s R))) as (A & B & C & D).
    split; [exact A|]. split; [exact B|]. split; [exact C|].
    intros l1 p t l2 E. rewrite E in D. eapply ctf_clear_followed; eauto.
  Qed.

  (** destroy_exactly_once (3), timing: the events appended by one call
      release the managed memory [m] iff after the call nothing owns it any
      more, i.e. exactly in the call that removes its last owner *)
  Theorem C05_destroyed_with_last_owner s l s' out m :
    reachable s -> lmstep s l = Done s' out -> managed s m ->
    exists evs, log s' = evs ++ log s /\
      (In (MA (EvFree m)) evs <-> ~ (lookup m (datas s') <> None \/ managed s' m \/ uowned s' m)).
  Proof.
    intros R E M. destruct (reach_inv ks ex s R) as (I & _).
    assert (R' : reachable s') by (eapply reach_step; eauto). destruct (reach_inv ks ex s' R') as (I' & _).
    destruct (step_releases (fst l) s (snd l) s' out I E) as (evs & L & T). exists evs. split; auto.
    assert (Lm : is_live (al s) m = true) by (apply (live_iff_owned s m I); auto).
    rewrite <- In_freed, (T m Lm), <- (live_iff_owned s' m I'). destruct (is_live (al s') m); split; congruence.
  Qed.

  (** co-owners' get agree and point at live memory *)
  Theorem C05_get_agree s i j oi oj d :
    reachable s -> nth_error (objs s) i = Some oi -> nth_error (objs s) j = Some oj ->
    ownerk (okind oi) = true -> ownerk (okind oj) = true -> wf_obj i oi = true -> wf_obj j oj = true ->
    gp (ogp oi) = Some d -> gp (ogp oj) = Some d ->
    exists m, shared_get s i = Ok (Some m) /\ shared_get s j = Ok (Some m) /\ is_live (al s) m = true.
  Proof. intros R. apply get_agree. apply (reach_inv ks ex s R). Qed.

  (** lock_iff: cstl_weak_ptr_lock(w, x) leaves x owning w's block iff that
      block still has an owner once x itself has let go of what it had *)
  Theorem C05_lock_iff s w x ow ox :
    reachable s -> nth_error (objs s) w = Some ow -> nth_error (objs s) x = Some ox ->
    okind ow = KW -> ownerk (okind ox) = true -> wf_obj w ow = true -> wf_obj x ox = true ->
    exists s', weak_lock s w x = Ok s' /\
      forall d, ptr_at s' x = Some d <->
                gp (ogp ow) = Some d /\ 0 < cnt (hp None d) 0 (upd (objs s) x (ptr_obj x ox None)).
  Proof.
    intros R Ew Ex Kw Kx Ww Wx.
    destruct (lock_iff s w x ow ox (proj1 (reach_inv ks ex s R)) Ew Ex Kw Kx Ww Wx) as (s' & A & _ & B). eauto.
  Qed.

  (** unique_iff *)
  Theorem C05_unique_iff s i o :
    reachable s -> nth_error (objs s) i = Some o -> ownerk (okind o) = true -> wf_obj i o = true ->
    2 * N.of_nat (length ks) < 4294967296 ->
    exists b, shared_unique s i = Ok b /\
      (b = true <-> match gp (ogp o) with None => True | Some d => owners s d + weaks s d = 1 end).
  Proof.
    intros R E K W L. destruct (reach_inv ks ex s R) as (I & Ln). apply unique_iff; auto. rewrite Ln. exact L.
  Qed.

  (** no_leak: when every object is empty (or a stray copy) nothing is live *)
  Theorem C05_no_leak s :
    reachable s -> (forall i o, nth_error (objs s) i = Some o -> tgt i o = None) -> live (al s) = [].
  Proof. intros R. apply no_leak. apply (reach_inv ks ex s R). Qed.

  (** failed allocations (also used by C16) *)
  Theorem C05_shared_alloc_refused ok s i o sz cb s1 :
    reachable s -> nth_error (objs s) i = Some o -> ownerk (okind o) = true -> wf_obj i o = true ->
    shared_reset s i = Ok s1 ->
    (snd (malloc ok (al s1) DATA_SZ) = None \/
     exists a1 d, malloc ok (al s1) DATA_SZ = (a1, Some d) /\ snd (malloc ok a1 sz) = None) ->
    exists s', shared_alloc ok s i sz cb = Ok s' /\ inv s' /\
      objs s' = upd (objs s) i (ptr_obj i o None) /\ (forall b, is_live (al s') b = is_live (al s1) b).
  Proof. intros R. apply shared_alloc_refused. apply (reach_inv ks ex s R). Qed.

  Theorem C05_unique_alloc_refused ok s u o sz cb s1 :
    reachable s -> nth_error (objs s) u = Some o -> okind o = KU -> wf_obj u o = true ->
    unique_reset s (ASlot u) = Ok s1 -> snd (malloc ok (al s1) sz) = None ->
    exists s', unique_alloc ok s (ASlot u) sz cb = Ok s' /\ inv s' /\
      objs s' = upd (objs s) u (uobj u o None None) /\ live (al s') = live (al s1).
  Proof. intros R. apply unique_alloc_refused. apply (reach_inv ks ex s R). Qed.
End C05.

(** no_leak, end to end (pointer and array objects in one pool): from any
    reachable state, resetting every object in turn (a stray copy can only be
    re-initialised) returns normally and leaves no live block *)
Theorem C05_reset_all_leaks_nothing ks ex ok s :
  2 * N.of_nat (length ks) < 4294967296 ->
  reach (lstep false) (st_init ks ex) s ->
  exists s', cleanup ok false s = Done s' [] /\ live (al s') = [].
Proof.
  intros LEN R. destruct (reach_sys ks ex s LEN R) as (I & A & L & _).
  apply cleanup_no_leak; auto. rewrite L. exact LEN.
Qed.

(** Non-vacuity: a concrete history over 3 shared, 2 weak and 2 unique objects
    (second allocation's inner request refused) reaches the expected event log:
    clear then free of the memory when the last owner goes, bookkeeping block
    freed with the last weak reference. *)
Example C05_example :
  let ok := fun o _ => negb (Nat.eqb o 3) in
  let ops := [SAlloc 0 8 true; SShare 0 1; WFrom 3 0; SAlloc 2 8 true; SReset 0; WLock 3 2; SReset 1;
              SUnique 2; SReset 2; WLock 3 2; WReset 3; UAlloc 5 8 (Some 7%nat); USwap 5 6; UReset 6] in
  match fst (run (mstep ok) (st_init [KS; KS; KS; KW; KW; KU; KU] []) ops) with
  | Done s _ =>
    rev (log s) = [MA (EvMalloc 0 56); MA (EvMalloc 1 8); MA (EvMalloc 2 56); MA (EvMallocFail 8); MA (EvFree 2);
                   MClear (Some 1%nat) 0; MA (EvFree 1); MA (EvFree 0);
                   MA (EvMalloc 3 8); MClear (Some 3%nat) 7; MA (EvFree 3)] /\ live (al s) = []
  | _ => False
  end.
Proof. vm_compute. auto. Qed.

Print Assumptions C05_counts_inv.
Print Assumptions C05_step_safe.
Print Assumptions C05_live_iff_owned.
Print Assumptions C05_memory_iff_owner.
Print Assumptions C05_bookkeeping_iff_referenced.
Print Assumptions C05_released_exactly_once.
Print Assumptions C05_destroyed_with_last_owner.
Print Assumptions C05_get_agree.
Print Assumptions C05_lock_iff.
Print Assumptions C05_unique_iff.
Print Assumptions C05_no_leak.
Print Assumptions C05_shared_alloc_refused.
Print Assumptions C05_unique_alloc_refused.
Print Assumptions C05_reset_all_leaks_nothing.
