(** C05 - shared memory is destroyed exactly once, exactly when its last
    owner lets go.  Statements only; proofs are in MemProofs.v. *)
From Cstl Require Import Prelude AllocModel MemModel MemProofs.
Local Open Scope N_scope.

(** cstl_shared_ptr_reset on a well-formed owner in a state satisfying the
    counting invariant returns, re-establishes the invariant (owner and
    reference counters equal the numbers of referring objects, memory and
    bookkeeping block released exactly when the respective counter reaches
    zero, never twice) and empties exactly that object. *)
Theorem C05_shared_reset s i o :
  inv s -> nth_error (objs s) i = Some o -> ownerk (okind o) = true -> wf_obj i o = true ->
  exists s', shared_reset s i = Ok s' /\ inv s' /\ objs s' = upd (objs s) i (ptr_obj i o None).
Proof. exact (shared_reset_spec s i o). Qed.

Example C05_example :
  let ok := fun _ _ => true in
  match fst (run (mstep ok) (st_init [KS; KS; KW] []) [SAlloc 0 8 true; SShare 0 1; WFrom 2 0; SReset 0; SReset 1]) with
  | Done s _ => log s = [MA (EvFree 1); MClear (Some 1%nat) 0; MA (EvMalloc 1 8); MA (EvMalloc 0 56)]
  | _ => False
  end.
Proof. vm_compute. reflexivity. Qed.

Print Assumptions C05_shared_reset.
