(** Executable model of src/slist.c (C13, C15).

    A list object is modelled by the sequence of element ids reachable from
    its head link *plus* the two redundant fields the C structure keeps and
    that the C code updates by hand: the tail pointer [tail] ([None] stands
    for [&sl->h], the address of the embedded head link) and [count].
    Every function below performs the same conditional updates of those two
    fields as the C function of the same name; that they always agree with
    the sequence is a theorem (SListProofs.v), not a definition.

    Dereferencing a NULL link is [Fault]. *)
From Cstl Require Import Prelude.
Local Open Scope N_scope.

Record slist := mkSL { items : list nat; tail : option nat; count : N }.

Definition sl_init : slist := mkSL [] None 0.

Definition opt_eqb (a b : option nat) : bool :=
  match a, b with
  | None, None => true
  | Some x, Some y => Nat.eqb x y
  | _, _ => false
  end.

Inductive res (A : Type) := Ok (a : A) | Flt.
Arguments Ok {A} a.
Arguments Flt {A}.

(** [n->n] for a node of the chain: [Some (Some y)] = next node y,
    [Some None] = NULL (x is the last node), [None] = x is not in the chain. *)
Fixpoint next_of (x : nat) (l : list nat) : option (option nat) :=
  match l with
  | [] => None
  | y :: r => if Nat.eqb y x then Some (hd_error r) else next_of x r
  end.

(** Chain after the write [in->n = nn; nn->n = old in->n]. *)
Fixpoint link_after (x nn : nat) (l : list nat) : option (list nat) :=
  match l with
  | [] => None
  | y :: r => if Nat.eqb y x then Some (y :: nn :: r)
              else option_map (cons y) (link_after x nn r)
  end.

(** Chain after unlinking the node that follows [x]. *)
Fixpoint unlink_after (x : nat) (l : list nat) : option (list nat) :=
  match l with
  | [] => None
  | y :: r => if Nat.eqb y x then Some (y :: tl r)
              else option_map (cons y) (unlink_after x r)
  end.

(** __cstl_slist_insert_after *)
Definition insert_after (sl : slist) (i : option nat) (nn : nat) : res slist :=
  let it :=
    match i with
    | None => Some (nn :: items sl)
    | Some x => link_after x nn (items sl)
    end in
  match it with
  | None => Flt
  | Some it' =>
    Ok (mkSL it'
             (if opt_eqb (tail sl) i then Some nn else tail sl)
             (count sl + 1))
  end.

(** __cstl_slist_erase_after: returns the unlinked node *)
Definition erase_after (sl : slist) (e : option nat) : res (slist * nat) :=
  let nx := match e with
            | None => Some (hd_error (items sl))
            | Some x => next_of x (items sl)
            end in
  match nx with
  | None => Flt                         (* e is not a node of this list *)
  | Some None => Flt                    (* n == NULL; n->n dereferences it *)
  | Some (Some n) =>
    let it := match e with
              | None => Some (tl (items sl))
              | Some x => unlink_after x (items sl)
              end in
    match it with
    | None => Flt
    | Some it' =>
      Ok (mkSL it'
               (if opt_eqb (tail sl) (Some n) then e else tail sl)
               (count sl - 1), n)
    end
  end.

Definition push_front (sl : slist) (e : nat) := insert_after sl None e.
Definition push_back (sl : slist) (e : nat) := insert_after sl (tail sl) e.

(** cstl_slist_pop_front, as repaired by the "fix:" commit (returns NULL on
    an empty list).  The pre-fix function is [pop_front_v0] below. *)
Definition pop_front (sl : slist) : res (slist * option nat) :=
  if opt_eqb (tail sl) None then Ok (sl, None)
  else match erase_after sl None with
       | Ok (sl', n) => Ok (sl', Some n)
       | Flt => Flt
       end.

Definition pop_front_v0 (sl : slist) : res (slist * option nat) :=
  match erase_after sl None with
  | Ok (sl', n) => Ok (sl', Some n)
  | Flt => Flt
  end.

Definition front (sl : slist) : res (option nat) :=
  if opt_eqb (tail sl) None then Ok None
  else match items sl with [] => Flt (* h.n == NULL is returned as element: &NULL - off *)
                         | x :: _ => Ok (Some x) end.

Definition back (sl : slist) : option nat := tail sl.

(** loop of cstl_slist_reverse: [front ++ c :: rest] is the chain *)
Fixpoint rev_loop (front : list nat) (c : nat) (rest : list nat) : list nat :=
  match rest with
  | [] => front ++ [c]
  | n :: r => rev_loop (n :: front) c r
  end.

Definition reverse (sl : slist) : res slist :=
  if 1 <? count sl then
    match items sl with
    | [] => Flt
    | c :: rest => Ok (mkSL (rev_loop [] c rest) (Some c) (count sl))
    end
  else Ok sl.

(** chain after [t->n = X] (whatever followed t is cut off) *)
Fixpoint cut_after (x : nat) (l : list nat) : option (list nat) :=
  match l with
  | [] => None
  | y :: r => if Nat.eqb y x then Some [y] else option_map (cons y) (cut_after x r)
  end.

Definition set_next (sl : slist) (t : option nat) (chain : list nat) : option (list nat) :=
  match t with
  | None => Some chain
  | Some x => option_map (fun l => l ++ chain) (cut_after x (items sl))
  end.

(** cstl_slist_concat (same [off] on both sides; dst and src distinct objects) *)
Definition concat (dst src : slist) : res (slist * slist) :=
  if 0 <? count src then
    match set_next dst (tail dst) (items src) with
    | None => Flt
    | Some it => Ok (mkSL it (tail src) (count dst + count src), sl_init)
    end
  else Ok (dst, src).

Section WithKey.
  Variable key : nat -> Z.

  (** merge loop of cstl_slist_sort *)
  Fixpoint merge_loop (fuel : nat) (out a b : slist) : res (slist * slist * slist) :=
    if (0 <? count a) && (0 <? count b) then
      match fuel with
      | O => Flt
      | S f =>
        match items a, items b with
        | x :: _, y :: _ =>
          if (key x <=? key y)%Z then
            match erase_after a None with
            | Ok (a', n) =>
              match insert_after out (tail out) n with
              | Ok out' => merge_loop f out' a' b
              | Flt => Flt
              end
            | Flt => Flt
            end
          else
            match erase_after b None with
            | Ok (b', n) =>
              match insert_after out (tail out) n with
              | Ok out' => merge_loop f out' a b'
              | Flt => Flt
              end
            | Flt => Flt
            end
        | _, _ => Flt
        end
      end
    else Ok (out, a, b).

  (** cstl_slist_sort.  [fuel] bounds the recursion depth and the merge
      loops; [length (items sl)] is always enough (theorem). *)
  Fixpoint sort (fuel : nat) (sl : slist) : res slist :=
    if 1 <? count sl then
      match fuel with
      | O => Flt
      | S f =>
        let k := N.to_nat (count sl / 2) in
        (* t walks k links from &h: Fault if the chain is shorter *)
        if Nat.ltb (length (items sl)) k then Flt else
        let t := match k with O => None | S k' => nth_error (items sl) k' end in
        let s0 := mkSL (firstn k (items sl)) t (N.of_nat k) in
        let s1 := mkSL (skipn k (items sl)) (tail sl) (count sl - N.of_nat k) in
        match sort f s0 with
        | Flt => Flt
        | Ok s0' =>
          match sort f s1 with
          | Flt => Flt
          | Ok s1' =>
            match merge_loop (N.to_nat (count s0' + count s1')) sl_init s0' s1' with
            | Flt => Flt
            | Ok (out, a, b) =>
              if 0 <? count a then
                match concat out a with Ok (o, _) => Ok o | Flt => Flt end
              else
                match concat out b with Ok (o, _) => Ok o | Flt => Flt end
            end
          end
        end
      end
    else Ok sl.
End WithKey.

(** cstl_slist_foreach with a visitor that answers non-zero (the value
    [stop]) at its [stop]-th call, 0 = never: returns the visit log and the
    result. *)
Definition foreach (sl : slist) (stop : nat) : list nat * Z :=
  match stop with
  | O => (items sl, 0%Z)
  | S _ => if Nat.leb stop (length (items sl))
           then (firstn stop (items sl), Z.of_nat stop)
           else (items sl, 0%Z)
  end.

(** cstl_slist_foreach with a visitor that changes the lists: for the element
    [e] it is shown it calls cstl_slist_pop_front on the traversed list (and
    notes whether that returned [e]), then cstl_slist_push_back(other, e);
    it answers [stop] at its [stop]-th call (0 = never).

      c = sl->h.n;
      while (c != NULL && res == 0) { n = c->n; res = visit(elem(c), p); c = n; }

    The successor [n] is read from the traversed chain *before* the visitor
    runs ([next_of] on the chain as it is at that moment); the visitor is the
    model's own [pop_front] and [push_back].  [None] from [next_of]: [c] is not
    a node of the traversed chain any more, so this model does not describe
    [c->n] ([Flt]).  Running out of [fuel] stands for a loop that does not end.
    Result: both lists, the visit log, the result of foreach, the number of
    visits in which pop_front did not return the visited element. *)
Fixpoint fmove_loop (fuel : nat) (c : option nat) (sl dl : slist) (stop k : nat)
         (acc : list nat) (bad : nat) : res (slist * slist * list nat * Z * nat) :=
  match c with
  | None => Ok (sl, dl, rev acc, 0%Z, bad)
  | Some e =>
    match fuel with
    | O => Flt
    | S f =>
      match next_of e (items sl) with                   (* n = c->n *)
      | None => Flt
      | Some n =>
        match pop_front sl with                          (* visitor: pop_front(sl) ... *)
        | Flt => Flt
        | Ok (sl1, got) =>
          let bad' := if opt_eqb got (Some e) then bad else S bad in
          match push_back dl e with                      (* ... push_back(dl, e) *)
          | Flt => Flt
          | Ok dl1 =>
            if (0 <? stop)%nat && Nat.eqb (S k) stop
            then Ok (sl1, dl1, rev (e :: acc), Z.of_nat stop, bad')
            else fmove_loop f n sl1 dl1 stop (S k) (e :: acc) bad'   (* c = n *)
          end
        end
      end
    end
  end.

Definition fmove (sl dl : slist) (stop : nat) : res (slist * slist * list nat * Z * nat) :=
  fmove_loop (S (N.to_nat (count sl))) (hd_error (items sl)) sl dl stop 0 [] 0.

(** cstl_slist_clear: the callback log, then re-initialisation.  Event view
    used by C15: for every node the successor link is read ([EvRead]) before
    the callback ([EvCall]) and never after. *)
Inductive ev := EvRead (n : nat) | EvCall (n : nat).
Definition clear_events (sl : slist) : list ev :=
  flat_map (fun x => [EvRead x; EvCall x]) (items sl).
Definition clear (sl : slist) : list nat * slist := (items sl, sl_init).

(** cstl_slist_swap: byte swap, then an empty list's tail is re-anchored on
    its own head link.  A tail equal to [None] (= the *other* object's head
    address after the byte swap) in a non-empty list would dangle: Fault
    is not observable at swap time, so the field is kept as is. *)
Definition swap_fix (sl : slist) : slist :=
  if count sl =? 0 then mkSL (items sl) None (count sl) else sl.
Definition swap (a b : slist) : slist * slist := (swap_fix b, swap_fix a).

(** * The scripted system: a family of list objects over one element pool *)

Inductive op :=
| PushFront (l e : nat) | PushBack (l e : nat) | InsertAfter (l b e : nat)
| EraseAfter (l b : nat) | PopFront (l : nat)
| Front (l : nat) | Back (l : nat) | Size (l : nat)
| Reverse (l : nat) | Sort (l : nat) | Concat (d s : nat) | Swap (a b : nat)
| Foreach (l stop : nat) | Clear (l : nat)
| FMove (l d stop : nat).   (* foreach over l with the pop_front + push_back(d) visitor *)

Definition sys := list slist.

Definition in_any (s : sys) (e : nat) : bool :=
  existsb (fun sl => existsb (Nat.eqb e) (items sl)) s.

Definition zids (l : list nat) : list Z := map zid l.

Section Step.
  Variable key : nat -> Z.
  Variable v0 : bool.   (* true: pre-fix pop_front (Findings) *)

  Definition with_list (s : sys) (l : nat) (f : slist -> outcome sys) : outcome sys :=
    match nth_error s l with
    | None => Precond
    | Some sl => f sl
    end.

  Definition lift (s : sys) (l : nat) (r : res slist) (out : list Z) : outcome sys :=
    match r with
    | Ok sl' => Done (upd s l sl') out
    | Flt => Fault
    end.

  Definition step (s : sys) (o : op) : outcome sys :=
    match o with
    | PushFront l e =>
      with_list s l (fun sl => if in_any s e then Precond else lift s l (push_front sl e) [])
    | PushBack l e =>
      with_list s l (fun sl => if in_any s e then Precond else lift s l (push_back sl e) [])
    | InsertAfter l b e =>
      with_list s l (fun sl =>
        if in_any s e || negb (existsb (Nat.eqb b) (items sl)) then Precond
        else lift s l (insert_after sl (Some b) e) [])
    | EraseAfter l b =>
      with_list s l (fun sl =>
        match next_of b (items sl) with
        | Some (Some _) =>
          match erase_after sl (Some b) with
          | Ok (sl', n) => Done (upd s l sl') [zid n]
          | Flt => Fault
          end
        | _ => Precond     (* b not in the list, or nothing after b *)
        end)
    | PopFront l =>
      with_list s l (fun sl =>
        match (if v0 then pop_front_v0 sl else pop_front sl) with
        | Ok (sl', r) => Done (upd s l sl') [zopt r]
        | Flt => Fault
        end)
    | Front l =>
      with_list s l (fun sl =>
        match front sl with Ok r => Done s [zopt r] | Flt => Fault end)
    | Back l => with_list s l (fun sl => Done s [zopt (back sl)])
    | Size l => with_list s l (fun sl => Done s [Z.of_N (count sl)])
    | Reverse l => with_list s l (fun sl => lift s l (reverse sl) [])
    | Sort l =>
      with_list s l (fun sl => lift s l (sort key (length (items sl)) sl) [])
    | Concat d sr =>
      if Nat.eqb d sr then Precond else
      with_list s d (fun dl => with_list s sr (fun sl =>
        match concat dl sl with
        | Ok (d', s') => Done (upd (upd s d d') sr s') []
        | Flt => Fault
        end))
    | Swap a b =>
      with_list s a (fun al => with_list s b (fun bl =>
        if Nat.eqb a b then Done s [] else
        let '(a', b') := swap al bl in Done (upd (upd s a a') b b') []))
    | Foreach l stop =>
      with_list s l (fun sl =>
        let '(log, r) := foreach sl stop in Done s (r :: zids log))
    | Clear l =>
      with_list s l (fun sl =>
        let '(log, sl') := clear sl in Done (upd s l sl') (zids log))
    | FMove l d stop =>
      if Nat.eqb l d then Precond else
      with_list s l (fun sl => with_list s d (fun dl =>
        match fmove sl dl stop with
        | Ok (sl', dl', log, r, bad) =>
          Done (upd (upd s l sl') d dl') (r :: Z.of_nat bad :: zids log)
        | Flt => Fault
        end))
    end.
End Step.

Definition sys_init (n : nat) : sys := repeat sl_init n.

(** Observable dump of one list used by the correspondence check: the
    traversal, front, back, size. *)
Definition dump (sl : slist) : list Z :=
  Z.of_N (count sl) :: zopt (match front sl with Ok r => r | Flt => None end)
  :: zopt (back sl) :: zids (items sl).
