(** Proofs about HashModel.v, part 3: the keyed operations (insert, find,
    erase) -- invariant, effect on the bag of live elements, exactness of
    lookups -- for ANY hash function (a call may abort, it never faults). *)
From Cstl Require Import Prelude AllocModel HashModel HashProofs HashInv.
Local Open Scope N_scope.

Arguments HashModel.bucket_raw : simpl never.

(** events that only the internal machinery emits *)
Definition internal_ev (e : ev) : Prop :=
  match e with EvHash _ _ _ | EvClean _ => True | _ => False end.
Definition internal (w : list ev) : Prop := Forall internal_ev w.

(** elements offered to the caller's visit function, in order *)
Definition offers (w : list ev) : list nat :=
  flat_map (fun e => match e with EvOffer x => [x] | _ => [] end) w.
Definition visits (w : list ev) : list nat :=
  flat_map (fun e => match e with EvVisit x => [x] | _ => [] end) w.
Definition clears (w : list ev) : list nat :=
  flat_map (fun e => match e with EvClear x => [x] | _ => [] end) w.
Definition hcalls (w : list ev) : list (fn_id * N * N) :=
  flat_map (fun e => match e with EvHash f k m => [(f, k, m)] | _ => [] end) w.

Lemma NoDup_app_l {A} (a b : list A) : NoDup (a ++ b) -> NoDup a.
Proof.
  induction a as [|x a IH]; simpl; intros H; [constructor|].
  inversion H; subst. constructor; auto. intro Hx. apply H2. apply in_or_app. now left.
Qed.
Lemma NoDup_app_r {A} (a b : list A) : NoDup (a ++ b) -> NoDup b.
Proof. induction a as [|x a IH]; simpl; intros H; auto. inversion H; auto. Qed.

Lemma internal_app a b : internal a -> internal b -> internal (a ++ b).
Proof. intros A B. apply Forall_app. split; auto. Qed.

Lemma offers_app a b : offers (a ++ b) = offers a ++ offers b.
Proof. apply flat_map_app. Qed.
Lemma visits_app a b : visits (a ++ b) = visits a ++ visits b.
Proof. apply flat_map_app. Qed.
Lemma clears_app a b : clears (a ++ b) = clears a ++ clears b.
Proof. apply flat_map_app. Qed.
Lemma hcalls_app a b : hcalls (a ++ b) = hcalls a ++ hcalls b.
Proof. apply flat_map_app. Qed.

Lemma internal_offers w : internal w -> offers w = [].
Proof. induction 1 as [|[] w H _ IH]; simpl in *; auto; tauto. Qed.
Lemma internal_visits w : internal w -> visits w = [].
Proof. induction 1 as [|[] w H _ IH]; simpl in *; auto; tauto. Qed.
Lemma internal_clears w : internal w -> clears w = [].
Proof. induction 1 as [|[] w H _ IH]; simpl in *; auto; tauto. Qed.

Lemma offers_map l : offers (map EvOffer l) = l.
Proof. induction l; simpl; congruence. Qed.

Section Ops.
  Variable hf : fn_id -> N -> N -> option N.
  Variable key : nat -> N.
  Hypothesis Hdef : hf_def hf.

  Notation safe := (HashProofs.safe hf).
  Notation inv := (inv hf key).
  Notation invw := (invw hf key).
  Notation get_bucket := (get_bucket hf key).

  (** ** the internal machinery logs only hash calls and relocations *)

  Lemma internal_bucket_raw f k m i w : bucket_raw hf f k m = Ok i w -> internal w.
  Proof.
    unfold bucket_raw. destruct f as [g|]; [|discriminate].
    destruct (hf g k m); [|discriminate]. destruct (m <=? n); [discriminate|].
    intros [= _ <-]. repeat constructor.
  Qed.

  Lemma internal_reinsert l f m bs bs' w : reinsert hf key l f m bs = Ok bs' w -> internal w.
  Proof.
    revert bs w. induction l as [|e r IH]; intros bs w; simpl.
    - intros [= _ <-]. constructor.
    - intros H. apply bind_ok in H. destruct H as (j & w1 & w2 & H1 & H2 & ->).
      apply internal_app; [eapply internal_bucket_raw; eauto|].
      destruct (nth_error bs j); [|discriminate]. eapply IH; eauto.
  Qed.

  Lemma internal_clean_bucket t i t' w : clean_bucket hf key t i = Ok t' w -> internal w.
  Proof.
    unfold clean_bucket. destruct (nth_error (bks t) i) as [b|]; [|discriminate].
    destruct (Bool.eqb (cst t) (bbit b)).
    - intros [= _ <-]. constructor.
    - intros H. apply bind_ok in H. destruct H as (bs & w1 & w2 & H1 & H2 & ->).
      apply internal_app; [eapply internal_reinsert; eauto|].
      destruct (nth_error bs i); [|discriminate]. injection H2 as _ <-. repeat constructor.
  Qed.

  Lemma internal_skip fuel t t' w : skip_clean fuel t = Ok t' w -> internal w.
  Proof.
    revert t. induction fuel as [|fu IH]; intros t; simpl.
    - intros [= _ <-]. constructor.
    - destruct (rclean t <? bcount t); [|intros [= _ <-]; constructor].
      destruct (nth_error (bks t) _) as [b|]; [|discriminate].
      destruct (Bool.eqb (bbit b) (cst t)); [apply IH|intros [= _ <-]; constructor].
  Qed.

  Lemma internal_sweep fuel n t t' w : sweep hf key fuel n t = Ok t' w -> internal w.
  Proof.
    revert n t w. induction fuel as [|fu IH]; intros n t w; simpl.
    - intros [= _ <-]. constructor.
    - destruct ((rclean t <? bcount t) && (0 <? n)); [|intros [= _ <-]; constructor].
      intros H. apply bind_ok in H. destruct H as (t1 & w1 & w2 & H1 & H2 & ->).
      apply internal_app; [eapply internal_clean_bucket; eauto|eapply IH; eauto].
  Qed.

  Lemma internal_rehash_n t n t' w : rehash_n hf key t n = Ok t' w -> internal w.
  Proof.
    unfold rehash_n. intros H.
    apply bind_ok in H. destruct H as (t1 & w1 & w2 & H1 & H2 & ->).
    apply bind_ok in H2. destruct H2 as (t2 & w3 & w4 & H2 & H3 & ->).
    injection H3 as _ <-.
    repeat apply internal_app; try constructor;
      [eapply internal_skip; eauto|eapply internal_sweep; eauto].
  Qed.

  Lemma internal_rehash t t' w : rehash hf key t = Ok t' w -> internal w.
  Proof.
    unfold rehash. destruct (rhash t); [apply internal_rehash_n|intros [= _ <-]; constructor].
  Qed.

  Lemma internal_get_bucket t k p w : get_bucket t k = Ok p w -> internal w.
  Proof.
    unfold HashModel.get_bucket. intros H.
    apply bind_ok in H. destruct H as (i & w1 & w2 & H1 & H2 & ->).
    apply internal_app; [eapply internal_bucket_raw; eauto|].
    destruct (rhash t); [|injection H2 as _ <-; constructor].
    apply bind_ok in H2. destruct H2 as (j & w3 & w4 & H2 & H3 & ->).
    apply internal_app; [eapply internal_bucket_raw; eauto|].
    apply bind_ok in H3. destruct H3 as (t1 & w5 & w6 & H3 & H4 & ->).
    apply internal_app; [eapply internal_clean_bucket; eauto|].
    apply bind_ok in H4. destruct H4 as (t2 & w7 & w8 & H4 & H5 & ->).
    apply internal_app; [eapply internal_clean_bucket; eauto|].
    apply bind_ok in H5. destruct H5 as (t3 & w9 & w10 & H5 & H6 & ->).
    apply internal_app; [eapply internal_rehash_n; eauto|].
    injection H6 as _ <-. constructor.
  Qed.

  (** ** what a keyed operation preserves, whatever it does to the chains *)

  Definition keeps (t t' : table) : Prop :=
    tgt_count t' = tgt_count t /\ tgt_hash t' = tgt_hash t /\ hash t' <> None /\
    cap t' = cap t /\ at_blk t' = at_blk t /\ cst t' = cst t.

  (** progress of the incremental rehash made by one keyed operation *)
  Definition progress (t t' : table) : Prop :=
    rhash t <> None -> rhash t' = None \/ (rclean t < rclean t' /\ bcount t' = bcount t).

  (** ** insert *)

  Lemma insert_spec t e :
    inv t -> hash t <> None -> ~ In e (live t) ->
    safe (insert hf key t e) (fun t' w =>
      inv t' /\ Permutation (live t') (e :: live t) /\ size t' = size t + 1 /\
      keeps t t' /\ progress t t' /\ (ncleans w <= 3)%nat /\ internal w /\
      (rhash t = None -> rhash t' = None /\ bcount t' = bcount t /\ hash t' = hash t /\
                         exists g, hash t = Some g /\ w = [EvHash g (key e) (bcount t)])).
  Proof.
    intros I Hh Hn. unfold insert.
    pose proof (get_bucket_inv hf key Hdef t (key e) I Hh) as G.
    destruct (get_bucket t (key e)) as [[t1 j] w| |] eqn:Eg; simpl in *; auto.
    destruct G as (I1 & Hj & Hhome & Hidx & P & TC & TH & Hh1 & C & A & Z & T & N3 & Hs & Hpr).
    destruct (nth_error_lt _ _ Hj) as (b & Hb). rewrite Hb. simpl.
    set (t' := set_size (set_bks t1 (upd (bks t1) j (mkB (e :: chain b) (bbit b)))) (size t1 + 1)).
    assert (Pl : Permutation (live t') (e :: live t)).
    { unfold t'. rewrite live_lv. simpl. rewrite (lv_upd_cons _ _ _ e (bbit b) Hb).
      constructor. exact P. }
    destruct I1 as (I1 & Hlt1).
    split; [|split; [exact Pl|]].
    - split; [|exact Hlt1]. split.
      + eapply shape_ext; try apply (inv_shape _ _ t1 I1); auto. simpl. apply upd_length.
      + intros x bx y Hx Hy. unfold t' in Hx. simpl in Hx.
        rewrite nth_error_upd in Hx. destruct (Nat.eqb_spec j x) as [<-|Hne].
        * destruct (Nat.ltb_spec j (length (bks t1))); [|discriminate]. injection Hx as <-.
          simpl in Hy. destruct Hy as [<-|Hy].
          -- eapply ok_at_ext; [..|apply (tidx_ok_at hf key t1 (key e) j (mkB (e :: chain b) (bbit b)) e Hidx eq_refl)]; auto.
          -- pose proof (inv_placed _ _ t1 I1 j b y Hb Hy) as O. unfold ok_at in *. simpl in *. exact O.
        * pose proof (inv_placed _ _ t1 I1 x bx y Hx Hy) as O. unfold ok_at in *. simpl in *. exact O.
      + intros Hp. destruct (inv_swept _ _ t1 I1 Hp) as (Hle & Hsw). split; [exact Hle|].
        intros x bx Hxl Hx. unfold t' in Hx. simpl in Hx.
        rewrite nth_error_upd in Hx. destruct (Nat.eqb_spec j x) as [<-|Hne].
        * destruct (Nat.ltb_spec j (length (bks t1))); [|discriminate]. injection Hx as <-.
          simpl. apply (Hsw j b); auto.
        * apply (Hsw x bx); auto.
      + eapply Permutation_NoDup; [symmetry; exact Pl|]. constructor; auto.
        eapply Permutation_NoDup; [exact P|]. apply (inv_nodup _ _ t1 I1).
      + unfold t' at 1. simpl. rewrite (Permutation_length Pl). simpl.
        rewrite <- (Permutation_length P). rewrite (inv_size _ _ t1 I1). lia.
      + intros x bx Hx Hf. unfold t' in Hx. simpl in Hx.
        rewrite nth_error_upd in Hx. destruct (Nat.eqb_spec j x) as [<-|Hne].
        * destruct (Nat.ltb_spec j (length (bks t1))); [|discriminate]. injection Hx as <-.
          simpl. apply (inv_fresh _ _ t1 I1 j b Hb Hf).
        * apply (inv_fresh _ _ t1 I1 x bx Hx Hf).
    - split; [unfold t'; simpl; congruence|].
      split; [unfold keeps; unfold t', tgt_count, tgt_hash in *; simpl; auto 10|].
      split; [exact Hpr|].
      split; [rewrite app_nil_r; exact N3|].
      split; [rewrite app_nil_r; eapply internal_get_bucket; eauto|].
      intros Hr. destruct (Hs Hr) as (-> & g & Eh & ->). rewrite app_nil_r. unfold t'. simpl. eauto 8.
  Qed.

  (** ** find *)

  Definition cands (k : N) (l : list nat) : list nat := filter (fun e => key e =? k) l.

  Lemma in_cands k l e : In e (cands k l) <-> In e l /\ key e = k.
  Proof. unfold cands. rewrite filter_In, N.eqb_eq. tauto. Qed.

  (** result of one find over the candidates [c] (the live elements with the
      key, in chain order): without a visit function the first candidate;
      with one, candidates are offered in order up to and including the first
      accepted one, which is returned *)
  Definition find_result (vis : option (list nat)) (c o : list nat) (x : option nat) : Prop :=
    match vis with
    | None => o = [] /\ x = hd_error c
    | Some acc =>
      (x = None /\ o = c /\ forall e, In e c -> ~ In e acc) \/
      (exists c1 a c2, c = c1 ++ a :: c2 /\ (forall e, In e c1 -> ~ In e acc) /\ In a acc /\
                       o = c1 ++ [a] /\ x = Some a)
    end.

  Lemma existsb_eqb_in e acc : existsb (Nat.eqb e) acc = true <-> In e acc.
  Proof.
    rewrite existsb_exists. split.
    - intros (x & Hx & E). apply Nat.eqb_eq in E. now subst.
    - intros H. exists e. split; auto. apply Nat.eqb_refl.
  Qed.

  Lemma find_chain_spec k vis l :
    find_result vis (cands k l) (fst (find_chain key k vis l)) (snd (find_chain key k vis l)).
  Proof.
    induction l as [|e r IH]; simpl.
    - destruct vis; simpl; [left; repeat split; auto|auto].
    - destruct (N.eqb_spec (key e) k) as [Ek|Ek]; simpl; [|exact IH].
      destruct vis as [acc|]; simpl in *; auto.
      destruct (existsb (Nat.eqb e) acc) eqn:Ea; simpl.
      + right. exists [], e, (cands k r). repeat split; auto. apply existsb_eqb_in; auto.
      + assert (Hna : ~ In e acc). { rewrite <- existsb_eqb_in. congruence. }
        destruct (find_chain key k (Some acc) r) as [o x]. simpl in *.
        destruct IH as [(-> & -> & Hr)|(c1 & a & c2 & Ec & Hc1 & Ha & -> & ->)].
        * left. repeat split; auto. intros y [<-|Hy]; auto.
        * right. exists (e :: c1), a, c2. rewrite Ec. repeat split; auto.
          intros y [<-|Hy]; auto.
  Qed.

  Lemma find_spec t k vis :
    inv t -> hash t <> None ->
    safe (find hf key t k vis) (fun p w =>
      let t' := fst p in
      inv t' /\ Permutation (live t') (live t) /\ size t' = size t /\
      keeps t t' /\ progress t t' /\ (ncleans w <= 3)%nat /\
      (exists c, NoDup c /\ (forall e, In e c <-> In e (live t) /\ key e = k) /\
                 find_result vis c (offers w) (snd p)) /\
      (rhash t = None -> t' = t /\ exists g, hash t = Some g /\ hcalls w = [(g, k, bcount t)])).
  Proof.
    intros I Hh. unfold find.
    pose proof (get_bucket_inv hf key Hdef t k I Hh) as G.
    destruct (get_bucket t k) as [[t1 j] w| |] eqn:Eg; simpl in *; auto.
    destruct G as (I1 & Hj & Hhome & Hidx & P & TC & TH & Hh1 & C & A & Z & T & N3 & Hs & Hpr).
    destruct (nth_error_lt _ _ Hj) as (b & Hb). rewrite Hb.
    pose proof (find_chain_spec k vis (chain b)) as F.
    destruct (find_chain key k vis (chain b)) as [o x]. simpl in *.
    pose proof (internal_get_bucket _ _ _ _ Eg) as Hi.
    split; auto. split; auto. split; auto.
    split; [unfold keeps; auto 10|]. split; [exact Hpr|].
    split.
    { rewrite ncleans_app. assert (ncleans (map EvOffer o) = 0%nat) by (clear; induction o; simpl; auto). lia. }
    split.
    - exists (cands k (chain b)). split; [|split].
      + apply NoDup_filter.
        pose proof (inv_nodup _ _ t1 (proj1 I1)) as Nd. rewrite live_lv in Nd.
        destruct (lv_upd (bks t1) j b b Hb) as (l1 & l2 & E1 & _). rewrite E1 in Nd.
        apply NoDup_app_r in Nd. apply NoDup_app_l in Nd. auto.
      + intros e. rewrite in_cands. split.
        * intros (He & Hk). split; auto. eapply Permutation_in; [exact P|].
          rewrite live_lv. apply in_lv. eauto.
        * intros (He & Hk). split; auto.
          apply (Permutation_in e (Permutation_sym P)) in He. rewrite live_lv in He.
          apply in_lv in He. destruct He as (x' & b' & Hb' & He').
          assert (x' = j) by (eapply Hhome; eauto). subst x'. congruence.
      + rewrite offers_app, (internal_offers _ Hi), offers_map. exact F.
    - intros Hr. destruct (Hs Hr) as (-> & g & Eh & ->). split; auto. exists g. split; auto.
      simpl. assert (hcalls (map EvOffer o) = []) by (clear; induction o; simpl; auto).
      now rewrite H.
  Qed.

  (** ** erase *)

  Lemma remove_first_spec e l :
    match remove_first e l with
    | Some l' => exists l1 l2, l = l1 ++ e :: l2 /\ l' = l1 ++ l2 /\ ~ In e l1
    | None => ~ In e l
    end.
  Proof.
    induction l as [|x r IH]; simpl; auto.
    destruct (Nat.eqb_spec x e) as [->|Hne].
    - exists [], r. auto.
    - destruct (remove_first e r) as [l'|]; simpl.
      + destruct IH as (l1 & l2 & -> & -> & Hn). exists (x :: l1), l2. repeat split; auto.
        intros [H|H]; auto.
      + intros [H|H]; auto.
  Qed.

  Lemma touches_dead_false dead e l :
    (forall x, In x dead -> ~ In x l) -> touches_dead dead e l = false.
  Proof.
    intros H. induction l as [|x r IH]; simpl; auto.
    destruct (existsb (Nat.eqb x) dead) eqn:E.
    - apply existsb_eqb_in in E. exfalso. apply (H x E). now left.
    - simpl. destruct (Nat.eqb x e); auto. apply IH. intros y Hy Hr. apply (H y Hy). now right.
  Qed.

  Lemma erase_d_spec dead t e :
    inv t -> hash t <> None -> (forall x, In x dead -> ~ In x (live t)) ->
    safe (erase_d hf key dead t e) (fun t' w =>
      inv t' /\ keeps t t' /\ progress t t' /\ (ncleans w <= 3)%nat /\ internal w /\
      (forall x, In x (live t') <-> In x (live t) /\ x <> e) /\
      (In e (live t) -> Permutation (e :: live t') (live t) /\ size t' + 1 = size t) /\
      (~ In e (live t) -> Permutation (live t') (live t) /\ size t' = size t) /\
      (rhash t = None -> rhash t' = None /\ bcount t' = bcount t /\ hash t' = hash t /\
                         exists g, hash t = Some g /\ w = [EvHash g (key e) (bcount t)])).
  Proof.
    intros I Hh Hd. unfold erase_d.
    pose proof (get_bucket_inv hf key Hdef t (key e) I Hh) as G.
    destruct (get_bucket t (key e)) as [[t1 j] w| |] eqn:Eg; simpl in *; auto.
    destruct G as (I1 & Hj & Hhome & Hidx & P & TC & TH & Hh1 & C & A & Z & T & N3 & Hs & Hpr).
    destruct (nth_error_lt _ _ Hj) as (b & Hb). rewrite Hb.
    pose proof (internal_get_bucket _ _ _ _ Eg) as Hi.
    assert (Hsub : forall x, In x (chain b) -> In x (live t)).
    { intros x Hx. eapply Permutation_in; [exact P|]. rewrite live_lv. apply in_lv. eauto. }
    rewrite touches_dead_false by (intros x Hx Hc; apply (Hd x Hx); auto).
    pose proof (remove_first_spec e (chain b)) as R.
    pose proof (inv_nodup _ _ t1 (proj1 I1)) as Nd.
    assert (Hw : rhash t = None -> rhash t1 = None /\ bcount t1 = bcount t /\ hash t1 = hash t /\
                 exists g, hash t = Some g /\ w ++ [] = [EvHash g (key e) (bcount t)]).
    { intros Hr. destruct (Hs Hr) as (-> & g & Eh & ->). eauto 8. }
    destruct (remove_first e (chain b)) as [l'|]; simpl.
    - destruct R as (l1 & l2 & Ec & -> & Hn1).
      assert (He : In e (live t)) by (apply Hsub; rewrite Ec; apply in_elt).
      set (t' := set_size (set_bks t1 (upd (bks t1) j (mkB (l1 ++ l2) (bbit b)))) (dec64 (size t1))).
      destruct (lv_upd (bks t1) j b (mkB (l1 ++ l2) (bbit b)) Hb) as (p1 & p2 & E1 & E2).
      simpl in E2. rewrite Ec in E1.
      assert (Pl : Permutation (e :: live t') (live t)).
      { rewrite <- P. rewrite !live_lv. unfold t'. simpl. rewrite E1, E2.
        rewrite <- !app_assoc. simpl. rewrite Permutation_middle.
        apply Permutation_app_head. apply Permutation_middle. }
      assert (Nd' : NoDup (e :: live t')).
      { eapply Permutation_NoDup; [symmetry; exact Pl|]. eapply Permutation_NoDup; [exact P|exact Nd]. }
      assert (Hsz : size t1 = N.of_nat (length (live t'))+ 1).
      { rewrite (inv_size _ _ t1 (proj1 I1)). rewrite (Permutation_length P), <- (Permutation_length Pl).
        simpl. lia. }
      destruct I1 as (I1 & Hlt1).
      split; [|split; [unfold keeps; unfold t', tgt_count, tgt_hash in *; simpl; auto 10|]].
      + split; [|exact Hlt1]. split.
        * eapply shape_ext; try apply (inv_shape _ _ t1 I1); auto. simpl. apply upd_length.
        * intros x bx y Hx Hy. unfold t' in Hx. simpl in Hx.
          rewrite nth_error_upd in Hx. destruct (Nat.eqb_spec j x) as [<-|Hne].
          -- destruct (Nat.ltb_spec j (length (bks t1))); [|discriminate]. injection Hx as <-.
             simpl in Hy.
             assert (Hy' : In y (chain b)).
             { rewrite Ec. apply in_app_or in Hy. apply in_or_app. destruct Hy; [left|right; right]; auto. }
             pose proof (inv_placed _ _ t1 I1 j b y Hb Hy') as O. unfold ok_at in *. simpl in *. exact O.
          -- pose proof (inv_placed _ _ t1 I1 x bx y Hx Hy) as O. unfold ok_at in *. simpl in *. exact O.
        * intros Hp. destruct (inv_swept _ _ t1 I1 Hp) as (Hle & Hsw). split; [exact Hle|].
          intros x bx Hxl Hx. unfold t' in Hx. simpl in Hx.
          rewrite nth_error_upd in Hx. destruct (Nat.eqb_spec j x) as [<-|Hne].
          -- destruct (Nat.ltb_spec j (length (bks t1))); [|discriminate]. injection Hx as <-.
             simpl. apply (Hsw j b); auto.
          -- apply (Hsw x bx); auto.
        * now inversion Nd'.
        * unfold t' at 1. simpl. unfold dec64. rewrite Hsz.
          destruct (N.eqb_spec (N.of_nat (length (live t')) + 1) 0); lia.
        * intros x bx Hx Hf. unfold t' in Hx. simpl in Hx.
          rewrite nth_error_upd in Hx. destruct (Nat.eqb_spec j x) as [<-|Hne].
          -- destruct (Nat.ltb_spec j (length (bks t1))); [|discriminate]. injection Hx as <-.
             simpl. apply (inv_fresh _ _ t1 I1 j b Hb Hf).
          -- apply (inv_fresh _ _ t1 I1 x bx Hx Hf).
      + split; [exact Hpr|]. split; [rewrite app_nil_r; exact N3|].
        split; [rewrite app_nil_r; exact Hi|].
        split.
        { intros x. split.
          - intros Hx. split; [eapply Permutation_in; [exact Pl|now right]|].
            intros ->. inversion Nd'; auto.
          - intros (Hx & Hne). apply (Permutation_in x (Permutation_sym Pl)) in Hx.
            destruct Hx; [congruence|auto]. }
        split.
        { intros _. split; [exact Pl|]. unfold t'. simpl. unfold dec64. rewrite Hsz, <- Z.
          rewrite Hsz. destruct (N.eqb_spec (N.of_nat (length (live t')) + 1) 0); lia. }
        split; [intros Hc; contradiction|exact Hw].
    - assert (He : ~ In e (live t)).
      { intros He. apply (Permutation_in e (Permutation_sym P)) in He. rewrite live_lv in He.
        apply in_lv in He. destruct He as (x' & b' & Hb' & He').
        assert (x' = j) by (eapply Hhome; eauto). subst x'. apply R. congruence. }
      split; auto. split; [unfold keeps; auto 10|]. split; [exact Hpr|].
      split; [rewrite app_nil_r; exact N3|]. split; [rewrite app_nil_r; exact Hi|].
      split.
      { intros x. split.
        - intros Hx. split; [eapply Permutation_in; eauto|]. intros ->. apply He.
          eapply Permutation_in; eauto.
        - intros (Hx & _). eapply Permutation_in; [symmetry; exact P|auto]. }
      split; [intros Hc; contradiction|]. split; [auto|exact Hw].
  Qed.
End Ops.
