(** Proofs about MapModel.v (C08, C15, C16): the invariant of every reachable
    map, refinement of every operation to an association list with unique
    keys, frame properties (what insert-of-an-existing-key, a failed
    allocation, erase and clear leave untouched), absence of faults. *)
From Cstl Require Import Prelude AllocModel TreeModel TreeProofs RBProofs TreeSysProofs MapModel.
Local Open Scope Z_scope.

(** * Strictly increasing key sequences: one element per key *)

Definition klt (a b : elem) : Prop := ekey a < ekey b.
Definition ssorted (l : list elem) : Prop := StronglySorted klt l.

Lemma ssorted_cons x l : ssorted (x :: l) <-> ssorted l /\ (forall b, In b l -> klt x b).
Proof.
  unfold ssorted. split.
  - intros H. inversion H; subst. rewrite Forall_forall in *. auto.
  - intros (H1 & H2). constructor; auto. apply Forall_forall; auto.
Qed.

Lemma ssorted_app l1 l2 :
  ssorted (l1 ++ l2) <-> ssorted l1 /\ ssorted l2 /\ (forall a b, In a l1 -> In b l2 -> klt a b).
Proof.
  induction l1 as [|x l1 IH]; cbn [app].
  - split; [intros H; repeat split; auto; [constructor|intros a b []]|tauto].
  - rewrite !ssorted_cons, IH. split.
    + intros ((S1 & S2 & S3) & Hx). repeat split; auto.
      * intros b Hb. apply Hx. apply in_or_app; auto.
      * intros a b [<-|Ha] Hb; auto. apply Hx. apply in_or_app; auto.
    + intros ((S1 & Hx) & S2 & S3). repeat split; auto.
      * intros a b Ha Hb. apply S3; cbn; auto.
      * intros b Hb. apply in_app_or in Hb. destruct Hb as [Hb|Hb]; auto. apply S3; cbn; auto.
Qed.

Lemma ssorted_sorted l : ssorted l -> sorted l.
Proof.
  induction l as [|x l IH]; intros H; [constructor|].
  apply ssorted_cons in H. destruct H as (H1 & H2). apply sorted_cons. split; auto.
  intros b Hb. specialize (H2 b Hb). unfold klt, kle in *. lia.
Qed.

Lemma ssorted_remove l1 x l2 : ssorted (l1 ++ x :: l2) -> ssorted (l1 ++ l2).
Proof.
  rewrite !ssorted_app, ssorted_cons. intros (S1 & (S2 & _) & H). repeat split; auto.
  intros a b Ha Hb. apply H; cbn; auto.
Qed.

(** inserting a key that is not there keeps the sequence strictly increasing *)
Lemma ssorted_ins x l :
  ssorted l -> (forall e, In e l -> ekey e <> ekey x) -> ssorted (ins_sorted x l).
Proof.
  induction l as [|y r IH]; cbn [ins_sorted]; intros H Hne.
  - repeat constructor.
  - apply ssorted_cons in H. destruct H as (H1 & H2).
    destruct (Z.ltb_spec (ekey x) (ekey y)).
    + apply ssorted_cons. split; [apply ssorted_cons; auto|].
      intros b [<-|Hb]; unfold klt in *; auto. specialize (H2 b Hb). lia.
    + apply ssorted_cons. split; [apply IH; auto; intros e He; apply Hne; cbn; auto|].
      intros b Hb. apply (Permutation_in _ (ins_sorted_perm x r)) in Hb.
      destruct Hb as [<-|Hb]; auto. unfold klt. specialize (Hne y (or_introl eq_refl)). lia.
Qed.

(** in a strictly increasing sequence a key identifies its element *)
Lemma ssorted_key_inj l a b : ssorted l -> In a l -> In b l -> ekey a = ekey b -> a = b.
Proof.
  induction l as [|y r IH]; intros H Ha Hb Hk; [destruct Ha|].
  apply ssorted_cons in H. destruct H as (H1 & H2). unfold klt in H2.
  destruct Ha as [<-|Ha], Hb as [<-|Hb]; auto.
  - specialize (H2 b Hb). lia.
  - specialize (H2 a Ha). lia.
Qed.

Lemma find_key_some l e :
  ssorted l -> In e l -> find (fun x => ekey x =? ekey e) l = Some e.
Proof.
  induction l as [|y r IH]; intros H He; [destruct He|].
  cbn [find]. destruct (Z.eqb_spec (ekey y) (ekey e)) as [Heq|Hne].
  - f_equal. eapply ssorted_key_inj; eauto; cbn; auto.
  - apply ssorted_cons in H. destruct H as (H1 & _). destruct He as [<-|He]; [congruence|]. auto.
Qed.

Lemma find_key_none l z :
  (forall e, In e l -> ekey e <> z) -> find (fun x => ekey x =? z) l = None.
Proof.
  induction l as [|y r IH]; intros H; auto. cbn [find].
  destruct (Z.eqb_spec (ekey y) z) as [Heq|Hne]; [exfalso; eapply H; eauto; cbn; auto|].
  apply IH. intros e He. apply H; cbn; auto.
Qed.

(** * The node table *)

Lemma tab_get_del tb m n :
  tab_get (tab_del tb m) n = if Nat.eqb m n then None else tab_get tb n.
Proof.
  induction tb as [|[a kv] r IH]; cbn [tab_del filter tab_get fst].
  - destruct (Nat.eqb m n); auto.
  - destruct (Nat.eqb_spec a m) as [->|Hne]; cbn [negb].
    + fold (tab_del r m). rewrite IH. destruct (Nat.eqb_spec m n); auto.
    + cbn [tab_get]. fold (tab_del r m). rewrite IH.
      destruct (Nat.eqb_spec a n) as [->|Hn]; auto.
      destruct (Nat.eqb_spec m n); [congruence|auto].
Qed.

Lemma tab_get_del_other tb m n : m <> n -> tab_get (tab_del tb m) n = tab_get tb n.
Proof. intros H. rewrite tab_get_del. apply Nat.eqb_neq in H. rewrite H. reflexivity. Qed.

Lemma tab_get_del_same tb n : tab_get (tab_del tb n) n = None.
Proof. rewrite tab_get_del, Nat.eqb_refl. reflexivity. Qed.

Lemma tab_empty tb : (forall n, tab_get tb n = None) -> tb = [].
Proof.
  destruct tb as [|[a kv] r]; auto. intros H. specialize (H a). cbn in H.
  rewrite Nat.eqb_refl in H. discriminate.
Qed.

(** the (key, value) stored in the node of a tree element *)
Definition entry_of (tb : table) (e : elem) : nat * nat :=
  match tab_get tb (eid e) with Some kv => kv | None => (O, O) end.

Lemma map_entry_ext tb tb' l :
  (forall e, In e l -> tab_get tb' (eid e) = tab_get tb (eid e)) ->
  map (entry_of tb') l = map (entry_of tb) l.
Proof. intros H. apply map_ext_in. intros e He. unfold entry_of. rewrite H; auto. Qed.

(** * The allocator *)

Lemma In_remove_block b n sz l :
  In (b, sz) (remove_block n l) <-> In (b, sz) l /\ b <> n.
Proof.
  unfold remove_block. rewrite filter_In. cbn [fst]. rewrite negb_true_iff, Nat.eqb_neq. tauto.
Qed.

Lemma NoDup_map_filter {A B} (f : A -> B) p l : NoDup (map f l) -> NoDup (map f (filter p l)).
Proof.
  induction l as [|x l IH]; cbn; intros H; [constructor|].
  inversion H as [|? ? Hn Hd]; subst. destruct (p x); cbn; auto.
  constructor; auto. intros Hi. apply Hn. apply in_map_iff in Hi. destruct Hi as (y & Hy & Hf).
  apply filter_In in Hf. apply in_map_iff. exists y. tauto.
Qed.

Lemma is_live_spec a b : is_live a b = true <-> exists sz, In (b, sz) (live a).
Proof.
  unfold is_live. rewrite existsb_exists. split.
  - intros ([b' sz] & Hi & He). cbn in He. apply Nat.eqb_eq in He. subst. eauto.
  - intros (sz & Hi). exists (b, sz). split; auto. cbn. apply Nat.eqb_refl.
Qed.

(** * Trees: the node a find stops at is the node its identity locates *)

Lemma locate_found k t : forall c nc nl ne nr c',
  NoDup (ids t) -> find_ctx k t c = (T nc nl ne nr, c') ->
  locate (eid ne) t c = Some (T nc nl ne nr, c').
Proof.
  induction t as [|kk l IHl y r IHr]; intros c nc nl ne nr c' Hnd; cbn [find_ctx]; [discriminate|].
  rewrite ids_node in Hnd. apply NoDup_app_inv in Hnd.
  destruct Hnd as (Nl & Nr & Hlr). inversion Nr as [|? ? Hxr Nr']; subst.
  destruct (Z.eqb_spec k (ekey y)).
  - intros [= -> -> -> -> <-]. cbn [locate]. rewrite Nat.eqb_refl. reflexivity.
  - destruct (_ <? _); intros Hf; cbn [locate].
    + pose proof (find_ctx_found _ _ _ _ _ _ _ _ Hf) as (_ & Hin).
      assert (Hi : In (eid ne) (ids l)) by (apply in_map; auto).
      destruct (Nat.eqb_spec (eid y) (eid ne)) as [Heq|_].
      { exfalso. apply (Hlr _ Hi). rewrite Heq. cbn; auto. }
      rewrite (IHl _ _ _ _ _ _ Nl Hf). reflexivity.
    + pose proof (find_ctx_found _ _ _ _ _ _ _ _ Hf) as (_ & Hin).
      assert (Hi : In (eid ne) (ids r)) by (apply in_map; auto).
      destruct (Nat.eqb_spec (eid y) (eid ne)) as [Heq|_].
      { exfalso. apply Hxr. rewrite Heq. auto. }
      rewrite locate_none.
      * apply IHr; auto.
      * intros Hl. apply (Hlr _ Hl). cbn; auto.
Qed.

(** cstl_rbtree_insert below the parent reported by the unsuccessful find *)
Lemma hinted_insert_ok t x :
  ssorted (inorder t) -> NoDup (ids t) -> rb_inv t ->
  exists t', rb_insert_from (option_map eid (snd (bt_find t (ekey x)))) t x = Some (Some t') /\
             rb_insert t x = Some t' /\
             rb_inv t' /\ inorder t' = ins_sorted x (inorder t).
Proof.
  intros Hs Hnd Hrb. unfold rb_insert_from. rewrite insert_ctx_hint by auto.
  destruct (rb_insert_inv t x Hrb) as (t' & Ei & Hrb'). pose proof Ei as Ei'.
  unfold rb_insert in Ei. destruct (fix_ins _ _) as [t1|]; [|discriminate]. injection Ei as <-.
  eexists; split; [reflexivity|]. split; auto. split; auto.
  rewrite (rb_insert_inorder _ _ _ Ei'). apply bt_insert_inorder. apply ssorted_sorted; auto.
Qed.

(** below the would-be parent reported by an unsuccessful find, the descent
    of cstl_bintree_insert makes exactly one comparison (none in an empty
    tree): the hint saves the second walk from the root *)
Lemma hinted_insert_one_cmp t x :
  NoDup (ids t) -> fst (bt_find t (ekey x)) = None ->
  insert_cmps (option_map eid (snd (bt_find t (ekey x)))) t x = match t with E => O | _ => 1%nat end.
Proof.
  intros Hnd. unfold bt_find. destruct (find_ctx (ekey x) t []) as [sub c'] eqn:Ef. cbn [fst snd].
  destruct sub as [|? ? ? ?]; cbn [root_elem]; [intros _|discriminate].
  destruct c' as [|f new']; cbn [top_elem option_map insert_cmps].
  - apply find_ctx_stay in Ef. subst t. reflexivity.
  - pose proof (find_ctx_path _ _ _ _ _ Ef) as (new & Hc & Hp & _). rewrite app_nil_r in Hc. subst new.
    assert (Ef' : find_ctx (ekey x) t [] = (E, f :: new' ++ [])) by (rewrite app_nil_r; auto).
    rewrite (locate_find _ _ _ _ _ _ Hnd Ef'), app_nil_r.
    inversion Hp as [|? ? Hpf _]; subst. rewrite descend_up by auto. cbn [descend length].
    destruct t; [discriminate|]. lia.
Qed.

(** __cstl_rbtree_erase of the node a successful find stopped at *)
Lemma erase_found_ok k t nc nl ne nr c :
  rb_inv t -> find_ctx k t [] = (T nc nl ne nr, c) ->
  exists t', rb_erase_at nc nl ne nr c = Some t' /\ rb_inv t' /\ ekey ne = k /\
             exists l1 l2, inorder t = l1 ++ ne :: l2 /\ inorder t' = l1 ++ l2.
Proof.
  intros Hrb Ef. destruct (rb_erase_inv t k Hrb) as (r & t' & Ee & Hrb').
  pose proof (rb_erase_inorder _ _ _ _ Ee) as (_ & Hi).
  pose proof (bt_erase_spec t k) as Hs.
  unfold rb_erase in Ee. unfold bt_erase in Hi, Hs. rewrite Ef in *.
  destruct (rb_erase_at nc nl ne nr c) as [t1|]; [|discriminate]. injection Ee as <- <-.
  cbn [snd] in Hi. destruct Hs as (Hk & l1 & l2 & H1 & H2).
  exists t1. split; [reflexivity|]. split; auto. split; auto. exists l1, l2. split; auto. congruence.
Qed.

Lemma find_map {A} (f : elem -> A) (p : A -> bool) (q : elem -> bool) l :
  (forall e, In e l -> p (f e) = q e) -> find p (map f l) = option_map f (find q l).
Proof.
  induction l as [|y r IH]; intros H; auto. cbn [map find]. rewrite (H y) by (cbn; auto).
  destruct (q y); auto. apply IH. intros e He. apply H; cbn; auto.
Qed.

Lemma malloc_granted ok a sz :
  grant ok a sz = true ->
  malloc ok a sz = (mkAlloc ((next a, sz) :: live a) (S (next a)) (S (ord a))
                            (EvMalloc (next a) sz :: AllocModel.events a), Some (next a)).
Proof. intros H. unfold malloc. rewrite H. reflexivity. Qed.

Lemma malloc_denied ok a sz :
  grant ok a sz = false ->
  malloc ok a sz = (mkAlloc (live a) (next a) (S (ord a)) (EvMallocFail sz :: AllocModel.events a), None).
Proof. intros H. unfold malloc. rewrite H. reflexivity. Qed.

Lemma free_live a n :
  is_live a n = true ->
  free a (Some n) = mkAlloc (remove_block n (live a)) (next a) (ord a) (EvFree n :: AllocModel.events a).
Proof. intros H. unfold free. rewrite H. reflexivity. Qed.

(** * The map *)
Local Set Default Proof Using "Type".
Section MapSys.
  Variable ck : nat -> Z.
  Variable ok : nat -> N -> bool.
  Notation step := (MapModel.step ck ok).

  (** the nodes linked into the tree, in key order *)
  Definition nodes (s : mstate) : list nat := ids (mt s).

  (** what holds in every reachable state *)
  Record map_inv (s : mstate) : Prop := mkInv {
    (* strictly increasing canonical keys: one entry per key *)
    inv_sorted : ssorted (inorder (mt s));
    inv_rb : rb_inv (mt s);
    inv_nodup : NoDup (nodes s);
    (* every node of the tree is allocated, and the tree is ordered by the stored keys *)
    inv_tab : forall e, In e (inorder (mt s)) ->
              exists k v, tab_get (mtab s) (eid e) = Some (k, v) /\ ck k = ekey e;
    (* no other node memory exists *)
    inv_tabdom : forall n, tab_get (mtab s) n <> None -> In n (nodes s);
    inv_size : msz s = N.of_nat (length (inorder (mt s)));
    (* the live heap blocks are exactly the nodes, 48 bytes each *)
    inv_live_nodup : NoDup (map fst (live (mal s)));
    inv_live : forall b sz, In (b, sz) (live (mal s)) <-> (In b (nodes s) /\ sz = NODE_SIZE);
    inv_fresh : forall b, In b (nodes s) -> (b < next (mal s))%nat;
    inv_nobad : no_bad_free (mal s)
  }.

  (** abstraction: the association list (stored key, stored value) in key order *)
  Definition entries (s : mstate) : list (nat * nat) := map (entry_of (mtab s)) (inorder (mt s)).

  Definition akey (kv : nat * nat) : Z := ck (fst kv).
  Definition alookup (l : list (nat * nat)) (k : nat) : option (nat * nat) :=
    find (fun kv => akey kv =? ck k) l.
  (** strictly increasing canonical keys: at most one entry per key *)
  Definition unique_keys (l : list (nat * nat)) : Prop :=
    StronglySorted (fun a b => akey a < akey b) l.

  Lemma map_inv_init : map_inv m_init.
  Proof. clear ok.
    constructor; cbn; try (constructor; fail); try tauto.
    - apply rb_inv_E.
    - intros b H; exact H.
  Qed.

  Lemma entry_key s e : map_inv s -> In e (inorder (mt s)) -> akey (entry_of (mtab s) e) = ekey e.
  Proof.
    intros I He. destruct (inv_tab s I e He) as (k & v & Hg & Hk).
    unfold akey, entry_of. rewrite Hg. exact Hk.
  Qed.

  Lemma unique_keys_map (f : elem -> nat * nat) l :
    ssorted l -> (forall e, In e l -> akey (f e) = ekey e) -> unique_keys (map f l).
  Proof.
    induction l as [|y r IH]; intros H Hk; [constructor|].
    apply ssorted_cons in H. destruct H as (H1 & H2). cbn [map]. constructor.
    - apply IH; auto. intros e He. apply Hk; cbn; auto.
    - apply Forall_forall. intros kv Hkv. apply in_map_iff in Hkv. destruct Hkv as (e & <- & He).
      rewrite !Hk by (cbn; auto). apply H2; auto.
  Qed.

  Theorem entries_unique s : map_inv s -> unique_keys (entries s).
  Proof.
    intros I. apply unique_keys_map; [apply (inv_sorted s I)|]. intros e He. apply entry_key; auto.
  Qed.

  Lemma entries_length s : length (entries s) = length (inorder (mt s)).
  Proof. apply map_length. Qed.

  Lemma node_live s n : map_inv s -> In n (nodes s) -> is_live (mal s) n = true.
  Proof. intros I Hn. apply is_live_spec. exists NODE_SIZE. apply (inv_live s I). auto. Qed.

  (** the live blocks are exactly the nodes *)
  Theorem live_nodes s : map_inv s -> Permutation (map fst (live (mal s))) (nodes s).
  Proof. clear ok.
    intros I. apply NoDup_Permutation; [apply (inv_live_nodup s I)|apply (inv_nodup s I)|].
    intros b. split.
    - intros H. apply in_map_iff in H. destruct H as ([b' sz] & <- & H). apply (inv_live s I) in H. tauto.
    - intros H. apply in_map_iff. exists (b, NODE_SIZE). split; auto. apply (inv_live s I). auto.
  Qed.

  Lemma live_count s : map_inv s -> length (live (mal s)) = length (inorder (mt s)).
  Proof.
    intros I. rewrite <- (map_length fst), (Permutation_length (live_nodes s I)).
    unfold nodes, ids. apply map_length.
  Qed.

  (** ** find *)
  Lemma lookup_entries s k :
    map_inv s ->
    match fst (bt_find (mt s) (ck k)) with
    | Some e => In e (inorder (mt s)) /\ ekey e = ck k /\
                alookup (entries s) k = Some (entry_of (mtab s) e)
    | None => (forall e, In e (inorder (mt s)) -> ekey e <> ck k) /\ alookup (entries s) k = None
    end.
  Proof.
    intros I. pose proof (bt_find_spec (mt s) (ck k) (ssorted_sorted _ (inv_sorted s I))) as F.
    assert (Hm : alookup (entries s) k =
                 option_map (entry_of (mtab s)) (find (fun e => ekey e =? ck k) (inorder (mt s)))).
    { unfold alookup, entries. apply find_map. intros e He. rewrite entry_key; auto. }
    destruct (fst (bt_find (mt s) (ck k))) as [e|].
    - destruct F as (He & Hk). repeat split; auto. rewrite Hm, <- Hk, find_key_some; auto.
      apply (inv_sorted s I).
    - split; auto. rewrite Hm, find_key_none; auto.
  Qed.

  Lemma iterator_init_node s e :
    map_inv s -> In e (inorder (mt s)) ->
    iterator_init (mtab s) (Some (eid e)) =
    Some (mkI (Some (fst (entry_of (mtab s) e))) (Some (snd (entry_of (mtab s) e))) (Some (eid e))).
  Proof.
    intros I He. destruct (inv_tab s I e He) as (k & v & Hg & _).
    unfold iterator_init, entry_of. rewrite Hg. reflexivity.
  Qed.

  Lemma map_find_node_eq s k :
    map_find_node ck s k = (option_map eid (fst (bt_find (mt s) (ck k))),
                            option_map eid (snd (bt_find (mt s) (ck k)))).
  Proof. unfold map_find_node. destruct (bt_find (mt s) (ck k)); reflexivity. Qed.

  Lemma find_ok s k :
    map_inv s ->
    match alookup (entries s) k with
    | Some (k0, v0) => exists n, In n (nodes s) /\ tab_get (mtab s) n = Some (k0, v0) /\
                                 map_find ck s k = Some (mkI (Some k0) (Some v0) (Some n))
    | None => map_find ck s k = Some iter_end
    end.
  Proof.
    intros I. pose proof (lookup_entries s k I) as L. unfold map_find. rewrite map_find_node_eq. cbn [fst].
    destruct (fst (bt_find (mt s) (ck k))) as [e|].
    - destruct L as (He & Hk & ->). cbn [option_map]. rewrite iterator_init_node by auto.
      destruct (inv_tab s I e He) as (k0 & v0 & Hg & _). unfold entry_of. rewrite Hg. cbn [fst snd].
      exists (eid e). repeat split; auto. apply in_map; auto.
    - destruct L as (_ & ->). reflexivity.
  Qed.

  (** ** frames *)

  (** the invariant does not look at the request ordinal or at the event
      log except for bad frees *)
  Lemma inv_alloc_frame s a' :
    map_inv s -> live a' = live (mal s) -> next a' = next (mal s) ->
    (forall b, In (EvBadFree b) (AllocModel.events a') -> In (EvBadFree b) (AllocModel.events (mal s))) ->
    map_inv (mkM (mt s) (msz s) (mtab s) a').
  Proof.
    intros I Hl Hn He. destruct I. constructor; cbn [mt msz mtab mal] in *; unfold nodes in *; cbn [mt] in *; auto.
    - rewrite Hl; auto.
    - rewrite Hl; auto.
    - rewrite Hn; auto.
    - intros b Hb. apply (inv_nobad0 b). auto.
  Qed.

  (** ** insert *)

  Lemma insert_new_inv s k v t' :
    map_inv s -> (forall e, In e (inorder (mt s)) -> ekey e <> ck k) ->
    rb_inv t' -> inorder t' = ins_sorted (mkE (next (mal s)) (ck k)) (inorder (mt s)) ->
    let a := mal s in
    let b := next a in
    let s' := mkM t' (msz s + 1)%N ((b, (k, v)) :: mtab s)
                  (mkAlloc ((b, NODE_SIZE) :: live a) (S (next a)) (S (ord a))
                           (EvMalloc b NODE_SIZE :: AllocModel.events a)) in
    map_inv s' /\
    exists l1 l2, entries s = l1 ++ l2 /\ entries s' = l1 ++ (k, v) :: l2.
  Proof. clear ok.
    intros I Hne Hrb Hin a b s'. subst a b s'.
    set (b := next (mal s)) in *. set (x := mkE b (ck k)) in *. set (s' := mkM _ _ _ _).
    assert (Hb : ~ In b (nodes s)).
    { intros Hi. apply (inv_fresh s I) in Hi. unfold b in Hi. lia. }
    pose proof (ins_sorted_perm x (inorder (mt s))) as P. rewrite <- Hin in P.
    assert (Pn : Permutation (nodes s') (b :: nodes s)).
    { unfold nodes, ids. cbn [mt s']. apply (Permutation_map eid) in P. exact P. }
    assert (Hold : forall e, In e (inorder (mt s)) -> eid e <> b).
    { intros e He Heq. apply Hb. rewrite <- Heq. apply in_map; auto. }
    split.
    - constructor; cbn [mt msz mtab mal s' live next AllocModel.events].
      + rewrite Hin. apply ssorted_ins; [apply (inv_sorted s I)|]. exact Hne.
      + exact Hrb.
      + eapply Permutation_NoDup; [apply Permutation_sym, Pn|]. constructor; auto. apply (inv_nodup s I).
      + intros e He. apply (Permutation_in _ P) in He. cbn [tab_get]. destruct He as [<-|He].
        * cbn [eid x]. rewrite Nat.eqb_refl. exists k, v. auto.
        * specialize (Hold e He). apply Nat.eqb_neq in Hold. rewrite Nat.eqb_sym, Hold.
          apply (inv_tab s I); auto.
      + intros n Hn. apply (Permutation_in _ (Permutation_sym Pn)). cbn [tab_get] in Hn.
        destruct (Nat.eqb_spec b n) as [->|_]; [cbn; auto|]. right. apply (inv_tabdom s I); auto.
      + rewrite (Permutation_length P). cbn [length]. rewrite (inv_size s I). lia.
      + cbn [map fst]. constructor; [|apply (inv_live_nodup s I)].
        intros Hi. apply in_map_iff in Hi. destruct Hi as ([b' sz] & Hf & Hi). cbn in Hf. subst b'.
        apply (inv_live s I) in Hi. tauto.
      + intros b' sz. cbn [In]. rewrite (inv_live s I). split.
        * intros [[= <- <-]|(H1 & H2)]; split; auto; apply (Permutation_in _ (Permutation_sym Pn)); cbn; auto.
        * intros (H1 & ->). apply (Permutation_in _ Pn) in H1. destruct H1 as [<-|H1]; auto.
      + intros b' Hb'. apply (Permutation_in _ Pn) in Hb'. destruct Hb' as [<-|Hb']; [unfold b; lia|].
        apply (inv_fresh s I) in Hb'. lia.
      + intros b' [Hb'|Hb']; [discriminate|]. apply (inv_nobad s I b'); auto.
    - destruct (ins_sorted_split x (inorder (mt s))) as (l1 & l2 & H1 & H2 & _).
      exists (map (entry_of (mtab s)) l1), (map (entry_of (mtab s)) l2). unfold entries. cbn [mt mtab s'].
      rewrite Hin, H2, H1, !map_app. split; auto. cbn [map]. f_equal; [|f_equal].
      + apply map_entry_ext. intros e He. cbn [tab_get].
        assert (Hd : eid e <> b) by (apply Hold; rewrite H1; apply in_or_app; auto).
        apply Nat.eqb_neq in Hd. rewrite Nat.eqb_sym, Hd. reflexivity.
      + unfold entry_of. cbn [tab_get eid x]. rewrite Nat.eqb_refl. reflexivity.
      + apply map_entry_ext. intros e He. cbn [tab_get].
        assert (Hd : eid e <> b) by (apply Hold; rewrite H1; apply in_or_app; auto).
        apply Nat.eqb_neq in Hd. rewrite Nat.eqb_sym, Hd. reflexivity.
  Qed.

  (** cstl_map_insert: existing key -> the state is returned as it is;
      new key and the allocator grants the node -> the entry goes to its
      place in key order (the hinted red-black insert lands where the
      unhinted one would); allocation failure -> only the heap's request
      counter and event log change *)
  Lemma insert_ok s k v :
    map_inv s ->
    match alookup (entries s) k with
    | Some (k0, v0) =>
      exists n, In n (nodes s) /\ tab_get (mtab s) n = Some (k0, v0) /\
                map_insert ck ok s k v = Some (s, 1, Some n)
    | None =>
      let a := mal s in
      if grant ok a NODE_SIZE then
        exists t',
          let b := next a in
          let s' := mkM t' (msz s + 1)%N ((b, (k, v)) :: mtab s)
                        (mkAlloc ((b, NODE_SIZE) :: live a) (S (next a)) (S (ord a))
                                 (EvMalloc b NODE_SIZE :: AllocModel.events a)) in
          map_insert ck ok s k v = Some (s', 0, Some b) /\ map_inv s' /\
          rb_insert (mt s) (mkE b (ck k)) = Some t' /\
          exists l1 l2, entries s = l1 ++ l2 /\ entries s' = l1 ++ (k, v) :: l2
      else
        map_insert ck ok s k v =
        Some (mkM (mt s) (msz s) (mtab s)
                  (mkAlloc (live a) (next a) (S (ord a)) (EvMallocFail NODE_SIZE :: AllocModel.events a)),
              -1, None)
    end.
  Proof.
    intros I. pose proof (lookup_entries s k I) as L. unfold map_insert. rewrite map_find_node_eq.
    destruct (fst (bt_find (mt s) (ck k))) as [e|] eqn:Ef.
    - destruct L as (He & Hk & ->). destruct (inv_tab s I e He) as (k0 & v0 & Hg & _).
      unfold entry_of. rewrite Hg. cbn [option_map]. exists (eid e). repeat split; auto. apply in_map; auto.
    - destruct L as (Hne & ->). cbn [option_map]. cbv zeta.
      destruct (grant ok (mal s) NODE_SIZE) eqn:Eg.
      + rewrite (malloc_granted _ _ _ Eg).
        set (x := mkE (next (mal s)) (ck k)).
        destruct (hinted_insert_ok (mt s) x (inv_sorted s I) (inv_nodup s I) (inv_rb s I))
          as (t' & Hi & Hu & Hrb & Hin).
        cbn [ekey x] in Hi. fold x. rewrite Hi. exists t'.
        destruct (insert_new_inv s k v t' I Hne Hrb Hin) as (I' & Hent).
        split; [reflexivity|]. split; [exact I'|]. split; [exact Hu|]. exact Hent.
      + rewrite (malloc_denied _ _ _ Eg). reflexivity.
  Qed.

  (** ** erase *)

  Lemma bt_find_ctx t z e :
    fst (bt_find t z) = Some e -> exists nc nl nr c, find_ctx z t [] = (T nc nl e nr, c).
  Proof.
    unfold bt_find. destruct (find_ctx z t []) as [sub c]. cbn [fst].
    destruct sub as [|nc nl ne nr]; cbn [root_elem]; [discriminate|]. intros [= ->]. eauto.
  Qed.

  (** state after unlinking and freeing node [n] *)
  Definition erased (s : mstate) (t' : tree) (n : nat) : mstate :=
    mkM t' (msz s - 1)%N (tab_del (mtab s) n)
        (mkAlloc (remove_block n (live (mal s))) (next (mal s)) (ord (mal s))
                 (EvFree n :: AllocModel.events (mal s))).

  Lemma erased_inv s t' e l1 l2 :
    map_inv s -> rb_inv t' -> inorder (mt s) = l1 ++ e :: l2 -> inorder t' = l1 ++ l2 ->
    map_inv (erased s t' (eid e)) /\
    entries s = map (entry_of (mtab s)) l1 ++ entry_of (mtab s) e :: map (entry_of (mtab s)) l2 /\
    entries (erased s t' (eid e)) = map (entry_of (mtab s)) l1 ++ map (entry_of (mtab s)) l2.
  Proof. clear ok.
    intros I Hrb H1 H2.
    pose proof (inv_nodup s I) as Nd. unfold nodes, ids in Nd. rewrite H1, map_app in Nd. cbn [map] in Nd.
    pose proof (NoDup_remove_2 _ _ _ Nd) as Hn. pose proof (NoDup_remove_1 _ _ _ Nd) as Nd'.
    rewrite <- map_app in Nd', Hn.
    assert (Hold : forall y, In y (l1 ++ l2) -> eid y <> eid e).
    { intros y Hy Heq. apply Hn. rewrite <- Heq. apply in_map; auto. }
    assert (Hsub : forall y, In y (l1 ++ l2) -> In y (inorder (mt s))).
    { intros y Hy. rewrite H1. apply in_app_or in Hy. apply in_or_app. cbn. tauto. }
    assert (Hnodes : forall m, In m (map eid (l1 ++ l2)) <-> In m (nodes s) /\ m <> eid e).
    { intros m. unfold nodes, ids. rewrite H1, !map_app. cbn [map]. rewrite !in_app_iff. cbn [In]. split.
      - intros Hm. split; [tauto|]. intros ->. apply Hn. rewrite map_app, in_app_iff. exact Hm.
      - intros ([Hm|[Hm|Hm]] & Hd); auto. congruence. }
    split; [|split].
    - constructor; unfold nodes, ids, erased; cbn [mt msz mtab mal live next AllocModel.events]; rewrite ?H2.
      + apply (ssorted_remove l1 e l2). rewrite <- H1. apply (inv_sorted s I).
      + exact Hrb.
      + exact Nd'.
      + intros y Hy. rewrite tab_get_del_other by (apply not_eq_sym, Hold; auto).
        apply (inv_tab s I). auto.
      + intros m Hm. rewrite tab_get_del in Hm. apply Hnodes. destruct (Nat.eqb_spec (eid e) m) as [->|Hd].
        * congruence.
        * split; auto. apply (inv_tabdom s I); auto.
      + rewrite (inv_size s I), H1, !app_length. cbn [length]. lia.
      + apply NoDup_map_filter. apply (inv_live_nodup s I).
      + intros b sz. rewrite In_remove_block, (inv_live s I), Hnodes. tauto.
      + intros b Hb. apply Hnodes in Hb. apply (inv_fresh s I). tauto.
      + intros b [Hb|Hb]; [discriminate|]. apply (inv_nobad s I b); auto.
    - unfold entries. rewrite H1, map_app. reflexivity.
    - unfold entries, erased. cbn [mt mtab]. rewrite H2, <- map_app. apply map_entry_ext.
      intros y Hy. apply tab_get_del_other. apply not_eq_sym, Hold; auto.
  Qed.

  (** cstl_map_erase_iterator on the node a successful find stopped at *)
  Lemma erase_node_ok s z e ik iv :
    map_inv s -> fst (bt_find (mt s) z) = Some e ->
    exists t',
      map_erase_iterator s (mkI ik iv (Some (eid e))) = Some (erased s t' (eid e)) /\
      map_inv (erased s t' (eid e)) /\
      exists l1 l2, entries s = l1 ++ entry_of (mtab s) e :: l2 /\ entries (erased s t' (eid e)) = l1 ++ l2.
  Proof.
    intros I Hf. destruct (bt_find_ctx _ _ _ Hf) as (nc & nl & nr & c & Ec).
    destruct (erase_found_ok _ _ _ _ _ _ _ (inv_rb s I) Ec) as (t' & Ee & Hrb & _ & l1 & l2 & H1 & H2).
    exists t'. unfold map_erase_iterator. cbn [inode].
    rewrite (locate_found _ _ _ _ _ _ _ _ (inv_nodup s I) Ec), Ee.
    assert (He : In e (inorder (mt s))) by (rewrite H1; apply in_or_app; cbn; auto).
    rewrite free_live by (apply node_live; auto; apply in_map; auto).
    destruct (erased_inv s t' e l1 l2 I Hrb H1 H2) as (I' & E1 & E2).
    split; [reflexivity|]. split; [exact I'|]. eauto.
  Qed.

  (** cstl_map_erase *)
  Lemma erase_ok s k :
    map_inv s ->
    match alookup (entries s) k with
    | Some (k0, v0) =>
      exists n t',
        In n (nodes s) /\ tab_get (mtab s) n = Some (k0, v0) /\
        map_find ck s k = Some (mkI (Some k0) (Some v0) (Some n)) /\
        map_erase_iterator s (mkI (Some k0) (Some v0) (Some n)) = Some (erased s t' n) /\
        map_erase ck s k = Some (erased s t' n, 0, mkI (Some k0) (Some v0) None) /\
        map_inv (erased s t' n) /\
        exists l1 l2, entries s = l1 ++ (k0, v0) :: l2 /\ entries (erased s t' n) = l1 ++ l2
    | None => map_find ck s k = Some iter_end /\ map_erase ck s k = Some (s, -1, iter_end)
    end.
  Proof.
    intros I. pose proof (lookup_entries s k I) as L. unfold map_erase, map_find.
    rewrite map_find_node_eq. cbn [fst].
    destruct (fst (bt_find (mt s) (ck k))) as [e|] eqn:Ef.
    - destruct L as (He & Hk & ->). cbn [option_map]. rewrite iterator_init_node by auto.
      destruct (inv_tab s I e He) as (k0 & v0 & Hg & _). unfold entry_of at 1. rewrite Hg.
      assert (Hen : entry_of (mtab s) e = (k0, v0)) by (unfold entry_of; rewrite Hg; reflexivity).
      rewrite Hen. cbn [fst snd inode ikey ival].
      destruct (erase_node_ok s (ck k) e (Some k0) (Some v0) I Ef) as (t' & Ee & I' & l1 & l2 & E1 & E2).
      rewrite Ee. exists (eid e), t'. rewrite Hen in E1.
      split; [apply in_map; auto|]. split; [exact Hg|]. split; [reflexivity|]. split; [exact Ee|].
      split; [reflexivity|]. split; [exact I'|]. eauto.
    - destruct L as (_ & ->). cbn [option_map iterator_init inode iter_end ikey ival]. auto.
  Qed.

  (** ** clear *)

  (** what the user callbacks of a clear over [n] entries observe: key,
      value and the number of heap blocks still live, which drops by one
      per callback because every node is freed right after its callback *)
  Fixpoint cb_zs (log : list (nat * nat)) (n : nat) : list Z :=
    match log with
    | [] => []
    | (k, v) :: r => zid k :: zid v :: Z.of_nat n :: cb_zs r (pred n)
    end.

  Definition cev_node (ev : cev) : nat := match ev with CbEv n _ _ => n | FrEv n => n end.

  (** the event trace of __cstl_map_node_clear over the nodes [l] *)
  Fixpoint clear_trace (cb : bool) (tb : table) (l : list elem) : list cev :=
    match l with
    | [] => []
    | e :: r =>
      (if cb then [CbEv (eid e) (fst (entry_of tb e)) (snd (entry_of tb e))] else [])
        ++ FrEv (eid e) :: clear_trace cb tb r
    end.

  Lemma clear_trace_ext cb tb tb' l :
    (forall e, In e l -> tab_get tb' (eid e) = tab_get tb (eid e)) ->
    clear_trace cb tb' l = clear_trace cb tb l.
  Proof.
    induction l as [|y r IH]; intros H; auto. cbn [clear_trace].
    rewrite IH by (intros e He; apply H; cbn; auto).
    unfold entry_of. rewrite (H y) by (cbn; auto). reflexivity.
  Qed.

  Lemma clear_trace_nodes cb tb l ev : In ev (clear_trace cb tb l) -> In (cev_node ev) (map eid l).
  Proof.
    induction l as [|y r IH]; cbn [clear_trace map]; [tauto|]. intros H. apply in_app_or in H.
    destruct H as [H|[<-|H]].
    - destruct cb; [|destruct H]. destruct H as [<-|[]]. cbn; auto.
    - cbn; auto.
    - right. auto.
  Qed.

  Lemma nil_of_no_elements {A} (l : list A) : (forall x, ~ In x l) -> l = [].
  Proof. destruct l as [|x r]; auto. intros H. exfalso. apply (H x). cbn; auto. Qed.

  Lemma live_length (lv : list (nat * N)) (ns : list nat) :
    NoDup (map fst lv) -> NoDup ns ->
    (forall b sz, In (b, sz) lv <-> In b ns /\ sz = NODE_SIZE) -> length lv = length ns.
  Proof. clear ok ck.
    intros N1 N2 H. rewrite <- (map_length fst). apply Permutation_length.
    apply NoDup_Permutation; auto. intros b. split.
    - intros Hi. apply in_map_iff in Hi. destruct Hi as ([b' sz] & <- & Hi). apply H in Hi. tauto.
    - intros Hi. apply in_map_iff. exists (b, NODE_SIZE). split; auto. apply H. auto.
  Qed.

  Lemma clear_nodes_ok cb l : forall tb a,
    NoDup (map eid l) ->
    (forall e, In e l -> tab_get tb (eid e) <> None) ->
    NoDup (map fst (live a)) ->
    (forall b sz, In (b, sz) (live a) <-> In b (map eid l) /\ sz = NODE_SIZE) ->
    exists tb',
      clear_nodes cb l tb a =
      Some (tb',
            mkAlloc [] (next a) (ord a) (rev (map (fun e => EvFree (eid e)) l) ++ AllocModel.events a),
            (if cb then cb_zs (map (entry_of tb) l) (length l) else []),
            clear_trace cb tb l) /\
      (forall n, tab_get tb' n = if existsb (Nat.eqb n) (map eid l) then None else tab_get tb n).
  Proof. clear ok ck.
    induction l as [|e r IH]; intros tb a Nd Ht Nl Hl.
    - exists tb. cbn. split; [|auto]. destruct cb; repeat f_equal; destruct a as [lv nx od ev]; cbn in *;
        f_equal; apply nil_of_no_elements; intros [b sz] Hi; apply Hl in Hi; tauto.
    - cbn [map] in Nd. inversion Nd as [|? ? Hn Nd']; subst. cbn [clear_nodes].
      set (n := eid e) in *.
      destruct (tab_get tb n) as [[k v]|] eqn:Eg; [|exfalso; apply (Ht e); cbn; auto].
      assert (Hlive : is_live a n = true).
      { apply is_live_spec. exists NODE_SIZE. apply Hl. cbn; auto. }
      rewrite (free_live _ _ Hlive).
      set (a1 := mkAlloc _ _ _ _).
      assert (Hr : forall y, In y r -> eid y <> n).
      { intros y Hy Heq. apply Hn. rewrite <- Heq. apply in_map; auto. }
      destruct (IH (tab_del tb n) a1) as (tb' & Ec & Hg); auto.
      + intros y Hy. rewrite tab_get_del_other by (apply not_eq_sym, Hr; auto). apply Ht; cbn; auto.
      + unfold a1. cbn [live]. apply NoDup_map_filter. auto.
      + intros b sz. unfold a1. cbn [live]. rewrite In_remove_block, Hl. cbn [map In]. fold n. split.
        * intros (([Hb|Hb] & Hs) & Hd); [congruence|tauto].
        * intros (Hb & ->). repeat split; auto. intros ->. auto.
      + exists tb'. rewrite Ec. unfold a1. cbn [next ord AllocModel.events]. split.
        * assert (Hlen : length (live a) = S (length r)).
          { rewrite (live_length (live a) (map eid (e :: r))); auto. cbn. rewrite map_length. reflexivity. }
          assert (Hext : forall y, In y r -> tab_get (tab_del tb n) (eid y) = tab_get tb (eid y)).
          { intros y Hy. apply tab_get_del_other. apply not_eq_sym, Hr; auto. }
          rewrite (clear_trace_ext cb tb (tab_del tb n) r Hext), (map_entry_ext _ _ _ Hext).
          cbn [map rev clear_trace length]. rewrite <- app_assoc. cbn [app].
          unfold entry_of at 3 4 5. fold n. rewrite Eg. cbn [fst snd].
          destruct cb; cbn [cb_zs app pred]; rewrite ?Hlen; unfold entry_of; fold n; rewrite ?Eg; reflexivity.
        * intros m. rewrite Hg, tab_get_del. cbn [map existsb]. fold n.
          rewrite (Nat.eqb_sym n m). destruct (Nat.eqb m n); cbn [orb]; auto.
          destruct (existsb _ _); auto.
  Qed.

  (** state after cstl_map_clear: the freshly initialised map, on a heap
      without live blocks whose log records one free per node, in the order
      of the callbacks *)
  Definition cleared (s : mstate) : mstate :=
    mkM E 0 []
        (mkAlloc [] (next (mal s)) (ord (mal s))
                 (rev (map (fun e => EvFree (eid e)) (bt_clear (mt s))) ++ AllocModel.events (mal s))).

  Lemma bt_clear_nodup s : map_inv s -> NoDup (map eid (bt_clear (mt s))).
  Proof. intros I. apply clear_log_nodup. apply (inv_nodup s I). Qed.

  Lemma clear_ok s cb :
    map_inv s ->
    map_clear cb s =
    Some (cleared s,
          (if cb then cb_zs (map (entry_of (mtab s)) (bt_clear (mt s))) (length (entries s)) else []),
          clear_trace cb (mtab s) (bt_clear (mt s))).
  Proof. clear ok.
    intros I. unfold map_clear. destruct (mt s) as [|c l x r] eqn:Et.
    - (* empty tree: nothing is executed; the state already is the cleared one *)
      assert (Hs : s = cleared s).
      { unfold cleared. rewrite Et. cbn. destruct s as [t n tb a]. cbn [mt msz mtab mal] in *. subst t.
        f_equal.
        - apply (inv_size _ I).
        - apply tab_empty. intros m. destruct (tab_get tb m) eqn:Eg; auto.
          exfalso. apply (inv_tabdom _ I m). cbn [mtab]. congruence.
        - destruct a as [lv nx od ev]. cbn. f_equal. apply nil_of_no_elements. intros [b sz] Hi.
          apply (inv_live _ I) in Hi. cbn in Hi. tauto. }
      rewrite <- Hs. unfold entries. rewrite Et. cbn. destruct cb; reflexivity.
    - rewrite <- Et.
      pose proof (clear_log_perm (mt s)) as P.
      destruct (clear_nodes_ok cb (bt_clear (mt s)) (mtab s) (mal s)) as (tb' & Ec & Hg).
      + apply bt_clear_nodup; auto.
      + intros e He. apply (Permutation_in _ P) in He. destruct (inv_tab s I e He) as (k & v & -> & _).
        discriminate.
      + apply (inv_live_nodup s I).
      + intros b sz. rewrite (inv_live s I). unfold nodes, ids.
        split; intros (H1 & H2); split; auto;
          [apply (Permutation_in _ (Permutation_map eid (Permutation_sym P)))
          |apply (Permutation_in _ (Permutation_map eid P))]; auto.
      + rewrite Ec. rewrite Et at 1. rewrite <- Et.
        assert (Htb : tb' = []).
        { apply tab_empty. intros m. rewrite Hg. destruct (existsb _ _) eqn:Ex; auto.
          destruct (tab_get (mtab s) m) eqn:Eg; auto. exfalso.
          assert (Hm : In m (nodes s)) by (apply (inv_tabdom s I); congruence).
          apply (Permutation_in _ (Permutation_map eid (Permutation_sym P))) in Hm.
          assert (Hex : existsb (Nat.eqb m) (map eid (bt_clear (mt s))) = true).
          { apply existsb_exists. exists m. split; auto. apply Nat.eqb_refl. }
          congruence. }
        rewrite Htb, entries_length, (Permutation_length P). reflexivity.
  Qed.

  Lemma cleared_inv s : map_inv s -> map_inv (cleared s).
  Proof. clear ok.
    intros I. constructor; unfold cleared, nodes, ids; cbn; try (constructor; fail); try tauto.
    - apply rb_inv_E.
    - intros b Hb. apply in_app_or in Hb. destruct Hb as [Hb|Hb].
      + apply in_rev, in_map_iff in Hb. destruct Hb as (e & He & _). discriminate.
      + apply (inv_nobad s I b); auto.
  Qed.

  (** event order: every node receives its user callback, is freed
      immediately afterwards, and is not touched by anything else *)
  Theorem clear_trace_order tb l e :
    NoDup (map eid l) -> In e l ->
    exists pre post,
      clear_trace true tb l =
      pre ++ CbEv (eid e) (fst (entry_of tb e)) (snd (entry_of tb e)) :: FrEv (eid e) :: post /\
      (forall ev, In ev (pre ++ post) -> cev_node ev <> eid e).
  Proof.
    induction l as [|y r IH]; intros Nd He; [destruct He|].
    cbn [map] in Nd. inversion Nd as [|? ? Hn Nd']; subst. cbn [clear_trace app].
    destruct He as [->|He].
    - exists [], (clear_trace true tb r). split; [reflexivity|]. cbn [app].
      intros ev Hev Heq. apply Hn. rewrite <- Heq. eapply clear_trace_nodes; eauto.
    - destruct (IH Nd' He) as (pre & post & Eq & Hno).
      exists (CbEv (eid y) (fst (entry_of tb y)) (snd (entry_of tb y)) :: FrEv (eid y) :: pre), post.
      split; [rewrite Eq; reflexivity|].
      assert (Hd : eid y <> eid e) by (intros Heq; apply Hn; rewrite Heq; apply in_map; auto).
      intros ev [<-|[<-|Hev]]; cbn [cev_node]; auto.
  Qed.

  (** * Refinement to an association list with unique keys *)

  (** [g]: the allocator grants the next request *)
  Definition mspec (g : bool) (l : list (nat * nat)) (o : mop) (l' : list (nat * nat)) (out : list Z)
    : Prop :=
    match o with
    | MInsert k v it =>
      match alookup l k with
      | Some (k0, v0) => l' = l /\ out = 1 :: (if it then [zid k0; zid v0; 1] else [])
      | None =>
        if g then (exists l1 l2, l = l1 ++ l2 /\ l' = l1 ++ (k, v) :: l2) /\
                  out = 0 :: (if it then [zid k; zid v; 1] else [])
        else l' = l /\ out = -1 :: (if it then [znull; znull; 0] else [])
      end
    | MFind k =>
      l' = l /\
      out = match alookup l k with Some (k0, v0) => [zid k0; zid v0; 1] | None => [znull; znull; 0] end
    | MErase k it =>
      match alookup l k with
      | Some (k0, v0) => (exists l1 l2, l = l1 ++ (k0, v0) :: l2 /\ l' = l1 ++ l2) /\
                         out = 0 :: (if it then [zid k0; zid v0; 0] else [])
      | None => l' = l /\ out = -1 :: (if it then [znull; znull; 0] else [])
      end
    | MEraseIter k =>
      match alookup l k with
      | Some (k0, v0) => (exists l1 l2, l = l1 ++ (k0, v0) :: l2 /\ l' = l1 ++ l2) /\ out = []
      | None => False
      end
    | MSize => l' = l /\ out = [Z.of_nat (length l)]
    | MClear cb =>
      l' = [] /\ if cb then exists log, Permutation log l /\ out = cb_zs log (length l) else out = []
    | MLive => l' = l /\ out = [Z.of_nat (length l)]
    end.

  Lemma fail_state_inv s :
    map_inv s ->
    map_inv (mkM (mt s) (msz s) (mtab s)
                 (mkAlloc (live (mal s)) (next (mal s)) (S (ord (mal s)))
                          (EvMallocFail NODE_SIZE :: AllocModel.events (mal s)))).
  Proof.
    intros I. apply inv_alloc_frame; auto. cbn. intros b [Hb|Hb]; [discriminate|auto].
  Qed.

  Local Ltac fin I := (split; [exact I|split; [apply entries_unique; exact I|auto]]).

  Theorem step_correct s o :
    map_inv s ->
    match step s o with
    | Done s' out =>
      map_inv s' /\ unique_keys (entries s') /\
      mspec (grant ok (mal s) NODE_SIZE) (entries s) o (entries s') out
    | Precond => exists k, o = MEraseIter k /\ alookup (entries s) k = None
    | Abort => False
    | Fault => False
    end.
  Proof.
    intros I.
    destruct o as [k v it|k|k it|k| |cb|]; cbn [MapModel.step mspec].
    - (* insert *)
      pose proof (insert_ok s k v I) as H.
      destruct (alookup (entries s) k) as [[k0 v0]|].
      + destruct H as (n & Hn & Hg & ->). destruct it.
        * unfold iterator_init. rewrite Hg. fin I.
        * fin I.
      + cbv zeta in H. destruct (grant ok (mal s) NODE_SIZE).
        * destruct H as (t' & -> & I' & _ & Hent). destruct it.
          -- cbn [iterator_init mtab tab_get]. rewrite Nat.eqb_refl. fin I'.
          -- fin I'.
        * rewrite H. pose proof (fail_state_inv s I) as I'. destruct it.
          -- cbn [iterator_init]. fin I'.
          -- fin I'.
    - (* find *)
      pose proof (find_ok s k I) as H.
      destruct (alookup (entries s) k) as [[k0 v0]|].
      + destruct H as (n & _ & _ & ->). fin I.
      + rewrite H. fin I.
    - (* erase *)
      pose proof (erase_ok s k I) as H.
      destruct (alookup (entries s) k) as [[k0 v0]|].
      + destruct H as (n & t' & _ & _ & _ & _ & -> & I' & Hent). fin I'.
      + destruct H as (_ & ->). fin I.
    - (* erase by iterator *)
      pose proof (erase_ok s k I) as H.
      destruct (alookup (entries s) k) as [[k0 v0]|] eqn:El.
      + destruct H as (n & t' & _ & _ & -> & Ee & _ & I' & Hent). cbn [inode]. rewrite Ee. fin I'.
      + destruct H as (-> & _). cbn [inode iter_end]. eauto.
    - (* size *)
      fin I. split; auto. rewrite (inv_size s I), entries_length, nat_N_Z. reflexivity.
    - (* clear *)
      rewrite (clear_ok s cb I). pose proof (cleared_inv s I) as I'. fin I'. split; [reflexivity|].
      destruct cb; auto. exists (map (entry_of (mtab s)) (bt_clear (mt s))). split; auto.
      unfold entries. apply Permutation_map. apply clear_log_perm.
    - (* live *)
      fin I. split; auto. rewrite live_count, entries_length; auto.
  Qed.

  Theorem reach_inv s : reach step m_init s -> map_inv s.
  Proof.
    intros R. induction R as [|s o s' out R IH Hs]; [apply map_inv_init|].
    pose proof (step_correct s o IH) as H. rewrite Hs in H. tauto.
  Qed.

  Theorem never_fault s o : map_inv s -> step s o <> Fault /\ step s o <> Abort.
  Proof.
    intros I. pose proof (step_correct s o I) as H. destruct (step s o); try tauto; split; discriminate.
  Qed.

  Theorem run_safe ops : forall s, map_inv s ->
    match fst (run step s ops) with
    | Done s' _ => map_inv s'
    | Precond => True
    | _ => False
    end.
  Proof.
    induction ops as [|o ops IH]; intros s W; cbn; auto.
    pose proof (step_correct s o W) as H.
    destruct (step s o) as [s' out| | |]; try tauto; [|exact Logic.I].
    destruct H as (W' & _). specialize (IH s' W').
    destruct (run step s' ops); cbn in *; auto.
  Qed.

  (** association-list runs: every step obeys [mspec] for some answer of
      the allocator *)
  Inductive arun : list (nat * nat) -> list mop -> list (list Z) -> list (nat * nat) -> Prop :=
  | arun_nil l : arun l [] [] l
  | arun_cons g l o l1 out ops outs l2 :
      mspec g l o l1 out -> unique_keys l1 -> arun l1 ops outs l2 ->
      arun l (o :: ops) (out :: outs) l2.

  Theorem run_refines ops : forall s, map_inv s ->
    match run step s ops with
    | (Done s' _, outs) => arun (entries s) ops outs (entries s') /\ map_inv s'
    | _ => True
    end.
  Proof.
    induction ops as [|o ops IH]; intros s W; cbn.
    - split; auto. constructor.
    - pose proof (step_correct s o W) as H.
      destruct (step s o) as [s1 out| | |]; auto.
      destruct H as (W1 & U1 & Sp). specialize (IH s1 W1).
      destruct (run step s1 ops) as [[s2 o2| | |] outs]; auto.
      destruct IH as (Ar & W2). split; auto. econstructor; eauto.
  Qed.

  (** * The operations one by one, with their effect on the whole state *)

  (** with unique keys the lookup returns the one entry whose key compares equal *)
  Lemma alookup_unique l k k0 v0 :
    unique_keys l -> In (k0, v0) l -> ck k0 = ck k -> alookup l k = Some (k0, v0).
  Proof.
    unfold alookup, unique_keys. induction l as [|y r IH]; intros U Hi Hk; [destruct Hi|].
    inversion U as [|? ? U' Hy]; subst. rewrite Forall_forall in Hy. cbn [find].
    destruct Hi as [->|Hi].
    - unfold akey at 1. cbn [fst]. rewrite Hk, Z.eqb_refl. reflexivity.
    - destruct (Z.eqb_spec (akey y) (ck k)) as [Heq|_]; auto.
      specialize (Hy _ Hi). unfold akey at 2 in Hy. cbn [fst] in Hy. lia.
  Qed.

  Lemma alookup_some l k kv : alookup l k = Some kv -> In kv l /\ ck (fst kv) = ck k.
  Proof.
    unfold alookup. intros H. apply find_some in H. destruct H as (H1 & H2).
    apply Z.eqb_eq in H2. auto.
  Qed.

  Lemma alookup_none l k kv : alookup l k = None -> In kv l -> ck (fst kv) <> ck k.
  Proof.
    unfold alookup. intros H Hi. apply (find_none _ _ H) in Hi. apply Z.eqb_neq in Hi. exact Hi.
  Qed.

  Theorem step_insert_existing s k v it k0 v0 :
    map_inv s -> alookup (entries s) k = Some (k0, v0) ->
    step s (MInsert k v it) = Done s (1 :: (if it then [zid k0; zid v0; 1] else [])).
  Proof.
    intros I El. pose proof (insert_ok s k v I) as H. rewrite El in H.
    destruct H as (n & _ & Hg & Em). cbn [MapModel.step]. rewrite Em. destruct it; auto.
    unfold iterator_init. rewrite Hg. reflexivity.
  Qed.

  Theorem step_insert_new s k v it :
    map_inv s -> alookup (entries s) k = None -> grant ok (mal s) NODE_SIZE = true ->
    exists t',
      let a := mal s in
      let b := next a in
      let s' := mkM t' (msz s + 1)%N ((b, (k, v)) :: mtab s)
                    (mkAlloc ((b, NODE_SIZE) :: live a) (S (next a)) (S (ord a))
                             (EvMalloc b NODE_SIZE :: AllocModel.events a)) in
      step s (MInsert k v it) = Done s' (0 :: (if it then [zid k; zid v; 1] else [])) /\
      map_inv s' /\
      rb_insert (mt s) (mkE b (ck k)) = Some t' /\
      exists l1 l2, entries s = l1 ++ l2 /\ entries s' = l1 ++ (k, v) :: l2.
  Proof.
    intros I El Eg. pose proof (insert_ok s k v I) as H. rewrite El in H. cbv zeta in H. rewrite Eg in H.
    destruct H as (t' & Em & I' & Hu & Hent). exists t'. cbv zeta. split; [|auto].
    cbn [MapModel.step]. rewrite Em. destruct it; auto.
    cbn [iterator_init mtab tab_get]. rewrite Nat.eqb_refl. reflexivity.
  Qed.

  Theorem step_insert_fail s k v it :
    map_inv s -> alookup (entries s) k = None -> grant ok (mal s) NODE_SIZE = false ->
    step s (MInsert k v it) =
    Done (mkM (mt s) (msz s) (mtab s)
              (mkAlloc (live (mal s)) (next (mal s)) (S (ord (mal s)))
                       (EvMallocFail NODE_SIZE :: AllocModel.events (mal s))))
         (-1 :: (if it then [znull; znull; 0] else [])).
  Proof.
    intros I El Eg. pose proof (insert_ok s k v I) as H. rewrite El in H. cbv zeta in H. rewrite Eg in H.
    cbn [MapModel.step]. rewrite H. destruct it; reflexivity.
  Qed.

  Theorem step_erase_present s k k0 v0 :
    map_inv s -> alookup (entries s) k = Some (k0, v0) ->
    exists n t',
      In n (nodes s) /\ tab_get (mtab s) n = Some (k0, v0) /\
      (forall it, step s (MErase k it) = Done (erased s t' n) (0 :: (if it then [zid k0; zid v0; 0] else []))) /\
      step s (MEraseIter k) = Done (erased s t' n) [] /\
      map_inv (erased s t' n) /\
      exists l1 l2, entries s = l1 ++ (k0, v0) :: l2 /\ entries (erased s t' n) = l1 ++ l2.
  Proof.
    intros I El. pose proof (erase_ok s k I) as H. rewrite El in H.
    destruct H as (n & t' & Hn & Hg & Ef & Ei & Ee & I' & Hent). exists n, t'.
    split; auto. split; auto. split; [|split; [|split; auto]].
    - intros it. cbn [MapModel.step]. rewrite Ee. destruct it; reflexivity.
    - cbn [MapModel.step]. rewrite Ef. cbn [inode]. rewrite Ei. reflexivity.
  Qed.

  Theorem step_erase_absent s k it :
    map_inv s -> alookup (entries s) k = None ->
    step s (MErase k it) = Done s (-1 :: (if it then [znull; znull; 0] else [])) /\
    step s (MEraseIter k) = Precond.
  Proof.
    intros I El. pose proof (erase_ok s k I) as H. rewrite El in H. destruct H as (Ef & Ee).
    cbn [MapModel.step]. rewrite Ee, Ef. split; [destruct it|]; reflexivity.
  Qed.

  Theorem step_find s k :
    map_inv s ->
    step s (MFind k) =
    Done s (match alookup (entries s) k with
            | Some (k0, v0) => [zid k0; zid v0; 1]
            | None => [znull; znull; 0]
            end).
  Proof.
    intros I. pose proof (find_ok s k I) as H. cbn [MapModel.step].
    destruct (alookup (entries s) k) as [[k0 v0]|].
    - destruct H as (n & _ & _ & ->). reflexivity.
    - rewrite H. reflexivity.
  Qed.

  (** clear: the callbacks receive a permutation of the entries, each with
      the number of nodes not yet freed; afterwards the map is the initial
      one on a heap without live blocks, whose log gained exactly one free
      per node *)
  Theorem step_clear s cb :
    map_inv s ->
    exists log order,
      Permutation log (entries s) /\ Permutation order (nodes s) /\ NoDup order /\
      step s (MClear cb) = Done (cleared s) (if cb then cb_zs log (length (entries s)) else []) /\
      AllocModel.events (mal (cleared s)) = rev (map EvFree order) ++ AllocModel.events (mal s) /\
      map_inv (cleared s).
  Proof.
    intros I. exists (map (entry_of (mtab s)) (bt_clear (mt s))), (map eid (bt_clear (mt s))).
    split; [apply Permutation_map, clear_log_perm|].
    split; [apply (Permutation_map eid), clear_log_perm|].
    split; [apply bt_clear_nodup; auto|].
    split; [cbn [MapModel.step]; rewrite (clear_ok s cb I); reflexivity|].
    split; [|apply cleared_inv; auto].
    unfold cleared. cbn [mal AllocModel.events]. rewrite map_map. reflexivity.
  Qed.

  (** the event trace of a clear with a callback *)
  Theorem clear_events_order s :
    map_inv s ->
    exists tr, map_clear true s = Some (cleared s, cb_zs (map (entry_of (mtab s)) (bt_clear (mt s))) (length (entries s)), tr) /\
    forall n, In n (nodes s) ->
      exists k v pre post,
        tab_get (mtab s) n = Some (k, v) /\
        tr = pre ++ CbEv n k v :: FrEv n :: post /\
        (forall ev, In ev (pre ++ post) -> cev_node ev <> n).
  Proof.
    intros I. eexists. split; [apply (clear_ok s true I)|].
    intros n Hn. apply in_map_iff in Hn. destruct Hn as (e & <- & He).
    destruct (inv_tab s I e He) as (k & v & Hg & _).
    assert (He' : In e (bt_clear (mt s))).
    { apply (Permutation_in _ (Permutation_sym (clear_log_perm (mt s)))). exact He. }
    destruct (clear_trace_order (mtab s) _ e (bt_clear_nodup s I) He') as (pre & post & Eq & Hno).
    exists k, v, pre, post. split; auto. split; auto.
    rewrite Eq. unfold entry_of. rewrite Hg. reflexivity.
  Qed.

  (** comparator calls of an insert: those of the find, plus a single one for
      the descent from the hinted parent when a node is linked in *)
  Theorem op_cmps_insert s k v it :
    map_inv s ->
    op_cmps ck ok s (MInsert k v it) =
    (find_cmps (mt s) (ck k) +
     match alookup (entries s) k with
     | Some _ => 0
     | None => if grant ok (mal s) NODE_SIZE then (match mt s with E => 0 | _ => 1 end) else 0
     end)%nat.
  Proof using Type.
    intros I. pose proof (lookup_entries s k I) as L. unfold op_cmps. rewrite map_find_node_eq.
    destruct (fst (bt_find (mt s) (ck k))) as [e|] eqn:Ef; cbn [option_map].
    - destruct L as (_ & _ & ->). reflexivity.
    - destruct L as (_ & ->). destruct (grant ok (mal s) NODE_SIZE); auto. f_equal.
      apply (hinted_insert_one_cmp (mt s) (mkE (next (mal s)) (ck k))); auto. apply (inv_nodup s I).
  Qed.

  (** the invariant in plain terms *)
  Theorem map_inv_meaning s :
    map_inv s ->
    unique_keys (entries s) /\
    rb_inv (mt s) /\
    (forall n, tab_get (mtab s) n <> None <-> In n (nodes s)) /\
    msz s = N.of_nat (length (entries s)) /\
    Permutation (map fst (live (mal s))) (nodes s) /\ NoDup (nodes s) /\
    (forall b sz, In (b, sz) (live (mal s)) -> sz = NODE_SIZE) /\
    no_bad_free (mal s).
  Proof. clear ok.
    intros I. split; [apply entries_unique; auto|]. split; [apply (inv_rb s I)|].
    split; [|split; [|split; [|split; [|split]]]].
    - intros n. split; [apply (inv_tabdom s I)|]. intros Hn. apply in_map_iff in Hn.
      destruct Hn as (e & <- & He). destruct (inv_tab s I e He) as (k & v & -> & _). discriminate.
    - rewrite entries_length. apply (inv_size s I).
    - apply live_nodes; auto.
    - apply (inv_nodup s I).
    - intros b sz Hi. apply (inv_live s I) in Hi. tauto.
    - apply (inv_nobad s I).
  Qed.
End MapSys.
