(** C01 — statements only; proofs are in TreeProofs.v. *)
From Cstl Require Import Prelude TreeModel TreeProofs.

Theorem C01_inorder_plug c t : inorder (plug c t) = cbefore c ++ inorder t ++ cafter c.
Proof. exact (inorder_plug c t). Qed.

Print Assumptions C01_inorder_plug.
