(** C01 — ordered trees hold exactly the inserted-minus-erased multiset, in
    order.  Statements only; proofs are in TreeProofs.v, RBProofs.v and
    TreeSysProofs.v.  The functions are the transcriptions of bintree.c and
    rbtree.c in TreeModel.v; [step key kd] runs one scripted operation on a
    binary ([kd = Bin]) or red-black ([kd = RB]) tree whose element [e] has
    the key [key e].  [bst t] = the in-order sequence is non-decreasing. *)
From Cstl Require Import Prelude TreeModel TreeProofs RBProofs TreeSysProofs.
Local Open Scope Z_scope.

(** * The functions one by one, for every tree *)

(** insert puts the element after the last one that is not greater; nothing
    else moves *)
Theorem C01_insert_inorder t x :
  bst t -> inorder (bt_insert t x) = ins_sorted x (inorder t) /\ bst (bt_insert t x).
Proof. intros H. split; [apply bt_insert_inorder|apply bt_insert_bst]; auto. Qed.

(** ... and the result is the same when the descent starts at the parent
    reported by find for that element (found or not) *)
Theorem C01_insert_hint_eq t x :
  NoDup (ids t) ->
  bt_insert_from (option_map eid (snd (bt_find t (ekey x)))) t x = Some (bt_insert t x).
Proof. exact (bt_insert_hint_eq t x). Qed.

(** find returns a held element comparing equal iff one is held *)
Theorem C01_find_spec t k :
  bst t ->
  match fst (bt_find t k) with
  | Some e => In e (inorder t) /\ ekey e = k
  | None => forall e, In e (inorder t) -> ekey e <> k
  end.
Proof. exact (bt_find_spec t k). Qed.

(** erase unlinks and returns exactly one held element comparing equal and
    keeps every other element in place; NULL iff nothing compares equal *)
Theorem C01_erase_spec t k :
  match bt_erase t k with
  | (Some e, t') => ekey e = k /\ exists l1 l2, inorder t = l1 ++ e :: l2 /\ inorder t' = l1 ++ l2
  | (None, t') => t' = t /\ (bst t -> forall e, In e (inorder t) -> ekey e <> k)
  end.
Proof. exact (bt_erase_spec t k). Qed.

(** the recursive traversal performs the documented PRE/MID/POST/LEAF
    sequence up to and including the first non-zero answer, for every
    (stateful) visit function *)
Theorem C01_foreach_events {S} (visit : S -> vorder -> elem -> S * Z) d t s :
  foreach visit d t s = run_visits visit (events d t) s.
Proof. exact (foreach_events visit d t s). Qed.

(** it stops at, and returns, the first non-zero visit result; the visitor's
    state is the one right after that visit *)
Theorem C01_foreach_stops {S} (visit : S -> vorder -> elem -> S * Z) a o e b s s1 s2 r :
  run_visits visit a s = (s1, 0) -> visit s1 o e = (s2, r) -> r <> 0 ->
  run_visits visit (a ++ (o, e) :: b) s = (s2, r).
Proof. exact (run_visits_stop visit a o e b s s1 s2 r). Qed.

(** MID/LEAF visits: the in-order sequence forwards, its mirror backwards *)
Theorem C01_mid_leaf_inorder d t :
  mid_leaf (events d t) = match d with Lf => inorder t | Rt => rev (inorder t) end.
Proof. exact (events_mid_leaf d t). Qed.

(** every held element is visited either once as LEAF or once each as PRE,
    MID, POST in this order *)
Theorem C01_bracketing d t e :
  NoDup (ids t) -> In (eid e) (ids t) ->
  occ e (events d t) = [LEAF] \/ occ e (events d t) = [PRE; MID; POST].
Proof. exact (events_bracketing d t e). Qed.

(** clear: the callback runs exactly once per held element *)
Theorem C01_clear_each_once t :
  Permutation (bt_clear t) (inorder t) /\ (NoDup (ids t) -> NoDup (map eid (bt_clear t))).
Proof. split; [apply clear_log_perm|apply clear_log_nodup]. Qed.

(** rotations and recolourings do not change the in-order sequence: the
    red-black operations have the effect of the plain ones *)
Theorem C01_rb_insert_inorder t x t' :
  rb_insert t x = Some t' -> inorder t' = inorder (bt_insert t x).
Proof. exact (rb_insert_inorder t x t'). Qed.

Theorem C01_rb_erase_inorder t k r t' :
  rb_erase t k = Some (r, t') -> r = fst (bt_erase t k) /\ inorder t' = inorder (snd (bt_erase t k)).
Proof. exact (rb_erase_inorder t k r t'). Qed.

(** * Every operation sequence, both kinds of tree *)
Section C01.
  Variable key : nat -> Z.
  Variable kd : kind.
  Notation step := (TreeModel.step key kd).

  (** every operation inside the domain, from a state satisfying the
      invariant: no fault, no abort, invariant re-established, and the
      visible effect is the one of the ordered-bag specification [spec]
      (insert position, find/erase results, traversal logs with early stop,
      clear log, size) *)
  Theorem C01_step_refines s o :
    tinv kd s ->
    match step s o with
    | Done s' out => tinv kd s' /\ spec key (abs s) o (abs s') out
    | Precond => True
    | Abort => False
    | Fault => False
    end.
  Proof. exact (step_correct key kd s o). Qed.

  (** in every reachable state the tree is ordered, holds no element twice
      and the size field is the number of held elements *)
  Theorem C01_reachable_inv s :
    reach step t_init s ->
    bst (tr s) /\ NoDup (ids (tr s)) /\ sz s = N.of_nat (length (inorder (tr s))).
  Proof. intros R. destruct (reach_tinv key kd s R) as (H1 & H2 & H3 & _). auto. Qed.

  (** refinement to a bag: along any operation list the held elements are a
      permutation of inserted-minus-erased, each erase removing one element
      that compares equal (the one it returns) *)
  Theorem C01_run_refines_bag ops :
    match run step t_init ops with
    | (Done s _, outs) => bag_run key [] ops outs (inorder (tr s)) /\ tinv kd s
    | _ => True
    end.
  Proof. exact (run_refines_bag key kd ops t_init (tinv_init kd)). Qed.

  (** no script drives the code into a fault or an abort *)
  Theorem C01_run_safe ops :
    match fst (run step t_init ops) with
    | Done s _ => tinv kd s
    | Precond => True
    | _ => False
    end.
  Proof. exact (run_safe key kd ops). Qed.

  (** traversal with the scripts' visitor (answers [stop] at its [stop]-th
      call): exactly the first [stop] documented visits and the result
      [stop], or all of them and 0 *)
  Theorem C01_foreach_script d t stop :
    let evs := events d t in
    foreach (script_visit stop) d t (O, []) =
    if ((stop =? O)%nat || (length evs <? stop)%nat)%bool
    then (length evs, rev evs, 0)
    else (stop, rev (firstn stop evs), Z.of_nat stop).
  Proof. exact (foreach_script d t stop). Qed.
End C01.

(** Non-vacuity: a mixed history with duplicate keys on a binary tree
    (erase of a leaf, of a two-child node whose successor is its right
    child, of the root; hinted inserts) reaches a non-trivial state. *)
Example C01_example_run :
  let key := fun n => nth n [5;3;8;3;5;9;1;1;7;6]%Z 0%Z in
  let ops := [Insert 0; Insert 1; InsertH 2; Insert 3; InsertH 4; Insert 5; Insert 6; InsertH 7;
              Insert 8; Erase 8; Erase 5; Insert 9; Erase 1; Find 3; Foreach true 4; Size] in
  match run (TreeModel.step key Bin) t_init ops with
  | (Done s _, outs) => map eid (inorder (tr s)) = [7; 1; 3; 4; 9; 8; 5]%nat
                        /\ last outs [] = [7]
  | _ => False
  end.
Proof. vm_compute. auto. Qed.

Print Assumptions C01_insert_inorder.
Print Assumptions C01_insert_hint_eq.
Print Assumptions C01_find_spec.
Print Assumptions C01_erase_spec.
Print Assumptions C01_foreach_events.
Print Assumptions C01_foreach_stops.
Print Assumptions C01_mid_leaf_inorder.
Print Assumptions C01_bracketing.
Print Assumptions C01_clear_each_once.
Print Assumptions C01_rb_insert_inorder.
Print Assumptions C01_rb_erase_inorder.
Print Assumptions C01_step_refines.
Print Assumptions C01_reachable_inv.
Print Assumptions C01_run_refines_bag.
Print Assumptions C01_run_safe.
Print Assumptions C01_foreach_script.
