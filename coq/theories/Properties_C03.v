(** C03 -- hash lookups stay exact while the table is incrementally
    rehashed.  Statements only; proofs are in HashProofs.v, HashInv.v,
    HashOps.v, HashTable.v, HashSys.v.

    Model: HashModel.v (a transcription of src/hash.c as repaired by
    fixes/F2..F4).  [hf] is ANY family of hash functions that do not trap
    ([hf_def]); where a theorem needs them to stay below the table size it
    says [in_range hf].  [key] is any assignment of keys to elements, [ok] any
    allocator behaviour.  [sys_inv] = every table satisfies the invariant
    [inv] of DESIGN.md appendix A.1 ("hash_inv") and no element is linked
    twice. *)
From Cstl Require Import Prelude AllocModel HashModel HashProofs HashInv HashOps HashTable HashSys.
Local Open Scope N_scope.

Section C03.
  Variable hf : fn_id -> N -> N -> option N.
  Variable key : nat -> N.
  Variable ok : nat -> N -> bool.
  Hypothesis Hdef : hf_def hf.

  Notation exec := (exec hf key fixed ok).
  Notation step := (step hf key fixed ok).
  Notation sys_inv := (sys_inv hf key).

  (** 1. hash_inv is preserved by every operation, in every reachable state *)
  Theorem C03_hash_inv_reachable n s : reach step (sys_init n) s -> sys_inv s.
  Proof. exact (reach_inv hf key ok Hdef n s). Qed.

  (** 2. every operation from a state satisfying the invariant: no fault, an
      abort only if a hash function left its range, the invariant again, and
      the effect [post] on the bags of live elements (insert adds exactly the
      element, erase removes exactly the element passed and nothing when it is
      absent, everything else keeps the bag; find offers the live elements
      with the key in chain order up to the first accepted one; sizes exact) *)
  Theorem C03_step_refines s o :
    sys_inv s ->
    match exec s o with
    | XDone s' r w => sys_inv s' /\ post key s o s' r w
    | XAbort => ~ in_range hf
    | XFault => False
    | XPrecond => True
    end.
  Proof. exact (exec_refines hf key ok Hdef s o). Qed.

  (** 3. with hash functions that honour their contract no history aborts or
      faults: [run] ends in [Done] (invariant holds) or left the domain *)
  Theorem C03_run_safe n ops :
    in_range hf ->
    match fst (run step (sys_init n) ops) with
    | Done s _ => sys_inv s
    | Precond => True
    | _ => False
    end.
  Proof.
    intros R. pose proof (run_safe hf key ok Hdef (sys_init n) ops (sys_inv_init hf key n)) as H.
    destruct (fst (run step (sys_init n) ops)); auto.
  Qed.

  (** 4. find is complete and sound at any moment (also mid-rehash): the
      candidates [c] are exactly the live elements with the key, each once;
      find offers them in order up to the first accepted one and returns it,
      offers all of them and returns NULL if none is accepted, and returns
      the first one if no visit function is given *)
  Theorem C03_find_exact s i t k vis :
    in_range hf -> sys_inv s -> nth_error (tabs s) i = Some t -> hash t <> None ->
    exists s' x w c,
      exec s (Find i k vis) = XDone s' [zopt x] w /\
      NoDup c /\ (forall e, In e c <-> In e (live t) /\ key e = k) /\
      find_result vis c (offers w) x.
  Proof.
    intros R SI Et Hh. pose proof (exec_refines hf key ok Hdef s (Find i k vis) SI) as H.
    unfold outcome_ok in H. destruct (exec s (Find i k vis)) as [s' r w| | |] eqn:E.
    - destruct H as (_ & t0 & t' & x & E0 & _ & _ & _ & _ & -> & (c & Nc & Hc & Fr) & _).
      rewrite Et in E0. injection E0 as <-. exists s', x, w, c. auto.
    - contradiction.
    - contradiction.
    - exfalso. cbn [HashModel.exec] in E. unfold with_tab in E. rewrite Et in E.
      destruct (hash t); [|congruence]. cbn [is_some negb] in E. unfold lift in E.
      destruct (find hf key t k vis); simpl in E; discriminate.
  Qed.

  (** 5. erase removes exactly the object passed; it is a no-op on the
      contents when the object is not in the table *)
  Theorem C03_erase_exact s i t e :
    in_range hf -> sys_inv s -> nth_error (tabs s) i = Some t -> hash t <> None ->
    exists s' t' w,
      exec s (Erase i e) = XDone s' [] w /\ nth_error (tabs s') i = Some t' /\
      (forall x, In x (live t') <-> In x (live t) /\ x <> e) /\
      (In e (live t) -> size t' + 1 = size t) /\
      (~ In e (live t) -> Permutation (live t') (live t) /\ size t' = size t).
  Proof.
    intros R SI Et Hh. pose proof (exec_refines hf key ok Hdef s (Erase i e) SI) as H.
    unfold outcome_ok in H. destruct (exec s (Erase i e)) as [s' r w| | |] eqn:E.
    - destruct H as (_ & t0 & t' & E0 & Eu & _ & L & Lin & Lout & -> & _).
      rewrite Et in E0. injection E0 as <-. exists s', t', w. split; auto.
      split; [rewrite Eu; apply nth_error_upd_same; eapply nth_error_some_lt; eauto|].
      split; auto. split; [intros He; apply (Lin He)|auto].
    - contradiction.
    - contradiction.
    - exfalso. cbn [HashModel.exec] in E. unfold with_tab in E. rewrite Et in E.
      destruct (hash t); [|congruence]. cbn [is_some negb] in E. unfold lift in E.
      destruct (erase hf key t e); simpl in E; discriminate.
  Qed.

  (** 6. the reported size is the number of live elements, in every reachable state *)
  Theorem C03_size_exact n s i t :
    reach step (sys_init n) s -> nth_error (tabs s) i = Some t ->
    exec s (Size i) = XDone s [Z.of_nat (length (live t))] [] /\ size t = N.of_nat (length (live t)).
  Proof.
    intros Rc Et. pose proof (reach_inv hf key ok Hdef n s Rc) as SI.
    pose proof (exec_refines hf key ok Hdef s (Size i) SI) as H. unfold outcome_ok in H.
    cbn [HashModel.exec] in *. unfold with_tab in *. rewrite Et in *.
    pose proof (inv_size _ _ t (proj1 (Forall_nth _ _ _ _ (proj1 SI) Et))) as Z.
    split; auto. rewrite Z, nat_N_Z. reflexivity.
  Qed.

  (** 7. insert adds exactly the element (under any pending rehash) *)
  Theorem C03_insert_adds s i t e :
    in_range hf -> sys_inv s -> nth_error (tabs s) i = Some t -> hash t <> None -> in_any s e = false ->
    exists s' t' w,
      exec s (Insert i e) = XDone s' [] w /\ nth_error (tabs s') i = Some t' /\
      Permutation (live t') (e :: live t) /\ size t' = size t + 1.
  Proof.
    intros R SI Et Hh Ha. pose proof (exec_refines hf key ok Hdef s (Insert i e) SI) as H.
    unfold outcome_ok in H. destruct (exec s (Insert i e)) as [s' r w| | |] eqn:E.
    - destruct H as (_ & t0 & t' & E0 & Eu & _ & Pl & Z & -> & _).
      rewrite Et in E0. injection E0 as <-. exists s', t', w. split; auto.
      split; [rewrite Eu; apply nth_error_upd_same; eapply nth_error_some_lt; eauto|auto].
    - contradiction.
    - contradiction.
    - exfalso. cbn [HashModel.exec] in E. unfold with_tab in E. rewrite Et, Ha in E.
      destruct (hash t); [|congruence]. cbn [is_some negb orb] in E. unfold lift in E.
      destruct (insert hf key t e); simpl in E; discriminate.
  Qed.
End C03.

(** Non-vacuity: the division hash honours the contract; a concrete history
    with duplicate keys, a grow and a shrink issued while the previous rehash
    is pending, swap, erase of a present and of an absent element ends with
    the expected bags. *)
Definition hf_div : fn_id -> N -> N -> option N := fun _ k m => if m =? 0 then None else Some (k mod m).

Example C03_div_in_range : in_range hf_div /\ hf_def hf_div.
Proof.
  split.
  - intros f k m Hm. unfold hf_div. destruct (N.eqb_spec m 0); [lia|].
    exists (k mod m). split; auto. apply N.mod_lt. lia.
  - intros f k m Hm. unfold hf_div. destruct (N.eqb_spec m 0); [lia|discriminate].
Qed.

Example C03_example_run :
  let key := fun e => nth e [0; 0; 1; 2; 5] 0 in
  let ops := [Resize 0 2 (Some 1%nat); Resize 1 3 (Some 2%nat);
              Insert 0 0; Insert 0 1; Insert 0 2; Insert 0 3; Resize 0 5 None; Find 0 0 (Some [0%nat]);
              Resize 0 3 (Some 2%nat); Erase 0 1; Erase 0 4; Insert 1 4; Swap 0 1; Find 1 2 None;
              Shrink 1; Insert 1 1] in
  match fst (run (step hf_div key fixed (fun _ _ => true)) (sys_init 2) ops) with
  | Done s _ => map (fun t => (live t, size t)) (tabs s) = [([4%nat], 1); ([1; 0; 2; 3]%nat, 4)]
  | _ => False
  end.
Proof. vm_compute. reflexivity. Qed.

(** * The chains as pointers (pointer-level model HashLinksModel.v)

    [lexec] / [lstep] run src/hash.c on what the C code has: every bucket is a
    head pointer and a clean bit, every node's [next] field lives in one node
    memory shared by all tables; every C statement that writes a link is one
    memory update, in source order -- the head insert of cstl_hash_insert,
    the pointer-to-pointer walk and the splice of cstl_hash_erase (the erased
    node's own [next] is left as it is), the detach-and-reinsert loop of
    cstl_clean_bucket (successor read before the node is re-linked), the
    chain walks of find / foreach / foreach_const / clear (successor read
    before the visit; the erase-and-free visitor and the clear callback
    poison the node, a later read of it is a fault).  [srel s ls] says that
    the pointer-level system [ls] holds the functional system [s]: same
    allocator state, same scalar fields, same clean bits, and in every
    bucket the head pointer and the [next] links spell exactly the list of
    the functional bucket and end in NULL ([spells]). *)
From Cstl Require Import HashLinksModel HashLinksProofs HashLinksOps HashLinksWalk HashLinksSim.

Section C03_links.
  Variable hf : fn_id -> N -> N -> option N.
  Variable key : nat -> N.
  Variable ok : nat -> N -> bool.
  Hypothesis Hdef : hf_def hf.

  Notation step := (step hf key fixed ok).
  Notation lstep := (HashLinksModel.lstep hf key ok).
  Notation sys_inv := (sys_inv hf key).

  (** 8. every history of the pointer-level model is the history of the
      functional model: same per-operation outputs (results and the encoded
      work log: hash calls, cleaned buckets, offers, successor reads,
      visits, clear callbacks), the same outcome at the same place (abort,
      out-of-domain call), never a fault; the final states are related by
      [srel] and satisfy [sys_inv].  Hence every theorem above (and those of
      Properties_C04.v, Properties_C19.v, Properties_C17b.v), which speak
      about outputs and states of [step] / [exec], holds for the run of the
      pointer-level model. *)
  Theorem C03_links_run_refines n ops :
    match run step (sys_init n) ops with
    | (Done s o1, outs) =>
      exists ls, run lstep (lsys_init n) ops = (Done ls o1, outs) /\ srel s ls /\ sys_inv s
    | (Abort, outs) => run lstep (lsys_init n) ops = (Abort, outs)
    | (Precond, outs) => run lstep (lsys_init n) ops = (Precond, outs)
    | (Fault, _) => False
    end.
  Proof.
    exact (lrun_sim hf key ok Hdef ops (sys_init n) (lsys_init n) (sys_inv_init hf key n) (srel_init n)).
  Qed.

  (** 9. in every state reachable by the pointer-level model the chains are
      well formed: the state represents a reachable functional state [s]
      ([srel]: every head pointer + [next] links spell the functional bucket
      and end in NULL); the bounded walk from every bucket head (at most
      size + 1 steps) ends at NULL having read only linked nodes and finds
      exactly the functional chain; and all chains of all tables together
      contain no node twice -- so every chain is acyclic and no node is in
      two chains *)
  Theorem C03_chains_wellformed n ls :
    reach lstep (lsys_init n) ls ->
    exists s,
      reach step (sys_init n) s /\ sys_inv s /\ srel s ls /\
      NoDup (concat (map (fun t => concat (map chain (bks t))) (tabs s))) /\
      (forall i t lt, nth_error (tabs s) i = Some t -> nth_error (ltabs ls) i = Some lt ->
         length (lbks lt) = length (bks t) /\
         forall j b lb, nth_error (bks t) j = Some b -> nth_error (lbks lt) j = Some lb ->
           spells (lmem ls) (hd lb) (chain b) /\
           l_chain (lfuel lt) (lmem ls) (hd lb) = Some (chain b) /\ NoDup (chain b)).
  Proof.
    intros R. destruct (lreach_sim hf key ok Hdef n ls R) as (s & Rs & SR & SI).
    exists s. split; [exact Rs|]. split; [exact SI|]. split; [exact SR|].
    split; [exact (proj2 SI)|].
    intros i t lt Et Elt. pose proof SR as (_ & HT).
    destruct (Forall2_nth _ _ _ _ _ HT Et) as (lt' & Elt' & Ht). rewrite Elt in Elt'. injection Elt' as <-.
    split; [symmetry; apply (Forall2_len _ _ _ (tr_bks _ _ _ Ht))|].
    intros j b lb Eb Elb.
    destruct (Forall2_nth _ _ _ _ _ (tr_bks _ _ _ Ht) Eb) as (lb' & Elb' & _ & Hsp).
    rewrite Elb in Elb'. injection Elb' as <-.
    split; [exact Hsp|]. split.
    - eapply srel_chains; eauto. apply (sys_inv_good hf key s SI).
    - eapply chain_nodup; [|exact Eb]. rewrite <- live_lv.
      apply (inv_nodup _ _ t (proj1 (Forall_nth _ _ _ _ (proj1 SI) Et))).
  Qed.

  (** 10. the pointer-to-pointer walk of cstl_hash_erase on a well-formed
      chain: it terminates; it ends at NULL exactly when the node passed is
      not in the chain (then nothing is written); otherwise it ends with
      [hep.n] pointing at the link that holds the node, and the splice
      [*hep.n = ( *hep.n)->next] writes that one link -- the bucket's head
      field or the [next] field of the predecessor -- after which the head
      pointer spells the chain without exactly that node; the erased node's
      own [next] field still holds its old successor *)
  Theorem C03_links_erase_walk m h l e fuel :
    spells m h l -> NoDup l -> (length l <= fuel)%nat ->
    match l_erase_walk fuel m h e h SHead with
    | Some None => ~ In e l
    | Some (Some pp) =>
      exists l1 l2 nx, l = l1 ++ e :: l2 /\ slot_get m h pp = Some (Some e) /\ rd m e = Some nx /\
        spells (fst (slot_set m h pp nx)) (snd (slot_set m h pp nx)) (l1 ++ l2) /\
        frame l1 m (fst (slot_set m h pp nx)) /\ rd (fst (slot_set m h pp nx)) e = Some nx
    | None => False
    end.
  Proof. exact (l_erase_walk_exact m h l e fuel). Qed.

  (** 11. read from the pointer-level side: whatever one operation of the
      pointer-level model does from a state that represents [s] is what the
      functional model does from [s] -- same results, same work log -- and is
      therefore covered by theorem 2: invariant again, effect [post] on the
      bags of live elements, abort only for an out-of-range hash function,
      never a fault.  (The statements of C04 and C19 are about [r] and [w]
      of [exec], which are the [r] and [w] of [lexec].) *)
  Theorem C03_links_step_refines s ls o :
    sys_inv s -> srel s ls ->
    match lexec hf key ok ls o with
    | LDone ls' r w =>
      exists s', exec hf key fixed ok s o = XDone s' r w /\ srel s' ls' /\ sys_inv s' /\ post key s o s' r w
    | LAbort => exec hf key fixed ok s o = XAbort /\ ~ in_range hf
    | LFault => False
    | LPrecond => exec hf key fixed ok s o = XPrecond
    end.
  Proof.
    intros SI SR. pose proof (lexec_sim hf key ok Hdef s ls o SI SR) as X.
    pose proof (exec_refines hf key ok Hdef s o SI) as R. unfold outcome_ok in R.
    destruct (exec hf key fixed ok s o) as [s' r w| | |]; cbn [xsim] in X.
    - destruct X as (ls' & -> & SR'). exists s'. destruct R. auto.
    - rewrite X. auto.
    - contradiction.
    - rewrite X. reflexivity.
  Qed.
End C03_links.

(** Non-vacuity: the history of [C03_example_run] on the pointer-level model
    gives the same outputs, and the bounded walks over its final memory find
    the chains of the functional model's final state. *)
Example C03_links_example_run :
  let key := fun e => nth e [0; 0; 1; 2; 5] 0 in
  let ops := [Resize 0 2 (Some 1%nat); Resize 1 3 (Some 2%nat);
              Insert 0 0; Insert 0 1; Insert 0 2; Insert 0 3; Resize 0 5 None; Find 0 0 (Some [0%nat]);
              Resize 0 3 (Some 2%nat); Erase 0 1; Erase 0 4; Insert 1 4; Swap 0 1; Find 1 2 None;
              Shrink 1; Insert 1 1; Foreach 1 true 2; Clear 0 true] in
  match run (HashLinksModel.lstep hf_div key (fun _ _ => true)) (lsys_init 2) ops,
        run (step hf_div key fixed (fun _ _ => true)) (sys_init 2) ops with
  | (Done ls _, louts), (Done s _, outs) =>
    louts = outs /\
    map (fun lt => map (fun lb => l_chain (lfuel lt) (lmem ls) (hd lb)) (lbks lt)) (ltabs ls) =
    map (fun t => map (fun b => Some (chain b)) (bks t)) (tabs s) /\
    map live (tabs s) = [[]; [2; 3]%nat]
  | _, _ => False
  end.
Proof. vm_compute. intuition. Qed.

Print Assumptions C03_hash_inv_reachable.
Print Assumptions C03_step_refines.
Print Assumptions C03_run_safe.
Print Assumptions C03_find_exact.
Print Assumptions C03_erase_exact.
Print Assumptions C03_size_exact.
Print Assumptions C03_insert_adds.
Print Assumptions C03_links_run_refines.
Print Assumptions C03_chains_wellformed.
Print Assumptions C03_links_erase_walk.
Print Assumptions C03_links_step_refines.
