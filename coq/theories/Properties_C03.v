(** C03 -- placeholder, replaced below *)
From Cstl Require Import Prelude AllocModel HashModel.
Theorem C03_placeholder : live t_init = [].
Proof. reflexivity. Qed.
Print Assumptions C03_placeholder.
