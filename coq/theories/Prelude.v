(** Shared conventions for all component models (DESIGN.md section 4). *)
From Coq Require Export List ZArith NArith Bool Arith Lia Permutation Sorted.
Export ListNotations.

(** Result of running one library call in a model.
    - [Done s out]  : the call returned; [out] is everything observable
                      (return value, callback log, ...), as integers.
    - [Abort]       : the C code reached abort().
    - [Fault]       : the C code would execute undefined behaviour
                      (NULL dereference, out-of-bounds access, ...).
    - [Precond]     : the *caller* broke a documented precondition; such
                      calls are outside the domain of every property and
                      the script generators never emit them. *)
Inductive outcome (S : Type) : Type :=
| Done (s : S) (out : list Z)
| Abort
| Fault
| Precond.
Arguments Done {S} s out.
Arguments Abort {S}.
Arguments Fault {S}.
Arguments Precond {S}.

Definition zid (n : nat) : Z := Z.of_nat n.
Definition znull : Z := (-1)%Z.
Definition zopt (o : option nat) : Z :=
  match o with Some n => zid n | None => znull end.

(** Run a list of operations; stops at the first non-[Done] outcome.
    Returns the final state and the per-operation outputs (newest last). *)
Section Run.
  Context {S Op : Type} (step : S -> Op -> outcome S).
  Fixpoint run (s : S) (ops : list Op) : outcome S * list (list Z) :=
    match ops with
    | [] => (Done s [], [])
    | o :: r =>
      match step s o with
      | Done s' out => let '(fin, outs) := run s' r in (fin, out :: outs)
      | Abort => (Abort, [])
      | Fault => (Fault, [])
      | Precond => (Precond, [])
      end
    end.

  (** States reachable by completed operations. *)
  Inductive reach (s0 : S) : S -> Prop :=
  | reach_nil : reach s0 s0
  | reach_step s o s' out : reach s0 s -> step s o = Done s' out -> reach s0 s'.

  Lemma reach_ind_inv (P : S -> Prop) s0 :
    P s0 -> (forall s o s' out, P s -> step s o = Done s' out -> P s') ->
    forall s, reach s0 s -> P s.
  Proof. intros H0 Hs s R; induction R; eauto. Qed.
End Run.

(** nth-with-update on lists, used for small indexed families (lists of
    containers, buckets, objects). *)
Fixpoint upd {A} (l : list A) (i : nat) (x : A) : list A :=
  match l, i with
  | [], _ => []
  | _ :: r, O => x :: r
  | y :: r, S i => y :: upd r i x
  end.

Lemma upd_length {A} (l : list A) i x : length (upd l i x) = length l.
Proof. revert i; induction l as [|y r IH]; intros [|i]; simpl; auto. Qed.

Lemma nth_error_upd_same {A} (l : list A) i x :
  i < length l -> nth_error (upd l i x) i = Some x.
Proof. revert i; induction l as [|y r IH]; intros [|i] H; simpl in *; try lia; auto. apply IH; lia. Qed.

Lemma nth_error_upd_other {A} (l : list A) i j x :
  i <> j -> nth_error (upd l i x) j = nth_error l j.
Proof.
  revert i j; induction l as [|y r IH]; intros [|i] [|j] H; simpl; auto; try congruence.
Qed.

Lemma nth_error_upd {A} (l : list A) i j x :
  nth_error (upd l i x) j =
  if Nat.eqb i j then (if Nat.ltb i (length l) then Some x else None) else nth_error l j.
Proof.
  destruct (Nat.eqb_spec i j) as [->|Hn].
  - destruct (Nat.ltb_spec j (length l)).
    + apply nth_error_upd_same; auto.
    + apply nth_error_None. rewrite upd_length; auto.
  - apply nth_error_upd_other; auto.
Qed.

Fixpoint last_opt {A} (l : list A) : option A :=
  match l with [] => None | [x] => Some x | _ :: r => last_opt r end.

Lemma last_opt_app {A} (l : list A) x : last_opt (l ++ [x]) = Some x.
Proof. induction l as [|y r IH]; simpl; auto. destruct (r ++ [x]) eqn:E; auto. destruct r; discriminate. Qed.

Lemma last_opt_cons {A} (x : A) l : l <> [] -> last_opt (x :: l) = last_opt l.
Proof. destruct l; simpl; congruence. Qed.

Lemma last_opt_app_ne {A} (l1 l2 : list A) : l2 <> [] -> last_opt (l1 ++ l2) = last_opt l2.
Proof.
  intros H. induction l1 as [|y r IH]; simpl; auto.
  destruct (r ++ l2) eqn:E; auto. apply app_eq_nil in E. destruct E; congruence.
Qed.

Lemma last_opt_None {A} (l : list A) : last_opt l = None <-> l = [].
Proof. split; [|intros ->; auto]. induction l as [|x r IH]; auto. simpl. destruct r; [discriminate|]. intros H; apply IH in H; discriminate. Qed.

Lemma last_opt_In {A} (l : list A) x : last_opt l = Some x -> In x l.
Proof. induction l as [|y r IH]; simpl; [discriminate|]. destruct r; [intros [= ->]; auto|]. intros H; right; auto. Qed.

Lemma last_opt_rev {A} (l : list A) : last_opt (rev l) = hd_error l.
Proof. destruct l; simpl; auto. apply last_opt_app. Qed.
