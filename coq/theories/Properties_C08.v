(** C08 — the map keeps exactly one entry per key and never replaces or loses
    one silently.  Statements only; proofs are in MapProofs.v (on top of
    TreeProofs.v / RBProofs.v: find specification, in-order effect of the
    hinted red-black insert and of erase, preservation of the red-black
    rules, clear log).

    [MapModel.step ck ok] runs one scripted operation of src/map.c on a map
    whose keys compare like the integers [ck k] (distinct key pointers may
    compare equal) and whose allocator answers according to the oracle [ok];
    every theorem holds for every [ck] and every [ok].
    [entries s] is the association list (stored key, stored value) in key
    order; [alookup l k] is the entry of [l] whose key compares equal to [k];
    [unique_keys l]: the canonical keys are strictly increasing, i.e. there is
    at most one entry per key.  Outputs are what the correspondence driver
    prints: return code, then the iterator as (key, value, 1 if [_] is set);
    [znull] = -1 stands for a NULL pointer. *)
From Cstl Require Import Prelude AllocModel TreeModel TreeProofs RBProofs MapModel MapProofs.
Local Open Scope Z_scope.

Section C08.
  Variable ck : nat -> Z.
  Variable ok : nat -> N -> bool.
  Notation step := (MapModel.step ck ok).
  Notation map_inv := (MapProofs.map_inv ck).
  Notation alookup := (MapProofs.alookup ck).
  Notation unique_keys := (MapProofs.unique_keys ck).
  Notation mspec := (MapProofs.mspec ck).
  Notation arun := (MapProofs.arun ck).

  (** ** the invariant *)

  (** what [map_inv] says: one entry per key; red-black rules; node memory
      exists exactly for the nodes linked into the tree; the size field is
      the number of entries; the live heap blocks are exactly the nodes, each
      of sizeof(struct cstl_map_node) bytes; nothing was freed twice *)
  Theorem C08_invariant_meaning s :
    map_inv s ->
    unique_keys (entries s) /\
    rb_inv (mt s) /\
    (forall n, tab_get (mtab s) n <> None <-> In n (nodes s)) /\
    msz s = N.of_nat (length (entries s)) /\
    Permutation (map fst (live (mal s))) (nodes s) /\ NoDup (nodes s) /\
    (forall b sz, In (b, sz) (live (mal s)) -> sz = NODE_SIZE) /\
    no_bad_free (mal s).
  Proof. exact (map_inv_meaning ck s). Qed.

  (** with unique keys, [alookup] is *the* entry whose key compares equal *)
  Theorem C08_lookup_unique l k k0 v0 :
    unique_keys l -> In (k0, v0) l -> ck k0 = ck k -> alookup l k = Some (k0, v0).
  Proof. exact (alookup_unique ck l k k0 v0). Qed.

  (** every operation from a state satisfying the invariant: no fault, no
      abort, the invariant holds again, and results and contents are those
      of the association-list specification [mspec] (return codes 1 / 0 / -1,
      iterator contents, size, callback log of clear); erase_iterator is
      outside its domain only for the end iterator *)
  Theorem C08_step_refines s o :
    map_inv s ->
    match step s o with
    | Done s' out =>
      map_inv s' /\ unique_keys (entries s') /\
      mspec (grant ok (mal s) NODE_SIZE) (entries s) o (entries s') out
    | Precond => exists k, o = MEraseIter k /\ alookup (entries s) k = None
    | Abort => False
    | Fault => False
    end.
  Proof. exact (step_correct ck ok s o). Qed.

  (** ** the operations one by one *)

  (** insert of a key that is present: 1, iterator to the existing entry
      with the stored pointers; tree, node memory, heap (even its log): the
      whole state is untouched *)
  Theorem C08_insert_existing_untouched s k v it k0 v0 :
    map_inv s -> alookup (entries s) k = Some (k0, v0) ->
    step s (MInsert k v it) = Done s (1 :: (if it then [zid k0; zid v0; 1] else [])).
  Proof. exact (step_insert_existing ck ok s k v it k0 v0). Qed.

  (** insert of a new key when the allocator grants the node: 0, iterator to
      the new entry; one 48-byte block is allocated for it; the entry goes to
      its place in key order and no other entry changes; the tree is the one
      the unhinted red-black insert would build (the parent reported by the
      find is a correct hint) *)
  Theorem C08_insert_new s k v it :
    map_inv s -> alookup (entries s) k = None -> grant ok (mal s) NODE_SIZE = true ->
    exists t',
      let a := mal s in
      let b := next a in
      let s' := mkM t' (msz s + 1)%N ((b, (k, v)) :: mtab s)
                    (mkAlloc ((b, NODE_SIZE) :: live a) (S (next a)) (S (ord a))
                             (EvMalloc b NODE_SIZE :: AllocModel.events a)) in
      step s (MInsert k v it) = Done s' (0 :: (if it then [zid k; zid v; 1] else [])) /\
      map_inv s' /\
      rb_insert (mt s) (mkE b (ck k)) = Some t' /\
      exists l1 l2, entries s = l1 ++ l2 /\ entries s' = l1 ++ (k, v) :: l2.
  Proof. exact (step_insert_new ck ok s k v it). Qed.

  (** the hint is what makes the second walk unnecessary: an insert calls the
      user comparison as often as the find does, plus exactly once more when
      a node is linked into a non-empty tree ([op_cmps]: number of comparator
      calls of the operation as transcribed; compared with the C code's count
      by the correspondence run) *)
  Theorem C08_insert_hint_cost s k v it :
    map_inv s ->
    op_cmps ck ok s (MInsert k v it) =
    (find_cmps (mt s) (ck k) +
     match alookup (entries s) k with
     | Some _ => 0
     | None => if grant ok (mal s) NODE_SIZE then (match mt s with E => 0 | _ => 1 end) else 0
     end)%nat.
  Proof. exact (op_cmps_insert ck ok s k v it). Qed.

  (** insert of a new key when the allocation fails: -1, end iterator; tree,
      size and node memory are untouched and so are the live blocks; only the
      heap's request counter and event log record the failed request *)
  Theorem C08_insert_alloc_failure s k v it :
    map_inv s -> alookup (entries s) k = None -> grant ok (mal s) NODE_SIZE = false ->
    step s (MInsert k v it) =
    Done (mkM (mt s) (msz s) (mtab s)
              (mkAlloc (live (mal s)) (next (mal s)) (S (ord (mal s)))
                       (EvMallocFail NODE_SIZE :: AllocModel.events (mal s))))
         (-1 :: (if it then [znull; znull; 0] else [])).
  Proof. exact (step_insert_fail ck ok s k v it). Qed.

  (** find: the stored pointers of the entry whose key compares equal, or
      the end iterator; the state is untouched *)
  Theorem C08_find s k :
    map_inv s ->
    step s (MFind k) =
    Done s (match alookup (entries s) k with
            | Some (k0, v0) => [zid k0; zid v0; 1]
            | None => [znull; znull; 0]
            end).
  Proof. exact (step_find ck ok s k). Qed.

  (** erase of a key that is present, by key or through the iterator that
      find returns: 0 and the stored pointers (iterator detached); exactly
      the node [n] holding that entry is unlinked and freed ([erased]: size
      field minus one, node memory of [n] gone, heap = old heap with block
      [n] removed and one [EvFree n] logged); every other entry stays *)
  Theorem C08_erase_present s k k0 v0 :
    map_inv s -> alookup (entries s) k = Some (k0, v0) ->
    exists n t',
      In n (nodes s) /\ tab_get (mtab s) n = Some (k0, v0) /\
      (forall it, step s (MErase k it) =
                  Done (erased s t' n) (0 :: (if it then [zid k0; zid v0; 0] else []))) /\
      step s (MEraseIter k) = Done (erased s t' n) [] /\
      map_inv (erased s t' n) /\
      exists l1 l2, entries s = l1 ++ (k0, v0) :: l2 /\ entries (erased s t' n) = l1 ++ l2.
  Proof. exact (step_erase_present ck ok s k k0 v0). Qed.

  (** erase of a key that is absent: -1, end iterator, state untouched *)
  Theorem C08_erase_absent s k it :
    map_inv s -> alookup (entries s) k = None ->
    step s (MErase k it) = Done s (-1 :: (if it then [znull; znull; 0] else [])) /\
    step s (MEraseIter k) = Precond.
  Proof. exact (step_erase_absent ck ok s k it). Qed.

  (** size *)
  Theorem C08_size s :
    map_inv s -> step s MSize = Done s [Z.of_nat (length (entries s))].
  Proof.
    intros I. pose proof (step_correct ck ok s MSize I) as H. cbn [MapModel.step] in *.
    destruct H as (_ & _ & _ & ->). reflexivity.
  Qed.

  (** clear: the callback receives every entry's key and value exactly once
      (a permutation of the entries); every node is freed exactly once, after
      its callback (the j-th callback still sees all but j of the nodes
      allocated); afterwards the map is the initial one ([cleared]: empty
      tree, size 0, no node memory) on a heap without live blocks *)
  Theorem C08_clear s cb :
    map_inv s ->
    exists log order,
      Permutation log (entries s) /\ Permutation order (nodes s) /\ NoDup order /\
      step s (MClear cb) = Done (cleared s) (if cb then cb_zs log (length (entries s)) else []) /\
      AllocModel.events (mal (cleared s)) = rev (map EvFree order) ++ AllocModel.events (mal s) /\
      map_inv (cleared s).
  Proof. exact (step_clear ck ok s cb). Qed.

  Theorem C08_cleared_is_initial s :
    mt (cleared s) = mt m_init /\ msz (cleared s) = msz m_init /\ mtab (cleared s) = mtab m_init /\
    live (mal (cleared s)) = live (mal m_init) /\ entries (cleared s) = [].
  Proof. repeat split. Qed.

  (** ** every operation sequence *)

  Theorem C08_reachable_inv s : reach step m_init s -> map_inv s.
  Proof. exact (reach_inv ck ok s). Qed.

  Theorem C08_never_fault s o :
    reach step m_init s -> step s o <> Fault /\ step s o <> Abort.
  Proof. intros R. apply never_fault. apply reach_inv with (ok := ok); auto. Qed.

  (** along any operation list the map behaves like an association list with
      unique keys ([arun]: every step obeys [mspec] for the allocator's
      answer at that moment) *)
  Theorem C08_run_refines ops :
    match run step m_init ops with
    | (Done s _, outs) => arun [] ops outs (entries s) /\ map_inv s
    | _ => True
    end.
  Proof. exact (run_refines ck ok ops m_init (map_inv_init ck)). Qed.

  (** no script drives the code into a fault or an abort *)
  Theorem C08_run_safe ops :
    match fst (run step m_init ops) with
    | Done s _ => map_inv s
    | Precond => True
    | _ => False
    end.
  Proof. exact (run_safe ck ok ops m_init (map_inv_init ck)). Qed.
End C08.

(** Non-vacuity: keys compare modulo 5 (key ids 1 and 6 collide), the second
    and every request from the seventh on fail; mixed history with an insert of
    an existing key, a colliding key, failed allocations, erases (absent,
    present, through the iterator), a clear with callback and reuse. *)
Example C08_example_run :
  let ck := ck_mod 5 in
  let ok := script_oracle [1%nat] (Some 6%nat) in
  let ops := [MInsert 3 0 true; MInsert 1 1 true; MInsert 1 2 true; MInsert 6 3 true; MInsert 4 0 false;
              MInsert 2 1 true; MErase 7 true; MFind 8; MErase 0 true; MEraseIter 4; MInsert 0 2 true;
              MInsert 9 3 true; MSize; MClear true; MLive; MInsert 2 0 true] in
  match run (MapModel.step ck ok) m_init ops with
  | (Done s _, outs) =>
    entries s = [] /\ live (mal s) = [] /\
    outs = [[0; 3; 0; 1]; [-1; -1; -1; 0]; [0; 1; 2; 1]; [1; 1; 2; 1]; [0]; [0; 2; 1; 1];
            [0; 2; 1; 0]; [3; 0; 1]; [-1; -1; -1; 0]; []; [0; 0; 2; 1]; [-1; -1; -1; 0]; [3];
            [0; 2; 3; 3; 0; 2; 1; 2; 1]; [0]; [-1; -1; -1; 0]]
  | _ => False
  end.
Proof. vm_compute. repeat split. Qed.

(** * Parent links of the map's tree (pointer-level models TreeLinksModel.v, MapLinksModel.v)

    The tree inside [mstate] is an inductive tree without parent pointers.
    The theorems below carry the pointer-level result of C02 over to the map.
    [tree_ops ck ok s o] are the calls of the red-black tree functions that
    map operation [o] makes in state [s], as operations of the scripted tree
    system: [Find] (cstl_rbtree_find), [InsertH b] (find + cstl_rbtree_insert
    of the freshly allocated node [b] below the reported parent), [Erase]
    (find + __cstl_rbtree_erase of the found node), [Clear].
    [step_key ck s s'] is the comparison the tree functions see during the
    operation from [s] to [s']: node [n] has the canonical key of its stored
    [key] field (before the operation, or, for the node allocated by the
    operation, after it).  [lstep key RB] runs the tree code on a node memory
    {p; l; r; colour}; [lreachk sl]: [sl] is reached from the empty tree by
    completed [lstep] operations; [rep m None t]: the memory holds [t], every
    node's [p] being the address of its parent (NULL at the root).
    [mlstep ck ok] is map.c on that memory: the map functions call the
    pointer-level rbtree functions ([l_find], [l_rb_insert], [l_rb_erase]),
    and the comparison reads the [key] field of the nodes from the node
    table. *)
From Cstl Require Import TreeSysProofs TreeLinksModel TreeLinksProofs TreeLinksSim MapLinksModel MapLinksProofs.

Section C08_links.
  Variable ck : nat -> Z.
  Variable ok : nat -> N -> bool.
  Notation step := (MapModel.step ck ok).
  Notation mlstep := (MapLinksModel.mlstep ck ok).
  Notation map_inv := (MapProofs.map_inv ck).

  (** every operation acts on the (tree, size field) component exactly as
      its tree calls act in the scripted red-black tree system of C02, under
      a key function that agrees with the stored keys on every node linked
      before and on every node linked after the operation *)
  Theorem C08_links_tree_calls s o s' out :
    map_inv s -> step s o = Done s' out ->
    keyed (step_key ck s s') (inorder (mt s)) /\ keyed (step_key ck s s') (inorder (mt s')) /\
    exists touts,
      run (TreeModel.step (step_key ck s s') RB) (mkS (mt s) (msz s)) (tree_ops ck ok s o)
      = (Done (mkS (mt s') (msz s')) [], touts).
  Proof. exact (map_step_tree_calls ck ok s o s' out). Qed.

  (** ... and the pointer-level tree code, run for these calls from any
      memory that represents the old tree, ends in a memory that represents
      the new tree *)
  Theorem C08_links_step s o s' out sl :
    map_inv s -> step s o = Done s' out ->
    lsz sl = msz s /\ lroot sl = raddr (mt s) /\ rep (lm sl) None (mt s) ->
    exists sl' touts,
      run (lstep (step_key ck s s') RB) sl (tree_ops ck ok s o) = (Done sl' [], touts) /\
      lsz sl' = msz s' /\ lroot sl' = raddr (mt s') /\ rep (lm sl') None (mt s').
  Proof. exact (map_step_links ck ok s o s' out sl). Qed.

  (** the tree of every map state reached by any operation list, under any
      allocator oracle, is held by a node memory that the pointer-level tree
      code produces: the root's parent link is NULL, every child's parent
      link points back at its parent, and the tree satisfies the red-black
      rules *)
  Theorem C08_links_represented ops s o1 outs :
    run step m_init ops = (Done s o1, outs) ->
    exists sl,
      lreachk sl /\ lsz sl = msz s /\ lroot sl = raddr (mt s) /\ rep (lm sl) None (mt s) /\
      (forall r, lroot sl = Some r -> n_p (mget (lm sl) r) = None) /\
      (forall a, In a (addrs (mt s)) ->
         (forall b, n_l (mget (lm sl) a) = Some b -> n_p (mget (lm sl) b) = Some a) /\
         (forall b, n_r (mget (lm sl) a) = Some b -> n_p (mget (lm sl) b) = Some a)) /\
      root_black (mt s) /\ no_red_red (mt s) /\ exists n, black_height (mt s) n.
  Proof. exact (map_links_represented ck ok ops s o1 outs). Qed.

  (** every history of the pointer-level map model is the history of the
      functional map model: same outputs, same outcome (no fault, no abort),
      and at the end the node memory holds the functional model's tree;
      size field, node table and heap are equal *)
  Theorem C08_links_run_refines ops :
    match run step m_init ops with
    | (Done s o1, outs) =>
      exists sl, run mlstep ml_init ops = (Done sl o1, outs) /\
                 lsz (ml sl) = msz s /\ lroot (ml sl) = raddr (mt s) /\ rep (lm (ml sl)) None (mt s) /\
                 mltab sl = mtab s /\ mlal sl = mal s
    | (Precond, outs) => run mlstep ml_init ops = (Precond, outs)
    | _ => False
    end.
  Proof. exact (ml_run_refines ck ok ops). Qed.

  (** in every state the pointer-level map model reaches: the decoder
      succeeds (it rejects a wrong parent link, a non-NULL root parent, a node
      linked twice); spelled out: root's parent NULL, every child's parent
      link points back at its parent; the linked structure satisfies the
      red-black rules; the size field counts the linked nodes, and node memory
      exists exactly for them *)
  Theorem C08_links_parent_links sl :
    reach mlstep ml_init sl ->
    exists t,
      decode (nkey ck (mltab sl)) (ml sl) = Some t /\ lroot (ml sl) = raddr t /\ rep (lm (ml sl)) None t /\
      (forall r, lroot (ml sl) = Some r -> n_p (mget (lm (ml sl)) r) = None) /\
      (forall a, In a (addrs t) ->
         (forall b, n_l (mget (lm (ml sl)) a) = Some b -> n_p (mget (lm (ml sl)) b) = Some a) /\
         (forall b, n_r (mget (lm (ml sl)) a) = Some b -> n_p (mget (lm (ml sl)) b) = Some a)) /\
      root_black t /\ no_red_red t /\ (exists n, black_height t n) /\
      lsz (ml sl) = N.of_nat (length (inorder t)) /\
      (forall n, tab_get (mltab sl) n <> None <-> In (addr n) (addrs t)).
  Proof. exact (ml_parent_links ck ok sl). Qed.
End C08_links.

(** Non-vacuity: a 16-operation history (colliding keys, a failed allocation,
    erases by key and through the iterator) on the pointer-level map model
    gives the outputs of the functional model and ends in a memory that
    decodes to the functional model's 5-node tree. *)
Example C08_links_example_run :
  let ck := ck_mod 7 in
  let ok := script_oracle [1%nat] None in
  let ops := [MInsert 3 0 true; MInsert 1 1 true; MInsert 1 2 true; MInsert 8 3 true; MInsert 4 0 false;
              MInsert 2 1 true; MInsert 6 1 true; MInsert 5 2 false; MInsert 0 2 false; MErase 9 true;
              MFind 8; MErase 3 true; MEraseIter 4; MInsert 12 2 true; MInsert 9 3 true; MSize] in
  match run (MapLinksModel.mlstep ck ok) ml_init ops, run (MapModel.step ck ok) m_init ops with
  | (Done sl _, o1), (Done s _, o2) =>
    decode (nkey ck (mltab sl)) (ml sl) = Some (mt s) /\ o1 = o2 /\
    length (inorder (mt s)) = 5%nat /\ lsz (ml sl) = 5%N
  | _, _ => False
  end.
Proof. vm_compute. repeat split. Qed.

Print Assumptions C08_invariant_meaning.
Print Assumptions C08_lookup_unique.
Print Assumptions C08_step_refines.
Print Assumptions C08_insert_existing_untouched.
Print Assumptions C08_insert_new.
Print Assumptions C08_insert_hint_cost.
Print Assumptions C08_insert_alloc_failure.
Print Assumptions C08_find.
Print Assumptions C08_erase_present.
Print Assumptions C08_erase_absent.
Print Assumptions C08_size.
Print Assumptions C08_clear.
Print Assumptions C08_cleared_is_initial.
Print Assumptions C08_reachable_inv.
Print Assumptions C08_never_fault.
Print Assumptions C08_run_refines.
Print Assumptions C08_run_safe.
Print Assumptions C08_links_tree_calls.
Print Assumptions C08_links_step.
Print Assumptions C08_links_represented.
Print Assumptions C08_links_run_refines.
Print Assumptions C08_links_parent_links.
