(** C08 — placeholder while the correspondence check is brought up; replaced by the real statements. *)
From Cstl Require Import Prelude AllocModel TreeModel MapModel.

Theorem C08_bootstrap ck ok : MapModel.step ck ok m_init MSize = Done m_init [0%Z].
Proof. reflexivity. Qed.

Print Assumptions C08_bootstrap.
