(** Refutations for the code as found (C11 / F11). *)
From Cstl Require Import Prelude SortModel.
