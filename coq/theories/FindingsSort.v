(** Refutations for the code as found (C11 / F11): cstl_raw_array_reverse and
    cstl_raw_array_search indexed with [int].  The witnesses are stated on
    arrays of 2^31+2 resp. 2^31-1 elements *without materialising them*: the
    statements quantify over every list of that length and the proofs only
    evaluate the index arithmetic. *)
From Cstl Require Import Prelude SortModel.
Local Open Scope Z_scope.

(** (int)(count - 1) for count = 2^31 + 2 *)
Example j_init32_wraps : j_init 32 (Z.to_nat 0) = -1 /\
  cast 32 ((2147483650 - 1) mod 2 ^ 64) = -2147483647.
Proof. split; reflexivity. Qed.

Section F11.
  Context {A : Type}.
  Variable cmp : A -> A -> Z.

  Lemma j_init32_big (a : list A) :
    Z.of_nat (length a) = 2147483650 -> j_init 32 (length a) = -2147483647.
  Proof. intros H. unfold j_init. rewrite H. reflexivity. Qed.

  (** reverse: the loop guard 0 < (int)(count - 1) is false, nothing is swapped *)
  Lemma reverse_v0_untouched (a : list A) :
    Z.of_nat (length a) = 2147483650 -> reverse_v0 a = Ok (a, []).
  Proof.
    intros H. unfold reverse_v0, reverse_gen. rewrite (j_init32_big a H).
    destruct (length a); reflexivity.
  Qed.

  (** search: the loop guard 0 <= (int)(count - 1) is false, -1 is returned
      without a single comparison, whatever the array holds *)
  Lemma search_v0_blind ex (a : list A) :
    Z.of_nat (length a) = 2147483650 -> search_v0 cmp ex a = Ok (-1, []).
  Proof.
    intros H. unfold search_v0, search_gen. rewrite (j_init32_big a H). reflexivity.
  Qed.

  (** search on 2^31 - 1 elements: count - 1 fits, the first midpoint is
      2^30 - 1; when the probe is greater the next midpoint is computed as
      (2^30 + 2^31 - 2) / 2 in int: signed overflow *)
  Lemma search_v0_midpoint_overflow ex x (a : list A) :
    Z.of_nat (length a) = 2147483647 ->
    nth_error a (Z.to_nat 1073741823) = Some x -> cmp ex x > 0 ->
    search_v0 cmp ex a = Ub.
  Proof.
    intros H Hx Hc. unfold search_v0, search_gen.
    assert (J : j_init 32 (length a) = 2147483646) by (unfold j_init; rewrite H; reflexivity).
    rewrite J.
    destruct (length a) as [|n] eqn:L; [discriminate|].
    cbn [search_loop].
    change (0 <=? 2147483646) with true. cbv iota.
    change (mid_v0 32 0 2147483646) with (Ok (X := Z) 1073741823).
    cbn [bind]. unfold zidx at 1. change (1073741823 <? 0) with false. cbv iota. cbn [bind].
    rewrite Hx.
    destruct (Z.eqb_spec (cmp ex x) 0); [lia|].
    destruct (Z.ltb_spec (cmp ex x) 0); [lia|].
    change (chk 32 (1073741823 + 1)) with (Ok (X := Z) 1073741824). cbn [bind].
    change (1073741824 <=? 2147483646) with true. cbv iota.
    change (mid_v0 32 1073741824 2147483646) with (Ub (X := Z)). reflexivity.
  Qed.
End F11.

(** F11 as refutations of the C11 clauses for the code as found: there is a
    count (representable, 2^31 + 2) such that for EVERY array of that many
    elements reverse performs no swap at all and search answers -1 for every
    probe without looking at a single element; and a count (2^31 - 1) for
    which search runs into undefined behaviour. *)
Theorem F11_reverse_int_index_refuted :
  exists count : Z, 2 <= count <= smax 64 /\
    forall (A : Type) (a : list A), Z.of_nat (length a) = count -> reverse_v0 a = Ok (a, []).
Proof.
  exists 2147483650. split; [split; [lia|discriminate]|].
  intros A a H. apply reverse_v0_untouched; auto.
Qed.

Theorem F11_search_int_index_refuted :
  exists count : Z, 2 <= count <= smax 64 /\
    forall (A : Type) (cmp : A -> A -> Z) (ex : A) (a : list A),
      Z.of_nat (length a) = count -> search_v0 cmp ex a = Ok (-1, []).
Proof.
  exists 2147483650. split; [split; [lia|discriminate]|].
  intros A cmp ex a H. apply search_v0_blind; auto.
Qed.

Theorem F11_search_midpoint_refuted :
  exists count mid : Z, 2 <= count <= smax 32 /\
    forall (A : Type) (cmp : A -> A -> Z) (ex x : A) (a : list A),
      Z.of_nat (length a) = count -> nth_error a (Z.to_nat mid) = Some x -> cmp ex x > 0 ->
      search_v0 cmp ex a = Ub.
Proof.
  exists 2147483647, 1073741823. split; [split; [lia|discriminate]|].
  intros A cmp ex x a H Hx Hc. eapply search_v0_midpoint_overflow; eauto.
Qed.

(** the same index arithmetic with the repaired width is the identity *)
Example j_init64_ok : cast 64 ((2147483650 - 1) mod 2 ^ 64) = 2147483649.
Proof. reflexivity. Qed.
