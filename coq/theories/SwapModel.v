(** Byte-level executable model of cstl_swap (include/cstl/common.h) and of
    the memory the raw-array code of src/array.c hands to it (C11).

    Memory is a [list B] of bytes, laid out as

        [ array: count * sz bytes ][ scratch: sz bytes ]

    ([B] is the type of a byte; nothing below inspects a byte, it is only
    copied, so the type is left open: the runner uses integers 0..255, the
    examples of Properties_C11.v use [N]).  Addresses are offsets into that
    list, as [nat]: the address of element [i] is [at_off sz i = i * sz]
    (__cstl_raw_array_at: arr + at * size; the wrap of the size_t product is
    not modelled), the scratch element [t] is at [count * sz].  Every byte
    access is *checked*: an offset outside the list is [Ub], so a run that
    returns [Ok] has touched no byte outside [0, (count + 1) * sz).

    [memcpy] copies byte by byte and is [Ub] when a range leaves the memory
    or when the two ranges overlap (C11 7.24.2.1: undefined).

    A typed access [*(T * )p] of width w = sizeof(T) reads / writes the w
    bytes at offset p; the assignment [*(T * )d = *(T * )s] is [Ub] when the
    two objects overlap without being the same object (C11 6.5.16.1p3).
    NOT modelled: alignment of p for T, the effective-type (strict
    aliasing) rule, the representation of a uintN_t value (no padding bits,
    so reading and writing back the w bytes is the identity - as on every
    platform that provides uintN_t).

    [bytes_swap] transcribes the switch of cstl_swap: the cases 1, 2, 4, 8
    are the three typed assignments of EXCH, the default case the three
    memcpy calls.  [replay] applies [bytes_swap] for every [ESwap i j] of an
    element-level callback log (SortModel.v) and ignores the other events;
    [replay_elems] is the same replay at element level (SortModel.swap). *)
From Cstl Require Import Prelude SortModel.

Section Bytes.
  Context {B : Type}.

  (** one byte read / written at offset [a] *)
  Definition rd (m : list B) (a : nat) : res B :=
    match nth_error m a with Some b => Ok b | None => Ub end.
  Definition wr (m : list B) (a : nat) (b : B) : res (list B) :=
    if a <? length m then Ok (upd m a b) else Ub.

  Definition in_range (m : list B) (off n : nat) : bool := off + n <=? length m.
  Definition disjoint (a b n : nat) : bool := (a + n <=? b) || (b + n <=? a).

  (** the copy loop of memcpy: *dst++ = *src++, n times *)
  Fixpoint copy_bytes (m : list B) (dst src n : nat) : res (list B) :=
    match n with
    | O => Ok m
    | S n' =>
      b <- rd m src ;;
      m' <- wr m dst b ;;
      copy_bytes m' (S dst) (S src) n'
    end.

  (** memcpy(dst, src, n) *)
  Definition memcpy (m : list B) (dst src n : nat) : res (list B) :=
    if in_range m dst n && in_range m src n && disjoint dst src n
    then copy_bytes m dst src n else Ub.

  (** value of the object of width [w] at [off] = its w bytes *)
  Fixpoint load (m : list B) (off w : nat) : res (list B) :=
    match w with
    | O => Ok []
    | S w' => b <- rd m off ;; r <- load m (S off) w' ;; Ok (b :: r)
    end.
  Fixpoint store (m : list B) (off : nat) (v : list B) : res (list B) :=
    match v with
    | [] => Ok m
    | b :: r => m' <- wr m off b ;; store m' (S off) r
    end.

  (** *(T * )dst = *(T * )src with sizeof(T) = w *)
  Definition assign (m : list B) (dst src w : nat) : res (list B) :=
    if (dst =? src) || disjoint dst src w then
      v <- load m src w ;; store m dst v
    else Ub.

  (** EXCH(T, x, y, t) *)
  Definition exch (m : list B) (x y t w : nat) : res (list B) :=
    m1 <- assign m t x w ;;
    m2 <- assign m1 x y w ;;
    assign m2 y t w.

  (** cstl_swap(x, y, t, sz) *)
  Definition bytes_swap (m : list B) (x y t sz : nat) : res (list B) :=
    if sz =? 1 then exch m x y t 1            (* case sizeof(uint8_t)  *)
    else if sz =? 2 then exch m x y t 2       (* case sizeof(uint16_t) *)
    else if sz =? 4 then exch m x y t 4       (* case sizeof(uint32_t) *)
    else if sz =? 8 then exch m x y t 8       (* case sizeof(uint64_t) *)
    else                                      (* default *)
      m1 <- memcpy m t x sz ;;
      m2 <- memcpy m1 x y sz ;;
      memcpy m2 y t sz.

  (** __cstl_raw_array_at(arr, size, at), relative to arr *)
  Definition at_off (sz i : nat) : nat := i * sz.

  (** the swap callbacks of an element-level log, executed on the bytes:
      swap(at(i), at(j), t, size) with t behind the last element *)
  Fixpoint replay (sz count : nat) (m : list B) (l : list ev) : res (list B) :=
    match l with
    | [] => Ok m
    | ESwap i j :: r =>
      m' <- bytes_swap m (at_off sz i) (at_off sz j) (at_off sz count) sz ;;
      replay sz count m' r
    | _ :: r => replay sz count m r
    end.

  (** memory image of an array of elements (each a list of sz bytes)
      followed by the scratch element *)
  Definition image (chunks : list (list B)) (scratch : list B) : list B :=
    concat chunks ++ scratch.

  (** inverse of [image] for a memory of (count + 1) * sz bytes *)
  Fixpoint chop (sz count : nat) (m : list B) : list (list B) :=
    match count with
    | O => []
    | S c => firstn sz m :: chop sz c (skipn sz m)
    end.
End Bytes.

(** the same replay at element level *)
Section Elems.
  Context {A : Type}.
  Fixpoint replay_elems (a : list A) (l : list ev) : res (list A) :=
    match l with
    | [] => Ok a
    | ESwap i j :: r => a' <- swap a i j ;; replay_elems a' r
    | _ :: r => replay_elems a r
    end.
End Elems.
