(** C04 -- hash enumeration and clear reach every element exactly once, even
    mid-rehash.  Statements only; proofs are in HashTable.v / HashSys.v.
    Same model and conventions as Properties_C03.v.  The visit function of a
    script answers [stop] at its [stop]-th call ([0]: never); in "erase mode"
    it additionally erases the visited element from the table and frees it
    (the model then treats the node as poisoned: any later read is a fault).
    The code as found violates the first and the third theorem: see
    FindingsHash.v (F2, F3). *)
From Cstl Require Import Prelude AllocModel HashModel HashProofs HashInv HashOps HashTable HashSys.
Local Open Scope N_scope.

Section C04.
  Variable hf : fn_id -> N -> N -> option N.
  Variable key : nat -> N.
  Variable ok : nat -> N -> bool.
  Hypothesis Hdef : hf_def hf.

  Notation exec := (exec hf key fixed ok).
  Notation sys_inv := (sys_inv hf key).

  (** 1. foreach_const, at any moment (in particular with a grow or shrink
      rehash pending): the visit function is called on the elements of an
      enumeration [order] of the live elements (a permutation: each exactly
      once), in order, up to the first non-zero answer, which is returned;
      the table is not touched *)
  Theorem C04_foreach_const_visits s i t stop :
    sys_inv s -> nth_error (tabs s) i = Some t ->
    exists res w order,
      exec s (ForeachConst i stop) = XDone s [res] w /\
      Permutation order (live t) /\ NoDup order /\
      visits w = fst (visit_upto stop order) /\ res = snd (visit_upto stop order).
  Proof.
    intros SI Et. pose proof (exec_refines hf key ok Hdef s (ForeachConst i stop) SI) as H.
    unfold outcome_ok in H. cbn [HashModel.exec] in *. unfold with_tab in *. rewrite Et in *.
    pose proof (inv_nodup _ _ t (proj1 (Forall_nth _ _ _ _ (proj1 SI) Et))) as Nd.
    rewrite (foreach_const_spec hf key t stop (proj1 (Forall_nth _ _ _ _ (proj1 SI) Et))) in *.
    cbn [lift fst snd] in *. rewrite upd_same_tab in * by auto.
    exists (snd (visit_upto stop (live t))), (walk_events (fst (visit_upto stop (live t)))), (live t).
    rewrite visits_walk_events. auto.
  Qed.

  (** ... in particular a visit function that never stops sees every live
      element exactly once and 0 is returned *)
  Theorem C04_foreach_const_all s i t :
    sys_inv s -> nth_error (tabs s) i = Some t ->
    exists w, exec s (ForeachConst i 0) = XDone s [0%Z] w /\
              Permutation (visits w) (live t) /\ NoDup (visits w).
  Proof.
    intros SI Et. destruct (C04_foreach_const_visits s i t 0 SI Et) as (res & w & order & E & P & Nd & V & R).
    simpl in V, R. subst res. exists w. rewrite V. auto.
  Qed.

  (** 2. foreach (forces the pending rehash first): same enumeration
      property; without erasing the bag is kept; when the visit function
      erases and frees each visited element, exactly the visited elements are
      gone afterwards -- and nothing faults although the freed nodes are
      poisoned *)
  Theorem C04_foreach_visits s i t er stop :
    in_range hf -> sys_inv s -> nth_error (tabs s) i = Some t ->
    exists s' t' res w order,
      exec s (Foreach i er stop) = XDone s' [res] w /\ sys_inv s' /\
      nth_error (tabs s') i = Some t' /\
      Permutation order (live t) /\ NoDup order /\
      visits w = fst (visit_upto stop order) /\ res = snd (visit_upto stop order) /\
      (if er then
         (forall x, In x (live t') <-> In x (live t) /\ ~ In x (visits w)) /\
         size t' + N.of_nat (length (visits w)) = size t
       else Permutation (live t') (live t) /\ size t' = size t).
  Proof.
    intros R SI Et. pose proof (exec_refines hf key ok Hdef s (Foreach i er stop) SI) as H.
    unfold outcome_ok in H. destruct (exec s (Foreach i er stop)) as [s' r w| | |] eqn:E.
    - destruct H as (SI' & t0 & t' & res & E0 & Eu & _ & -> & _ & _ & _ & (order & Po & V & Rs) & _ & _ & _ & Ef).
      rewrite Et in E0. injection E0 as <-. exists s', t', res, w, order. split; auto. split; auto.
      split; [rewrite Eu; apply nth_error_upd_same; eapply nth_error_some_lt; eauto|].
      split; auto. split; auto.
      eapply Permutation_NoDup; [symmetry; exact Po|].
      apply (inv_nodup _ _ t (proj1 (Forall_nth _ _ _ _ (proj1 SI) Et))).
    - contradiction.
    - contradiction.
    - exfalso. cbn [HashModel.exec] in E. unfold with_tab in E. rewrite Et in E. unfold lift in E.
      destruct (foreach hf key fixed t er stop); simpl in E; discriminate.
  Qed.

  (** 3. every walk (foreach, foreach_const, clear) reads the successor link
      of a node before it hands the node to the callback, and never touches
      it afterwards -- for any hash functions *)
  Theorem C04_reads_successor_first s o s' r w :
    sys_inv s -> exec s o = XDone s' r w ->
    match o with
    | Foreach _ _ _ | ForeachConst _ _ | Clear _ _ => reads_before_calls w
    | _ => True
    end.
  Proof.
    intros SI E. pose proof (exec_refines hf key ok Hdef s o SI) as H. unfold outcome_ok in H.
    rewrite E in H. destruct H as (_ & P). destruct o; auto; simpl in P.
    - destruct P as (t0 & t' & res & _ & _ & _ & _ & _ & _ & _ & _ & _ & _ & Ord & _).
      eapply order_ok_reads; eauto.
    - destruct P as (t0 & res & _ & _ & _ & _ & _ & _ & Ord & _). eapply order_ok_reads; eauto.
    - destruct P as (t0 & t' & _ & _ & _ & _ & _ & _ & _ & _ & _ & _ & _ & _ & _ & _ & Ord).
      eapply order_ok_reads; eauto.
  Qed.

  (** 4. clear, at any moment: the callback log is exactly the sequence of
      live elements (each once), the bucket array is freed, and the object is
      as initialised *)
  Theorem C04_clear_exact s i t cb :
    sys_inv s -> nth_error (tabs s) i = Some t ->
    exists s' t' w,
      exec s (Clear i cb) = XDone s' [] w /\ sys_inv s' /\ nth_error (tabs s') i = Some t' /\
      al s' = free (al s) (at_blk t) /\
      (cb = true -> Permutation (clears w) (live t) /\ NoDup (clears w)) /\
      (cb = false -> clears w = []) /\
      live t' = [] /\ size t' = 0 /\ hash t' = None /\ rhash t' = None /\ at_blk t' = None /\
      bcount t' = 0 /\ cap t' = 0.
  Proof.
    intros SI Et. pose proof (exec_refines hf key ok Hdef s (Clear i cb) SI) as H.
    unfold outcome_ok in H. destruct (exec s (Clear i cb)) as [s' r w| | |] eqn:E;
      cbn [HashModel.exec] in E; unfold with_tab in E; rewrite Et in E;
      rewrite (clear_spec hf key t (al s) cb (Forall_nth _ _ _ _ (proj1 SI) Et)) in E;
      cbn [lift fst snd] in E; try discriminate.
    destruct H as (SI' & t0 & t' & E0 & Eu & Ea & -> & L & Z & Hh & Hr & Ha & Hc & Hp & Cl & _).
    rewrite Et in E0. injection E0 as <-. exists s', t', w. split; auto. split; auto.
    split; [rewrite Eu; apply nth_error_upd_same; eapply nth_error_some_lt; eauto|].
    split; auto.
    pose proof (inv_nodup _ _ t (proj1 (Forall_nth _ _ _ _ (proj1 SI) Et))) as Nd.
    split; [intros ->; rewrite Cl; auto|]. split; [intros ->; auto|]. auto 10.
  Qed.

  (** 5. reusability: clear followed by a satisfiable resize gives an empty
      table with [n] buckets and the requested function, no rehash pending,
      satisfying the invariant -- i.e. a state to which every theorem of
      Properties_C03/C04/C19 applies again *)
  Theorem C04_clear_then_resize_fresh s i t cb n f :
    in_range hf -> sys_inv s -> nth_error (tabs s) i = Some t -> 0 < n -> n <= MAX_BUCKETS ->
    exists s1 w1, exec s (Clear i cb) = XDone s1 [] w1 /\
    exists s2 t2 r2 w2, exec s1 (Resize i n f) = XDone s2 r2 w2 /\ sys_inv s2 /\
      nth_error (tabs s2) i = Some t2 /\ live t2 = [] /\ size t2 = 0 /\
      (n <= cap t2 ->
         rhash t2 = None /\ bcount t2 = n /\
         hash t2 = Some (match f with Some g => g | None => FN_MUL end)).
  Proof.
    intros R SI Et Hn Hm.
    destruct (C04_clear_exact s i t cb SI Et) as (s1 & t1 & w1 & E1 & SI1 & Et1 & _ & _ & _ & L1 & Z1 & Hh1 & Hr1 & _).
    exists s1, w1. split; auto.
    pose proof (exec_refines hf key ok Hdef s1 (Resize i n f) SI1) as H. unfold outcome_ok in H.
    destruct (exec s1 (Resize i n f)) as [s2 r2 w2| | |] eqn:E2.
    - destruct H as (SI2 & t0 & t2 & E0 & Eu & Pl & Z & _ & Land & _ & _ & _ & _ & _ & First).
      rewrite Et1 in E0. injection E0 as <-. exists s2, t2, r2, w2. split; auto. split; auto.
      split; [rewrite Eu; apply nth_error_upd_same; eapply nth_error_some_lt; eauto|].
      rewrite L1 in Pl. apply Permutation_sym, Permutation_nil in Pl. split; auto. split; [congruence|].
      intros Hc. destruct (Land Hn Hc) as (TC & TH). specialize (First Hh1).
      unfold tgt_count, tgt_hash in TC, TH. rewrite First in TC, TH. split; auto. split; auto.
      rewrite TH. unfold new_hash, tgt_hash. rewrite Hr1, Hh1. destruct f; auto.
    - contradiction.
    - contradiction.
    - exfalso. cbn [HashModel.exec] in E2. unfold with_tab in E2. rewrite Et1 in E2.
      destruct (N.ltb_spec MAX_BUCKETS n); [lia|]. unfold lift in E2.
      destruct (resize hf key fixed ok t1 (al s1) n f); simpl in E2; discriminate.
  Qed.
End C04.

(** Non-vacuity: with a grow 3 -> 5 pending and elements already relocated
    into the added buckets (the situation of F2), foreach_const and clear
    reach all four elements; foreach in erase mode empties the table. *)
Example C04_example_pending_grow :
  let key := fun e => nth e [0; 0; 1; 2] 0 in
  let hf := script_hf (fun _ _ => 0) in
  let pre := [Resize 0 3 (Some 1%nat); Insert 0 0; Insert 0 1; Insert 0 2; Insert 0 3;
              Resize 0 5 (Some 2%nat); Find 0 1 None] in
  match fst (run (step hf key fixed (fun _ _ => true)) (sys_init 1) pre) with
  | Done s _ =>
    option_map (fun t => (rhash t, bcount t, rcount t)) (nth_error (tabs s) 0) = Some (Some 2%nat, 3, 5) /\
    (match exec hf key fixed (fun _ _ => true) s (ForeachConst 0 0) with
     | XDone _ r w => r = [0%Z] /\ visits w = [0; 1; 3; 2]%nat
     | _ => False end) /\
    (match exec hf key fixed (fun _ _ => true) s (Clear 0 true) with
     | XDone _ _ w => clears w = [0; 1; 3; 2]%nat
     | _ => False end) /\
    (match exec hf key fixed (fun _ _ => true) s (Foreach 0 true 0) with
     | XDone s' _ w => map live (tabs s') = [[]] /\ length (visits w) = 4%nat
     | _ => False end)
  | _ => False
  end.
Proof. vm_compute. repeat split; reflexivity. Qed.

Print Assumptions C04_foreach_const_visits.
Print Assumptions C04_foreach_const_all.
Print Assumptions C04_foreach_visits.
Print Assumptions C04_reads_successor_first.
Print Assumptions C04_clear_exact.
Print Assumptions C04_clear_then_resize_fresh.
