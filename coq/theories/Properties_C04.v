(** C04 -- placeholder, replaced below *)
From Cstl Require Import Prelude AllocModel HashModel.
Theorem C04_placeholder : live t_init = [].
Proof. reflexivity. Qed.
Print Assumptions C04_placeholder.
