(** Refutations for the array views of src/array.c *as found* (before
    fixes/F6 and fixes/F7): the faithful pre-fix model ([v0 = true]) does not
    satisfy C14; each witness is computed by the kernel. *)
From Cstl Require Import Prelude AllocModel MemModel ArrayViewModel.
Local Open Scope N_scope.

Definition all_ok : nat -> N -> bool := fun _ _ => true.
Definition arr2 : st := st_init [KA; KA] [40].

Definition final (ops : list op) (ok : nat -> N -> bool) : option st :=
  match fst (run (step ok true) arr2 ops) with Done s _ => Some s | _ => None end.

(** F6a: cstl_array_alloc on an object that is a slice keeps the offset:
    element 4 of a fresh 5-element array lies outside its 44-byte block. *)
Theorem F6_alloc_keeps_offset_refuted :
  exists ops, fst (run (step all_ok true) arr2 (ops ++ [OA (VAt 0 4)])) = Fault /\
              match final ops all_ok with Some s => off_at s 0 = 2 /\ len_at s 0 = 5 | None => False end.
Proof.
  exists [OA (VAlloc 0 5 4); OA (VSlice 0 2 4 0); OA (VAlloc 0 5 4)]. vm_compute. auto.
Qed.

(** F6b: a failed allocation leaves the old length in an empty object. *)
Theorem F6_failed_alloc_keeps_len_refuted :
  exists ops ok, match match fst (run (step ok true) arr2 ops) with Done s _ => Some s | _ => None end with
                 | Some s => ptr_at s 0 = None /\ len_at s 0 = 3
                 | None => False
                 end.
Proof.
  exists [OA (VAlloc 0 3 4); OA (VAlloc 0 7 4)], (fun o _ => Nat.ltb o 2). vm_compute. auto.
Qed.

(** F6c: 2^62+1 elements of 4 bytes: the byte count wraps to 28, the object
    reports 2^62+1 elements over a 28-byte block. *)
Theorem F6_size_overflow_refuted :
  exists nm, match final [OA (VAlloc 0 nm 4)] all_ok with
             | Some s => len_at s 0 = nm /\ live (al s) = [(1%nat, 28); (0%nat, 56)] /\ 28 < nm * 4
             | None => False
             end.
Proof. exists 4611686018427387905. vm_compute. auto. Qed.

(** F6d: SIZE_MAX elements of 1 byte: the byte count wraps to 23, less than
    the header that is then written into the block. *)
Theorem F6_header_overflow_refuted :
  exists nm, fst (run (step all_ok true) arr2 [OA (VAlloc 0 nm 1)]) = Fault.
Proof. exists 18446744073709551615. vm_compute. reflexivity. Qed.

(** F7: slice(0, SIZE_MAX-2) of a view at offset 5 is accepted because
    off + end wraps. *)
Theorem F7_slice_bound_wraps_refuted :
  exists e, match final [OA (VAlloc 0 10 4); OA (VSlice 0 5 10 0); OA (VSlice 0 0 e 0)] all_ok with
            | Some s => off_at s 0 = 5 /\ len_at s 0 = e /\ 10 < 5 + e
            | None => False
            end.
Proof. exists 18446744073709551613. vm_compute. auto. Qed.

(** the repaired functions ([v0 = false]) reject the same inputs *)
Example F6_F7_repaired :
  fst (run (step all_ok false) arr2 [OA (VAlloc 0 10 4); OA (VSlice 0 5 10 0); OA (VSlice 0 0 18446744073709551613 0)]) = Abort /\
  match fst (run (step all_ok false) arr2 [OA (VAlloc 0 5 4); OA (VSlice 0 2 4 0); OA (VAlloc 0 5 4)]) with
  | Done s _ => off_at s 0 = 0 /\ len_at s 0 = 5 | _ => False end /\
  match fst (run (step all_ok false) arr2 [OA (VAlloc 0 4611686018427387905 4)]) with
  | Done s _ => len_at s 0 = 0 /\ live (al s) = [] | _ => False end.
Proof. vm_compute. auto. Qed.
