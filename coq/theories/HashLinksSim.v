(** Pointer-level model of the hash table, part 4: capacity changes, swap,
    the representation relation [srel] of the scripted system (tables + one
    node memory + allocator), the forward simulation of every operation
    ([lexec_sim]), its lifting to runs from the initial state ([lrun_sim],
    [lreach_sim]) and the consequences for reachable pointer-level states. *)
From Cstl Require Import Prelude AllocModel HashModel HashProofs HashInv HashOps HashTable HashSys
  HashLinksModel HashLinksProofs HashLinksOps HashLinksWalk.
Local Open Scope N_scope.

(** * Scalar observers read through [skel] *)
Lemma skel_tgt_count m t lt : trel m t lt -> tgt_count (skel lt) = tgt_count t.
Proof. intros H. unfold tgt_count. simpl. now trel_rw H. Qed.

Lemma skel_tgt_hash m t lt : trel m t lt -> tgt_hash (skel lt) = tgt_hash t.
Proof. intros H. unfold tgt_hash. simpl. now trel_rw H. Qed.

Lemma skel_changed m t lt m' t' lt' :
  trel m t lt -> trel m' t' lt' -> changed (skel lt) (skel lt') = changed t t'.
Proof. intros H H'. unfold changed, geom_eqb. simpl. trel_rw H. trel_rw H'. reflexivity. Qed.

Lemma skel_load m t lt : trel m t lt -> load (skel lt) = load t.
Proof. intros H. unfold load, tgt_count. simpl. now trel_rw H. Qed.

(** * Capacity changes *)
Lemma lv_firstn_incl bs n : incl (lv (firstn n bs)) (lv bs).
Proof.
  intros x Hx. rewrite <- (firstn_skipn n bs), lv_app. apply in_or_app. now left.
Qed.

Lemma good_resize_list t sz at' c :
  good t ->
  let t' := mkT at' (resize_list (bks t) sz) (bcount t) c (hash t) (cst t) (rcount t) (rclean t) (rhash t) (size t) in
  good t' /\ incl (live t') (live t).
Proof.
  intros (Nd & Sz). cbn zeta.
  assert (E : lv (resize_list (bks t) sz) = lv (firstn sz (bks t))).
  { unfold resize_list. now rewrite lv_app, lv_repeat_junk, app_nil_r. }
  assert (El : live t = lv (firstn sz (bks t)) ++ lv (skipn sz (bks t))).
  { rewrite live_lv, <- lv_app, firstn_skipn. reflexivity. }
  unfold good. rewrite !live_lv. simpl. rewrite E. split; [split|].
  - rewrite El in Nd. eapply NoDup_app_l; eauto.
  - rewrite El, app_length in Sz. lia.
  - rewrite <- live_lv. apply lv_firstn_incl.
Qed.

Section Cap.
  Variable hf : fn_id -> N -> N -> option N.
  Variable key : nat -> N.
  Variable ok : nat -> N -> bool.

  Lemma l_set_capacity_rel m t lt a sz :
    trel m t lt -> good t ->
    snd (l_set_capacity ok lt a sz) = snd (set_capacity ok t a sz) /\
    trel m (fst (set_capacity ok t a sz)) (fst (l_set_capacity ok lt a sz)) /\
    good (fst (set_capacity ok t a sz)) /\ incl (live (fst (set_capacity ok t a sz))) (live t).
  Proof.
    intros H G. unfold set_capacity, l_set_capacity. trel_rw H.
    destruct (realloc ok a (at_blk t) (BUCKET_BYTES * sz)) as [a' [b|]]; cbn [fst snd].
    - split; [reflexivity|]. split.
      + destruct H. split; simpl; auto.
        unfold resize_list, lresize_list. apply Forall2_app; [apply Forall2_firstn; auto|].
        rewrite (Forall2_len _ _ _ tr_bks). apply Forall2_repeat. split; reflexivity.
      + apply (good_resize_list t (N.to_nat sz) (Some b) sz G).
    - split; [reflexivity|]. split; [exact H|]. split; [exact G|apply incl_refl].
  Qed.

  Lemma l_init_loop_rel m fuel : forall i c bs lbs,
    Forall2 (brel m) bs lbs ->
    match init_loop fuel i c bs with
    | Some bs' => exists lbs', l_init_loop fuel i c lbs = Some lbs' /\ Forall2 (brel m) bs' lbs'
    | None => l_init_loop fuel i c lbs = None
    end.
  Proof.
    induction fuel as [|fu IH]; intros i c bs lbs H; cbn [init_loop l_init_loop]; [eauto|].
    rewrite <- (Forall2_len _ _ _ H). destruct (Nat.ltb i (length bs)); [|reflexivity].
    apply IH. apply Forall2_upd; auto. split; reflexivity.
  Qed.

  Lemma live_init_loop fuel : forall i c bs bs',
    init_loop fuel i c bs = Some bs' -> incl (lv bs') (lv bs).
  Proof.
    induction fuel as [|fu IH]; intros i c bs bs' E; cbn [init_loop] in E.
    - injection E as <-. apply incl_refl.
    - destruct (Nat.ltb_spec i (length bs)) as [Hl|]; [|discriminate].
      apply IH in E. intros x Hx. apply E in Hx.
      destruct (nth_error_lt bs i Hl) as (b & Hb).
      destruct (lv_upd bs i b (mkB [] c) Hb) as (l1 & l2 & E1 & E2). rewrite E2 in Hx. rewrite E1.
      simpl in Hx. apply in_app_or in Hx. apply in_or_app. destruct Hx; [left|right; apply in_or_app; right]; auto.
  Qed.

  (** what an operation on one table leaves, with the allocator *)
  Definition apost (m : mem) (t : table) (p : table * alloc) (q : mem * ltable * alloc) : Prop :=
    snd q = snd p /\ trel (fst (fst q)) (fst p) (snd (fst q)) /\ frame (live t) m (fst (fst q)).

  (** ** cstl_hash_resize *)
  Lemma l_resize_sim m t lt a n f :
    trel m t lt -> good t ->
    sim (apost m t) (resize hf key fixed ok t a n f) (l_resize hf key ok m lt a n f).
  Proof.
    intros H G. unfold resize, l_resize. cbn [pre_f4 fixed].
    destruct (0 <? n); [|apply sim_ok; split; [reflexivity|split; [exact H|apply frame_refl]]].
    trel_rw H.
    assert (X : exists t1 lt1 a1,
      (if cap t <? n then set_capacity ok t a n else (t, a)) = (t1, a1) /\
      (if cap t <? n then l_set_capacity ok lt a n else (lt, a)) = (lt1, a1) /\
      trel m t1 lt1 /\ good t1 /\ incl (live t1) (live t)).
    { destruct (cap t <? n).
      - destruct (l_set_capacity_rel m t lt a n H G) as (Ea & H1 & G1 & I1).
        destruct (set_capacity ok t a n) as [t1 a1]. destruct (l_set_capacity ok lt a n) as [lt1 la1].
        cbn [fst snd] in *. subst la1. eauto 10.
      - exists t, lt, a. split; [reflexivity|]. split; [reflexivity|]. split; [exact H|].
        split; [exact G|apply incl_refl]. }
    destruct X as (t1 & lt1 & a1 & -> & -> & H1 & G1 & I1).
    rewrite (skel_tgt_count _ _ _ H1), (skel_tgt_hash _ _ _ H1). trel_rw H1.
    destruct (is_some (at_blk t1) && (n <=? cap t1) &&
              (negb (n =? tgt_count t1) || is_some f && negb (fopt_eqb f (tgt_hash t1)))).
    2: { apply sim_ok. split; [reflexivity|]. split; [exact H1|apply frame_refl]. }
    eapply sim_bind; [apply l_rehash_sim; eauto|].
    intros t2 [m2 lt2] (H2 & F2 & K2). cbn [fst snd] in H2, F2. trel_rw H2.
    pose proof (l_init_loop_rel m2 (N.to_nat n - N.to_nat (bcount t2)) (N.to_nat (bcount t2)) (negb (cst t2))
                                (bks t2) (lbks lt2) (tr_bks _ _ _ H2)) as L.
    destruct (init_loop _ _ _ (bks t2)) as [bs|]; [|exact I].
    destruct L as (lbs & -> & Hbs).
    assert (F : frame (live t) m m2) by (eapply frame_mono; [exact I1|exact F2]).
    destruct (hash t2); apply sim_ok; (split; [reflexivity|]); (split; [|exact F]);
      destruct H2; split; simpl; auto.
  Qed.

  (** ** cstl_hash_shrink_to_fit *)
  Lemma l_shrink_sim m t lt a :
    trel m t lt -> good t ->
    sim (apost m t) (shrink_to_fit hf key ok t a) (l_shrink_to_fit hf key ok m lt a).
  Proof.
    intros H G. unfold shrink_to_fit, l_shrink_to_fit.
    rewrite (skel_tgt_count _ _ _ H). trel_rw H.
    destruct (tgt_count t <? cap t); [|apply sim_ok; split; [reflexivity|split; [exact H|apply frame_refl]]].
    eapply sim_bind; [apply l_rehash_sim; eauto|].
    intros t1 [m1 lt1] (H1 & F1 & K1). cbn [fst snd] in H1, F1. trel_rw H1.
    destruct (l_set_capacity_rel m1 t1 lt1 a (bcount t1) H1 (good_keepl _ _ G K1)) as (Ea & H2 & _ & _).
    destruct (set_capacity ok t1 a (bcount t1)) as [t2 a2].
    destruct (l_set_capacity ok lt1 a (bcount t1)) as [lt2 la2]. cbn [fst snd] in *. subst la2.
    apply sim_ok. split; [reflexivity|]. split; [exact H2|exact F1].
  Qed.
End Cap.

(** * The scripted system *)

(** allocator states equal; every table related to its pointer-level
    counterpart through the one node memory *)
Definition srel (s : sys) (ls : lsys) : Prop :=
  lal ls = al s /\ Forall2 (trel (lmem ls)) (tabs s) (ltabs ls).

Lemma srel_init n : srel (sys_init n) (lsys_init n).
Proof. split; [reflexivity|]. simpl. apply Forall2_repeat. apply trel_init. Qed.

Lemma tabs_frame T m m' ts lts :
  frame T m m' -> (forall x, In x (lives ts) -> ~ In x T) -> Forall2 (trel m) ts lts -> Forall2 (trel m') ts lts.
Proof.
  intros F D H. induction H as [|t lt ts lts Ht H IH]; constructor.
  - eapply trel_frame; eauto. intros x Hx. apply D. unfold lives. simpl. apply in_or_app. now left.
  - apply IH. intros x Hx. apply D. unfold lives. simpl. apply in_or_app. now right.
Qed.

(** replacing table [i] after an operation that wrote only cells of its own
    nodes or of nodes linked nowhere *)
Lemma srel_upd T s ls i t t' lt' m' a' :
  srel s ls -> NoDup (lives (tabs s)) -> nth_error (tabs s) i = Some t ->
  frame T (lmem ls) m' -> (forall x, In x T -> In x (live t) \/ ~ In x (lives (tabs s))) ->
  trel m' t' lt' ->
  srel (mkSys (upd (tabs s) i t') a') (mkLSys (upd (ltabs ls) i lt') m' a').
Proof.
  intros (Ea & H) Nd Ht F HT H'. split; [reflexivity|]. cbn [tabs ltabs lmem].
  destruct (nth_error_split _ _ _ Ht) as (l1 & l2 & E & <-). rewrite E in *.
  destruct (Forall2_app_inv_l' _ _ _ _ H) as (k1 & k2 & -> & H1 & H2 & Hl).
  inversion H2 as [|? lt0 ? k2' Ht0 H2']; subst.
  rewrite upd_app. rewrite <- Hl. rewrite upd_app.
  rewrite lives_app in Nd. unfold lives in Nd at 2. simpl in Nd. fold (lives l2) in Nd.
  apply Forall2_app; [|constructor; auto].
  - eapply tabs_frame; [exact F| |exact H1].
    intros x Hx Hc. destruct (HT x Hc) as [Hl'|Hn].
    + eapply (NoDup_app_disj (lives l1) (live t ++ lives l2) x); eauto. apply in_or_app. now left.
    + apply Hn. rewrite lives_app. apply in_or_app. now left.
  - eapply tabs_frame; [exact F| |exact H2'].
    intros x Hx Hc. destruct (HT x Hc) as [Hl'|Hn].
    + apply NoDup_app_r in Nd. eapply (NoDup_app_disj (live t) (lives l2) x); eauto.
    + apply Hn. rewrite lives_app. apply in_or_app. right. unfold lives. simpl. apply in_or_app. now right.
Qed.

(** ** "is the element linked anywhere": the bounded walks find what the lists hold *)
Lemma l_reach_spec m e l : forall fuel h,
  spells m h l -> (length l <= fuel)%nat -> l_reach fuel m e h = existsb (Nat.eqb e) l.
Proof.
  induction l as [|x r IH]; intros fuel h Hs Hf.
  - apply spells_nil in Hs. subst. destruct fuel; reflexivity.
  - destruct Hs as (-> & nn & Hr & Hs). destruct fuel as [|fu]; [simpl in Hf; lia|].
    cbn [l_reach existsb]. rewrite Hr. f_equal. apply IH; auto. simpl in Hf. lia.
Qed.

Lemma existsb_lv e bs : existsb (Nat.eqb e) (lv bs) = existsb (fun b => existsb (Nat.eqb e) (chain b)) bs.
Proof.
  induction bs as [|b bs IH]; [reflexivity|]. rewrite lv_cons, existsb_app. simpl. now rewrite IH.
Qed.

Lemma l_linked_spec m t lt e : trel m t lt -> good t -> l_linked m lt e = existsb (Nat.eqb e) (live t).
Proof.
  intros H G. unfold l_linked. rewrite live_lv, existsb_lv.
  assert (Hc : forall i b, nth_error (bks t) i = Some b -> (length (chain b) <= lfuel lt)%nat).
  { intros i b Hb. rewrite (lfuel_trel _ _ _ H). pose proof (chain_length_good t i b G Hb). lia. }
  pose proof (tr_bks _ _ _ H) as F. revert Hc. generalize (lfuel lt) as fuel.
  induction F as [|b lb bs lbs (Hbit & Hsp) F IH]; intros fuel Hc; [reflexivity|].
  simpl. rewrite (l_reach_spec m e (chain b) fuel (hd lb) Hsp (Hc 0%nat b eq_refl)). f_equal.
  apply IH. intros i b' Hb'. apply (Hc (S i) b' Hb').
Qed.

Lemma l_in_any_spec s ls e :
  srel s ls -> Forall good (tabs s) -> l_in_any ls e = in_any s e.
Proof.
  intros (_ & H) G. unfold l_in_any, in_any. induction H as [|t lt ts lts Ht H IH]; [reflexivity|].
  inversion G as [|? ? Gt Gr]; subst. simpl. rewrite (l_linked_spec _ _ _ e Ht Gt). f_equal. auto.
Qed.

(** * One operation *)

(** the outcome of the pointer-level call against the functional one *)
Definition xsim (x : xres) (lx : lxres) : Prop :=
  match x with
  | XDone s' r w => exists ls', lx = LDone ls' r w /\ srel s' ls'
  | XAbort => lx = LAbort
  | XFault => True
  | XPrecond => lx = LPrecond
  end.

Lemma lift_sim {A B} (R : A -> B -> Prop) s ls i (r : res A) (lr : res B) k lk :
  sim R r lr ->
  (forall a b, R a b ->
     snd (lk b) = snd (k a) /\
     srel (mkSys (upd (tabs s) i (fst (fst (k a)))) (snd (fst (k a))))
          (mkLSys (upd (ltabs ls) i (snd (fst (fst (lk b))))) (fst (fst (fst (lk b)))) (snd (fst (lk b))))) ->
  xsim (lift s i r k) (llift ls i lr lk).
Proof.
  intros S Hk. unfold lift, llift, sim in *. destruct r as [a w| |]; auto.
  - destruct S as (b & -> & Hab). specialize (Hk a b Hab).
    destruct (k a) as [[t' a'] out]. destruct (lk b) as [[[m' lt'] la'] lout]. cbn [fst snd] in Hk.
    destruct Hk as (-> & Hs). eexists. split; [reflexivity|exact Hs].
  - now rewrite S.
Qed.

Section Exec.
  Variable hf : fn_id -> N -> N -> option N.
  Variable key : nat -> N.
  Variable ok : nat -> N -> bool.
  Hypothesis Hdef : hf_def hf.

  Notation exec := (exec hf key fixed ok).
  Notation lexec := (lexec hf key ok).
  Notation step := (step hf key fixed ok).
  Notation lstep := (lstep hf key ok).
  Notation sys_inv := (sys_inv hf key).
  Notation inv := (inv hf key).

  Lemma sys_inv_good s : sys_inv s -> Forall good (tabs s).
  Proof.
    intros (F & _). eapply Forall_impl; [|exact F]. intros t. apply inv_good.
  Qed.

  (** ** the forward simulation *)
  Theorem lexec_sim s ls o : sys_inv s -> srel s ls -> xsim (exec s o) (lexec ls o).
  Proof.
    intros SI SR. pose proof SI as (FI & Nd). pose proof SR as (Ea & HT).
    pose proof (sys_inv_good s SI) as FG.
    (* table [i] and its counterpart *)
    assert (TAB : forall i,
      match nth_error (tabs s) i with
      | Some t => exists lt, nth_error (ltabs ls) i = Some lt /\ trel (lmem ls) t lt /\ inv t /\ good t
      | None => nth_error (ltabs ls) i = None
      end).
    { intros i. destruct (nth_error (tabs s) i) as [t|] eqn:Et.
      - destruct (Forall2_nth _ _ _ _ _ HT Et) as (lt & Elt & Ht). exists lt.
        split; [exact Elt|]. split; [exact Ht|].
        split; [apply (Forall_nth _ _ _ _ FI Et)|apply (Forall_nth _ _ _ _ FG Et)].
      - eapply Forall2_nth_none; eauto. }
    destruct o as [i e|i k vis|i e|i n f|i|i|i j|i er stop|i stop|i cb|i|i];
      cbn [HashModel.exec HashLinksModel.lexec]; unfold with_tab, lwith_tab;
      pose proof (TAB i) as Ti; destruct (nth_error (tabs s) i) as [t|] eqn:Et;
      try (rewrite Ti; reflexivity);
      destruct Ti as (lt & -> & Ht & It & Gt).
    - (* insert *)
      rewrite (l_in_any_spec s ls e SR FG). trel_rw Ht.
      destruct (in_any s e) eqn:Ea'; [reflexivity|]. cbn [orb].
      destruct (negb (is_some (hash t))); [reflexivity|].
      assert (Hn : ~ In e (lives (tabs s))).
      { intros Hc. apply in_any_spec in Hc. congruence. }
      eapply lift_sim; [apply l_insert_sim; eauto|].
      + intros Hc. apply Hn. apply in_lives. eauto.
      + intros t' [m' lt'] (H' & F'). cbn [fst snd] in *. split; [reflexivity|]. rewrite Ea.
        eapply (srel_upd (e :: live t)); eauto.
        intros x [<-|Hx]; auto.
    - (* find *)
      trel_rw Ht. destruct (negb (is_some (hash t))); [reflexivity|].
      eapply lift_sim; [apply l_find_sim; eauto|].
      intros [t' x] [[m' lt'] lx] (Ex & H' & F'). cbn [fst snd] in *. subst lx.
      split; [reflexivity|]. rewrite Ea. eapply (srel_upd (live t)); eauto.
    - (* erase *)
      trel_rw Ht. destruct (negb (is_some (hash t))); [reflexivity|].
      eapply lift_sim; [apply (l_erase_sim hf key []); eauto|].
      intros t' [m' lt'] (H' & F'). cbn [fst snd] in *. split; [reflexivity|]. rewrite Ea.
      eapply (srel_upd (live t)); eauto.
    - (* resize *)
      destruct (MAX_BUCKETS <? n); [reflexivity|]. rewrite Ea.
      eapply lift_sim; [apply l_resize_sim; eauto|].
      intros [t' a'] [[m' lt'] la'] (Eq & H' & F'). cbn [fst snd] in *. subst la'.
      split; [now rewrite (skel_changed _ _ _ _ _ _ Ht H')|].
      eapply (srel_upd (live t)); eauto.
    - (* rehash *)
      eapply lift_sim; [apply l_rehash_sim; eauto|].
      intros t' [m' lt'] (H' & F' & K'). cbn [fst snd] in *.
      split; [now rewrite (skel_changed _ _ _ _ _ _ Ht H')|]. rewrite Ea.
      eapply (srel_upd (live t)); eauto.
    - (* shrink_to_fit *)
      rewrite Ea.
      eapply lift_sim; [apply l_shrink_sim; eauto|].
      intros [t' a'] [[m' lt'] la'] (Eq & H' & F'). cbn [fst snd] in *. subst la'.
      split; [now rewrite (skel_changed _ _ _ _ _ _ Ht H')|].
      eapply (srel_upd (live t)); eauto.
    - (* swap *)
      pose proof (TAB j) as Tj. destruct (nth_error (tabs s) j) as [tj|] eqn:Etj; [|rewrite Tj; reflexivity].
      destruct Tj as (ltj & -> & Htj & _). eexists. split; [reflexivity|].
      split; [exact Ea|]. cbn [tabs ltabs lmem]. apply Forall2_upd; [apply Forall2_upd|]; auto.
    - (* foreach *)
      eapply lift_sim; [apply l_foreach_sim; eauto|].
      intros [t' r] [[m' lt'] lr] (Er & H' & F'). cbn [fst snd] in *. subst lr.
      split; [reflexivity|]. rewrite Ea. eapply (srel_upd (live t)); eauto.
    - (* foreach_const *)
      eapply lift_sim; [apply l_foreach_const_sim; eauto|].
      intros [t' r] [[m' lt'] lr] (Er & Eq & Et'). cbn [fst snd] in *. subst lr t'. injection Eq as -> ->.
      split; [reflexivity|]. rewrite Ea. eapply (srel_upd []); eauto; try apply frame_refl.
    - (* clear *)
      rewrite Ea.
      eapply lift_sim; [apply l_clear_sim; eauto|].
      intros [t' a'] [[m' lt'] la'] (Eq & H' & F'). cbn [fst snd] in *. subst la'.
      split; [reflexivity|]. eapply (srel_upd (live t)); eauto.
    - (* size *)
      trel_rw Ht. eexists. split; [reflexivity|exact SR].
    - (* load *)
      trel_rw Ht. destruct (negb (is_some (hash t))); [reflexivity|].
      rewrite (skel_load _ _ _ Ht). eexists. split; [reflexivity|exact SR].
  Qed.

  (** one step in the shared [outcome] format: same outputs, related
      states, invariant again; never a fault *)
  Lemma lstep_sim s ls o :
    sys_inv s -> srel s ls ->
    match step s o with
    | Done s' out => exists ls', lstep ls o = Done ls' out /\ srel s' ls' /\ sys_inv s'
    | Abort => lstep ls o = Abort
    | Fault => False
    | Precond => lstep ls o = Precond
    end.
  Proof.
    intros SI SR. pose proof (lexec_sim s ls o SI SR) as X.
    pose proof (exec_refines hf key ok Hdef s o SI) as R. unfold outcome_ok in R.
    unfold HashModel.step, HashLinksModel.lstep. destruct (exec s o) as [s' r w| | |]; cbn [xsim] in X.
    - destruct X as (ls' & -> & SR'). exists ls'. split; [reflexivity|]. split; [exact SR'|apply R].
    - now rewrite X.
    - exact R.
    - now rewrite X.
  Qed.

  (** ** runs *)
  Lemma lrun_sim ops : forall s ls,
    sys_inv s -> srel s ls ->
    match run step s ops with
    | (Done s' o1, outs) =>
      exists ls', run lstep ls ops = (Done ls' o1, outs) /\ srel s' ls' /\ sys_inv s'
    | (Abort, outs) => run lstep ls ops = (Abort, outs)
    | (Precond, outs) => run lstep ls ops = (Precond, outs)
    | (Fault, _) => False
    end.
  Proof.
    induction ops as [|o ops IH]; intros s ls SI SR; cbn [run].
    - exists ls. auto.
    - pose proof (lstep_sim s ls o SI SR) as X.
      destruct (step s o) as [s' out| | |].
      + destruct X as (ls' & -> & SR' & SI'). specialize (IH s' ls' SI' SR').
        destruct (run step s' ops) as [[s'' o1| | |] outs].
        * destruct IH as (ls'' & -> & H). exists ls''. auto.
        * now rewrite IH.
        * exact IH.
        * now rewrite IH.
      + now rewrite X.
      + exact X.
      + now rewrite X.
  Qed.

  (** every reachable pointer-level state represents a reachable state of
      the functional model *)
  Lemma lreach_sim n ls :
    reach lstep (lsys_init n) ls ->
    exists s, reach step (sys_init n) s /\ srel s ls /\ sys_inv s.
  Proof.
    intros R. induction R as [|ls o ls' out R (s & Rs & SR & SI) E].
    - exists (sys_init n). split; [constructor|]. split; [apply srel_init|apply sys_inv_init].
    - pose proof (lstep_sim s ls o SI SR) as X.
      destruct (step s o) as [s' out'| | |] eqn:Es; try congruence; [|contradiction].
      destruct X as (ls'' & E' & SR' & SI'). rewrite E in E'. injection E' as <- <-.
      exists s'. split; [econstructor; eauto|auto].
  Qed.
End Exec.

(** * What the representation says about the chains of a reachable state *)

(** the bounded walk from every bucket head ends at NULL and finds exactly
    the functional chain *)
Lemma srel_chains s ls i t lt j b lb :
  srel s ls -> Forall good (tabs s) ->
  nth_error (tabs s) i = Some t -> nth_error (ltabs ls) i = Some lt ->
  nth_error (bks t) j = Some b -> nth_error (lbks lt) j = Some lb ->
  l_chain (lfuel lt) (lmem ls) (hd lb) = Some (chain b).
Proof.
  intros (_ & HT) FG Et Elt Eb Elb.
  destruct (Forall2_nth _ _ _ _ _ HT Et) as (lt' & Elt' & Ht). rewrite Elt in Elt'. injection Elt' as <-.
  destruct (Forall2_nth _ _ _ _ _ (tr_bks _ _ _ Ht) Eb) as (lb' & Elb' & _ & Hsp).
  rewrite Elb in Elb'. injection Elb' as <-.
  apply l_chain_spells; auto. rewrite (lfuel_trel _ _ _ Ht).
  pose proof (chain_length_good t j b (Forall_nth _ _ _ _ FG Et) Eb). lia.
Qed.

(** the erase walk ends at the link that points to the node passed, or at
    NULL when the node is not in the chain; the splice removes exactly that
    node, writing one link (the head field or the [next] field of the
    predecessor) and leaving the erased node's own [next] as it was *)
Lemma l_erase_walk_exact m h l e fuel :
  spells m h l -> NoDup l -> (length l <= fuel)%nat ->
  match l_erase_walk fuel m h e h SHead with
  | Some None => ~ In e l
  | Some (Some pp) =>
    exists l1 l2 nx, l = l1 ++ e :: l2 /\ slot_get m h pp = Some (Some e) /\ rd m e = Some nx /\
      spells (fst (slot_set m h pp nx)) (snd (slot_set m h pp nx)) (l1 ++ l2) /\
      frame l1 m (fst (slot_set m h pp nx)) /\ rd (fst (slot_set m h pp nx)) e = Some nx
  | None => False
  end.
Proof.
  intros Hs Nd Hf.
  pose proof (l_erase_walk_spec e l fuel m h h SHead Hs eq_refl Hf) as W.
  pose proof (remove_first_spec e l) as R.
  destruct (remove_first e l) as [l'|].
  - destruct W as (l1 & l2 & pp & El & -> & Hn1 & -> & Hpp). subst l.
    destruct (l_splice_spec m h l1 e l2 pp Hs Nd Hpp) as (nx & Eg & Er & Hsl).
    exists l1, l2, nx. destruct (slot_set m h pp nx) as [m' h'] eqn:Ess. cbn [fst snd].
    destruct Hsl as (Hs' & F'). repeat split; auto.
    rewrite F'; auto.
  - rewrite W. exact R.
Qed.
