(** Proofs about DListModel.v, part 2: operations that move whole chains
    between list objects (swap, concat). *)
From Cstl Require Import Prelude DListModel DListProofs.

Lemma cpairs_cons a x r : cpairs a (x :: r) = [(a, x)] ++ pairs x r ++ [(last r x, a)].
Proof.
  unfold cpairs. change ((x :: r) ++ [a]) with (x :: (r ++ [a])). rewrite pairs_cons, pairs_app. reflexivity.
Qed.

Lemma cpairs_nil a : cpairs a [] = [(a, a)].
Proof. reflexivity. Qed.

(** A chain [x :: r] hanging off a head cell [a] whose own links already
    point at its two ends, while the ends do not point back yet (the
    situation after the byte swap of two list objects, and after
    cstl_dlist_sort has set up its local list objects). *)
Definition open_ring (h : heap) (a : addr) (l : list addr) : Prop :=
  NoDup (a :: l) /\ valid h a /\
  match l with
  | [] => True
  | x :: r => gnx h a = Some x /\ gpv h a = Some (last r x) /\ path h x r /\ valid h x
  end.

Lemma open_ring_frame h h' a l :
  (forall y, In y (a :: l) -> hm h' y = hm h y) -> open_ring h a l -> open_ring h' a l.
Proof.
  intros H (ND & V & O). split; auto. split.
  { unfold valid in *. rewrite H; auto. left; auto. }
  destruct l as [|x r]; auto. destruct O as (Nx & Pv & P & Vx).
  destruct (hm_eq_fields h h' a (H a (or_introl eq_refl))) as (E1 & E2).
  split; [congruence|]. split; [congruence|]. split.
  - revert P. apply path_frame_hm. intros y Hy. apply H. right; auto.
  - unfold valid in *. rewrite H; auto. right; left; auto.
Qed.

Lemma ring_open h a l : ring h a l -> open_ring h a l.
Proof.
  intros R. split; [apply R|]. split; [apply (ring_valid _ _ _ _ R); left; auto|].
  destruct l as [|x r]; auto.
  split; [exact (ring_head_nx _ _ _ R)|]. split.
  { rewrite (ring_head_pv _ _ _ R). f_equal. apply last_cons. }
  split.
  - destruct R as (_ & P). change ((x :: r) ++ [a]) with (x :: (r ++ [a])) in P.
    destruct P as (_ & P). apply path_app in P. tauto.
  - apply (ring_valid _ _ _ _ R). right; left; auto.
Qed.

Lemma path_last_valid h x r : path h x r -> valid h x -> valid h (last r x).
Proof.
  intros P V. destruct r as [|y r']; auto.
  apply (path_valid h x (y :: r')); auto. apply last_In. congruence.
Qed.

(** CSTL_DLIST_SWAP_FIX: closes an open ring *)
Lemma swap_fix_spec h a l :
  open_ring h a l -> rsz h a = N.of_nat (length l) ->
  exists h', swap_fix h a = Ok h' /\ ring h' a l /\ hs h' = hs h /\
    (forall x, valid h' x <-> valid h x) /\
    (forall x, ~ In x (a :: l) -> hm h' x = hm h x) /\
    match l with
    | [] => True
    | x :: r => (forall v, gnx h' v = if Nat.eqb v (last r x) then Some a else gnx h v) /\
                (forall v, gpv h' v = if Nat.eqb v x then Some a else gpv h v)
    end.
Proof.
  intros (ND & Va & O) Z. unfold swap_fix. rewrite Z. destruct l as [|x r].
  - simpl.
    destruct (wpv_spec h a a Va) as (h1 & E1 & W1). rewrite E1.
    assert (valid h1 a) as V1 by (apply (is_wpv_valid _ _ _ _ a W1); auto).
    destruct (wnx_spec h1 a a V1) as (h2 & E2 & W2). rewrite E2.
    destruct W1 as (N1 & P1 & S1), W2 as (N2 & P2 & S2).
    exists h2. split; auto. split; [|split; [congruence|split; [|split; auto]]].
    + split; auto. simpl. split; auto. split.
      * rewrite N2, Nat.eqb_refl; auto.
      * rewrite P2, P1, Nat.eqb_refl; auto.
    + intros x. rewrite !valid_gpv, P2, P1. destruct (Nat.eqb_spec x a) as [->|]; [|tauto].
      split; [intros _; apply valid_gpv; auto|congruence].
    + intros x Hx. assert (x <> a) as Xa by (intros ->; apply Hx; left; auto).
      apply fields_eq_hm.
      * rewrite N2, if_neq, N1; auto.
      * rewrite P2, P1, if_neq; auto.
  - destruct O as (Nx & Pv & P & Vx).
    replace (N.of_nat (length (x :: r)) =? 0)%N with false
      by (symmetry; apply N.eqb_neq; simpl length; lia).
    set (y := last r x) in *.
    assert (valid h y) as Vy by (apply path_last_valid; auto).
    rewrite (rpv_gpv _ _ _ Pv).
    destruct (wnx_spec h y a Vy) as (h1 & E1 & (N1 & P1 & S1)). rewrite E1.
    assert (a <> y) as Ay.
    { intros ->. inversion ND; subst. apply H1. unfold y. destruct (last_In_cons r x) as [<-|I]; [left; auto|right; auto]. }
    assert (a <> x) as Ax by (intros ->; inversion ND; subst; apply H1; left; auto).
    assert (gnx h1 a = Some x) as Na by (rewrite N1, if_neq; auto).
    rewrite (rnx_gnx _ _ _ Na).
    assert (valid h1 x) as V1 by (apply valid_gpv; rewrite P1; apply valid_gpv; auto).
    destruct (wpv_spec h1 x a V1) as (h2 & E2 & (N2 & P2 & S2)). rewrite E2.
    assert (forall v, gnx h2 v = if Nat.eqb v y then Some a else gnx h v) as N'
      by (intros v; rewrite N2, N1; auto).
    assert (forall v, gpv h2 v = if Nat.eqb v x then Some a else gpv h v) as P'
      by (intros v; rewrite P2, P1; auto).
    exists h2. split; auto. split; [|split; [congruence|split; [|split; auto]]].
    + apply ring_pairs. split; auto. rewrite cpairs_cons. fold y.
      apply Forall_app; split; [|apply Forall_app; split].
      * constructor; [|constructor]. split; simpl.
        -- rewrite N', if_neq; auto.
        -- rewrite P', Nat.eqb_refl; auto.
      * pose proof (cpairs_fst a (x :: r)) as Mf. pose proof (cpairs_snd a (x :: r)) as Ms.
        rewrite cpairs_cons in Mf, Ms. fold y in Mf, Ms.
        apply (keep_part h h2 [(a, x)] (pairs x r) [(y, a)] [y] [x]).
        -- apply path_pairs; auto.
        -- rewrite Mf; auto.
        -- rewrite Ms. change (x :: r ++ [a]) with ((x :: r) ++ [a]). apply NoDup_snoc; auto.
        -- wframe N'.
        -- wframe P'.
        -- intros v [<-|[]]. left. simpl; auto.
        -- intros v [<-|[]]. left. simpl; auto.
      * constructor; [|constructor]. split; simpl.
        -- rewrite N', Nat.eqb_refl; auto.
        -- rewrite P', if_neq; auto.
    + intros v. rewrite !valid_gnx, N'. destruct (Nat.eqb_spec v y) as [->|]; [|tauto].
      split; [intros _; apply valid_gnx; auto|congruence].
    + intros v Hv.
      assert (v <> y) as Vy'.
      { intros ->. apply Hv. right. unfold y. destruct (last_In_cons r x) as [<-|I]; [left; auto|right; auto]. }
      assert (v <> x) as Vx' by (intros ->; apply Hv; right; left; auto).
      apply fields_eq_hm.
      * rewrite N', if_neq; auto.
      * rewrite P', if_neq; auto.
Qed.

Lemma ld_spec h a : valid h a ->
  exists c, ld h a = Ok c /\ hm h a = Some c.
Proof. unfold valid, ld. destruct (hm h a) as [c|]; [eauto|congruence]. Qed.

Lemma st_spec h a c : valid h a ->
  exists h', st h a c = Ok h' /\ hm h' = setm (hm h) a (Some c) /\ hs h' = hs h.
Proof. unfold valid, st. destruct (hm h a); [eauto|congruence]. Qed.

Lemma NoDup_two_rings_l {A} (a b : A) la lb : NoDup (a :: la ++ b :: lb) -> NoDup (a :: la).
Proof. intros H. change (a :: la ++ b :: lb) with ((a :: la) ++ b :: lb) in H. eapply NoDup_app_l; eauto. Qed.
Lemma NoDup_two_rings_r {A} (a b : A) la lb : NoDup (a :: la ++ b :: lb) -> NoDup (b :: lb).
Proof. intros H. change (a :: la ++ b :: lb) with ((a :: la) ++ b :: lb) in H. eapply NoDup_app_r; eauto. Qed.
Lemma two_rings_disj {A} (a b : A) la lb x :
  NoDup (a :: la ++ b :: lb) -> In x (a :: la) -> In x (b :: lb) -> False.
Proof. intros H. change (a :: la ++ b :: lb) with ((a :: la) ++ b :: lb) in H. eapply NoDup_app_disj; eauto. Qed.

(** ** cstl_dlist_swap exchanges the contents of two list objects *)
Theorem swap_dl h a b la lb :
  dl h a la -> dl h b lb -> NoDup (a :: la ++ b :: lb) ->
  exists h', swap h a b = Ok h' /\ dl h' a lb /\ dl h' b la /\
    (forall x, ~ In x (a :: la ++ b :: lb) -> hm h' x = hm h x) /\
    (forall x, x <> a -> x <> b -> hs h' x = hs h x) /\
    (forall x, valid h' x <-> valid h x).
Proof.
  intros (Ra & Za) (Rb & Zb) ND.
  assert (a <> b) as Nab.
  { intros ->. eapply (two_rings_disj b b la lb b); eauto; left; auto. }
  assert (forall x, In x (a :: la) -> In x (b :: lb) -> False) as Dj by (intros x; eapply two_rings_disj; eauto).
  pose proof (NoDup_two_rings_l _ _ _ _ ND) as NDa. pose proof (NoDup_two_rings_r _ _ _ _ ND) as NDb.
  assert (valid h a) as Va by (apply (ring_valid _ _ _ _ Ra); left; auto).
  assert (valid h b) as Vb by (apply (ring_valid _ _ _ _ Rb); left; auto).
  unfold swap.
  destruct (ld_spec h a Va) as (ca & E & Ca). rewrite E. clear E.
  destruct (ld_spec h b Vb) as (cb & E & Cb). rewrite E. clear E.
  destruct (st_spec h a cb Va) as (h1 & E & M1 & S1). rewrite E. clear E.
  assert (valid h1 b) as Vb1.
  { unfold valid. rewrite M1. unfold setm. rewrite (proj2 (Nat.eqb_neq b a)); auto. }
  destruct (st_spec h1 b ca Vb1) as (h2 & E & M2 & S2). rewrite E. clear E.
  set (h3 := wsz (wsz h2 a (rsz h2 b)) b (rsz h2 a)).
  assert (hm h3 a = hm h b) as Ha.
  { unfold h3. rewrite !hm_wsz, M2, M1. unfold setm.
    rewrite (proj2 (Nat.eqb_neq a b)), Nat.eqb_refl; auto. }
  assert (hm h3 b = hm h a) as Hb.
  { unfold h3. rewrite !hm_wsz, M2. unfold setm. rewrite Nat.eqb_refl; auto. }
  assert (forall x, x <> a -> x <> b -> hm h3 x = hm h x) as Hx.
  { intros x H1 H2. unfold h3. rewrite !hm_wsz, M2, M1. unfold setm.
    rewrite (proj2 (Nat.eqb_neq x b)), (proj2 (Nat.eqb_neq x a)); auto. }
  assert (rsz h3 a = N.of_nat (length lb)) as Z3a.
  { unfold h3. rewrite rsz_wsz_other, rsz_wsz_same; auto. unfold rsz in *. rewrite S2, S1; auto. }
  assert (rsz h3 b = N.of_nat (length la)) as Z3b.
  { unfold h3. rewrite rsz_wsz_same; auto. unfold rsz in *. rewrite S2, S1; auto. }
  assert (forall x, x <> a -> x <> b -> hs h3 x = hs h x) as Hs3.
  { intros x H1 H2. unfold h3, wsz. simpl.
    rewrite (proj2 (Nat.eqb_neq x b)), (proj2 (Nat.eqb_neq x a)); auto. rewrite S2, S1; auto. }
  assert (forall x, valid h3 x <-> valid h x) as V3.
  { intros x. unfold valid in *. destruct (Nat.eq_dec x a) as [->|Xa]; [rewrite Ha; tauto|].
    destruct (Nat.eq_dec x b) as [->|Xb]; [rewrite Hb; tauto|]. rewrite Hx; tauto. }
  (* both heads now carry open rings *)
  assert (forall hd hd' l, ring h hd l -> hm h3 hd' = hm h hd -> NoDup (hd' :: l) ->
            ~ In a l -> ~ In b l -> open_ring h3 hd' l) as Open.
  { intros hd hd' l R Hh NDl Nal Nbl. pose proof (ring_open _ _ _ R) as (_ & _ & O).
    split; auto. split. { unfold valid. rewrite Hh. apply (ring_valid _ _ _ _ R). left; auto. }
    destruct l as [|x r]; auto. destruct O as (Nx & Pv & P & Vx).
    assert (gnx h3 hd' = gnx h hd) as E1 by (unfold gnx; rewrite Hh; auto).
    assert (gpv h3 hd' = gpv h hd) as E2 by (unfold gpv; rewrite Hh; auto).
    split; [congruence|]. split; [congruence|]. split.
    - revert P. apply path_frame_hm. intros y Hy. apply Hx; intros ->; auto.
    - apply V3; auto. }
  assert (open_ring h3 a lb) as Oa.
  { apply (Open b a lb); auto.
    - inversion ND; subst. constructor; [rewrite in_app_iff in H1; simpl in H1; tauto|].
      inversion NDb; auto.
    - intros I. apply (Dj a); [left; auto|right; auto].
    - inversion NDb; auto. }
  assert (open_ring h3 b la) as Ob.
  { apply (Open a b la); auto.
    - constructor; [|inversion NDa; auto]. intros I. apply (Dj b); [right; auto|left; auto].
    - inversion NDa; auto.
    - intros I. apply (Dj b); [right; auto|left; auto]. }
  assert (forall y, In y (b :: la) -> In y (a :: lb) -> False) as Cross.
  { intros y [<-|I1] [E|I2].
    - congruence.
    - inversion NDb; auto.
    - subst y. inversion NDa; auto.
    - apply (Dj y); right; auto. }
  destruct (swap_fix_spec h3 a lb Oa Z3a) as (h4 & E & R4 & S4 & V4 & F4 & _). rewrite E. clear E.
  assert (open_ring h4 b la) as Ob4.
  { revert Ob. apply open_ring_frame. intros y Hy. apply F4. intros Hy'. eapply Cross; eauto. }
  assert (rsz h4 b = N.of_nat (length la)) as Z4b by (unfold rsz in *; rewrite S4; auto).
  destruct (swap_fix_spec h4 b la Ob4 Z4b) as (h5 & E & R5 & S5 & V5 & F5 & _). rewrite E. clear E.
  exists h5. split; auto. split; [|split; [|split; [|split]]].
  - split; [|unfold rsz in *; rewrite S5, S4; auto].
    revert R4. apply ring_frame. intros y Hy. apply F5. intros Hy'. eapply Cross; eauto.
  - split; auto. unfold rsz in *; rewrite S5; auto.
  - intros x Hx'. rewrite F5, F4, Hx; auto.
    + intros ->. apply Hx'. left; auto.
    + intros ->. apply Hx'. right. rewrite in_app_iff. right; left; auto.
    + intros [<-|I]; apply Hx'; [left; auto|right; rewrite in_app_iff; right; right; auto].
    + intros [<-|I]; apply Hx'; right; rewrite in_app_iff; [right; left; auto|left; auto].
  - intros x H1 H2. rewrite S5, S4; auto.
  - intros x. rewrite V5, V4, V3. tauto.
Qed.

(** field writes, with preservation of validity spelled out *)
Lemma wnx_ex h a v : valid h a -> exists h', wnx h a v = Ok h' /\
  (forall x, gnx h' x = if Nat.eqb x a then Some v else gnx h x) /\
  (forall x, gpv h' x = gpv h x) /\ hs h' = hs h /\ (forall x, valid h' x <-> valid h x).
Proof.
  intros V. destruct (wnx_spec h a v V) as (h' & E & W). exists h'. split; auto.
  pose proof W as (A & B & C). split; auto. split; auto. split; auto.
  intros x. eapply is_wnx_valid; eauto.
Qed.
Lemma wpv_ex h a v : valid h a -> exists h', wpv h a v = Ok h' /\
  (forall x, gnx h' x = gnx h x) /\
  (forall x, gpv h' x = if Nat.eqb x a then Some v else gpv h x) /\ hs h' = hs h /\
  (forall x, valid h' x <-> valid h x).
Proof.
  intros V. destruct (wpv_spec h a v V) as (h' & E & W). exists h'. split; auto.
  pose proof W as (A & B & C). split; auto. split; auto. split; auto.
  intros x. eapply is_wpv_valid; eauto.
Qed.

Ltac do_wnx V h' N P S Va :=
  match type of V with valid ?h ?a =>
    match goal with |- context [wnx h a ?v] =>
      let E := fresh "E" in
      destruct (wnx_ex h a v V) as (h' & E & N & P & S & Va); rewrite E; clear E
    end
  end.
Ltac do_wpv V h' N P S Va :=
  match type of V with valid ?h ?a =>
    match goal with |- context [wpv h a ?v] =>
      let E := fresh "E" in
      destruct (wpv_ex h a v V) as (h' & E & N & P & S & Va); rewrite E; clear E
    end
  end.

Lemma init_spec h l : valid h l ->
  exists h', init h l = Ok h' /\
    (forall x, gnx h' x = if Nat.eqb x l then Some l else gnx h x) /\
    (forall x, gpv h' x = if Nat.eqb x l then Some l else gpv h x) /\
    hs h' = hs (wsz h l 0%N) /\ (forall x, valid h' x <-> valid h x).
Proof.
  intros V. unfold init.
  do_wpv V h1 N1 P1 S1 V1. assert (valid h1 l) as Vl by (apply V1; auto).
  do_wnx Vl h2 N2 P2 S2 V2.
  eexists; split; [reflexivity|]. repeat split.
  - intros x. rewrite gnx_wsz, N2, N1; auto.
  - intros x. rewrite gpv_wsz, P2, P1; auto.
  - simpl. rewrite S2, S1; auto.
  - intros Hx. apply V1, V2. exact Hx.
  - intros Hx. apply V2, V1. exact Hx.
Qed.

Lemma ring_nil h a : gnx h a = Some a -> gpv h a = Some a -> ring h a [].
Proof. intros N P. split; [constructor; auto; constructor|]. simpl. unfold link. auto. Qed.

Lemma concat_same h d : concat h d d = Ok h.
Proof. unfold concat. rewrite Nat.eqb_refl. reflexivity. Qed.

(** ** cstl_dlist_concat splices the source chain behind the destination *)
Theorem concat_dl h d s ld ls :
  dl h d ld -> dl h s ls -> NoDup (d :: ld ++ s :: ls) ->
  exists h', concat h d s = Ok h' /\ dl h' d (ld ++ ls) /\ dl h' s [] /\
    (forall x, ~ In x (d :: ld ++ s :: ls) -> hm h' x = hm h x) /\
    (forall x, x <> d -> x <> s -> hs h' x = hs h x) /\
    (forall x, valid h' x <-> valid h x).
Proof.
  intros (Rd & Zd) (Rs & Zs) ND.
  assert (d <> s) as Nds.
  { intros ->. eapply (two_rings_disj s s ld ls s); eauto; left; auto. }
  assert (forall x, In x (d :: ld) -> In x (s :: ls) -> False) as Dj by (intros x; eapply two_rings_disj; eauto).
  pose proof (NoDup_two_rings_l _ _ _ _ ND) as NDd. pose proof (NoDup_two_rings_r _ _ _ _ ND) as NDs.
  unfold concat. rewrite (proj2 (Nat.eqb_neq d s)); auto. simpl negb.
  destruct ls as [|sn r].
  { rewrite Zs. simpl. exists h. rewrite app_nil_r.
    split; [reflexivity|]. split; [split; auto|]. split; [split; auto|]. split; [auto|]. split; [auto|tauto]. }
  rewrite Zs. replace (0 <? N.of_nat (length (sn :: r)))%N with true
    by (symmetry; apply N.ltb_lt; simpl length; lia).
  simpl andb. cbv iota.
  set (dp := last ld d). set (sp := last r sn).
  pose proof (ring_head_nx _ _ _ Rs) as Ns. simpl hd_or in Ns.
  pose proof (ring_head_pv _ _ _ Rs) as Ps. rewrite last_cons in Ps. fold sp in Ps.
  pose proof (ring_head_pv _ _ _ Rd) as Pd. fold dp in Pd.
  assert (In dp (d :: ld)) as Idp by (apply last_In_cons).
  assert (In sp (sn :: r)) as Isp by (apply last_In_cons).
  assert (valid h sn) as Vsn by (apply (ring_valid _ _ _ _ Rs); right; left; auto).
  assert (valid h sp) as Vsp by (apply (ring_valid _ _ _ _ Rs); right; auto).
  assert (valid h dp) as Vdp by (apply (ring_valid _ _ _ _ Rd); auto).
  assert (valid h d) as Vd by (apply (ring_valid _ _ _ _ Rd); left; auto).
  assert (valid h s) as Vs by (apply (ring_valid _ _ _ _ Rs); left; auto).
  assert (~ In s (sn :: r)) as Sls by (inversion NDs; auto).
  assert (s <> sn) as Ssn by (intros E; apply Sls; left; auto).
  assert (s <> sp) as Ssp by (intros E; apply Sls; rewrite E; auto).
  assert (d <> sn) as Dsn by (intros ->; apply (Dj sn); [left; auto|right; left; auto]).
  assert (d <> sp) as Dsp by (intros ->; apply (Dj sp); [left; auto|right; auto]).
  assert (dp <> sp) as DPsp by (intros E; apply (Dj dp); [auto|right; rewrite E; auto]).
  assert (dp <> s) as DPs by (intros E; apply (Dj dp); [auto|left; auto]).
  assert (dp <> sn) as DPsn by (intros E; apply (Dj dp); [auto|right; rewrite E; left; auto]).
  rewrite (rnx_gnx _ _ _ Ns), (rpv_gpv _ _ _ Pd).
  do_wpv Vsn h1 N1 P1 S1 V1.
  assert (gpv h1 s = Some sp) as E by (rewrite P1, if_neq; auto). rewrite (rpv_gpv _ _ _ E). clear E.
  assert (valid h1 sp) as Vsp1 by (apply V1; auto).
  do_wnx Vsp1 h2 N2 P2 S2 V2.
  assert (gpv h2 d = Some dp) as E by (rewrite P2, P1, if_neq; auto). rewrite (rpv_gpv _ _ _ E). clear E.
  assert (gnx h2 s = Some sn) as E by (rewrite N2, if_neq, N1; auto). rewrite (rnx_gnx _ _ _ E). clear E.
  assert (valid h2 dp) as Vdp2 by (apply V2, V1; auto).
  do_wnx Vdp2 h3 N3 P3 S3 V3.
  assert (gpv h3 s = Some sp) as E by (rewrite P3, P2, P1, if_neq; auto). rewrite (rpv_gpv _ _ _ E). clear E.
  assert (valid h3 d) as Vd3 by (apply V3, V2, V1; auto).
  do_wpv Vd3 h4 N4 P4 S4 V4.
  set (h4' := wsz h4 d (rsz h4 d + rsz h4 s)).
  assert (valid h4' s) as Vs4 by (apply V4, V3, V2, V1; auto).
  destruct (init_spec h4' s Vs4) as (h5 & E & N5 & P5 & S5 & V5). rewrite E. clear E.
  assert (forall x, gnx h5 x = if Nat.eqb x s then Some s else if Nat.eqb x dp then Some sn
                               else if Nat.eqb x sp then Some d else gnx h x) as N'.
  { intros x. rewrite N5. unfold h4'. rewrite gnx_wsz, N4, N3, N2, N1. auto. }
  assert (forall x, gpv h5 x = if Nat.eqb x s then Some s else if Nat.eqb x d then Some sp
                               else if Nat.eqb x sn then Some dp else gpv h x) as P'.
  { intros x. rewrite P5. unfold h4'. rewrite gpv_wsz, P4, P3, P2, P1. auto. }
  apply hs_rsz in S5. destruct S5 as (Z5 & S5).
  assert (rsz h4 d = rsz h d /\ rsz h4 s = rsz h s) as (Z4d & Z4s).
  { unfold rsz. rewrite S4, S3, S2, S1. auto. }
  exists h5. split; auto. split; [|split; [|split; [|split]]].
  - split.
    + apply ring_pairs in Rd. destruct Rd as (_ & Fd). apply ring_pairs in Rs. destruct Rs as (_ & Fs).
      apply ring_pairs. split.
      { inversion ND; subst. constructor.
        - rewrite in_app_iff in *. simpl in *. tauto.
        - apply NoDup_remove_1 in H2. auto. }
      pose proof (cpairs_fst d ld) as Mfd. pose proof (cpairs_snd d ld) as Msd.
      pose proof (cpairs_fst s (sn :: r)) as Mfs. pose proof (cpairs_snd s (sn :: r)) as Mss.
      unfold cpairs in Fd, Mfd, Msd. rewrite pairs_app in Fd, Mfd, Msd. fold dp in Fd, Mfd, Msd.
      change (pairs dp [d]) with [(dp, d)] in Fd, Mfd, Msd.
      rewrite cpairs_cons in Fs, Mfs, Mss. fold sp in Fs, Mfs, Mss.
      unfold cpairs. rewrite <- app_assoc, pairs_app. fold dp.
      change ((sn :: r) ++ [d]) with (sn :: (r ++ [d])). rewrite pairs_cons, pairs_app. fold sp.
      apply Forall_app; split; [|constructor; [|apply Forall_app; split]].
      * apply (keep_part h h5 [] (pairs d ld) [(dp, d)] [s; dp; sp] [s; d; sn]); simpl app; auto.
        -- apply Forall_app in Fd. tauto.
        -- rewrite Mfd; auto.
        -- rewrite Msd. apply NoDup_snoc; auto.
        -- wframe N'.
        -- wframe P'.
        -- rewrite Mfd. intros x [<-|[<-|[<-|[]]]]; [right|left; simpl; auto|right]; intros I.
           ++ apply (Dj s); auto. left; auto.
           ++ apply (Dj sp); auto. right; auto.
        -- rewrite Msd. intros x [<-|[<-|[<-|[]]]]; [right|left; simpl; auto|right]; intros I;
             rewrite in_app_iff in I; simpl in I.
           ++ apply (Dj s); [|left; auto]. destruct I as [I|[I|[]]]; [right; auto|congruence].
           ++ apply (Dj sn); [|right; left; auto]. destruct I as [I|[I|[]]]; [right; auto|left; auto].
      * split; simpl.
        -- rewrite N', (if_neq dp s), Nat.eqb_refl; auto.
        -- rewrite P', (if_neq sn s), (if_neq sn d), Nat.eqb_refl; auto.
      * apply (keep_part h h5 [(s, sn)] (pairs sn r) [(sp, s)] [s; dp; sp] [s; d; sn]); auto.
        -- apply Forall_app in Fs. destruct Fs as (_ & Fs). apply Forall_app in Fs. tauto.
        -- rewrite Mfs; auto.
        -- rewrite Mss. change (sn :: r ++ [s]) with ((sn :: r) ++ [s]). apply NoDup_snoc; auto.
        -- wframe N'.
        -- wframe P'.
        -- rewrite Mfs. intros x [<-|[<-|[<-|[]]]]; [left; simpl; auto|right|left; simpl; auto].
           intros I. apply (Dj dp); auto.
        -- rewrite Mss. intros x [<-|[<-|[<-|[]]]]; [left; simpl; auto|right|left; simpl; auto].
           intros I. change (sn :: r ++ [s]) with ((sn :: r) ++ [s]) in I. rewrite in_app_iff in I.
           apply (Dj d); [left; auto|]. destruct I as [I|[I|[]]]; [right; auto|left; auto].
      * constructor; [|constructor]. split; simpl.
        -- rewrite N', (if_neq sp s), (if_neq sp dp), Nat.eqb_refl; auto.
        -- rewrite P', (if_neq d s), Nat.eqb_refl; auto.
    + rewrite S5; auto. unfold h4'. rewrite rsz_wsz_same, Z4d, Z4s, Zd, Zs, app_length. lia.
  - split; [|rewrite Z5; auto].
    apply ring_nil; [rewrite N'|rewrite P']; rewrite Nat.eqb_refl; auto.
  - intros x Hx.
    assert (forall y, In y (d :: ld ++ s :: sn :: r) -> x <> y) as Ne by (intros y Hy ->; auto).
    assert (forall y, In y (d :: ld) -> x <> y) as Ne1.
    { intros y Hy. apply Ne. destruct Hy as [<-|Hy]; [left; auto|right; rewrite in_app_iff; auto]. }
    assert (forall y, In y (s :: sn :: r) -> x <> y) as Ne2.
    { intros y Hy. apply Ne. right; rewrite in_app_iff; auto. }
    assert (x <> s) by (apply Ne2; left; auto).
    assert (x <> sn) by (apply Ne2; right; left; auto).
    assert (x <> sp) by (apply Ne2; right; auto).
    assert (x <> d) by (apply Ne1; left; auto).
    assert (x <> dp) by (apply Ne1; auto).
    apply fields_eq_hm; [rewrite N'|rewrite P']; rewrite !if_neq; auto.
  - intros x H1 H2. rewrite S5; auto. unfold h4'. simpl.
    rewrite (proj2 (Nat.eqb_neq x d)); auto. rewrite S4, S3, S2, S1; auto.
  - intros x. rewrite V5. change (valid h4' x) with (valid h4 x).
    rewrite V4, V3, V2, V1. tauto.
Qed.
