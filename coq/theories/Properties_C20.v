(** C20 - bitwise-copied smart pointers and array objects are caught.
    Statements only; proofs are in MemProofs.v / ArrayViewProofs.v.

    [sys s]: reachable from initialised objects by any history of library
    calls *and stray bitwise copies* ([StrayCopy src dst] = memcpy of the
    object at slot [src] over slot [dst]); [stray s i]: the object at slot [i]
    does not carry its own address.  [args o] are the object arguments of a
    call that go through the guarded getter: every entry point except the
    *_init functions and cstl_array_size.

    The guarded pointer itself is an object kind of the pool ([KG]) with the
    operations cstl_guarded_ptr_init / set / get / get_const / copy / swap
    ([GInit], [GSet], [GGet], [GGetC], [GCopy dst src], [GSwap]); [op], [args],
    [slots], [lib_step] include them, so every theorem below quantifies over
    them as well.  [args] of init and set is empty and [args (GCopy dst src)]
    is [[src]]: these functions overwrite their destination and stamp it with
    its own address without reading it ([C20_guarded_restamp]). *)
From Cstl Require Import Prelude AllocModel MemModel ArrayViewModel MemProofs ArrayViewProofs.
Local Open Scope N_scope.

Definition in_dom (s : st) (o : op) : bool :=
  match o with OM m => mdom s m | OA a => adom s a end.

Section C20.
  Variables (ks : list kind) (ex : list N).
  Hypothesis pool_small : 2 * N.of_nat (length ks) < 4294967296.
  Notation sys := (reach (lstep false) (st_init ks ex)).

  (** stray_aborts: every guarded entry point, every argument position, every
      reachable state: a stray copy among the arguments makes the call abort
      (it never returns, it never runs into undefined behaviour) *)
  Theorem C20_stray_aborts ok s o i :
    sys s -> in_dom s o = true -> In i (args o) -> stray s i -> step ok false s o = Abort.
  Proof.
    intros R D IN S. destruct (reach_sys ks ex s pool_small R) as (I & A & _).
    destruct o as [m|a]; cbn [step in_dom args] in *.
    - unfold mstep. rewrite D. eapply mexec_stray; eauto.
    - unfold astep. rewrite D. eapply aexec_stray; eauto.
  Qed.

  (** the guard is the first thing that happens to a stray object: whatever
      the state of the other arguments, a call whose *first* guarded argument
      is stray aborts in every state, reachable or not *)
  Theorem C20_first_argument_guard s i o :
    nth_error (objs s) i = Some o -> wf_obj i o = false ->
    shared_reset s i = Ab /\ weak_reset s i = Ab /\ unique_reset s (ASlot i) = Ab /\ shared_get s i = Ab /\
    (forall ok sz cb, shared_alloc ok s i sz cb = Ab) /\ (forall ok sz cb, unique_alloc ok s (ASlot i) sz cb = Ab) /\
    (forall e, shared_share s e i = Ab) /\ (forall b, gp_swap s i b = Ab) /\ (forall x, weak_from s i x = Ab) /\
    (forall w, weak_lock s w i = Ab) /\ array_reset s i = Ab /\ (forall ok nm sz, array_alloc ok false s i nm sz = Ab) /\
    array_data s i = Ab /\ array_release s i = Ab /\ (forall b e t, array_slice false s i b e t = Ab) /\
    (forall a, array_unslice s i a = Ab) /\
    guarded_get_const s i = Ab /\ guarded_get s i = Ab /\ (forall d, guarded_copy s d i = Ab).
  Proof.
    intros E W.
    pose proof (shared_reset_stray s i o E W) as R1. pose proof (weak_reset_stray s i o E W) as R2.
    pose proof (unique_reset_stray s i o E W) as R3. pose proof (stray_shared_get s i o E W) as R4.
    pose proof (guarded_get_const_stray s i o E W) as R5.
    repeat split; auto; intros;
      unfold shared_alloc, unique_alloc, shared_share, weak_from, weak_lock, array_reset, array_alloc, array_data,
        array_release, array_slice, array_unslice, array_reset, guarded_copy, guarded_get; cbn [negb];
      rewrite ?R1, ?R2, ?R3, ?R4, ?R5; auto.
    unfold gp_swap, rd_gp, gget. rewrite E. cbn [bind]. unfold wf_obj in W. rewrite W. reflexivity.
  Qed.

  (** wellformed_never_aborts: histories that use only library functions keep
      every object's stored self-address equal to its own address, and in such
      histories no call ever hits the guard: it can only abort for the
      documented range errors of at / slice / unslice *)
  Theorem C20_wellformed_never_aborts s l :
    reach lib_step (st_init ks ex) s ->
    allwf s /\
    match lstep false s l with
    | Abort => exists ao, snd l = OA ao /\ range_abort s ao
    | Fault => False
    | _ => True
    end.
  Proof.
    intros R. destruct (reach_allwf ks ex s pool_small R) as (A & R'). split; auto.
    destruct (reach_sys ks ex s pool_small R') as (I & AI & L & _).
    pose proof (step_outcome (fst l) s (snd l) I AI) as Q. rewrite L in Q. specialize (Q pool_small).
    unfold lstep. destruct (step (fst l) false s (snd l)); auto.
    destruct Q as [(i & _ & S)|Q]; auto. exfalso. eapply no_stray; eauto.
  Qed.

  (** stray_copy_frame (1): the copy changes nothing but the destination
      slot, which becomes a stray object; the source is untouched; the state
      keeps every invariant of C05 / C14, so all later calls on the original and
      on every other object return normally or abort for documented reasons,
      never fault, and counts and lifetimes stay exact *)
  Theorem C20_stray_copy_keeps_invariants ok s src dst s' out :
    sys s -> mstep ok s (StrayCopy src dst) = Done s' out ->
    exists os, nth_error (objs s) src = Some os /\
      s' = set_objs s (upd (objs s) dst os) /\
      nth_error (objs s') src = Some os /\ stray s' dst /\
      inv s' /\ ainv s' /\
      forall l, match lstep false s' l with
                | Abort => (exists i, In i (args (snd l)) /\ stray s' i) \/ (exists ao, snd l = OA ao /\ range_abort s' ao)
                | Fault => False
                | _ => True
                end.
  Proof.
    intros R E. assert (R' : sys s') by (eapply (reach_step (lstep false) _ s (ok, OM (StrayCopy src dst))); eauto).
    destruct (reach_sys ks ex s' pool_small R') as (I' & A' & L' & _).
    unfold mstep in E. destruct (mdom s (StrayCopy src dst)) eqn:D; [|discriminate]. cbn [mdom mexec] in *.
    apply andb_prop in D. destruct D as (N & D). apply negb_true_iff, Nat.eqb_neq in N.
    destruct (nth_error (objs s) src) as [os|] eqn:Es; [|discriminate].
    destruct (nth_error (objs s) dst) as [od|] eqn:Ed; [|discriminate].
    apply andb_prop in D. destruct D as (D & NW). apply andb_prop in D. destruct D as (K & DI).
    unfold stray_copy in E. rewrite Es in E. injection E as <- _.
    exists os. split; auto. split; auto. split; [cbn [objs set_objs]; rewrite nth_upd_other; auto|].
    split; [exists os; split; [cbn [objs set_objs]; eapply nth_upd_same; eauto|unfold wf_obj; apply negb_true_iff; exact NW]|].
    split; auto. split; auto. intros l.
    pose proof (step_outcome (fst l) _ (snd l) I' A') as Q. rewrite L' in Q. specialize (Q pool_small).
    unfold lstep. destruct (step (fst l) false _ (snd l)); auto.
  Qed.

  (** stray_copy_frame (2): every later call that does not mention the
      destination slot behaves exactly as without the copy: same outcome
      (return / abort), same results, same events, same final state up to the
      contents of slot [dst] -- in every state, for both code versions.
      ([blank dst] overwrites slot [dst] with a fixed dummy object.) *)
  Theorem C20_stray_copy_frame ok v0 s src dst o :
    ~ In dst (slots o) ->
    omap (blank dst) (step ok v0 (stray_copy s src dst) o) = omap (blank dst) (step ok v0 s o).
  Proof. exact (stray_copy_frame ok v0 s src dst o). Qed.

  (** ... because no call reads or writes a slot it does not mention *)
  Theorem C20_calls_are_local ok v0 x s o :
    ~ In x (slots o) -> step ok v0 (blank x s) o = omap (blank x) (step ok v0 s o).
  Proof. exact (step_local ok v0 x s o). Qed.

  (** guarded pointer objects: cstl_guarded_ptr_set (hence init) and the
      destination of cstl_guarded_ptr_copy are written without being read, in
      every state and whatever the object held (a stray copy included), and
      carry their own address afterwards: the next get returns the new value.
      The source of copy and both arguments of swap go through the guard
      ([C20_stray_aborts], [C20_first_argument_guard]). *)
  Theorem C20_guarded_restamp s i o p :
    nth_error (objs s) i = Some o ->
    nth_error (objs (guarded_set s i p)) i = Some (ptr_obj i o p) /\
    wf_obj i (ptr_obj i o p) = true /\
    guarded_get (guarded_set s i p) i = Ok p /\ guarded_get_const (guarded_set s i p) i = Ok p /\
    guarded_init s i = guarded_set s i None /\
    forall src os, nth_error (objs s) src = Some os -> wf_obj src os = true ->
      guarded_copy s i src = Ok (guarded_set s i (gp (ogp os))).
  Proof.
    intros E. destruct (guarded_set_spec s i o p E) as (S1 & S2).
    pose proof (guarded_get_const_wf _ i _ S2 (wf_ptr_obj i o p)) as G. cbn in G.
    repeat split; auto using wf_ptr_obj.
    intros src os Es W. rewrite (guarded_copy_wf s i src o os E Es W).
    rewrite (proj1 (guarded_set_spec s i o _ E)). reflexivity.
  Qed.

  (** a well-formed guarded pointer object -- the original of a stray copy
      as well as an object written by set / copy / swap -- hands out exactly
      the stored value *)
  Theorem C20_guarded_get_value s i o :
    nth_error (objs s) i = Some o -> wf_obj i o = true ->
    guarded_get s i = Ok (gp (ogp o)) /\ guarded_get_const s i = Ok (gp (ogp o)).
  Proof. intros E W. split; exact (guarded_get_const_wf s i o E W). Qed.
End C20.

(** Non-vacuity: stray copies of an owning shared pointer, a unique pointer
    and a sliced array object: the first guarded use aborts, cstl_array_size
    and re-initialisation do not, the originals keep working. *)
Example C20_example :
  let ok := fun _ _ => true in
  let pool := st_init [KS; KS; KU; KU; KA; KA] [40] in
  let pre := [OM (SAlloc 0 8 true); OM (UAlloc 2 8 (Some 3%nat)); OA (VAlloc 4 5 4); OA (VSlice 4 1 3 4);
              OM (StrayCopy 0 1); OM (StrayCopy 2 3); OM (StrayCopy 4 5)] in
  fst (run (step ok false) pool (pre ++ [OM (SReset 1)])) = Abort /\
  fst (run (step ok false) pool (pre ++ [OM (SShare 0 1)])) = Abort /\
  fst (run (step ok false) pool (pre ++ [OM (USwap 2 3)])) = Abort /\
  fst (run (step ok false) pool (pre ++ [OA (VSlice 4 0 1 5)])) = Abort /\
  match run (step ok false) pool (pre ++ [OA (VSize 5); OM (SInit 1); OM (SShare 0 1); OM (SReset 0); OM (SGet 1);
                                          OA (VAt 4 1); OM (UReset 2)]) with
  | (Done s _, outs) => nth 7 outs [] = [2]%Z /\ nth 11 outs [] = [1]%Z /\ nth 12 outs [] = [0; 4; 32]%Z
  | _ => False
  end.
Proof. vm_compute. auto 10. Qed.

(** Non-vacuity for guarded pointer objects (slots 0-2): a stray copy of a
    NULL and of a non-NULL object aborts in get, get_const, as the source of
    copy and on either side of swap; init / set / being the destination of copy
    make it usable again; the original keeps its value. *)
Example C20_guarded_example :
  let ok := fun _ _ => true in
  let pool := st_init [KG; KG; KG; KS] [] in
  let pre v := [OM (GSet 0 v); OM (GSet 2 (Some 7%nat)); OM (StrayCopy 0 1)] in
  (forall v, In v [None; Some 5%nat] ->
     fst (run (step ok false) pool (pre v ++ [OM (GGet 1)])) = Abort /\
     fst (run (step ok false) pool (pre v ++ [OM (GGetC 1)])) = Abort /\
     fst (run (step ok false) pool (pre v ++ [OM (GCopy 2 1)])) = Abort /\
     fst (run (step ok false) pool (pre v ++ [OM (GSwap 1 2)])) = Abort /\
     fst (run (step ok false) pool (pre v ++ [OM (GSwap 2 1)])) = Abort /\
     fst (run (step ok false) pool (pre v ++ [OM (GSwap 1 1)])) = Abort) /\
  match run (step ok false) pool (pre (Some 5%nat) ++ [OM (GGet 0); OM (GCopy 1 2); OM (GGetC 1); OM (GSwap 0 1); OM (GGet 0);
                                                     OM (StrayCopy 2 1); OM (GInit 1); OM (GGet 1)]) with
  | (Done s _, outs) => nth 3 outs [] = [5]%Z /\ nth 5 outs [] = [7]%Z /\ nth 7 outs [] = [7]%Z /\ nth 10 outs [] = [-1]%Z
  | _ => False
  end.
Proof. vm_compute. split; [intros v [<-|[<-|[]]]; auto 10|auto 10]. Qed.

Print Assumptions C20_stray_aborts.
Print Assumptions C20_first_argument_guard.
Print Assumptions C20_wellformed_never_aborts.
Print Assumptions C20_stray_copy_keeps_invariants.
Print Assumptions C20_stray_copy_frame.
Print Assumptions C20_calls_are_local.
Print Assumptions C20_guarded_restamp.
Print Assumptions C20_guarded_get_value.
