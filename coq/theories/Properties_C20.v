(** C20 - bitwise-copied smart pointers are caught. Statements only. *)
From Cstl Require Import Prelude AllocModel MemModel ArrayViewModel MemProofs ArrayViewProofs.
Local Open Scope N_scope.

Theorem C20_stray_reset_aborts s i o :
  nth_error (objs s) i = Some o -> wf_obj i o = false -> shared_reset s i = Ab.
Proof.
  intros E W. unfold shared_reset, rd_gp, gget. rewrite E. cbn [bind]. unfold wf_obj in W. rewrite W. reflexivity.
Qed.

Example C20_example :
  let ok := fun _ _ => true in
  fst (run (step ok false) (st_init [KS; KS] []) [OM (SAlloc 0 8 true); OM (StrayCopy 0 1); OM (SReset 1)]) = Abort.
Proof. vm_compute. reflexivity. Qed.

Print Assumptions C20_stray_reset_aborts.
