(** C17 — bucket selection is fail-stop: the built-in hash functions stay in
    range, anything else is stopped by the range check.
    Statements only; proofs are in HashMulProofs.v.  Part (b) for the full
    hash-table model (theorem [no_oob]) is in Properties_C17b.v. *)
From Coq Require Import ZArith NArith Lia List.
Import ListNotations.
From Cstl Require Import HashMul HashMulProofs.

(** cstl_hash_div(k, m) = k % m is below m for every table size m >= 1 *)
Theorem C17_hash_div_range :
  forall k m : N, (1 <= m)%N -> (hash_div k m < m)%N.
Proof. exact hash_div_range. Qed.

(** cstl_hash_mul, computed in IEEE-754 binary32 with round-to-nearest-even
    exactly as the C expression (HashMul.v), is in [0, m) for EVERY 64-bit key
    and EVERY table size 1 <= m < 2^64 — including sizes that (float)m rounds
    up *)
Theorem C17_hash_mul_range :
  forall k m : Z, (0 <= k < 2 ^ 64)%Z -> (1 <= m < 2 ^ 64)%Z -> (0 <= hash_mul k m < m)%Z.
Proof. exact hash_mul_range. Qed.

(** ... and the float -> size_t conversion of the return statement is
    defined (C99 6.3.1.4): the float is finite (no NaN, no infinity, no
    overflow in any intermediate operation) and its truncation is
    representable in size_t *)
Theorem C17_hash_mul_conversion_defined :
  forall k m : Z, (0 <= k < 2 ^ 64)%Z -> (1 <= m < 2 ^ 64)%Z ->
  hash_mul_checked k m = Some (hash_mul k m).
Proof. exact hash_mul_checked_some. Qed.

(** the same on size_t values *)
Theorem C17_hash_mul_N_range :
  forall k m : N, (k < 2 ^ 64)%N -> (1 <= m < 2 ^ 64)%N -> (hash_mul_N k m < m)%N.
Proof. exact hash_mul_N_range. Qed.

(** the range check of __cstl_hash_get_bucket, for an ARBITRARY hash function
    (no assumption on its results): either abort, or the index that is
    dereferenced is the hash value and lies inside [0, count) *)
Theorem C17_get_bucket_failstop :
  forall (hf : N -> N -> N) (k count : N),
  match get_bucket hf k count with
  | Some i => i = hf k count /\ (i < count)%N
  | None => (count <= hf k count)%N
  end.
Proof. exact get_bucket_failstop. Qed.

(** a table using the built-in functions never aborts in the range check *)
Theorem C17_builtin_never_aborts :
  forall k count : N, (k < 2 ^ 64)%N -> (1 <= count < 2 ^ 64)%N ->
  get_bucket hash_div k count = Some (hash_div k count) /\
  get_bucket hash_mul_N k count = Some (hash_mul_N k count).
Proof.
  intros k count Hk Hc. split; apply get_bucket_in_range.
  - apply hash_div_range. lia.
  - apply hash_mul_N_range; auto.
Qed.

(** Non-vacuity / sanity: the model computes the values the C function
    returns (the first eight are the sample of DESIGN.md appendix B).  Key 987
    has the largest fraction of all keys below 2^24 (M - floorf(M) = 1 - 2^-11):
    the result reaches m - 1 but not m, also for table sizes that (float)m
    rounds UP (2^24 + 3 -> 2^24 + 4, 2^64 - 1 -> 2^64). *)
Example C17_examples :
  List.map (fun km => hash_mul (fst km) (snd km))
    [(1, 16); (2, 16); (3, 10); (12345, 1000); (5000000, 2 ^ 32); (99, 32); (2 ^ 64 - 1, 7);
     (4181, 2 ^ 64 - 1); (987, 7); (987, 1000); (987, 2 ^ 24 + 3); (987, 2 ^ 64 - 1)]%Z
  = [9; 3; 8; 628; 0; 5; 0; 0; 6; 999; 16769028; 18437736874454810624]%Z
  /\ phi_bits = 0x3FCF1BBD%Z
  /\ get_bucket (fun _ m => m) 5 8 = None /\ get_bucket hash_mul_N 987 1000 = Some 999%N.
Proof. vm_compute. repeat split; reflexivity. Qed.

Print Assumptions C17_hash_div_range.
Print Assumptions C17_hash_mul_range.
Print Assumptions C17_hash_mul_conversion_defined.
Print Assumptions C17_hash_mul_N_range.
Print Assumptions C17_get_bucket_failstop.
Print Assumptions C17_builtin_never_aborts.
