(** Simulation of the pointer-level [p_sort] (merge sort on two stack-local
    list objects) by the sequence-level [sort], and the resulting forward
    simulation for *all* operations ([sim_step], [sim_run]). *)
From Cstl Require Import Prelude SListModel SListProofs SListPtrModel SListPtrProofs.
Local Open Scope N_scope.

(** ** lists *)

Lemma list_eq_nth {A} (X Y : list A) : (forall j, nth_error X j = nth_error Y j) -> X = Y.
Proof.
  revert Y; induction X as [|x X IH]; intros [|y Y] H; auto.
  - specialize (H 0%nat); discriminate.
  - specialize (H 0%nat); discriminate.
  - f_equal.
    + specialize (H 0%nat); simpl in H; congruence.
    + apply IH. intros j. apply (H (S j)).
Qed.

Ltac upd_eq :=
  apply list_eq_nth; intros ?j; rewrite ?nth_error_upd, ?upd_length;
  repeat match goal with |- context [Nat.eqb ?u ?v] => destruct (Nat.eqb_spec u v) end;
  subst; try reflexivity; try congruence; try lia.

Lemma upd_upd {A} (L : list A) i x y : upd (upd L i x) i y = upd L i y.
Proof. upd_eq. Qed.

Lemma firstn_upd_ge {A} (L : list A) n i x : (n <= i)%nat -> firstn n (upd L i x) = firstn n L.
Proof.
  revert n i; induction L as [|y L IH]; intros [|n] [|i] H; simpl; auto; try lia.
  f_equal. apply IH. lia.
Qed.

Lemma firstn_upd_lt {A} (L : list A) n i x : (i < n)%nat -> firstn n (upd L i x) = upd (firstn n L) i x.
Proof.
  revert n i; induction L as [|y L IH]; intros [|n] [|i] H; simpl; auto; try lia.
  f_equal. apply IH. lia.
Qed.

Lemma nth_error_firstn_some {A} (L : list A) n i x :
  nth_error (firstn n L) i = Some x -> (i < n)%nat /\ nth_error L i = Some x.
Proof.
  revert n i; induction L as [|y L IH]; intros [|n] [|i]; simpl; try discriminate.
  - intros H; split; auto; lia.
  - intros H. apply IH in H. split; [lia|tauto].
Qed.

Lemma nth_error_firstn_lt {A} (L : list A) n i : (i < n)%nat -> nth_error (firstn n L) i = nth_error L i.
Proof.
  revert n i; induction L as [|y L IH]; intros [|n] [|i] H; simpl; auto; try lia.
  apply IH; lia.
Qed.

(** a list cut at [k], [1 <= k < length] *)
Lemma split_at (L : list nat) k :
  (1 <= k < length L)%nat ->
  exists F te g G, L = F ++ te :: g :: G /\ firstn k L = F ++ [te] /\ skipn k L = g :: G /\
                   nth_error L (k - 1) = Some te /\ k = S (length F).
Proof.
  intros Hk. pose proof (firstn_skipn k L) as E.
  assert (LF : length (firstn k L) = k) by (rewrite firstn_length; lia).
  assert (LG : length (skipn k L) = (length L - k)%nat) by (apply skipn_length).
  destruct (skipn k L) as [|g G] eqn:EG; [simpl in LG; lia|].
  destruct (exists_last (l := firstn k L)) as (F & te & EF).
  { intros E0. rewrite E0 in LF. simpl in LF. lia. }
  rewrite EF in *. rewrite app_length in LF. simpl in LF.
  exists F, te, g, G. rewrite <- E, <- app_assoc. simpl. repeat split; auto; try lia.
  rewrite nth_error_app2 by lia. replace (k - 1 - length F)%nat with 0%nat by lia. reflexivity.
Qed.

(** ** the pointer walk [for (t = &sl->h; ...; t = t->n)] *)
Lemma p_walk_links_spec h m x : forall F s,
  seg h (h s) (F ++ [x]) m -> p_walk_links (S (length F)) h s = Ok (Nd x).
Proof.
  induction F as [|y F IH]; intros s C.
  - simpl in C. destruct C as (E & _). simpl. rewrite E. reflexivity.
  - simpl in C. destruct C as (E & C). cbn [length p_walk_links]. rewrite E.
    apply IH. exact C.
Qed.

(** ** dropping the stack-local list objects *)
Lemma R_firstn A p n : R A p -> R (firstn n A) (mkP (nx p) (firstn n (objs p))).
Proof.
  intros (Hlen & HR). split; simpl.
  - rewrite !firstn_length, Hlen; auto.
  - intros i sl Hi. apply nth_error_firstn_some in Hi as (Hin & Hi).
    destruct (HR _ _ Hi) as (o & Eo & C & Ht & Hc).
    exists o. rewrite nth_error_firstn_lt by auto. auto.
Qed.

(** ** splitting list [l] into the two stack-local lists at indices [a], [b] *)

Lemma sys_wf_split A l sl s0 s1 :
  sys_wf A -> nth_error A l = Some sl -> wf s0 -> wf s1 ->
  items sl = items s0 ++ items s1 ->
  sys_wf (upd A l sl_init ++ [s0; s1]).
Proof.
  intros (Wf & Wn) E W0 W1 EI. split.
  - apply Forall_app. split.
    + apply Forall_upd; auto. apply wf_init.
    + constructor; [exact W0|]. constructor; [exact W1|]. constructor.
  - rewrite flat_map_app. simpl. rewrite app_nil_r.
    destruct (flat_map_upd_perm A l sl sl_init E) as (pre & post & E1 & E2).
    rewrite E2. simpl. rewrite E1, EI in Wn.
    eapply Permutation_NoDup; [|exact Wn].
    rewrite <- (app_assoc pre post). apply Permutation_app_head. apply Permutation_app_comm.
Qed.

Lemma R_split A p l sl o F te g G s0 s1 oa ob :
  sys_wf A -> R A p -> nth_error A l = Some sl -> nth_error (objs p) l = Some o ->
  items sl = F ++ te :: g :: G ->
  items s0 = F ++ [te] -> tail s0 = Some te ->
  items s1 = g :: G -> tail s1 = tail sl ->
  lt oa = Nd te -> lcount oa = count s0 -> lt ob = lt o -> lcount ob = count s1 ->
  let a := length (objs p) in
  let b := S a in
  let h1 := hupd (nx p) (Hd a) (nx p (Hd l)) in
  let h2 := hupd h1 (Hd b) (h1 (Nd te)) in
  let h3 := hupd h2 (Nd te) None in
  let h4 := hupd h3 (Hd l) None in
  R (upd A l sl_init ++ [s0; s1])
    (mkP h4 (upd (objs p) l (mkLO (Hd l) 0) ++ [oa; ob])).
Proof.
  intros W HR E Eo EL E0 T0 E1 T1 Hta Hca Htb Hcb a b h1 h2 h3 h4.
  pose proof W as (Wf & Wn). pose proof (nth_error_Forall _ _ _ _ Wf E) as Wsl.
  pose proof HR as (Hlen & HR').
  assert (Hl : (l < length A)%nat) by (apply nth_error_Some; congruence).
  assert (Ha : a = length A) by (unfold a; auto).
  destruct (HR' _ _ E) as (o' & Eo' & C & Ht & Hc). rewrite Eo in Eo'. inversion Eo'; subst o'. clear Eo'.
  assert (Hnd : NoDup (F ++ te :: g :: G)) by (rewrite <- EL; apply Wsl).
  destruct (NoDup_mid_notin _ _ _ Hnd) as (HteF & HteG).
  (* the new heap *)
  assert (Hh_other : forall j, j <> l -> j <> a -> j <> b -> h4 (Hd j) = nx p (Hd j)).
  { intros j H1 H2 H3. unfold h4, h3, h2, h1. rewrite !hupd_other; auto; congruence. }
  assert (Hh_l : h4 (Hd l) = None) by (unfold h4; apply hupd_same).
  assert (Hh_a : h4 (Hd a) = nx p (Hd l)).
  { unfold h4, h3, h2. rewrite !hupd_other; try discriminate; try (intros Eq; inversion Eq; lia).
    unfold h1. apply hupd_same. }
  assert (Hh_b : h4 (Hd b) = nx p (Nd te)).
  { unfold h4, h3. rewrite !hupd_other; try discriminate; try (intros Eq; inversion Eq; lia).
    unfold h2. rewrite hupd_same. unfold h1. rewrite hupd_other; auto. discriminate. }
  assert (Hn_te : h4 (Nd te) = None).
  { unfold h4. rewrite hupd_other by discriminate. unfold h3. apply hupd_same. }
  assert (Hn_other : forall x, x <> te -> h4 (Nd x) = nx p (Nd x)).
  { intros x Hx. unfold h4, h3, h2, h1. rewrite !hupd_other; auto; try discriminate. congruence. }
  (* the old chain of l *)
  unfold chain in C. rewrite EL in C. apply seg_app in C as (m & C1 & C2).
  simpl in C2. destruct C2 as (-> & C2g & C2).
  split.
  - simpl. rewrite !app_length, !upd_length. simpl. lia.
  - intros i sli Hi. cbn [nx objs].
    destruct (lt_dec i (length A)) as [Hia|Hia].
    + rewrite nth_error_app1 in Hi by (rewrite upd_length; auto).
      rewrite nth_error_app1 by (rewrite upd_length; lia).
      rewrite nth_error_upd in Hi. rewrite nth_error_upd.
      destruct (Nat.eqb_spec l i) as [<-|Hne].
      * rewrite Hlen. destruct (Nat.ltb_spec l (length A)); [|lia].
        inversion Hi; subst sli. eexists; split; [reflexivity|]. simpl.
        unfold chain; simpl. auto.
      * destruct (HR' _ _ Hi) as (oi & Eoi & Ci & Hti & Hci).
        exists oi. split; auto. split; auto.
        rewrite Hh_other by lia. eapply seg_ext; [|exact Ci].
        intros x Hx. apply Hn_other. intros ->.
        eapply (other_list_fresh A l sl i sli); eauto.
        rewrite EL. apply in_or_app; simpl; auto.
    + rewrite nth_error_app2 in Hi by (rewrite upd_length; lia).
      rewrite nth_error_app2 by (rewrite upd_length; lia).
      rewrite upd_length in Hi. rewrite upd_length, Hlen.
      remember (i - length A)%nat as d eqn:Ed. destruct d as [|[|d]].
      * assert (i = a) by lia. subst i. simpl in Hi. injection Hi as <-.
        exists oa. split; [reflexivity|]. split; [|rewrite T0; auto].
        rewrite Hh_a, E0. unfold chain. apply seg_app. exists (Some (Nd te)). split.
        -- eapply seg_ext; [|exact C1]. intros x Hx. apply Hn_other. intros ->. tauto.
        -- simpl. auto.
      * assert (i = b) by (unfold b; lia). subst i. simpl in Hi. injection Hi as <-.
        exists ob. split; [reflexivity|]. split.
        -- rewrite Hh_b, E1, C2g. unfold chain. simpl. split; auto.
           rewrite Hn_other by (intros ->; apply HteG; simpl; auto).
           eapply seg_ext; [|exact C2]. intros x Hx. apply Hn_other. intros ->. apply HteG; simpl; auto.
        -- split; auto. rewrite Htb, Ht, T1.
           destruct (tail sl) as [t|] eqn:Et; auto.
           exfalso. apply (wf_tail_None _ Wsl) in Et. rewrite EL in Et.
           destruct F; discriminate.
      * simpl in Hi. destruct d; discriminate.
Qed.

Section SimSort.
  Variable key : nat -> Z.

  (** one iteration of the merge loop: the first node of list [s] is unlinked
      and linked after the tail of list [l] *)
  Lemma sim_move A p l s out xs os xs' n out1 :
    sys_wf A -> R A p -> l <> s ->
    nth_error A l = Some out -> nth_error A s = Some xs -> nth_error (objs p) s = Some os ->
    erase_after xs None = Ok (xs', n) -> insert_after out (tail out) n = Ok out1 ->
    exists p1 ol1,
      p_erase_after p s os (Hd s) = Ok (p1, Nd n) /\ nth_error (objs p1) l = Some ol1 /\
      R (upd (upd A s xs') l out1) (p_insert_after p1 l ol1 (lt ol1) n) /\
      sys_wf (upd (upd A s xs') l out1).
  Proof.
    intros W HR Hne El Es Eos Her Hins.
    pose proof W as (Wf & Wn).
    pose proof (nth_error_Forall _ _ _ _ Wf El) as Wout.
    pose proof (nth_error_Forall _ _ _ _ Wf Es) as Wxs.
    destruct (sim_erase_after key A p s xs os None xs' n W HR Es Eos Her I) as (p1 & Ep1 & HR1).
    simpl taddr in Ep1.
    (* the sequence-level facts *)
    assert (exists r, items xs = n :: r) as (r & EI).
    { unfold erase_after in Her. destruct (items xs) as [|n' r]; [discriminate|].
      simpl in Her. inversion Her; subst. eauto. }
    destruct (erase_after_head xs n r Wxs EI) as (xs2 & H1 & H2 & Wxs').
    rewrite Her in H1. inversion H1; subst xs2. clear H1.
    destruct (flat_map_upd_perm A s xs xs' Es) as (pre & post & F1 & F2).
    assert (W1 : sys_wf (upd A s xs')).
    { eapply sys_wf_upd; eauto. intros pre0 post0 Hnd Eq. rewrite H2.
      eapply NoDup_sub_mid; [rewrite <- H2; apply Wxs'| |exact Hnd].
      rewrite EI. intros z Hz; simpl; auto. }
    assert (Hfresh : ~ In n (flat_map items (upd A s xs'))).
    { rewrite F2, H2. rewrite F1, EI in Wn. simpl in Wn.
      apply NoDup_mid_notin in Wn. rewrite in_app_iff. tauto. }
    assert (El1 : nth_error (upd A s xs') l = Some out).
    { rewrite nth_error_upd_other; auto. }
    destruct (proj2 HR1 _ _ El1) as (ol1 & Eol1 & _ & Htl1 & _).
    assert (Hnout : ~ In n (items out)).
    { intros Hin. apply Hfresh. eapply in_flat; eauto. }
    destruct (push_back_spec out n Wout Hnout) as (out2 & P1 & P2 & Wout1).
    unfold push_back in P1. rewrite Hins in P1. inversion P1; subst out2. clear P1.
    exists p1, ol1. split; auto. split; auto. split.
    - rewrite Htl1. apply (sim_insert_after key (upd A s xs') p1 l out ol1 (tail out) n out1); auto.
      destruct (tail out) as [t|] eqn:Et; auto.
      destruct Wout as (Htl & _). rewrite Et in Htl. symmetry in Htl. apply last_opt_In in Htl. exact Htl.
    - eapply sys_wf_upd; eauto. intros pre0 post0 Hnd Eq. rewrite P2.
      eapply NoDup_add_mid with (e := n) (a := items out); eauto.
      + rewrite <- Eq; auto.
      + apply Permutation_cons_append.
  Qed.

  Lemma sim_merge fuel : forall A p l a b out x y out' x' y',
    sys_wf A -> R A p -> l <> a -> l <> b -> a <> b ->
    nth_error A l = Some out -> nth_error A a = Some x -> nth_error A b = Some y ->
    merge_loop key fuel out x y = Ok (out', x', y') ->
    exists p', p_merge key fuel p l a b = Ok p' /\
               R (upd (upd (upd A l out') a x') b y') p' /\
               sys_wf (upd (upd (upd A l out') a x') b y').
  Proof.
    induction fuel as [|f IH]; intros A p l a b out x y out' x' y' W HR Hla Hlb Hab El Ea Eb HM;
      pose proof W as (Wf & Wn);
      destruct (proj2 HR _ _ El) as (ol & Eol & Cl & Htl & Hcl);
      destruct (proj2 HR _ _ Ea) as (oa & Eoa & Ca & Hta & Hca);
      destruct (proj2 HR _ _ Eb) as (ob & Eob & Cb & Htb & Hcb);
      cbn [merge_loop] in HM; cbn [p_merge]; rewrite Eol, Eoa, Eob, Hca, Hcb;
      assert (Hstop : forall A0 : sys, A0 = A -> upd (upd (upd A0 l out) a x) b y = A)
        by (intros A0 ->; rewrite (upd_same A l out El), (upd_same A a x Ea), (upd_same A b y Eb); reflexivity);
      destruct ((0 <? count x) && (0 <? count y)) eqn:Econd.
    - discriminate.
    - inversion HM; subst out' x' y'. rewrite (Hstop A eq_refl). eauto.
    - destruct (items x) as [|x1 rx] eqn:EIx; [discriminate|].
      destruct (items y) as [|y1 ry] eqn:EIy; [discriminate|].
      unfold chain in Ca, Cb. simpl in Ca, Cb. destruct Ca as (Ca & _). destruct Cb as (Cb & _).
      rewrite Ca, Cb.
      destruct (key x1 <=? key y1)%Z.
      + destruct (erase_after x None) as [[xa n]|] eqn:Her; [|discriminate].
        destruct (insert_after out (tail out) n) as [out1|] eqn:Hins; [|discriminate].
        destruct (sim_move A p l a out x oa xa n out1 W HR Hla El Ea Eoa Her Hins)
          as (p1 & ol1 & Ep1 & Eol1 & HR1 & W1).
        rewrite Ep1, Eol1.
        destruct (IH (upd (upd A a xa) l out1) (p_insert_after p1 l ol1 (lt ol1) n) l a b out1 xa y out' x' y')
          as (p' & Ep' & HR' & W'); auto.
        * rewrite nth_error_upd_same; auto. rewrite upd_length. apply nth_error_Some. congruence.
        * rewrite nth_error_upd_other by auto. rewrite nth_error_upd_same; auto.
          apply nth_error_Some. congruence.
        * rewrite !nth_error_upd_other by auto. auto.
        * exists p'. split; auto.
          replace (upd (upd (upd A l out') a x') b y')
            with (upd (upd (upd (upd (upd A a xa) l out1) l out') a x') b y'); auto.
          upd_eq.
      + destruct (erase_after y None) as [[yb n]|] eqn:Her; [|discriminate].
        destruct (insert_after out (tail out) n) as [out1|] eqn:Hins; [|discriminate].
        destruct (sim_move A p l b out y ob yb n out1 W HR Hlb El Eb Eob Her Hins)
          as (p1 & ol1 & Ep1 & Eol1 & HR1 & W1).
        rewrite Ep1, Eol1.
        destruct (IH (upd (upd A b yb) l out1) (p_insert_after p1 l ol1 (lt ol1) n) l a b out1 x yb out' x' y')
          as (p' & Ep' & HR' & W'); auto.
        * rewrite nth_error_upd_same; auto. rewrite upd_length. apply nth_error_Some. congruence.
        * rewrite !nth_error_upd_other by auto. auto.
        * rewrite nth_error_upd_other by auto. rewrite nth_error_upd_same; auto.
          apply nth_error_Some. congruence.
        * exists p'. split; auto.
          replace (upd (upd (upd A l out') a x') b y')
            with (upd (upd (upd (upd (upd A b yb) l out1) l out') a x') b y'); auto.
          upd_eq.
    - inversion HM; subst out' x' y'. rewrite (Hstop A eq_refl). eauto.
  Qed.
End SimSort.
