(** Simulation of the pointer-level [p_sort] (merge sort on two stack-local
    list objects) by the sequence-level [sort], and the resulting forward
    simulation for *all* operations ([sim_step], [sim_run]). *)
From Cstl Require Import Prelude SListModel SListProofs SListPtrModel SListPtrProofs.
Local Open Scope N_scope.

(** ** lists *)

Lemma list_eq_nth {A} (X Y : list A) : (forall j, nth_error X j = nth_error Y j) -> X = Y.
Proof.
  revert Y; induction X as [|x X IH]; intros [|y Y] H; auto.
  - specialize (H 0%nat); discriminate.
  - specialize (H 0%nat); discriminate.
  - f_equal.
    + specialize (H 0%nat); simpl in H; congruence.
    + apply IH. intros j. apply (H (S j)).
Qed.

Ltac upd_eq :=
  apply list_eq_nth; intros ?j; rewrite ?nth_error_upd, ?upd_length;
  repeat match goal with |- context [Nat.eqb ?u ?v] => destruct (Nat.eqb_spec u v) end;
  subst; try reflexivity; try congruence; try lia.

Lemma upd_upd {A} (L : list A) i x y : upd (upd L i x) i y = upd L i y.
Proof. upd_eq. Qed.

Lemma firstn_upd_ge {A} (L : list A) n i x : (n <= i)%nat -> firstn n (upd L i x) = firstn n L.
Proof.
  revert n i; induction L as [|y L IH]; intros [|n] [|i] H; simpl; auto; try lia.
  f_equal. apply IH. lia.
Qed.

Lemma firstn_upd_lt {A} (L : list A) n i x : (i < n)%nat -> firstn n (upd L i x) = upd (firstn n L) i x.
Proof.
  revert n i; induction L as [|y L IH]; intros [|n] [|i] H; simpl; auto; try lia.
  f_equal. apply IH. lia.
Qed.

Lemma nth_error_firstn_some {A} (L : list A) n i x :
  nth_error (firstn n L) i = Some x -> (i < n)%nat /\ nth_error L i = Some x.
Proof.
  revert n i; induction L as [|y L IH]; intros [|n] [|i]; simpl; try discriminate.
  - intros H; split; auto; lia.
  - intros H. apply IH in H. split; [lia|tauto].
Qed.

Lemma nth_error_firstn_lt {A} (L : list A) n i : (i < n)%nat -> nth_error (firstn n L) i = nth_error L i.
Proof.
  revert n i; induction L as [|y L IH]; intros [|n] [|i] H; simpl; auto; try lia.
  apply IH; lia.
Qed.

(** a list cut at [k], [1 <= k < length] *)
Lemma split_at (L : list nat) k :
  (1 <= k < length L)%nat ->
  exists F te g G, L = F ++ te :: g :: G /\ firstn k L = F ++ [te] /\ skipn k L = g :: G /\
                   nth_error L (k - 1) = Some te /\ k = S (length F).
Proof.
  intros Hk. pose proof (firstn_skipn k L) as E.
  assert (LF : length (firstn k L) = k) by (rewrite firstn_length; lia).
  assert (LG : length (skipn k L) = (length L - k)%nat) by (apply skipn_length).
  destruct (skipn k L) as [|g G] eqn:EG; [simpl in LG; lia|].
  destruct (exists_last (l := firstn k L)) as (F & te & EF).
  { intros E0. rewrite E0 in LF. simpl in LF. lia. }
  rewrite EF in *. rewrite app_length in LF. simpl in LF.
  exists F, te, g, G. rewrite <- E, <- app_assoc. simpl. repeat split; auto; try lia.
  rewrite nth_error_app2 by lia. replace (k - 1 - length F)%nat with 0%nat by lia. reflexivity.
Qed.

(** ** the pointer walk [for (t = &sl->h; ...; t = t->n)] *)
Lemma p_walk_links_spec h m x : forall F s,
  seg h (h s) (F ++ [x]) m -> p_walk_links (S (length F)) h s = Ok (Nd x).
Proof.
  induction F as [|y F IH]; intros s C.
  - simpl in C. destruct C as (E & _). simpl. rewrite E. reflexivity.
  - simpl in C. destruct C as (E & C). cbn [length p_walk_links]. rewrite E.
    apply IH. exact C.
Qed.

(** ** dropping the stack-local list objects *)
Lemma R_firstn A p n : R A p -> R (firstn n A) (mkP (nx p) (firstn n (objs p))).
Proof.
  intros (Hlen & HR). split; simpl.
  - rewrite !firstn_length, Hlen; auto.
  - intros i sl Hi. apply nth_error_firstn_some in Hi as (Hin & Hi).
    destruct (HR _ _ Hi) as (o & Eo & C & Ht & Hc).
    exists o. rewrite nth_error_firstn_lt by auto. auto.
Qed.

(** ** splitting list [l] into the two stack-local lists at indices [a], [b] *)

Lemma sys_wf_split A l sl s0 s1 :
  sys_wf A -> nth_error A l = Some sl -> wf s0 -> wf s1 ->
  items sl = items s0 ++ items s1 ->
  sys_wf (upd A l sl_init ++ [s0; s1]).
Proof.
  intros (Wf & Wn) E W0 W1 EI. split.
  - apply Forall_app. split.
    + apply Forall_upd; auto. apply wf_init.
    + constructor; [exact W0|]. constructor; [exact W1|]. constructor.
  - rewrite flat_map_app. simpl. rewrite app_nil_r.
    destruct (flat_map_upd_perm A l sl sl_init E) as (pre & post & E1 & E2).
    rewrite E2. simpl. rewrite E1, EI in Wn.
    eapply Permutation_NoDup; [|exact Wn].
    rewrite <- (app_assoc pre post). apply Permutation_app_head. apply Permutation_app_comm.
Qed.

Lemma R_split A p l sl o F te g G s0 s1 oa ob :
  sys_wf A -> R A p -> nth_error A l = Some sl -> nth_error (objs p) l = Some o ->
  items sl = F ++ te :: g :: G ->
  items s0 = F ++ [te] -> tail s0 = Some te ->
  items s1 = g :: G -> tail s1 = tail sl ->
  lt oa = Nd te -> lcount oa = count s0 -> lt ob = lt o -> lcount ob = count s1 ->
  let a := length (objs p) in
  let b := S a in
  let h1 := hupd (nx p) (Hd a) (nx p (Hd l)) in
  let h2 := hupd h1 (Hd b) (h1 (Nd te)) in
  let h3 := hupd h2 (Nd te) None in
  let h4 := hupd h3 (Hd l) None in
  R (upd A l sl_init ++ [s0; s1])
    (mkP h4 (upd (objs p) l (mkLO (Hd l) 0) ++ [oa; ob])).
Proof.
  intros W HR E Eo EL E0 T0 E1 T1 Hta Hca Htb Hcb a b h1 h2 h3 h4.
  pose proof W as (Wf & Wn). pose proof (nth_error_Forall _ _ _ _ Wf E) as Wsl.
  pose proof HR as (Hlen & HR').
  assert (Hl : (l < length A)%nat) by (apply nth_error_Some; congruence).
  assert (Ha : a = length A) by (unfold a; auto).
  destruct (HR' _ _ E) as (o' & Eo' & C & Ht & Hc). rewrite Eo in Eo'. inversion Eo'; subst o'. clear Eo'.
  assert (Hnd : NoDup (F ++ te :: g :: G)) by (rewrite <- EL; apply Wsl).
  destruct (NoDup_mid_notin _ _ _ Hnd) as (HteF & HteG).
  (* the new heap *)
  assert (Hh_other : forall j, j <> l -> j <> a -> j <> b -> h4 (Hd j) = nx p (Hd j)).
  { intros j H1 H2 H3. unfold h4, h3, h2, h1. rewrite !hupd_other; auto; congruence. }
  assert (Hh_l : h4 (Hd l) = None) by (unfold h4; apply hupd_same).
  assert (Hh_a : h4 (Hd a) = nx p (Hd l)).
  { unfold h4, h3, h2. rewrite !hupd_other; try discriminate; try (intros Eq; inversion Eq; lia).
    unfold h1. apply hupd_same. }
  assert (Hh_b : h4 (Hd b) = nx p (Nd te)).
  { unfold h4, h3. rewrite !hupd_other; try discriminate; try (intros Eq; inversion Eq; lia).
    unfold h2. rewrite hupd_same. unfold h1. rewrite hupd_other; auto. discriminate. }
  assert (Hn_te : h4 (Nd te) = None).
  { unfold h4. rewrite hupd_other by discriminate. unfold h3. apply hupd_same. }
  assert (Hn_other : forall x, x <> te -> h4 (Nd x) = nx p (Nd x)).
  { intros x Hx. unfold h4, h3, h2, h1. rewrite !hupd_other; auto; try discriminate. congruence. }
  (* the old chain of l *)
  unfold chain in C. rewrite EL in C. apply seg_app in C as (m & C1 & C2).
  simpl in C2. destruct C2 as (-> & C2g & C2).
  split.
  - simpl. rewrite !app_length, !upd_length. simpl. lia.
  - intros i sli Hi. cbn [nx objs].
    destruct (lt_dec i (length A)) as [Hia|Hia].
    + rewrite nth_error_app1 in Hi by (rewrite upd_length; auto).
      rewrite nth_error_app1 by (rewrite upd_length; lia).
      rewrite nth_error_upd in Hi. rewrite nth_error_upd.
      destruct (Nat.eqb_spec l i) as [<-|Hne].
      * rewrite Hlen. destruct (Nat.ltb_spec l (length A)); [|lia].
        inversion Hi; subst sli. eexists; split; [reflexivity|]. simpl.
        unfold chain; simpl. auto.
      * destruct (HR' _ _ Hi) as (oi & Eoi & Ci & Hti & Hci).
        exists oi. split; auto. split; auto.
        rewrite Hh_other by lia. eapply seg_ext; [|exact Ci].
        intros x Hx. apply Hn_other. intros ->.
        eapply (other_list_fresh A l sl i sli); eauto.
        rewrite EL. apply in_or_app; simpl; auto.
    + rewrite nth_error_app2 in Hi by (rewrite upd_length; lia).
      rewrite nth_error_app2 by (rewrite upd_length; lia).
      rewrite upd_length in Hi. rewrite upd_length, Hlen.
      remember (i - length A)%nat as d eqn:Ed. destruct d as [|[|d]].
      * assert (i = a) by lia. subst i. simpl in Hi. injection Hi as <-.
        exists oa. split; [reflexivity|]. split; [|rewrite T0; auto].
        rewrite Hh_a, E0. unfold chain. apply seg_app. exists (Some (Nd te)). split.
        -- eapply seg_ext; [|exact C1]. intros x Hx. apply Hn_other. intros ->. tauto.
        -- simpl. auto.
      * assert (i = b) by (unfold b; lia). subst i. simpl in Hi. injection Hi as <-.
        exists ob. split; [reflexivity|]. split.
        -- rewrite Hh_b, E1, C2g. unfold chain. simpl. split; auto.
           rewrite Hn_other by (intros ->; apply HteG; simpl; auto).
           eapply seg_ext; [|exact C2]. intros x Hx. apply Hn_other. intros ->. apply HteG; simpl; auto.
        -- split; auto. rewrite Htb, Ht, T1.
           destruct (tail sl) as [t|] eqn:Et; auto.
           exfalso. apply (wf_tail_None _ Wsl) in Et. rewrite EL in Et.
           destruct F; discriminate.
      * simpl in Hi. destruct d; discriminate.
Qed.

Section SimSort.
  Variable key : nat -> Z.

  (** one iteration of the merge loop: the first node of list [s] is unlinked
      and linked after the tail of list [l] *)
  Lemma sim_move A p l s out xs os xs' n out1 :
    sys_wf A -> R A p -> l <> s ->
    nth_error A l = Some out -> nth_error A s = Some xs -> nth_error (objs p) s = Some os ->
    erase_after xs None = Ok (xs', n) -> insert_after out (tail out) n = Ok out1 ->
    exists p1 ol1,
      p_erase_after p s os (Hd s) = Ok (p1, Nd n) /\ nth_error (objs p1) l = Some ol1 /\
      R (upd (upd A s xs') l out1) (p_insert_after p1 l ol1 (lt ol1) n) /\
      sys_wf (upd (upd A s xs') l out1).
  Proof.
    intros W HR Hne El Es Eos Her Hins.
    pose proof W as (Wf & Wn).
    pose proof (nth_error_Forall _ _ _ _ Wf El) as Wout.
    pose proof (nth_error_Forall _ _ _ _ Wf Es) as Wxs.
    destruct (sim_erase_after key A p s xs os None xs' n W HR Es Eos Her I) as (p1 & Ep1 & HR1).
    simpl taddr in Ep1.
    (* the sequence-level facts *)
    assert (exists r, items xs = n :: r) as (r & EI).
    { unfold erase_after in Her. destruct (items xs) as [|n' r]; [discriminate|].
      simpl in Her. inversion Her; subst. eauto. }
    destruct (erase_after_head xs n r Wxs EI) as (xs2 & H1 & H2 & Wxs').
    rewrite Her in H1. inversion H1; subst xs2. clear H1.
    destruct (flat_map_upd_perm A s xs xs' Es) as (pre & post & F1 & F2).
    assert (W1 : sys_wf (upd A s xs')).
    { eapply sys_wf_upd; eauto. intros pre0 post0 Hnd Eq. rewrite H2.
      eapply NoDup_sub_mid; [rewrite <- H2; apply Wxs'| |exact Hnd].
      rewrite EI. intros z Hz; simpl; auto. }
    assert (Hfresh : ~ In n (flat_map items (upd A s xs'))).
    { rewrite F2, H2. rewrite F1, EI in Wn. simpl in Wn.
      apply NoDup_mid_notin in Wn. rewrite in_app_iff. tauto. }
    assert (El1 : nth_error (upd A s xs') l = Some out).
    { rewrite nth_error_upd_other; auto. }
    destruct (proj2 HR1 _ _ El1) as (ol1 & Eol1 & _ & Htl1 & _).
    assert (Hnout : ~ In n (items out)).
    { intros Hin. apply Hfresh. eapply in_flat; eauto. }
    destruct (push_back_spec out n Wout Hnout) as (out2 & P1 & P2 & Wout1).
    unfold push_back in P1. rewrite Hins in P1. inversion P1; subst out2. clear P1.
    exists p1, ol1. split; auto. split; auto. split.
    - rewrite Htl1. apply (sim_insert_after key (upd A s xs') p1 l out ol1 (tail out) n out1); auto.
      destruct (tail out) as [t|] eqn:Et; auto.
      destruct Wout as (Htl & _). rewrite Et in Htl. symmetry in Htl. apply last_opt_In in Htl. exact Htl.
    - eapply sys_wf_upd; eauto. intros pre0 post0 Hnd Eq. rewrite P2.
      eapply NoDup_add_mid with (e := n) (a := items out); eauto.
      + rewrite <- Eq; auto.
      + apply Permutation_cons_append.
  Qed.

  Lemma sim_merge fuel : forall A p l a b out x y out' x' y',
    sys_wf A -> R A p -> l <> a -> l <> b -> a <> b ->
    nth_error A l = Some out -> nth_error A a = Some x -> nth_error A b = Some y ->
    merge_loop key fuel out x y = Ok (out', x', y') ->
    exists p', p_merge key fuel p l a b = Ok p' /\
               R (upd (upd (upd A l out') a x') b y') p' /\
               sys_wf (upd (upd (upd A l out') a x') b y').
  Proof.
    induction fuel as [|f IH]; intros A p l a b out x y out' x' y' W HR Hla Hlb Hab El Ea Eb HM;
      pose proof W as (Wf & Wn);
      destruct (proj2 HR _ _ El) as (ol & Eol & Cl & Htl & Hcl);
      destruct (proj2 HR _ _ Ea) as (oa & Eoa & Ca & Hta & Hca);
      destruct (proj2 HR _ _ Eb) as (ob & Eob & Cb & Htb & Hcb);
      cbn [merge_loop] in HM; cbn [p_merge]; rewrite Eol, Eoa, Eob, Hca, Hcb;
      assert (Hstop : forall A0 : sys, A0 = A -> upd (upd (upd A0 l out) a x) b y = A)
        by (intros A0 ->; rewrite (upd_same A l out El), (upd_same A a x Ea), (upd_same A b y Eb); reflexivity);
      destruct ((0 <? count x) && (0 <? count y)) eqn:Econd.
    - discriminate.
    - inversion HM; subst out' x' y'. rewrite (Hstop A eq_refl). eauto.
    - destruct (items x) as [|x1 rx] eqn:EIx; [discriminate|].
      destruct (items y) as [|y1 ry] eqn:EIy; [discriminate|].
      unfold chain in Ca, Cb. simpl in Ca, Cb. destruct Ca as (Ca & _). destruct Cb as (Cb & _).
      rewrite Ca, Cb.
      destruct (key x1 <=? key y1)%Z.
      + destruct (erase_after x None) as [[xa n]|] eqn:Her; [|discriminate].
        destruct (insert_after out (tail out) n) as [out1|] eqn:Hins; [|discriminate].
        destruct (sim_move A p l a out x oa xa n out1 W HR Hla El Ea Eoa Her Hins)
          as (p1 & ol1 & Ep1 & Eol1 & HR1 & W1).
        rewrite Ep1, Eol1.
        destruct (IH (upd (upd A a xa) l out1) (p_insert_after p1 l ol1 (lt ol1) n) l a b out1 xa y out' x' y')
          as (p' & Ep' & HR' & W'); auto.
        * rewrite nth_error_upd_same; auto. rewrite upd_length. apply nth_error_Some. congruence.
        * rewrite nth_error_upd_other by auto. rewrite nth_error_upd_same; auto.
          apply nth_error_Some. congruence.
        * rewrite !nth_error_upd_other by auto. auto.
        * exists p'. split; auto.
          replace (upd (upd (upd A l out') a x') b y')
            with (upd (upd (upd (upd (upd A a xa) l out1) l out') a x') b y'); auto.
          upd_eq.
      + destruct (erase_after y None) as [[yb n]|] eqn:Her; [|discriminate].
        destruct (insert_after out (tail out) n) as [out1|] eqn:Hins; [|discriminate].
        destruct (sim_move A p l b out y ob yb n out1 W HR Hlb El Eb Eob Her Hins)
          as (p1 & ol1 & Ep1 & Eol1 & HR1 & W1).
        rewrite Ep1, Eol1.
        destruct (IH (upd (upd A b yb) l out1) (p_insert_after p1 l ol1 (lt ol1) n) l a b out1 x yb out' x' y')
          as (p' & Ep' & HR' & W'); auto.
        * rewrite nth_error_upd_same; auto. rewrite upd_length. apply nth_error_Some. congruence.
        * rewrite !nth_error_upd_other by auto. auto.
        * rewrite nth_error_upd_other by auto. rewrite nth_error_upd_same; auto.
          apply nth_error_Some. congruence.
        * exists p'. split; auto.
          replace (upd (upd (upd A l out') a x') b y')
            with (upd (upd (upd (upd (upd A b yb) l out1) l out') a x') b y'); auto.
          upd_eq.
    - inversion HM; subst out' x' y'. rewrite (Hstop A eq_refl). eauto.
  Qed.

  (** the state after the split: [_sl[0]] and [_sl[1]] live at the two next
      free object indices *)
  Definition p_split (p : pstate) (l : nat) (o : lobj) (t : addr) (k : nat) : pstate :=
    let a := length (objs p) in
    let b := S a in
    let h1 := hupd (nx p) (Hd a) (nx p (Hd l)) in
    let h2 := hupd h1 (Hd b) (h1 t) in
    let h3 := hupd h2 t None in
    let h4 := hupd h3 (Hd l) None in
    mkP h4 (upd (objs p) l (mkLO (Hd l) 0) ++
            [mkLO t (N.of_nat k); mkLO (lt o) (lcount o - N.of_nat k)]).

  Lemma p_sort_S f p l o :
    nth_error (objs p) l = Some o -> (1 <? lcount o) = true ->
    p_sort key (S f) p l =
    let a := length (objs p) in
    let b := S a in
    let k := N.to_nat (lcount o / 2) in
    match p_walk_links k (nx p) (Hd l) with
    | Flt => Flt
    | Ok t =>
      match p_sort key f (p_split p l o t k) a with
      | Flt => Flt
      | Ok p1 =>
        match p_sort key f p1 b with
        | Flt => Flt
        | Ok p2 =>
          match nth_error (objs p2) a, nth_error (objs p2) b with
          | Some oa2, Some ob2 =>
            match p_merge key (N.to_nat (lcount oa2 + lcount ob2)) p2 l a b with
            | Flt => Flt
            | Ok p3 =>
              match nth_error (objs p3) l, nth_error (objs p3) a, nth_error (objs p3) b with
              | Some ol, Some oa, Some ob =>
                let p4 := if 0 <? lcount oa then p_concat p3 l a ol oa else p_concat p3 l b ol ob in
                Ok (mkP (nx p4) (firstn a (objs p4)))
              | _, _, _ => Flt
              end
            end
          | _, _ => Flt
          end
        end
      end
    end.
  Proof. intros E H. cbn [p_sort]. rewrite E, H. reflexivity. Qed.

  Lemma sys_wf_sort A l sl fuel sl' :
    sys_wf A -> nth_error A l = Some sl -> (length (items sl) <= fuel)%nat ->
    sort key fuel sl = Ok sl' -> sys_wf (upd A l sl').
  Proof.
    intros W E Hf HS. pose proof W as (Wf & Wn).
    pose proof (nth_error_Forall _ _ _ _ Wf E) as Wsl.
    destruct (sort_spec key fuel sl Wsl Hf) as (sl2 & H1 & H2 & H3 & H4).
    rewrite HS in H1. inversion H1; subst sl2.
    eapply sys_wf_upd; eauto. intros pre post Hnd Eq.
    eapply NoDup_swap_mid; [|exact Hnd]. auto.
  Qed.

  Ltac firstn_push :=
    repeat ((rewrite firstn_upd_ge by lia) || (rewrite firstn_upd_lt by lia)).

  Lemma sim_sort fuel : forall A p l sl sl',
    sys_wf A -> R A p -> nth_error A l = Some sl -> (length (items sl) <= fuel)%nat ->
    sort key fuel sl = Ok sl' ->
    exists p', p_sort key fuel p l = Ok p' /\ R (upd A l sl') p'.
  Proof.
    induction fuel as [|f IH]; intros A p l sl sl' W HR E Hf HS;
      pose proof W as (Wf & Wn); pose proof (nth_error_Forall _ _ _ _ Wf E) as Wsl;
      destruct (proj2 HR _ _ E) as (o & Eo & C & Ht & Hc).
    - cbn [sort] in HS. cbn [p_sort]. rewrite Eo, Hc.
      destruct (1 <? count sl) eqn:E1; [discriminate|].
      inversion HS; subst sl'. rewrite upd_same by auto. eauto.
    - cbn [sort] in HS. destruct (1 <? count sl) eqn:E1.
      2:{ cbn [p_sort]. rewrite Eo, Hc, E1. inversion HS; subst sl'. rewrite upd_same by auto. eauto. }
      rewrite (p_sort_S f p l o Eo) by (rewrite Hc; exact E1).
      cbv zeta. rewrite Hc.
      pose proof Wsl as (Htl & Hcnt & Hnd).
      pose proof (proj1 HR) as Hlen.
      assert (Hl : (l < length A)%nat) by (apply nth_error_Some; congruence).
      set (a := length (objs p)) in *.
      set (k := N.to_nat (count sl / 2)) in *.
      assert (Hk : (1 <= k < length (items sl))%nat).
      { apply N.ltb_lt in E1. unfold k. rewrite Hcnt in *.
        assert (1 <= N.of_nat (length (items sl)) / 2) by (apply N.div_le_lower_bound; lia).
        assert (N.of_nat (length (items sl)) / 2 < N.of_nat (length (items sl))) by (apply N.div_lt; lia).
        lia. }
      destruct (Nat.ltb_spec (length (items sl)) k) as [?|_]; [lia|].
      destruct (split_at (items sl) k Hk) as (F & te & g & G & EL & EF & EG & Ente & Ek).
      assert (Et : match k with O => None | S k' => nth_error (items sl) k' end = Some te).
      { destruct k; [lia|]. simpl in Ente. rewrite Nat.sub_0_r in Ente. auto. }
      rewrite Et in HS.
      set (s0 := mkSL (firstn k (items sl)) (Some te) (N.of_nat k)) in *.
      set (s1 := mkSL (skipn k (items sl)) (tail sl) (count sl - N.of_nat k)) in *.
      assert (W0 : wf s0).
      { pose proof (wf_firstn key sl k Wsl ltac:(lia)) as H. rewrite Ente in H. exact H. }
      assert (W1 : wf s1) by (apply (wf_skipn key sl k Wsl); lia).
      (* the walk *)
      assert (EW : p_walk_links k (nx p) (Hd l) = Ok (Nd te)).
      { rewrite Ek. unfold chain in C. rewrite EL in C.
        change (F ++ te :: g :: G) with (F ++ [te] ++ g :: G) in C. rewrite app_assoc in C.
        apply seg_app in C as (m & C1 & _). eapply p_walk_links_spec; eauto. }
      rewrite EW.
      destruct (sort key f s0) as [s0'|] eqn:E0; [|discriminate].
      destruct (sort key f s1) as [s1'|] eqn:E1'; [|discriminate].
      destruct (merge_loop key (N.to_nat (count s0' + count s1')) sl_init s0' s1')
        as [[[out xa] xb]|] eqn:EM; [|discriminate].
      (* the split *)
      set (A1 := upd A l sl_init ++ [s0; s1]).
      set (p1 := p_split p l o (Nd te) k).
      assert (WA1 : sys_wf A1).
      { apply sys_wf_split with (sl := sl); auto. simpl. symmetry. apply firstn_skipn. }
      assert (R1 : R A1 p1).
      { unfold A1, p1, p_split.
        apply (R_split A p l sl o F te g G s0 s1); auto. simpl. rewrite Hc. reflexivity. }
      assert (Ea1 : nth_error A1 a = Some s0).
      { unfold A1. rewrite nth_error_app2 by (rewrite upd_length; lia). rewrite upd_length.
        replace (a - length A)%nat with 0%nat by lia. reflexivity. }
      assert (Eb1 : nth_error A1 (S a) = Some s1).
      { unfold A1. rewrite nth_error_app2 by (rewrite upd_length; lia). rewrite upd_length.
        replace (S a - length A)%nat with 1%nat by lia. reflexivity. }
      assert (El1 : nth_error A1 l = Some sl_init).
      { unfold A1. rewrite nth_error_app1 by (rewrite upd_length; lia).
        apply nth_error_upd_same; auto. }
      assert (LA1 : length A1 = S (S a)).
      { unfold A1. rewrite app_length, upd_length. simpl. lia. }
      assert (Hf0 : (length (items s0) <= f)%nat) by (simpl; rewrite firstn_length; lia).
      assert (Hf1 : (length (items s1) <= f)%nat) by (simpl; rewrite skipn_length; lia).
      (* the two recursive calls *)
      destruct (IH A1 p1 a s0 s0' WA1 R1 Ea1 Hf0 E0) as (p2 & Ep2 & R2).
      pose proof (sys_wf_sort A1 a s0 f s0' WA1 Ea1 Hf0 E0) as WA2.
      rewrite Ep2.
      assert (Eb2 : nth_error (upd A1 a s0') (S a) = Some s1).
      { rewrite nth_error_upd_other by lia. exact Eb1. }
      destruct (IH (upd A1 a s0') p2 (S a) s1 s1' WA2 R2 Eb2 Hf1 E1') as (p3 & Ep3 & R3).
      pose proof (sys_wf_sort _ (S a) s1 f s1' WA2 Eb2 Hf1 E1') as WA3.
      rewrite Ep3.
      set (A3 := upd (upd A1 a s0') (S a) s1') in *.
      assert (El3 : nth_error A3 l = Some sl_init).
      { unfold A3. rewrite !nth_error_upd_other by lia. exact El1. }
      assert (Ea3 : nth_error A3 a = Some s0').
      { unfold A3. rewrite nth_error_upd_other by lia. apply nth_error_upd_same. lia. }
      assert (Eb3 : nth_error A3 (S a) = Some s1').
      { unfold A3. apply nth_error_upd_same. rewrite upd_length. lia. }
      destruct (proj2 R3 _ _ Ea3) as (oa3 & Eoa3 & _ & _ & Hca3).
      destruct (proj2 R3 _ _ Eb3) as (ob3 & Eob3 & _ & _ & Hcb3).
      rewrite Eoa3, Eob3, Hca3, Hcb3.
      (* the merge loop *)
      destruct (sim_merge _ A3 p3 l a (S a) sl_init s0' s1' out xa xb WA3 R3
                          ltac:(lia) ltac:(lia) ltac:(lia) El3 Ea3 Eb3 EM)
        as (p4 & Ep4 & R4 & WA4).
      rewrite Ep4.
      set (A4 := upd (upd (upd A3 l out) a xa) (S a) xb) in *.
      assert (LA3 : length A3 = S (S a)) by (unfold A3; rewrite !upd_length; exact LA1).
      assert (El4 : nth_error A4 l = Some out).
      { unfold A4. rewrite !nth_error_upd_other by lia. apply nth_error_upd_same. lia. }
      assert (Ea4 : nth_error A4 a = Some xa).
      { unfold A4. rewrite nth_error_upd_other by lia. apply nth_error_upd_same. rewrite upd_length. lia. }
      assert (Eb4 : nth_error A4 (S a) = Some xb).
      { unfold A4. apply nth_error_upd_same. rewrite !upd_length. lia. }
      destruct (proj2 R4 _ _ El4) as (ol4 & Eol4 & _).
      destruct (proj2 R4 _ _ Ea4) as (oa4 & Eoa4 & _ & _ & Hca4).
      destruct (proj2 R4 _ _ Eb4) as (ob4 & Eob4 & _).
      rewrite Eol4, Eoa4, Eob4, Hca4.
      (* firstn a of the final extended system *)
      assert (Htrunc : forall c u v, (a <= c)%nat ->
                firstn a (upd (upd A4 l u) c v) = upd A l u).
      { intros c u v Hc'. unfold A4, A3, A1. firstn_push.
        rewrite firstn_app, upd_length. replace (a - length A)%nat with 0%nat by lia.
        simpl firstn. rewrite app_nil_r, firstn_all2 by (rewrite upd_length; lia).
        rewrite !upd_upd. reflexivity. }
      destruct (0 <? count xa) eqn:Eca; cbv iota.
      + destruct (concat out xa) as [[o' s']|] eqn:ECo; [|discriminate].
        inversion HS; subst sl'.
        assert (Hns : forall l0, Concat l a <> Sort l0) by discriminate.
        pose proof (sim_step_nosort key A4 p4 (Concat l a) WA4 R4 Hns) as HC.
        cbn [SListModel.step p_step] in HC. unfold with_list, with_obj in HC.
        rewrite (proj2 (Nat.eqb_neq l a)) in HC by lia.
        rewrite El4, Ea4, ECo, Eol4, Eoa4 in HC.
        destruct HC as (p5 & Ep5 & R5). injection Ep5 as <-.
        eexists; split; [reflexivity|].
        rewrite <- (Htrunc a o' s') by lia. apply R_firstn. exact R5.
      + destruct (concat out xb) as [[o' s']|] eqn:ECo; [|discriminate].
        inversion HS; subst sl'.
        assert (Hns : forall l0, Concat l (S a) <> Sort l0) by discriminate.
        pose proof (sim_step_nosort key A4 p4 (Concat l (S a)) WA4 R4 Hns) as HC.
        cbn [SListModel.step p_step] in HC. unfold with_list, with_obj in HC.
        rewrite (proj2 (Nat.eqb_neq l (S a))) in HC by lia.
        rewrite El4, Eb4, ECo, Eol4, Eob4 in HC.
        destruct HC as (p5 & Ep5 & R5). injection Ep5 as <-.
        eexists; split; [reflexivity|].
        rewrite <- (Htrunc (S a) o' s') by lia. apply R_firstn. exact R5.
  Qed.
End SimSort.

(** ** Forward simulation for every operation, and for whole histories *)
Section SimAll.
  Variable key : nat -> Z.
  Notation astep := (SListModel.step key false).

  Theorem sim_step a p o :
    sys_wf a -> R a p ->
    match astep a o with
    | Done a' out => exists p', p_step key p o = Done p' out /\ R a' p'
    | Precond => p_step key p o = Precond
    | _ => True
    end.
  Proof.
    intros W HR.
    destruct o as [l e|l e|l b e|l b|l|l|l|l|l|l|d sr|x y|l stop|l|l0 d0 stop0];
      try (apply (sim_step_nosort key a p _ W HR); discriminate).
    (* Sort *)
    pose proof W as (Wf & Wn).
    cbn [SListModel.step p_step]. unfold with_list, with_obj.
    destruct (nth_error a l) as [sl|] eqn:E; [|rewrite (R_none _ _ _ HR E); auto].
    destruct (proj2 HR _ _ E) as (ob & Eo & C & Ht & Hc). rewrite Eo.
    pose proof (nth_error_Forall _ _ _ _ Wf E) as Wsl.
    rewrite Hc, (wf_count_len sl Wsl).
    destruct (sort key (length (items sl)) sl) as [sl'|] eqn:ES; simpl; auto.
    destruct (sim_sort key _ a p l sl sl' W HR E (le_n _) ES) as (p' & Ep & HR').
    rewrite Ep. eauto.
  Qed.

  (** the pointer-level foreach with the moving visitor (successor saved
      before the visit; visitor = pointer-level pop_front + push_back), from
      any state representing well-formed sequences: completes with the
      reference result and represents the reference sequences afterwards *)
  Lemma fmove_ptr_step a p l d stop sl dl :
    sys_wf a -> R a p -> l <> d -> nth_error a l = Some sl -> nth_error a d = Some dl ->
    exists a' p',
      p_step key p (FMove l d stop) =
        Done p' (fm_res stop (length (items sl)) :: 0%Z
                 :: zids (firstn (fm_count stop (length (items sl))) (items sl))) /\
      R a' p' /\ sys_wf a' /\
      abs a' = upd (upd (abs a) l (skipn (fm_count stop (length (items sl))) (items sl))) d
                   (items dl ++ firstn (fm_count stop (length (items sl))) (items sl)).
  Proof.
    intros W HR Hne El Ed.
    destruct (fmove_step key a l d stop sl dl W Hne El Ed) as (a' & Ea & W' & Eabs).
    pose proof (sim_step a p (FMove l d stop) W HR) as HS. rewrite Ea in HS.
    destruct HS as (p' & Ep & HR'). exists a', p'. auto.
  Qed.

  (** the pointer-level model produces exactly the outputs of the sequence
      model and ends in a related state *)
  Lemma sim_run ops : forall a p,
    sys_wf a -> R a p ->
    match run (SListModel.step key false) a ops, run (p_step key) p ops with
    | (Done a' _, outs), (Done p' _, outs') => R a' p' /\ outs = outs' /\ sys_wf a'
    | (Precond, outs), (Precond, outs') => outs = outs'
    | _, _ => False
    end.
  Proof.
    induction ops as [|o ops IH]; intros a p W HR; simpl; auto.
    pose proof (step_correct key a o W) as HC.
    pose proof (sim_step a p o W HR) as HS.
    destruct (SListModel.step key false a o) as [a' out| | |]; try tauto.
    - destruct HS as (p' & -> & HR'). destruct HC as (W' & _).
      specialize (IH a' p' W' HR').
      destruct (run (SListModel.step key false) a' ops) as [[? ?| | |] outs];
        destruct (run (p_step key) p' ops) as [[? ?| | |] outs']; try tauto.
      + destruct IH as (? & -> & ?); auto.
      + subst; auto.
    - rewrite HS. auto.
  Qed.
End SimAll.
