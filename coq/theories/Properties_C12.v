(** C12 — a doubly-linked list equals a reference sequence in both
    directions.  Statements only; proofs are in DListProofs*.v. *)
From Cstl Require Import Prelude DListModel DListProofs DListProofs2.

(** [ring h hd l] (DListProofs.v): following the [nx] links from the head
    node [hd] spells [l] and returns to [hd], every [pv] link is the inverse
    of the [nx] link arriving at that node, no node occurs twice.
    [dl h hd l] adds: the size field of the list object is [length l]. *)

(** a raw walk along the forward links yields the sequence ... *)
Theorem C12_forward_traversal h hd l fuel :
  ring h hd l -> length l <= fuel -> traverse Fwd h hd fuel = l.
Proof. exact (traverse_fwd h hd l fuel). Qed.

(** ... and a raw walk along the backward links its mirror image *)
Theorem C12_backward_traversal h hd l fuel :
  ring h hd l -> length l <= fuel -> traverse Rev h hd fuel = rev l.
Proof. exact (traverse_rev h hd l fuel). Qed.

(** __cstl_dlist_insert: the new node appears right after the given
    position, all links (both directions) stay consistent, nothing outside
    the two neighbours and the new node is written *)
Theorem C12_insert_primitive h l hd l1 l2 n :
  ring h hd (l1 ++ l2) -> valid h n -> ~ In n (hd :: l1 ++ l2) ->
  exists h', insert h l (last l1 hd) n = Ok h' /\ ring h' hd (l1 ++ n :: l2) /\
    (forall x, x <> last l1 hd -> x <> hd_or l2 hd -> x <> n -> hm h' x = hm h x) /\
    (forall x, valid h' x <-> valid h x) /\
    hs h' = hs (wsz h l (rsz h l + 1)%N).
Proof. exact (insert_ring h l hd l1 l2 n). Qed.

(** __cstl_dlist_erase: the node disappears from the ring, only its two
    neighbours are written *)
Theorem C12_erase_primitive h l hd l1 n l2 :
  ring h hd (l1 ++ n :: l2) ->
  exists h', erase h l n = Ok h' /\ ring h' hd (l1 ++ l2) /\
    (forall x, x <> last l1 hd -> x <> hd_or l2 hd -> hm h' x = hm h x) /\
    (forall x, valid h' x <-> valid h x) /\
    hs h' = hs (wsz h l (dec (rsz h l))).
Proof. exact (erase_ring h l hd l1 n l2). Qed.

(** swap exchanges the contents of two list objects (any lengths, including
    empty ones); both results are well-formed rings anchored at their new
    heads *)
Theorem C12_swap h a b la lb :
  dl h a la -> dl h b lb -> NoDup (a :: la ++ b :: lb) ->
  exists h', swap h a b = Ok h' /\ dl h' a lb /\ dl h' b la /\
    (forall x, ~ In x (a :: la ++ b :: lb) -> hm h' x = hm h x) /\
    (forall x, x <> a -> x <> b -> hs h' x = hs h x) /\
    (forall x, valid h' x <-> valid h x).
Proof. exact (swap_dl h a b la lb). Qed.

(** concat moves all nodes of the source, in order, behind the destination
    and leaves the source an empty, usable list *)
Theorem C12_concat h d s ld ls :
  dl h d ld -> dl h s ls -> NoDup (d :: ld ++ s :: ls) ->
  exists h', concat h d s = Ok h' /\ dl h' d (ld ++ ls) /\ dl h' s [] /\
    (forall x, ~ In x (d :: ld ++ s :: ls) -> hm h' x = hm h x) /\
    (forall x, x <> d -> x <> s -> hs h' x = hs h x) /\
    (forall x, valid h' x <-> valid h x).
Proof. exact (concat_dl h d s ld ls). Qed.

(** Non-vacuity: a concrete history (2 lists, keys 1 0 1 0 2) drives the
    model through every kind of operation; the raw walks agree. *)
Example C12_example_run :
  let key := fun n => nth n [1;0;1;0;2]%Z 0%Z in
  let ops := [PushBack 0 0; PushBack 0 1; PushFront 0 2; Insert 0 1 3; PushBack 1 4;
              Sort 0; Reverse 0; Concat 1 0; Swap 0 1; Erase 0 2; PopFront 0; PopBack 0;
              Foreach 0 Rev 1 (VMove 1); Find 1 0%Z Rev] in
  match fst (run (step key) (sys_init 2) ops) with
  | Done s _ => traverse Fwd (hp s) (haddr 0) 40 = [eaddr 0] /\
                traverse Rev (hp s) (haddr 1) 40 = [eaddr 3]
  | _ => False
  end.
Proof. vm_compute. split; reflexivity. Qed.

Print Assumptions C12_forward_traversal.
Print Assumptions C12_backward_traversal.
Print Assumptions C12_insert_primitive.
Print Assumptions C12_erase_primitive.
Print Assumptions C12_swap.
Print Assumptions C12_concat.
