(** C12 — a doubly-linked list equals a reference sequence in both
    directions.  Statements only; proofs are in DListProofs*.v.

    Vocabulary (DListProofs.v):
    - [ring h hd l]: following the [nx] links from the head node [hd] spells
      [l] and returns to [hd], every [pv] link is the inverse of the [nx]
      link arriving at that node, no node occurs twice ([NoDup (hd :: l)]).
    - [dl h hd l]: [ring h hd l] and the size field of the list object is
      [length l].
    - [sys_wf s] (DListProofs5.v): every list object [i] of the scripted
      system is [dl] for the sequence [nth i (abs s)] read off its forward
      links; distinct list objects share no node; the stack-local list
      objects of cstl_dlist_sort do not exist between calls.
    - [spec key a o a' out]: the reference semantics of operation [o] on
      plain sequences (push/pop/insert/erase, [rev], [++], first match in
      direction, visited prefix, sorted permutation, ...). *)
From Cstl Require Import Prelude DListModel DListProofs DListProofs2 DListProofs3 DListProofs4
  DListProofs6 DListProofs5.

(** * 1. The representation predicate and the two primitives *)

(** __cstl_dlist_insert: the new node appears right after the given
    position, all links (both directions) stay consistent, nothing outside
    the two neighbours and the new node is written (frame) *)
Theorem C12_insert_primitive h l hd l1 l2 n :
  ring h hd (l1 ++ l2) -> valid h n -> ~ In n (hd :: l1 ++ l2) ->
  exists h', insert h l (last l1 hd) n = Ok h' /\ ring h' hd (l1 ++ n :: l2) /\
    (forall x, x <> last l1 hd -> x <> hd_or l2 hd -> x <> n -> hm h' x = hm h x) /\
    (forall x, valid h' x <-> valid h x) /\
    hs h' = hs (wsz h l (rsz h l + 1)%N).
Proof. exact (insert_ring h l hd l1 l2 n). Qed.

(** __cstl_dlist_erase: the node disappears from the ring, only its two
    neighbours are written *)
Theorem C12_erase_primitive h l hd l1 n l2 :
  ring h hd (l1 ++ n :: l2) ->
  exists h', erase h l n = Ok h' /\ ring h' hd (l1 ++ l2) /\
    (forall x, x <> last l1 hd -> x <> hd_or l2 hd -> hm h' x = hm h x) /\
    (forall x, valid h' x <-> valid h x) /\
    hs h' = hs (wsz h l (dec (rsz h l))).
Proof. exact (erase_ring h l hd l1 n l2). Qed.

(** a ring is untouched by writes outside its nodes (separation) *)
Theorem C12_ring_frame h h' hd l :
  (forall y, In y (hd :: l) -> hm h' y = hm h y) -> ring h hd l -> ring h' hd l.
Proof. exact (ring_frame h h' hd l). Qed.

(** * 3. Forward traversal = the sequence, backward traversal = its mirror *)

Theorem C12_forward_traversal h hd l fuel :
  ring h hd l -> length l <= fuel -> traverse Fwd h hd fuel = l.
Proof. exact (traverse_fwd h hd l fuel). Qed.

Theorem C12_backward_traversal h hd l fuel :
  ring h hd l -> length l <= fuel -> traverse Rev h hd fuel = rev l.
Proof. exact (traverse_rev h hd l fuel). Qed.

(** * 2. Operations built from the primitives *)

(** swap exchanges the contents of two list objects (any lengths, including
    empty ones); both results are well-formed rings anchored at their new heads *)
Theorem C12_swap h a b la lb :
  dl h a la -> dl h b lb -> NoDup (a :: la ++ b :: lb) ->
  exists h', swap h a b = Ok h' /\ dl h' a lb /\ dl h' b la /\
    (forall x, ~ In x (a :: la ++ b :: lb) -> hm h' x = hm h x) /\
    (forall x, x <> a -> x <> b -> hs h' x = hs h x) /\
    (forall x, valid h' x <-> valid h x).
Proof. exact (swap_dl h a b la lb). Qed.

(** concat moves all nodes of the source, in order, behind the destination
    and leaves the source an empty, usable list *)
Theorem C12_concat h d s ld ls :
  dl h d ld -> dl h s ls -> NoDup (d :: ld ++ s :: ls) ->
  exists h', concat h d s = Ok h' /\ dl h' d (ld ++ ls) /\ dl h' s [] /\
    (forall x, ~ In x (d :: ld ++ s :: ls) -> hm h' x = hm h x) /\
    (forall x, x <> d -> x <> s -> hs h' x = hs h x) /\
    (forall x, valid h' x <-> valid h x).
Proof. exact (concat_dl h d s ld ls). Qed.

(** reverse (mirrored-swap loop + adjacent-pair epilogue): the ring
    afterwards spells the mirror image, for every length *)
Theorem C12_reverse h hd l :
  dl h hd l ->
  exists h', reverse h hd = Ok h' /\ dl h' hd (rev l) /\ upd1 h h' hd (hd :: l).
Proof. exact (reverse_dl h hd l). Qed.

(** sort: the ring is preserved and spells an ordered permutation; nothing
    outside the list is written; the stack-local list objects are gone *)
Theorem C12_sort key fuel depth h hd l :
  dl h hd l -> length l <= fuel ->
  (forall k, 2 * depth <= k -> hm h (taddr k) = None) ->
  exists h' l', sort key fuel depth h hd = Ok h' /\ dl h' hd l' /\
    Permutation l l' /\ Sorted (DListProofs6.kle key) l' /\
    (forall x, ~ In x (hd :: l) -> hm h' x = hm h x) /\
    (forall x, x <> hd -> (forall k, 2 * depth <= k -> x <> taddr k) -> hs h' x = hs h x).
Proof. exact (sort_spec key fuel depth h hd l). Qed.

(** find returns the first element, in the chosen direction, whose key
    equals the probe's ([dirl Fwd l = l], [dirl Rev l = rev l]) *)
Theorem C12_find key d h hd l k :
  dl h hd l ->
  find key d h hd k = Ok (List.find (fun c => Z.eqb k (key c)) (dirl d l)).
Proof. exact (find_spec key d h hd l k). Qed.

(** foreach with the scripted visitor ([l] in traversal order): the visitor
    sees the elements up to the first non-zero answer, which is returned; the
    visited nodes stay ([VPlain]), are unlinked and released ([VFree]: their
    storage is gone afterwards, and any access to released storage is a
    fault in the model, so the traversal did not touch them after the
    visit), or are moved to the back of another list ([VMove]); the rest of
    the list is still a well-formed ring *)
Theorem C12_foreach d m hd stop h l lo :
  finv d m h hd l lo ->
  exists h',
    foreach (svisit hd stop m) d h hd (0, []) =
      Ok (h', (fst (vcount stop 0 l), rev (firstn (fst (vcount stop 0 l)) l)), snd (vcount stop 0 l),
          [EvRead hd; EvRead (hd_or l hd)] ++ fe_evs hd l (fst (vcount stop 0 l))) /\
    finv d m h' hd (keepk m [] l (fst (vcount stop 0 l)) ++ skipn (fst (vcount stop 0 l)) l)
         (lok m lo l (fst (vcount stop 0 l))) /\
    (forall x, ~ In x (hd :: l) -> ~ In x (others m lo) -> hm h' x = hm h x) /\
    (forall x, x <> hd -> ~ In x (firstn 1 (others m lo)) -> hs h' x = hs h x) /\
    (forall x, (m = VFree -> ~ In x (firstn (fst (vcount stop 0 l)) l)) -> (valid h' x <-> valid h x)) /\
    (m = VFree -> forall x, In x (firstn (fst (vcount stop 0 l)) l) -> hm h' x = None).
Proof. exact (foreach_spec d m hd stop h l lo). Qed.

(** number of visits and answer of the scripted visitor *)
Theorem C12_foreach_count stop l :
  vcount stop 0 l =
  if Nat.leb 1 stop && Nat.leb stop (length l) then (stop, Z.of_nat stop) else (length l, 0%Z).
Proof. exact (vcount_0 stop l). Qed.

(** in the event trace of foreach no node is read after it was handed to the
    visitor (the successor is captured before the visit) *)
Theorem C12_foreach_no_access_after_visit hd l k :
  NoDup (hd :: l) -> no_access_after_call ([EvRead hd; EvRead (hd_or l hd)] ++ fe_evs hd l k).
Proof. exact (foreach_no_access_after_visit hd l k). Qed.

(** clear (also used by C15): callback log = the contents, in order, each
    element once; every element's storage is released; the list object is
    an empty ring again *)
Theorem C12_clear_log h hd l :
  dl h hd l ->
  exists h', clear h hd = Ok (h', l, clear_evs hd l) /\ dl h' hd [] /\
    (forall x, In x l -> hm h' x = None) /\
    (forall x, ~ In x (hd :: l) -> hm h' x = hm h x) /\
    (forall x, x <> hd -> hs h' x = hs h x).
Proof. exact (clear_log h hd l). Qed.

Theorem C12_clear_result_init h hd l h' log evs :
  dl h hd l -> clear h hd = Ok (h', log, evs) ->
  hm h' hd = Some (mkN hd hd) /\ rsz h' hd = 0%N /\ ring h' hd [].
Proof. exact (clear_result_init h hd l h' log evs). Qed.

(** every node is unlinked before its callback and never read or written
    afterwards *)
Theorem C12_clear_no_access_after_callback hd l :
  NoDup (hd :: l) -> no_access_after_call (clear_evs hd l).
Proof. exact (clear_no_access_after_callback hd l). Qed.

(** * 5. The scripted system: every operation, every reachable state *)

Section C12.
  Variable key : nat -> Z.
  Notation step := (DListModel.step key).

  (** Every operation inside the domain, from a well-formed state: no fault,
      no abort, well-formedness re-established, and the visible effect
      (results, callback logs, new sequences) is the one of the reference
      semantics [spec]. *)
  Theorem C12_step_refines s o :
    sys_wf s ->
    match step s o with
    | Done s' out => sys_wf s' /\ spec key (abs s) o (abs s') out
    | Precond => True
    | Abort => False
    | Fault => False
    end.
  Proof. exact (step_correct key s o). Qed.

  Theorem C12_reachable_wf n s : reach step (sys_init n) s -> sys_wf s.
  Proof. exact (reach_wf key n s). Qed.

  (** in every reachable state every list is a ring of the right size, its
      forward walk is its sequence and its backward walk the mirror image *)
  Theorem C12_reachable_traversals n s i l :
    reach step (sys_init n) s -> nth_error (abs s) i = Some l ->
    ring (hp s) (haddr i) l /\ rsz (hp s) (haddr i) = N.of_nat (length l) /\
    forall fuel, length l <= fuel ->
      traverse Fwd (hp s) (haddr i) fuel = l /\ traverse Rev (hp s) (haddr i) fuel = rev l.
  Proof. exact (reach_rings key n s i l). Qed.

  (** pops on an empty list return NULL and change nothing *)
  Theorem C12_pop_empty n s i :
    reach step (sys_init n) s -> nth_error (abs s) i = Some [] ->
    step s (PopFront i) = Done s [znull] /\ step s (PopBack i) = Done s [znull].
  Proof.
    intros R E. pose proof (reach_wf key n s R) as W.
    pose proof (wf_dl _ _ _ W i [] E) as D. pose proof (wf_lt _ _ _ _ _ W E) as L.
    destruct s as [h m]. simpl in *. unfold DListModel.step. simpl hp. simpl nl.
    rewrite (proj2 (Nat.ltb_lt i m) L). simpl negb. cbv iota.
    unfold pop_front, pop_back. rewrite (dl_zero _ _ D). simpl. auto.
  Qed.

  (** no script, however long, drives the code into a fault or an abort *)
  Theorem C12_run_safe n ops :
    match fst (run step (sys_init n) ops) with
    | Done s _ => sys_wf s
    | Precond => True
    | _ => False
    end.
  Proof. exact (run_safe key n ops). Qed.
End C12.

(** Non-vacuity: a concrete history (2 lists, keys 1 0 1 0 2) drives the
    model through every kind of operation; the raw walks agree. *)
Example C12_example_run :
  let key := fun n => nth n [1;0;1;0;2]%Z 0%Z in
  let ops := [PushBack 0 0; PushBack 0 1; PushFront 0 2; Insert 0 1 3; PushBack 1 4;
              Sort 0; Reverse 0; Concat 1 0; Swap 0 1; Erase 0 2; PopFront 0; PopBack 0;
              Foreach 0 Rev 1 (VMove 1); Find 1 0%Z Rev; Front 0; Back 0; Size 1;
              Foreach 1 Fwd 0 VFree; Clear 0] in
  match fst (run (step key) (sys_init 2) ops) with
  | Done s _ => abs s = [[]; []]
  | _ => False
  end.
Proof. vm_compute. reflexivity. Qed.

Example C12_example_state :
  let key := fun n => nth n [1;0;1;0;2]%Z 0%Z in
  let ops := [PushBack 0 0; PushBack 0 1; PushFront 0 2; Insert 0 1 3; PushBack 1 4;
              Sort 0; Reverse 0; Concat 1 0; Swap 0 1; Erase 0 2; PopFront 0; PopBack 0;
              Foreach 0 Rev 1 (VMove 1)] in
  match fst (run (step key) (sys_init 2) ops) with
  | Done s _ => abs s = [[eaddr 0]; [eaddr 3]] /\ traverse Rev (hp s) (haddr 1) 40 = [eaddr 3]
  | _ => False
  end.
Proof. vm_compute. split; reflexivity. Qed.

Print Assumptions C12_insert_primitive.
Print Assumptions C12_erase_primitive.
Print Assumptions C12_ring_frame.
Print Assumptions C12_forward_traversal.
Print Assumptions C12_backward_traversal.
Print Assumptions C12_swap.
Print Assumptions C12_concat.
Print Assumptions C12_reverse.
Print Assumptions C12_sort.
Print Assumptions C12_find.
Print Assumptions C12_foreach.
Print Assumptions C12_foreach_count.
Print Assumptions C12_foreach_no_access_after_visit.
Print Assumptions C12_clear_log.
Print Assumptions C12_clear_result_init.
Print Assumptions C12_clear_no_access_after_callback.
Print Assumptions C12_step_refines.
Print Assumptions C12_reachable_wf.
Print Assumptions C12_reachable_traversals.
Print Assumptions C12_pop_empty.
Print Assumptions C12_run_safe.
