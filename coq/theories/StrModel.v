(** Executable model of src/_string.c + include/cstl/_string.h (C10), the
    string template instantiated for char (width 1) and wchar_t (width 4).

    A string object is a vector (VectorModel.vec) whose element size is the
    character width and that has no constructor/destructor; characters are
    their codes as [N] (0 = NUL).  Every function below is the C function of
    the same name with its size_t arithmetic spelled out ([wrap64], [sub64]);
    the functions that only exist as static inlines in the header (size,
    capacity, reserve, data, insert, append, append_str_n, set_str, compare,
    find, ...) are composed exactly as the header composes them.

    Accesses to character storage are checked against the live block
    (VectorModel.slot / range_ok): outside it the result is [Flt].  The loops
    "while (cnt-- > 0) *at(idx++) = ch" and the libc block operations
    memmove/memcpy are modelled as: the whole range is inside the block and
    the effect is the block write, or some access is outside and the result
    is [Flt].  A zero-length memmove/memcpy is a no-op whatever the pointers
    are.  strchr/strstr/strcmp (wcs* ) are the list functions [strchr],
    [strstr], [strcmp] below, applied to the cells readable from the pointer
    that cstl_string_str returns.

    The functions follow the REPAIRED code (fixes/F8, F9, F10, F12); with
    [v0 = true] they are the code as found. *)
From Cstl Require Import Prelude AllocModel VectorModel.
Local Open Scope N_scope.

Definition NUL : N := 0.

(** * libc on lists *)

(** characters before the first NUL; [None]: there is no NUL in [l] (the
    reader runs off the determinate storage) *)
Fixpoint cstr (l : list N) : option (list N) :=
  match l with
  | [] => None
  | x :: r => if x =? 0 then Some [] else option_map (cons x) (cstr r)
  end.

(** strchr(l, c): [None] = ran off the storage; [Some None] = NULL;
    [Some (Some k)] = pointer to l[k] *)
Fixpoint strchr (l : list N) (c : N) : option (option nat) :=
  match l with
  | [] => None
  | x :: r => if x =? c then Some (Some O)
              else if x =? 0 then Some None
              else option_map (option_map S) (strchr r c)
  end.

Fixpoint prefixb (n h : list N) : bool :=
  match n, h with
  | [], _ => true
  | x :: n', y :: h' => (x =? y) && prefixb n' h'
  | _ :: _, [] => false
  end.

(** strstr on the contents (NUL excluded) of haystack and needle *)
Fixpoint strstr (h n : list N) : option nat :=
  if prefixb n h then Some O
  else match h with
       | [] => None
       | _ :: r => option_map S (strstr r n)
       end.

(** sign of strcmp on contents *)
Fixpoint strcmp (a b : list N) : Z :=
  match a, b with
  | [], [] => 0
  | [], _ :: _ => -1
  | _ :: _, [] => 1
  | x :: a', y :: b' => if N.eqb x y then strcmp a' b' else if N.ltb x y then -1 else 1
  end%Z.

(** * The string functions *)

Definition s_size (v : vec) : N := if 0 <? count v then count v - 1 else 0.
Definition s_capacity (v : vec) : N := if 0 <? cap v then cap v - 1 else 0.

Definition rd_range (al : alloc) (v : vec) (i n : N) : res (list N) :=
  if n =? 0 then Ok []
  else if range_ok al v i n then Ok (lread (elems v) (cell v i) (N.to_nat n)) else Flt.
Definition wr_range (al : alloc) (v : vec) (i : N) (xs : list N) : res vec :=
  match xs with
  | [] => Ok v
  | _ => if range_ok al v i (N.of_nat (length xs))
         then Ok (set_elems v (lwrite (elems v) (cell v i) xs)) else Flt
  end.
(** while (cnt-- > 0) *at(i++) = c *)
Definition fill (al : alloc) (v : vec) (i cnt c : N) : res vec :=
  if cnt =? 0 then Ok v
  else if range_ok al v i cnt
       then Ok (set_elems v (lwrite (elems v) (cell v i) (repeat c (N.to_nat cnt)))) else Flt.
(** memmove(at(d), at(s), nbytes) inside one string *)
Definition memmove (al : alloc) (v : vec) (d s nbytes : N) : res vec :=
  if nbytes =? 0 then Ok v
  else let n := nbytes / esize v in
       if range_ok al v s n && range_ok al v d n
       then Ok (set_elems v (lwrite (elems v) (cell v d) (lread (elems v) (cell v s) (N.to_nat n))))
       else Flt.

Section Str.
  Variable ok : nat -> N -> bool.
  Variable v0 : bool.      (* true: code as found (F8, F9, F10, F12) *)

  Definition s_reserve (al : alloc) (v : vec) (n : N) : res (alloc * vec) :=
    reserve ok v0 al v (wrap64 (n + 1)).

  (** cstl_string_str: the cells readable from the returned pointer.  The
      repaired function returns the static NUL when the vector holds no
      element; the code as found only when the buffer pointer is NULL. *)
  Definition s_view (al : alloc) (v : vec) : res (list N) :=
    if (if v0 then match base v with None => true | Some _ => false end else count v =? 0)
    then Ok [NUL]
    else if range_ok al v 0 (count v) then Ok (elems v) else Flt.

  (** cstl_string_at: offset of the returned pointer and the character there *)
  Definition s_at (al : alloc) (v : vec) (i : N) : res (N * N) :=
    if s_size v <=? i then Abt else
    match rd al v i with
    | Ok c => Ok (wrap64 (i * esize v), c)
    | Abt => Abt
    | Flt => Flt
    end.

  (** cstl_string_at_const: return at((struct cstl_STRING * )s, i) *)
  Definition s_at_const (al : alloc) (v : vec) (i : N) : res (N * N) := s_at al v i.

  (** cstl_string_data = cstl_vector_data: the installed buffer pointer
      ([None] = NULL; otherwise byte offset 0 of the block) *)
  Definition s_data (v : vec) : option nat := base v.

  (** __resize *)
  Definition s__resize (al : alloc) (v : vec) (n : N) : res (alloc * vec) :=
    if negb v0 && (n =? SIZE_MAX) then Abt else      (* n + 1 is not representable *)
    match resize ok v0 al v (wrap64 (n + 1)) with
    | Ok (al1, v1, _) =>
      match wr al1 v1 n NUL with
      | Ok v2 => Ok (al1, v2)
      | Abt => Abt
      | Flt => Flt
      end
    | Abt => Abt
    | Flt => Flt
    end.

  Definition s_resize (al : alloc) (v : vec) (n : N) : res (alloc * vec) :=
    let sz := s_size v in
    match s__resize al v n with
    | Ok (al1, v1) =>
      if sz <? n then
        match fill al1 v1 sz (n - sz) NUL with
        | Ok v2 => Ok (al1, v2)
        | Abt => Abt
        | Flt => Flt
        end
      else Ok (al1, v1)
    | Abt => Abt
    | Flt => Flt
    end.

  Definition prep_insert (al : alloc) (v : vec) (pos len : N) : res (alloc * vec) :=
    if s_size v <? pos then Abt else
    if 0 <? len then
      let size := s_size v in
      if negb v0 && (SIZE_MAX - size <? len) then Abt else   (* size + len is not representable *)
      match s__resize al v (wrap64 (size + len)) with
      | Ok (al1, v1) =>
        match memmove al1 v1 (wrap64 (pos + len)) pos (wrap64 ((size - pos) * esize v)) with
        | Ok v2 => Ok (al1, v2)
        | Abt => Abt
        | Flt => Flt
        end
      | Abt => Abt
      | Flt => Flt
      end
    else Ok (al, v).

  Definition insert_ch (al : alloc) (v : vec) (idx cnt ch : N) : res (alloc * vec) :=
    match prep_insert al v idx cnt with
    | Ok (al1, v1) =>
      match fill al1 v1 idx cnt ch with
      | Ok v2 => Ok (al1, v2)
      | Abt => Abt
      | Flt => Flt
      end
    | Abt => Abt
    | Flt => Flt
    end.

  (** insert_str_n(s, idx, str, len): [src] = the characters readable at
      [str] (at least [len] of them: checked by the caller of this function) *)
  Definition insert_str_n (al : alloc) (v : vec) (idx : N) (src : list N) (len : N)
    : res (alloc * vec) :=
    match prep_insert al v idx len with
    | Ok (al1, v1) =>
      let n := wrap64 (len * esize v) / esize v in
      match wr_range al1 v1 idx (firstn (N.to_nat n) src) with
      | Ok v2 => Ok (al1, v2)
      | Abt => Abt
      | Flt => Flt
      end
    | Abt => Abt
    | Flt => Flt
    end.

  (** append_str_n(s, str, len) = insert_str_n(s, size(s), str, len) *)
  Definition append_str_n (al : alloc) (v : vec) (src : list N) (len : N) : res (alloc * vec) :=
    insert_str_n al v (s_size v) src len.

  (** substr_prep: the clamped length *)
  Definition substr_prep (v : vec) (pos len : N) : res N :=
    let size := s_size v in
    if size <=? pos then Abt else
    if (if v0 then size <? wrap64 (pos + len) else size - pos <? len)
    then Ok (size - pos) else Ok len.

  (** substr(s, idx, len, sub), s and sub distinct objects *)
  Definition substr (al : alloc) (s : vec) (idx len : N) (sub : vec) : res (alloc * vec) :=
    match substr_prep s idx len with
    | Ok l =>
      match s__resize al sub l with
      | Ok (al1, sub1) =>
        let n := wrap64 (l * esize s) / esize s in
        match rd_range al1 s idx n with
        | Ok cs =>
          match wr_range al1 sub1 0 cs with
          | Ok sub2 => Ok (al1, sub2)
          | Abt => Abt
          | Flt => Flt
          end
        | Abt => Abt
        | Flt => Flt
        end
      | Abt => Abt
      | Flt => Flt
      end
    | Abt => Abt
    | Flt => Flt
    end.

  Definition erase (al : alloc) (v : vec) (idx len : N) : res (alloc * vec) :=
    let size := s_size v in
    match substr_prep v idx len with
    | Ok l =>
      match memmove al v idx (wrap64 (idx + l))
                    (wrap64 (sub64 size (wrap64 (idx + l)) * esize v)) with
      | Ok v1 => s__resize al v1 (sub64 size l)
      | Abt => Abt
      | Flt => Flt
      end
    | Abt => Abt
    | Flt => Flt
    end.

  (** insert_str(s, pos, str) with a NUL-terminated literal [cs ++ [NUL]] *)
  Definition insert_str (al : alloc) (v : vec) (pos : N) (cs : list N) : res (alloc * vec) :=
    insert_str_n al v pos cs (N.of_nat (length cs)).

  (** set_str: resize(s, 0); append_str(s, str) *)
  Definition set_str (al : alloc) (v : vec) (cs : list N) : res (alloc * vec) :=
    match s_resize al v 0 with
    | Ok (al1, v1) => insert_str al1 v1 (s_size v1) cs
    | Abt => Abt
    | Flt => Flt
    end.

  (** insert(s, pos, ins) = insert_str_n(s, pos, str(ins), size(ins)) *)
  Definition insert (al : alloc) (v : vec) (pos : N) (ins : vec) : res (alloc * vec) :=
    match s_view al ins with
    | Ok src => insert_str_n al v pos src (s_size ins)
    | Abt => Abt
    | Flt => Flt
    end.

  Definition find_ch (al : alloc) (v : vec) (c pos : N) : res Z :=
    let sz := s_size v in
    if sz <=? pos then Abt else
    match s_view al v with
    | Ok l =>
      match strchr (skipn (N.to_nat pos) l) c with
      | None => Flt
      | Some None => Ok (-1)%Z
      | Some (Some k) =>
        let i := pos + N.of_nat k in
        if i =? sz then Ok (-1)%Z else Ok (Z.of_N i)
      end
    | Abt => Abt
    | Flt => Flt
    end.

  (** find_str(h, n, pos); [ndl] = contents of the needle (NUL excluded) *)
  Definition find_str (al : alloc) (v : vec) (ndl : list N) (pos : N) : res Z :=
    if s_size v <=? pos then Abt else
    match s_view al v with
    | Ok l =>
      match cstr (skipn (N.to_nat pos) l) with
      | None => Flt
      | Some h =>
        match strstr h ndl with
        | None => Ok (-1)%Z
        | Some k => Ok (Z.of_N (pos + N.of_nat k))
        end
      end
    | Abt => Abt
    | Flt => Flt
    end.

  Definition find (al : alloc) (v : vec) (ndl : vec) (pos : N) : res Z :=
    match s_view al ndl with
    | Ok nl =>
      (* the abort test of find_str comes after str(ndl), which has no effect *)
      match cstr nl with
      | Some n => find_str al v n pos
      | None => if s_size v <=? pos then Abt else Flt
      end
    | Abt => Abt
    | Flt => Flt
    end.

  Definition compare_str (al : alloc) (v : vec) (cs : list N) : res Z :=
    match s_view al v with
    | Ok l => match cstr l with Some a => Ok (strcmp a cs) | None => Flt end
    | Abt => Abt
    | Flt => Flt
    end.

  Definition compare (al : alloc) (a b : vec) : res Z :=
    match s_view al b with
    | Ok lb => match cstr lb with Some cb => compare_str al a cb | None => Flt end
    | Abt => Abt
    | Flt => Flt
    end.
End Str.

(** * The scripted system: string objects of one width over one allocator *)

Inductive sop :=
| SSet (s : nat) (cs : list N)
| SInsertCh (s : nat) (pos cnt c : N)
| SInsertStr (s : nat) (pos : N) (cs : list N)     (* NUL-terminated literal *)
| SInsertStrN (s : nat) (pos : N) (cs : list N)    (* n = length cs, NUL allowed *)
| SInsert (s : nat) (pos : N) (t : nat)
| SAppend (s t : nat)
| SAppendCh (s : nat) (cnt c : N)
| SAppendStr (s : nat) (cs : list N)
| SErase (s : nat) (pos len : N)
| SSubstr (s : nat) (pos len : N) (t : nat)
| SResize (s : nat) (n : N)
| SReserve (s : nat) (n : N)
| SSwap (a b : nat)
| SClear (s : nat)
| SAt (s : nat) (i : N)
| SFindCh (s : nat) (c pos : N)
| SFindStr (s : nat) (cs : list N) (pos : N)
| SFind (s : nat) (pos : N) (t : nat)
| SCompare (a b : nat)
| SCompareStr (a : nat) (cs : list N)
| SAppendStrN (s : nat) (n : N) (cs : list N)      (* the first n characters of cs, NUL allowed *)
| SAtConst (s : nat) (i : N)
| SData (s : nat).

(** character codes representable as non-negative values of the character
    type (char: 0..127, wchar_t: 0..2^31-1), so that signed/unsigned
    comparison conventions of strcmp/wcscmp do not matter *)
Definition char_ok (w c : N) : bool := if w =? 1 then c <? 128 else c <? 2147483648.
Definition lit_ok (w : N) (cs : list N) : bool := forallb (fun c => char_ok w c && negb (c =? 0)) cs.

Definition str_init (w : N) (n : nat) : sys := sys_init (repeat (w, false, false) n).

(** What a caller observes through the pointer cstl_string_data returned:
    [1] for NULL; otherwise 0, the block id and the byte offset inside it
    and - once the vector holds elements, i.e. the buffer holds a string -
    whether data[size] is NUL (1/0; -1 if the size+1 cells are not inside
    the block, in which case nothing is read) and the characters
    data[0 .. size).  Storage that was only reserved is not read. *)
Definition data_obs (al : alloc) (v : vec) : list Z :=
  match s_data v with
  | None => [1%Z]
  | Some b =>
    0%Z :: Z.of_nat b :: 0%Z ::
    (if count v =? 0 then []
     else if range_ok al v 0 (s_size v + 1)
          then (if nth (N.to_nat (s_size v)) (elems v) POISON =? 0 then 1%Z else 0%Z)
               :: map Z.of_N (firstn (N.to_nat (s_size v)) (elems v))
          else [(-1)%Z])
  end.

Section SStep.
  Variable ok : nat -> N -> bool.
  Variable v0 : bool.

  Definition lifts (s : sys) (i : nat) (r : res (alloc * vec)) : outcome sys :=
    match r with
    | Ok (al, v) => Done (mkSys (upd (vecs s) i v) al) []
    | Abt => Abort
    | Flt => Fault
    end.
  Definition liftz (s : sys) (r : res Z) : outcome sys :=
    match r with
    | Ok z => Done s [z]
    | Abt => Abort
    | Flt => Fault
    end.

  Definition width_of (v : vec) : N := esize v.

  Definition sstep (s : sys) (o : sop) : outcome sys :=
    let al := heap s in
    match o with
    | SSet i cs => with_vec s i (fun v =>
        if lit_ok (esize v) cs then lifts s i (set_str ok v0 al v cs) else Precond)
    | SInsertCh i pos cnt c => with_vec s i (fun v =>
        if char_ok (esize v) c then lifts s i (insert_ch ok v0 al v pos cnt c) else Precond)
    | SInsertStr i pos cs => with_vec s i (fun v =>
        if lit_ok (esize v) cs then lifts s i (insert_str ok v0 al v pos cs) else Precond)
    | SInsertStrN i pos cs => with_vec s i (fun v =>
        if forallb (char_ok (esize v)) cs
        then lifts s i (insert_str_n ok v0 al v pos cs (N.of_nat (length cs))) else Precond)
    | SInsert i pos t =>
      if Nat.eqb i t then Precond else
      with_vec s i (fun v => with_vec s t (fun vt => lifts s i (insert ok v0 al v pos vt)))
    | SAppend i t =>
      if Nat.eqb i t then Precond else
      with_vec s i (fun v => with_vec s t (fun vt => lifts s i (insert ok v0 al v (s_size v) vt)))
    | SAppendCh i cnt c => with_vec s i (fun v =>
        if char_ok (esize v) c then lifts s i (insert_ch ok v0 al v (s_size v) cnt c) else Precond)
    | SAppendStr i cs => with_vec s i (fun v =>
        if lit_ok (esize v) cs then lifts s i (insert_str ok v0 al v (s_size v) cs) else Precond)
    | SErase i pos len => with_vec s i (fun v => lifts s i (erase ok v0 al v pos len))
    | SSubstr i pos len t =>
      if Nat.eqb i t then Precond else
      with_vec s i (fun v => with_vec s t (fun vt => lifts s t (substr ok v0 al v pos len vt)))
    | SResize i n => with_vec s i (fun v => lifts s i (s_resize ok v0 al v n))
    | SReserve i n => with_vec s i (fun v => lifts s i (s_reserve ok v0 al v n))
    | SSwap a b =>
      if Nat.eqb a b then Precond else
      with_vec s a (fun va => with_vec s b (fun vb =>
        Done (mkSys (upd (upd (vecs s) a vb) b va) al) []))
    | SClear i => with_vec s i (fun v =>
        match clear ok v0 al v with
        | Ok (al1, v1, _) => Done (mkSys (upd (vecs s) i v1) al1) []
        | Abt => Abort
        | Flt => Fault
        end)
    | SAt i k => with_vec s i (fun v =>
        match s_at al v k with
        | Ok (off, c) => Done s [Z.of_N off; Z.of_N c]
        | Abt => Abort
        | Flt => Fault
        end)
    | SFindCh i c pos => with_vec s i (fun v =>
        if char_ok (esize v) c then liftz s (find_ch v0 al v c pos) else Precond)
    | SFindStr i cs pos => with_vec s i (fun v =>
        if lit_ok (esize v) cs then liftz s (find_str v0 al v cs pos) else Precond)
    | SFind i pos t => with_vec s i (fun v => with_vec s t (fun vt => liftz s (find v0 al v vt pos)))
    | SCompare a b => with_vec s a (fun va => with_vec s b (fun vb => liftz s (compare v0 al va vb)))
    | SCompareStr a cs => with_vec s a (fun va =>
        if lit_ok (esize va) cs then liftz s (compare_str v0 al va cs) else Precond)
    | SAppendStrN i n cs => with_vec s i (fun v =>
        if forallb (char_ok (esize v)) cs then
          if n <=? N.of_nat (length cs) then lifts s i (append_str_n ok v0 al v cs n)
          else
            (* the source holds fewer than n characters: reading them is the
               caller's error - unless prep_insert aborts first *)
            match prep_insert ok v0 al v (s_size v) n with
            | Abt => Abort
            | _ => Precond
            end
        else Precond)
    | SAtConst i k => with_vec s i (fun v =>
        match s_at_const al v k with
        | Ok (off, c) => Done s [Z.of_N off; Z.of_N c]
        | Abt => Abort
        | Flt => Fault
        end)
    | SData i => with_vec s i (fun v => Done s (data_obs al v))
    end.
End SStep.

(** Observable dump of one string: size, capacity, whether str()[size] is
    NUL (1/0; -1 if str() cannot be read), the vector's count, capacity,
    block id, block size, then the characters str()[0 .. size). *)
Definition sdump (v0 : bool) (al : alloc) (v : vec) : list Z :=
  let sz := N.to_nat (s_size v) in
  match s_view v0 al v with
  | Ok l =>
    Z.of_N (s_size v) :: Z.of_N (s_capacity v)
    :: (if N.eqb (nth sz l POISON) 0 then 1%Z else 0%Z)
    :: Z.of_N (count v) :: Z.of_N (cap v) :: zopt (base v)
    :: match blk al v with Some bs => Z.of_N bs | None => znull end
    :: map Z.of_N (firstn sz l)
  | _ =>
    Z.of_N (s_size v) :: Z.of_N (s_capacity v) :: (-1)%Z
    :: Z.of_N (count v) :: Z.of_N (cap v) :: zopt (base v)
    :: match blk al v with Some bs => Z.of_N bs | None => znull end :: []
  end.
