(** C11 — every sort algorithm returns a sorted permutation and never leaves
    the array; binary search, linear find and reverse meet their
    specifications.  Statements only; proofs are in Sort*Proofs.v.

    Reading guide: [sort cmp sel extra rnd a] is cstl_raw_array_sort (and
    __cstl_vector_sort / cstl_vector_sort, which pass the vector's base,
    count and the slot at index capacity as scratch) with selector [sel];
    [Ok (a', l)] = it returned with array [a'] after the callback calls [l];
    [Ub] = an access outside the (sub)array it was given, a self-swap or a
    signed overflow; [NoFuel] = still running after length + extra levels of
    recursion.  [cmp_contract]: the sign of the comparison is antisymmetric
    and "<=" is transitive. *)
From Cstl Require Import Prelude SortModel SortProofs SortHeapProofs SortSearchProofs
  SortLogProofs SortTopProofs SwapModel SortReplayProofs SwapProofs.

Section C11.
  Context {A : Type}.
  Variable cmp : A -> A -> Z.
  Hypothesis contract : cmp_contract cmp.
  Notation le := (SortProofs.le cmp).

  (** Partition (DESIGN.md A.5): for any array and any pivot index inside it
      cstl_raw_array_qsort_p stays inside the array, returns a permutation
      split at m < count around the pivot value, and m is the last index
      only in the corner "pivot is the last element and strictly greater than
      all others" - in which case nothing was moved. *)
  Theorem C11_partition a p pv :
    nth_error a p = Some pv ->
    exists m a' l, qsort_p cmp a p = Ok (m, a', l) /\
      Permutation a a' /\ length a' = length a /\ m < length a /\
      (m < length a - 1 \/
       (p = length a - 1 /\ a' = a /\
        forall k x, k < length a - 1 -> nth_error a k = Some x -> (cmp x pv < 0)%Z)) /\
      (forall k x, k <= m -> nth_error a' k = Some x -> le x pv) /\
      (forall k x, m < k -> nth_error a' k = Some x -> le pv x).
  Proof. exact (qsort_p_spec cmp contract a p pv). Qed.

  (** QUICK (0), QUICK_M (2), HEAP (3) and every out-of-range selector, any
      array, any length: the sort returns (fuel = length), the result is a
      permutation of the input in non-decreasing order, and every pointer
      handed to the comparison / swap callbacks is an element of the array
      (never the same element twice in a swap). *)
  Theorem C11_sort_sorted_permutation sel extra rnd a :
    sel <> 1%Z ->
    exists a' l, sort cmp sel extra rnd a = Ok (a', l) /\
      Permutation a a' /\ StronglySorted le a' /\ Sorted le a' /\ log_ok (length a) l.
  Proof.
    intros H. destruct (sort_det cmp contract sel extra rnd a H) as (a' & l & E & P & S & L).
    exists a', l. repeat split; auto. apply StronglySorted_Sorted; auto.
  Qed.

  (** an out-of-range selector is the default algorithm (median of three) *)
  Theorem C11_sort_selector_fallback sel extra rnd (a : list A) :
    (sel < 0 \/ 3 < sel)%Z -> sort cmp sel extra rnd a = sort cmp 2 extra rnd a.
  Proof. intros H. unfold sort. rewrite (decode_out_of_range sel H). reflexivity. Qed.

  (** QUICK_R (1), for EVERY pivot oracle [rnd] (the k-th rand() value is
      [rnd k], reduced modulo the current count as in the C code): the run
      never leaves the array, and whenever it returns the result is a sorted
      permutation with in-range callback arguments. *)
  Theorem C11_sort_random_pivot_partial_correctness extra rnd a :
    match sort cmp 1 extra rnd a with
    | Ok (a', l) => Permutation a a' /\ StronglySorted le a' /\ log_ok (length a) l
    | Ub => False
    | NoFuel => True
    end.
  Proof. exact (sort_R_partial cmp contract extra rnd a). Qed.

  (** ... and it does return unless rand() keeps drawing "count - 1 modulo
      count" for ever: if from the K-th call on no draw reduces to the last
      index, K extra levels of recursion suffice. *)
  Theorem C11_sort_random_pivot_terminates K extra rnd a :
    never_last_from rnd K -> K <= extra ->
    exists a' l, sort cmp 1 extra rnd a = Ok (a', l) /\
      Permutation a a' /\ StronglySorted le a' /\ log_ok (length a) l.
  Proof. exact (sort_R_terminates cmp contract K extra rnd a). Qed.

  (** The caveat is real and is not hidden: with a rand() that always selects
      the last index, a two-element array already in order is retried for
      ever (each level calls rand() again and partitions the same array). *)
  Theorem C11_sort_random_pivot_can_retry_forever x y extra :
    (cmp x y < 0)%Z -> sort cmp 1 extra (fun _ => 1%N) [x; y] = NoFuel.
  Proof. exact (sort_R_retries_forever cmp contract x y extra). Qed.

  (** cstl_raw_array_hsort by itself (also reachable directly: it is not static) *)
  Theorem C11_heap_sort a :
    exists a' l, hsort cmp a = Ok (a', l) /\ Permutation a a' /\ StronglySorted le a'.
  Proof. exact (hsort_correct cmp contract a). Qed.

  (** Binary search (ssize_t indices as repaired for F11) on a sorted array of
      count <= SSIZE_MAX elements: returns an index whose element compares
      equal to the probe if one exists, -1 (and then no element compares
      equal) otherwise; only elements of the array are compared. *)
  Theorem C11_search ex a :
    Sorted le a -> (Z.of_nat (length a) <= smax 64)%Z ->
    exists r l, search cmp ex a = Ok (r, l) /\ log_ok (length a) l /\
      ((r = (-1)%Z /\ forall k x, nth_error a k = Some x -> cmp ex x <> 0%Z) \/
       ((0 <= r)%Z /\ exists x, nth_error a (Z.to_nat r) = Some x /\ cmp ex x = 0%Z)).
  Proof.
    intros S H. destruct (search_correct cmp contract ex a (sorted_strongly cmp contract a S) H)
      as (r & l & E & F).
    exists r, l. split; auto. split; auto. eapply search_log; eauto.
  Qed.

  (** Linear find, any array (no contract needed): the FIRST index whose
      element compares equal to the probe, -1 if there is none. *)
  Theorem C11_find_first ex a :
    (fst (find cmp ex a) = (-1)%Z /\ Forall (fun x => cmp ex x <> 0%Z) a) \/
    (exists k x, fst (find cmp ex a) = Z.of_nat k /\ nth_error a k = Some x /\ cmp ex x = 0%Z /\
                 Forall (fun y => cmp ex y <> 0%Z) (firstn k a)).
  Proof. exact (find_from_spec cmp ex a 0). Qed.

  (** Reverse (ssize_t indices), count <= SSIZE_MAX: exactly List.rev, using
      only swaps of two distinct elements of the array. *)
  Theorem C11_reverse (a : list A) :
    (Z.of_nat (length a) <= smax 64)%Z ->
    exists l, reverse a = Ok (rev a, l) /\ log_ok (length a) l.
  Proof.
    intros H. destruct (reverse_correct a H) as (l & E). exists l. split; auto.
    eapply reverse_log; eauto.
  Qed.

  (** Fuel is a device of the model only: once a run returns, any larger
      fuel gives the same array and the same callback log. *)
  Theorem C11_sort_result_independent_of_fuel sel extra extra' rnd (a : list A) r :
    sort cmp sel extra rnd a = Ok r -> extra <= extra' -> sort cmp sel extra' rnd a = Ok r.
  Proof. exact (sort_extra_irrelevant cmp sel extra extra' rnd a r). Qed.
End C11.

(** ** Byte level: cstl_swap (include/cstl/common.h) on the memory the array
    code hands to it.

    Reading guide (SwapModel.v): memory is a list of bytes [image chunks
    scratch] = the count elements of sz bytes each, followed by the sz-byte
    scratch element; addresses are offsets, [at_off sz i = i * sz]
    (__cstl_raw_array_at), the scratch is at [at_off sz count]; every byte
    access is checked ([Ub] outside the list, so [Ok] means that no byte
    outside [0, (count+1)*sz) was touched); [bytes_swap m x y t sz] is
    cstl_swap: the typed three-assignment exchange for sz = 1, 2, 4, 8 (a
    typed access of width w reads / writes w bytes; alignment and effective
    types are NOT modelled), three byte-by-byte memcpy calls otherwise
    (overlapping ranges are [Ub]); [replay sz count m l] runs [bytes_swap]
    for every [ESwap i j] of the element-level callback log [l];
    [uniform sz chunks] = every element has sz bytes. *)
Section C11_bytes.
  Context {B : Type}.                      (* the type of a byte: only ever copied *)
  Variable cmp : list B -> list B -> Z.   (* the comparison callback sees an element as its sz bytes *)
  Hypothesis contract : cmp_contract cmp.
  Notation le := (SortProofs.le cmp).

  (** The callback log of a run determines its result: executing the swap
      events of the log of any sort / reverse that returns, in order, on the
      input array gives the output array (any element type). *)
  Theorem C11_log_determines_result {A : Type} (cmpA : A -> A -> Z) sel extra rnd (a a' : list A) l :
    (sort cmpA sel extra rnd a = Ok (a', l) \/ reverse a = Ok (a', l)) -> replay_elems a l = Ok a'.
  Proof. intros [H|H]; [exact (sort_replay cmpA sel extra rnd a a' l H)|exact (reverse_replay a a' l H)]. Qed.

  (** cstl_swap on two DISTINCT elements i, j of the array, any element size
      (the four typed cases and the memcpy case; also sz = 0): it returns
      without touching a byte outside array + scratch, the array part is
      exactly the element-level swap - no other byte changes - and the
      scratch holds the old element i (the first argument). *)
  Theorem C11_swap_bytes sz (chunks : list (list B)) scratch i j ci chunks' :
    uniform sz chunks -> length scratch = sz ->
    nth_error chunks i = Some ci ->
    swap chunks i j = Ok chunks' ->
    bytes_swap (image chunks scratch) (at_off sz i) (at_off sz j) (at_off sz (length chunks)) sz
    = Ok (image chunks' ci).
  Proof. exact (bytes_swap_spec sz chunks scratch i j ci chunks'). Qed.

  (** cstl_swap of an element with ITSELF (sz >= 1): with sz in {1,2,4,8} the
      typed path leaves the array unchanged (the scratch receives the
      element); with any other size the second memcpy copies a range onto
      itself, which is undefined.  The element-level model calls every
      self-swap [Ub]: conservative for the four typed sizes, exact otherwise. *)
  Theorem C11_swap_bytes_self sz (chunks : list (list B)) scratch i ci :
    1 <= sz -> uniform sz chunks -> length scratch = sz -> nth_error chunks i = Some ci ->
    bytes_swap (image chunks scratch) (at_off sz i) (at_off sz i) (at_off sz (length chunks)) sz
    = if (sz =? 1) || (sz =? 2) || (sz =? 4) || (sz =? 8) then Ok (image chunks ci) else Ub.
  Proof. exact (bytes_swap_self sz chunks scratch i ci). Qed.

  (** Refinement, over an abstract log: if the element-level replay of [l] on
      [chunks] returns [chunks'] (so every swap of [l] is in range and not a
      self-swap), the byte-level replay on the image of [chunks] returns
      the image of [chunks'] (and some scratch content of sz bytes). *)
  Theorem C11_replay_bytes sz l (chunks : list (list B)) scratch chunks' :
    uniform sz chunks -> length scratch = sz ->
    replay_elems chunks l = Ok chunks' ->
    exists scratch', length scratch' = sz /\
      replay sz (length chunks) (image chunks scratch) l = Ok (image chunks' scratch').
  Proof. exact (replay_refines sz l chunks scratch chunks'). Qed.

  (** ... with the scratch content stated exactly: [replay_elems_t] tracks it
      (after a swap of (i, j) it is the old element i); shapes are preserved. *)
  Theorem C11_replay_bytes_scratch sz l (chunks : list (list B)) scratch chunks' scratch' :
    uniform sz chunks -> length scratch = sz ->
    replay_elems_t chunks scratch l = Ok (chunks', scratch') ->
    replay sz (length chunks) (image chunks scratch) l = Ok (image chunks' scratch') /\
    uniform sz chunks' /\ length scratch' = sz /\ length chunks' = length chunks.
  Proof. exact (replay_refines_t sz l chunks scratch chunks' scratch'). Qed.

  (** Hence, for the C-level sort (QUICK, QUICK_M, HEAP, every out-of-range
      selector; any array of sz-byte elements): the sequence of cstl_swap
      calls it makes turns the bytes of the array into exactly the
      concatenation of a sorted permutation of its elements; no byte outside
      array + scratch is accessed. *)
  Theorem C11_sort_bytes sz sel extra rnd (chunks : list (list B)) scratch :
    sel <> 1%Z -> uniform sz chunks -> length scratch = sz ->
    exists chunks' l scratch',
      sort cmp sel extra rnd chunks = Ok (chunks', l) /\
      Permutation chunks chunks' /\ Sorted le chunks' /\
      replay sz (length chunks) (image chunks scratch) l = Ok (image chunks' scratch') /\
      length scratch' = sz.
  Proof.
    intros Hs U HT. destruct (sort_det cmp contract sel extra rnd chunks Hs) as (a' & l & E & P & S & L).
    destruct (sort_bytes cmp sz sel extra rnd chunks scratch a' l U HT E) as (t' & Lt & R).
    exists a', l, t'. repeat split; auto. apply StronglySorted_Sorted; auto.
  Qed.

  (** every selector (QUICK_R included), every rand(), no contract: whenever
      the run returns, the bytes are the image of the element-level result *)
  Theorem C11_sort_bytes_any_run sz sel extra rnd (chunks : list (list B)) scratch chunks' l :
    uniform sz chunks -> length scratch = sz ->
    sort cmp sel extra rnd chunks = Ok (chunks', l) ->
    exists scratch', length scratch' = sz /\
      replay sz (length chunks) (image chunks scratch) l = Ok (image chunks' scratch').
  Proof. exact (sort_bytes cmp sz sel extra rnd chunks scratch chunks' l). Qed.

  (** reverse, count <= SSIZE_MAX: the bytes afterwards are the elements in
      reverse order (each element's bytes in their original order) *)
  Theorem C11_reverse_bytes sz (chunks : list (list B)) scratch :
    (Z.of_nat (length chunks) <= smax 64)%Z -> uniform sz chunks -> length scratch = sz ->
    exists l scratch', reverse chunks = Ok (rev chunks, l) /\ length scratch' = sz /\
      replay sz (length chunks) (image chunks scratch) l = Ok (image (rev chunks) scratch').
  Proof.
    intros H U HT. destruct (reverse_correct chunks H) as (l & E).
    destruct (reverse_bytes sz chunks scratch (rev chunks) l U HT E) as (t' & Lt & R).
    exists l, t'. auto.
  Qed.

  (** the bytes determine the elements: [chop] cuts the memory back into
      sz-byte elements, so equal images of equally shaped arrays are equal arrays *)
  Theorem C11_image_injective sz (chunks : list (list B)) scratch :
    uniform sz chunks -> chop sz (length chunks) (image chunks scratch) = chunks.
  Proof. exact (chop_image sz chunks scratch). Qed.
End C11_bytes.

(** Non-vacuity: the contract is satisfiable (integer keys, comparison by
    difference as in the C driver's cmpmode 1), and the model runs: every
    selector sorts a concrete array with duplicates, search / find / reverse
    return the expected values. *)
Example C11_contract_satisfiable : cmp_contract (fun x y : Z => (x - y)%Z).
Proof. split; unfold SortProofs.le; intros; lia. Qed.

Example C11_example_run :
  let cmp := fun x y : Z => (x - y)%Z in
  let a := [5; 1; 4; 1; 3; 9; 2; 6; 5; 3]%Z in
  let sorted := [1; 1; 2; 3; 3; 4; 5; 5; 6; 9]%Z in
  (forall sel, In sel [0; 2; 3; 4; -1]%Z ->
     match sort cmp sel 0 (fun _ => 0%N) a with Ok (a', _) => a' = sorted | _ => False end) /\
  match sort cmp 1 3 (fun k => nth k [9; 7; 1; 3; 0; 2]%N 5%N) a with Ok (a', _) => a' = sorted | _ => False end /\
  match search cmp 4%Z sorted with Ok (r, _) => r = 5%Z | _ => False end /\
  match search cmp 7%Z sorted with Ok (r, _) => r = (-1)%Z | _ => False end /\
  fst (find cmp 3%Z a) = 4%Z /\
  match reverse a with Ok (a', _) => a' = rev a | _ => False end.
Proof.
  cbv zeta. split; [|vm_compute; tauto].
  intros sel [<-|[<-|[<-|[<-|[<-|[]]]]]]; vm_compute; reflexivity.
Qed.

(** Non-vacuity at byte level: 3 elements of 3 bytes (memcpy path) and of 4
    bytes (typed path), bytes as numbers; every ordered pair (i, j) swaps
    exactly the two elements and leaves element i in the scratch; a
    self-swap is Ub for sz = 3 and the identity on the array for sz = 4; an
    access outside the 12 / 16 bytes is Ub; replaying the log of a sort on
    the bytes gives the sorted bytes. *)
Example C11_bytes_example :
  let m3 := [11; 12; 13;  21; 22; 23;  31; 32; 33;  0; 0; 0]%N in
  let m4 := [11; 12; 13; 14;  21; 22; 23; 24;  31; 32; 33; 34;  0; 0; 0; 0]%N in
  bytes_swap m3 (at_off 3 0) (at_off 3 2) (at_off 3 3) 3
    = Ok [31; 32; 33;  21; 22; 23;  11; 12; 13;  11; 12; 13]%N /\
  bytes_swap m3 (at_off 3 2) (at_off 3 1) (at_off 3 3) 3
    = Ok [11; 12; 13;  31; 32; 33;  21; 22; 23;  31; 32; 33]%N /\
  bytes_swap m4 (at_off 4 1) (at_off 4 0) (at_off 4 3) 4
    = Ok [21; 22; 23; 24;  11; 12; 13; 14;  31; 32; 33; 34;  21; 22; 23; 24]%N /\
  bytes_swap m3 (at_off 3 1) (at_off 3 1) (at_off 3 3) 3 = Ub /\
  bytes_swap m4 (at_off 4 1) (at_off 4 1) (at_off 4 3) 4
    = Ok [11; 12; 13; 14;  21; 22; 23; 24;  31; 32; 33; 34;  21; 22; 23; 24]%N /\
  bytes_swap m3 (at_off 3 0) (at_off 3 3) (at_off 3 4) 3 = Ub /\
  bytes_swap m4 (at_off 4 0) (at_off 4 1) (at_off 4 4) 4 = Ub /\
  (let cmp := fun x y : list N => (Z.of_N (hd 0%N x) - Z.of_N (hd 0%N y))%Z in
   let chunks := [[31; 32; 33]; [11; 12; 13]; [21; 22; 23]]%N in
   uniform 3 chunks /\ image chunks [0; 0; 0]%N = [31; 32; 33;  11; 12; 13;  21; 22; 23;  0; 0; 0]%N /\
   forall sel, In sel [0; 2; 3; 7]%Z ->
     match sort cmp sel 0 (fun _ => 0%N) chunks with
     | Ok (chunks', l) =>
       chunks' = [[11; 12; 13]; [21; 22; 23]; [31; 32; 33]]%N /\
       match replay 3 3 (image chunks [0; 0; 0]%N) l with
       | Ok m => firstn 9 m = [11; 12; 13;  21; 22; 23;  31; 32; 33]%N
       | _ => False
       end
     | _ => False
     end).
Proof.
  cbv zeta. repeat (split; [vm_compute; reflexivity|]).
  split; [repeat constructor|]. split; [reflexivity|]. intros sel [<-|[<-|[<-|[<-|[]]]]]; vm_compute; auto.
Qed.

Print Assumptions C11_partition.
Print Assumptions C11_sort_sorted_permutation.
Print Assumptions C11_sort_selector_fallback.
Print Assumptions C11_sort_random_pivot_partial_correctness.
Print Assumptions C11_sort_random_pivot_terminates.
Print Assumptions C11_sort_random_pivot_can_retry_forever.
Print Assumptions C11_heap_sort.
Print Assumptions C11_search.
Print Assumptions C11_find_first.
Print Assumptions C11_reverse.
Print Assumptions C11_sort_result_independent_of_fuel.
Print Assumptions C11_log_determines_result.
Print Assumptions C11_swap_bytes.
Print Assumptions C11_swap_bytes_self.
Print Assumptions C11_replay_bytes.
Print Assumptions C11_replay_bytes_scratch.
Print Assumptions C11_sort_bytes.
Print Assumptions C11_sort_bytes_any_run.
Print Assumptions C11_reverse_bytes.
Print Assumptions C11_image_injective.
