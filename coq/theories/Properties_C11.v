(** C11 — every sort algorithm returns a sorted permutation and never leaves
    the array; binary search, linear find and reverse meet their
    specifications.  Statements only; proofs are in Sort*Proofs.v.

    Reading guide: [sort cmp sel extra rnd a] is cstl_raw_array_sort (and
    __cstl_vector_sort / cstl_vector_sort, which pass the vector's base,
    count and the slot at index capacity as scratch) with selector [sel];
    [Ok (a', l)] = it returned with array [a'] after the callback calls [l];
    [Ub] = an access outside the (sub)array it was given, a self-swap or a
    signed overflow; [NoFuel] = still running after length + extra levels of
    recursion.  [cmp_contract]: the sign of the comparison is antisymmetric
    and "<=" is transitive. *)
From Cstl Require Import Prelude SortModel SortProofs SortHeapProofs SortSearchProofs
  SortLogProofs SortTopProofs.

Section C11.
  Context {A : Type}.
  Variable cmp : A -> A -> Z.
  Hypothesis contract : cmp_contract cmp.
  Notation le := (SortProofs.le cmp).

  (** Partition (DESIGN.md A.5): for any array and any pivot index inside it
      cstl_raw_array_qsort_p stays inside the array, returns a permutation
      split at m < count around the pivot value, and m is the last index
      only in the corner "pivot is the last element and strictly greater than
      all others" - in which case nothing was moved. *)
  Theorem C11_partition a p pv :
    nth_error a p = Some pv ->
    exists m a' l, qsort_p cmp a p = Ok (m, a', l) /\
      Permutation a a' /\ length a' = length a /\ m < length a /\
      (m < length a - 1 \/
       (p = length a - 1 /\ a' = a /\
        forall k x, k < length a - 1 -> nth_error a k = Some x -> (cmp x pv < 0)%Z)) /\
      (forall k x, k <= m -> nth_error a' k = Some x -> le x pv) /\
      (forall k x, m < k -> nth_error a' k = Some x -> le pv x).
  Proof. exact (qsort_p_spec cmp contract a p pv). Qed.

  (** QUICK (0), QUICK_M (2), HEAP (3) and every out-of-range selector, any
      array, any length: the sort returns (fuel = length), the result is a
      permutation of the input in non-decreasing order, and every pointer
      handed to the comparison / swap callbacks is an element of the array
      (never the same element twice in a swap). *)
  Theorem C11_sort_sorted_permutation sel extra rnd a :
    sel <> 1%Z ->
    exists a' l, sort cmp sel extra rnd a = Ok (a', l) /\
      Permutation a a' /\ StronglySorted le a' /\ Sorted le a' /\ log_ok (length a) l.
  Proof.
    intros H. destruct (sort_det cmp contract sel extra rnd a H) as (a' & l & E & P & S & L).
    exists a', l. repeat split; auto. apply StronglySorted_Sorted; auto.
  Qed.

  (** an out-of-range selector is the default algorithm (median of three) *)
  Theorem C11_sort_selector_fallback sel extra rnd (a : list A) :
    (sel < 0 \/ 3 < sel)%Z -> sort cmp sel extra rnd a = sort cmp 2 extra rnd a.
  Proof. intros H. unfold sort. rewrite (decode_out_of_range sel H). reflexivity. Qed.

  (** QUICK_R (1), for EVERY pivot oracle [rnd] (the k-th rand() value is
      [rnd k], reduced modulo the current count as in the C code): the run
      never leaves the array, and whenever it returns the result is a sorted
      permutation with in-range callback arguments. *)
  Theorem C11_sort_random_pivot_partial_correctness extra rnd a :
    match sort cmp 1 extra rnd a with
    | Ok (a', l) => Permutation a a' /\ StronglySorted le a' /\ log_ok (length a) l
    | Ub => False
    | NoFuel => True
    end.
  Proof. exact (sort_R_partial cmp contract extra rnd a). Qed.

  (** ... and it does return unless rand() keeps drawing "count - 1 modulo
      count" for ever: if from the K-th call on no draw reduces to the last
      index, K extra levels of recursion suffice. *)
  Theorem C11_sort_random_pivot_terminates K extra rnd a :
    never_last_from rnd K -> K <= extra ->
    exists a' l, sort cmp 1 extra rnd a = Ok (a', l) /\
      Permutation a a' /\ StronglySorted le a' /\ log_ok (length a) l.
  Proof. exact (sort_R_terminates cmp contract K extra rnd a). Qed.

  (** The caveat is real and is not hidden: with a rand() that always selects
      the last index, a two-element array already in order is retried for
      ever (each level calls rand() again and partitions the same array). *)
  Theorem C11_sort_random_pivot_can_retry_forever x y extra :
    (cmp x y < 0)%Z -> sort cmp 1 extra (fun _ => 1%N) [x; y] = NoFuel.
  Proof. exact (sort_R_retries_forever cmp contract x y extra). Qed.

  (** cstl_raw_array_hsort by itself (also reachable directly: it is not static) *)
  Theorem C11_heap_sort a :
    exists a' l, hsort cmp a = Ok (a', l) /\ Permutation a a' /\ StronglySorted le a'.
  Proof. exact (hsort_correct cmp contract a). Qed.

  (** Binary search (ssize_t indices as repaired for F11) on a sorted array of
      count <= SSIZE_MAX elements: returns an index whose element compares
      equal to the probe if one exists, -1 (and then no element compares
      equal) otherwise; only elements of the array are compared. *)
  Theorem C11_search ex a :
    Sorted le a -> (Z.of_nat (length a) <= smax 64)%Z ->
    exists r l, search cmp ex a = Ok (r, l) /\ log_ok (length a) l /\
      ((r = (-1)%Z /\ forall k x, nth_error a k = Some x -> cmp ex x <> 0%Z) \/
       ((0 <= r)%Z /\ exists x, nth_error a (Z.to_nat r) = Some x /\ cmp ex x = 0%Z)).
  Proof.
    intros S H. destruct (search_correct cmp contract ex a (sorted_strongly cmp contract a S) H)
      as (r & l & E & F).
    exists r, l. split; auto. split; auto. eapply search_log; eauto.
  Qed.

  (** Linear find, any array (no contract needed): the FIRST index whose
      element compares equal to the probe, -1 if there is none. *)
  Theorem C11_find_first ex a :
    (fst (find cmp ex a) = (-1)%Z /\ Forall (fun x => cmp ex x <> 0%Z) a) \/
    (exists k x, fst (find cmp ex a) = Z.of_nat k /\ nth_error a k = Some x /\ cmp ex x = 0%Z /\
                 Forall (fun y => cmp ex y <> 0%Z) (firstn k a)).
  Proof. exact (find_from_spec cmp ex a 0). Qed.

  (** Reverse (ssize_t indices), count <= SSIZE_MAX: exactly List.rev, using
      only swaps of two distinct elements of the array. *)
  Theorem C11_reverse (a : list A) :
    (Z.of_nat (length a) <= smax 64)%Z ->
    exists l, reverse a = Ok (rev a, l) /\ log_ok (length a) l.
  Proof.
    intros H. destruct (reverse_correct a H) as (l & E). exists l. split; auto.
    eapply reverse_log; eauto.
  Qed.

  (** Fuel is a device of the model only: once a run returns, any larger
      fuel gives the same array and the same callback log. *)
  Theorem C11_sort_result_independent_of_fuel sel extra extra' rnd (a : list A) r :
    sort cmp sel extra rnd a = Ok r -> extra <= extra' -> sort cmp sel extra' rnd a = Ok r.
  Proof. exact (sort_extra_irrelevant cmp sel extra extra' rnd a r). Qed.
End C11.

(** Non-vacuity: the contract is satisfiable (integer keys, comparison by
    difference as in the C driver's cmpmode 1), and the model runs: every
    selector sorts a concrete array with duplicates, search / find / reverse
    return the expected values. *)
Example C11_contract_satisfiable : cmp_contract (fun x y : Z => (x - y)%Z).
Proof. split; unfold SortProofs.le; intros; lia. Qed.

Example C11_example_run :
  let cmp := fun x y : Z => (x - y)%Z in
  let a := [5; 1; 4; 1; 3; 9; 2; 6; 5; 3]%Z in
  let sorted := [1; 1; 2; 3; 3; 4; 5; 5; 6; 9]%Z in
  (forall sel, In sel [0; 2; 3; 4; -1]%Z ->
     match sort cmp sel 0 (fun _ => 0%N) a with Ok (a', _) => a' = sorted | _ => False end) /\
  match sort cmp 1 3 (fun k => nth k [9; 7; 1; 3; 0; 2]%N 5%N) a with Ok (a', _) => a' = sorted | _ => False end /\
  match search cmp 4%Z sorted with Ok (r, _) => r = 5%Z | _ => False end /\
  match search cmp 7%Z sorted with Ok (r, _) => r = (-1)%Z | _ => False end /\
  fst (find cmp 3%Z a) = 4%Z /\
  match reverse a with Ok (a', _) => a' = rev a | _ => False end.
Proof.
  cbv zeta. split; [|vm_compute; tauto].
  intros sel [<-|[<-|[<-|[<-|[<-|[]]]]]]; vm_compute; reflexivity.
Qed.

Print Assumptions C11_partition.
Print Assumptions C11_sort_sorted_permutation.
Print Assumptions C11_sort_selector_fallback.
Print Assumptions C11_sort_random_pivot_partial_correctness.
Print Assumptions C11_sort_random_pivot_terminates.
Print Assumptions C11_sort_random_pivot_can_retry_forever.
Print Assumptions C11_heap_sort.
Print Assumptions C11_search.
Print Assumptions C11_find_first.
Print Assumptions C11_reverse.
Print Assumptions C11_sort_result_independent_of_fuel.
