(** C11 — every sort returns a sorted permutation; searches agree.
    Statements only; proofs are in SortProofs.v. *)
From Cstl Require Import Prelude SortModel SortProofs.

Section C11.
  Context {A : Type}.
  Variable cmp : A -> A -> Z.

  Theorem C11_find_first ex a :
    match fst (find cmp ex a) with
    | Z.neg _ => fst (find cmp ex a) = (-1)%Z /\ Forall (fun x => cmp ex x <> 0%Z) a
    | z => exists k x, z = Z.of_nat k /\ nth_error a k = Some x /\ cmp ex x = 0%Z /\
                       Forall (fun y => cmp ex y <> 0%Z) (firstn k a)
    end.
  Proof. exact (find_from_spec cmp ex a 0). Qed.
End C11.

Print Assumptions C11_find_first.
