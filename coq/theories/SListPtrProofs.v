(** The pointer-level model of slist.c (SListPtrModel) is simulated by the
    sequence model (SListModel): from related states every operation of the
    domain yields the same output and related states.  Together with
    SListProofs this transfers C13's theorems to the pointer level. *)
From Cstl Require Import Prelude SListModel SListProofs SListPtrModel.
Local Open Scope N_scope.

(** ** heap segments *)

Fixpoint seg (h : heap) (s : option addr) (l : list nat) (e : option addr) : Prop :=
  match l with
  | [] => s = e
  | x :: r => s = Some (Nd x) /\ seg h (h (Nd x)) r e
  end.

Definition chain (h : heap) (s : option addr) (l : list nat) : Prop := seg h s l None.

Definition taddr (i : nat) (t : option nat) : addr :=
  match t with None => Hd i | Some e => Nd e end.

Lemma addr_eqb_spec a b : reflect (a = b) (addr_eqb a b).
Proof.
  destruct a as [x|x], b as [y|y]; simpl; try (constructor; congruence);
    destruct (Nat.eqb_spec x y); constructor; congruence.
Qed.

Lemma hupd_same h a v : hupd h a v a = v.
Proof. unfold hupd. destruct (addr_eqb_spec a a); congruence. Qed.

Lemma hupd_other h a v b : b <> a -> hupd h a v b = h b.
Proof. unfold hupd. destruct (addr_eqb_spec b a); congruence. Qed.

Lemma seg_ext h h' s l e :
  (forall x, In x l -> h' (Nd x) = h (Nd x)) -> seg h s l e -> seg h' s l e.
Proof.
  revert s. induction l as [|x r IH]; simpl; intros s H; auto.
  intros (E & S). split; auto. rewrite H by auto. apply IH; auto.
Qed.

Lemma seg_app h s l1 l2 e :
  seg h s (l1 ++ l2) e <-> exists m, seg h s l1 m /\ seg h m l2 e.
Proof.
  revert s. induction l1 as [|x r IH]; simpl; intros s.
  - split; [intros H; eauto | intros (m & -> & H); auto].
  - rewrite IH. split.
    + intros (E & m & H1 & H2). eauto.
    + intros (m & (E & H1) & H2). eauto.
Qed.

Lemma seg_fun h s l e e' : seg h s l e -> seg h s l e' -> e = e'.
Proof.
  revert s. induction l as [|x r IH]; simpl; intros s; [congruence|].
  intros (_ & H1) (_ & H2). eauto.
Qed.

(** ** the refinement relation *)

Definition R (a : sys) (p : pstate) : Prop :=
  length (objs p) = length a /\
  forall i sl, nth_error a i = Some sl ->
    exists o, nth_error (objs p) i = Some o /\
              chain (nx p) (nx p (Hd i)) (items sl) /\
              lt o = taddr i (tail sl) /\ lcount o = count sl.

Lemma nth_error_seq0 n i : (i < n)%nat -> nth_error (seq 0 n) i = Some i.
Proof.
  intros H. rewrite (nth_error_nth' _ 0%nat) by (rewrite seq_length; auto).
  rewrite seq_nth; auto.
Qed.

Lemma R_init n : R (sys_init n) (p_init n).
Proof.
  unfold sys_init, p_init, R; simpl. split.
  - rewrite map_length, seq_length, repeat_length; auto.
  - intros i sl H. assert (Hi : (i < n)%nat).
    { assert (nth_error (repeat sl_init n) i <> None) by congruence.
      apply nth_error_Some in H0. rewrite repeat_length in H0; auto. }
    apply nth_error_In, repeat_spec in H. subst sl.
    exists (mkLO (Hd i) 0). split; [|simpl; unfold chain; simpl; auto].
    rewrite nth_error_map, nth_error_seq0; auto.
Qed.

(** ** membership tests of the pointer model agree with the sequences *)

Lemma reachb_chain h e l : forall s fuel,
  chain h s l -> (length l < fuel)%nat -> reachb h e fuel s = existsb (Nat.eqb e) l.
Proof.
  induction l as [|x r IH]; intros s fuel C F.
  - unfold chain in C; simpl in C. subst s. destruct fuel; reflexivity.
  - destruct C as (-> & C). destruct fuel as [|f]; [simpl in F; lia|].
    simpl. rewrite (IH (h (Nd x)) f C) by (simpl in F; lia).
    rewrite Nat.eqb_sym. reflexivity.
Qed.

Lemma wf_count_len sl : wf sl -> N.to_nat (count sl) = length (items sl).
Proof. intros (_ & Hc & _). rewrite Hc. lia. Qed.

Lemma in_list_spec a p l sl o b :
  sys_wf a -> R a p -> nth_error a l = Some sl -> nth_error (objs p) l = Some o ->
  in_list p l o b = existsb (Nat.eqb b) (items sl).
Proof.
  intros (Wf & _) (_ & HR) E Eo. destruct (HR _ _ E) as (o' & Eo' & C & _ & Hc).
  rewrite Eo in Eo'. inversion Eo'; subst o'.
  unfold in_list. apply (reachb_chain (nx p) b (items sl)); auto.
  rewrite Hc, (wf_count_len sl (nth_error_Forall _ _ _ _ Wf E)). lia.
Qed.

Lemma linked_spec a p e : sys_wf a -> R a p -> linked p e = in_any a e.
Proof.
  intros W HR. pose proof W as (Wf & _). pose proof HR as (Hlen & HR').
  unfold linked, in_any. rewrite Hlen.
  assert (forall (a0 : sys) k, (forall i sl, nth_error a0 i = Some sl -> nth_error a (k + i) = Some sl) ->
            existsb (fun l => match nth_error (objs p) l with
                              | Some o => reachb (nx p) e (S (N.to_nat (lcount o))) (nx p (Hd l))
                              | None => false end) (seq k (length a0))
            = existsb (fun sl => existsb (Nat.eqb e) (items sl)) a0) as G.
  { induction a0 as [|sl a0 IH]; intros k Hk; cbn [length seq existsb]; auto.
    f_equal.
    - assert (E : nth_error a k = Some sl) by (rewrite <- (Nat.add_0_r k); apply Hk; reflexivity).
      destruct (HR' _ _ E) as (o & Eo & C & _ & Hc). rewrite Eo.
      apply reachb_chain; auto.
      rewrite Hc, (wf_count_len sl (nth_error_Forall _ _ _ _ Wf E)). lia.
    - apply IH. intros i sl' Hi. replace (S k + i)%nat with (k + S i)%nat by lia. apply Hk; auto. }
  apply (G a 0%nat). intros i sl Hi; exact Hi.
Qed.

(** ** re-establishing [R] after an operation on one list *)

Lemma R_upd_one a p l sl sl' h' o' :
  R a p -> nth_error a l = Some sl ->
  chain h' (h' (Hd l)) (items sl') -> lt o' = taddr l (tail sl') -> lcount o' = count sl' ->
  (forall j, j <> l -> h' (Hd j) = nx p (Hd j)) ->
  (forall j slj x, j <> l -> nth_error a j = Some slj -> In x (items slj) -> h' (Nd x) = nx p (Nd x)) ->
  R (upd a l sl') (mkP h' (upd (objs p) l o')).
Proof.
  intros (Hlen & HR) E C Ht Hc Hh Hn. split; simpl.
  - rewrite !upd_length; auto.
  - intros i sli Hi. rewrite nth_error_upd in Hi. rewrite nth_error_upd.
    assert (Hl : (l < length a)%nat).
    { apply nth_error_Some. congruence. }
    destruct (Nat.eqb_spec l i) as [->|Hne].
    + rewrite Hlen. destruct (Nat.ltb_spec i (length a)); [|lia].
      inversion Hi; subst sli. exists o'. auto.
    + destruct (HR _ _ Hi) as (o & Eo & Ci & Hti & Hci).
      exists o. split; auto. split; auto.
      rewrite Hh by auto. eapply seg_ext; [|exact Ci].
      intros x Hx. eapply Hn; eauto.
Qed.

Lemma taddr_eqb l t u : addr_eqb (taddr l t) (taddr l u) = opt_eqb t u.
Proof.
  destruct t as [x|], u as [y|]; simpl; auto. apply Nat.eqb_refl.
Qed.

Lemma taddr_inj l t u : taddr l t = taddr l u -> t = u.
Proof. destruct t, u; simpl; congruence. Qed.

Lemma upd_upd_same {A} (a : list A) i x y : upd (upd a i x) i y = upd a i y.
Proof. revert i; induction a as [|z a IH]; intros [|i]; simpl; auto. rewrite IH; auto. Qed.

Lemma upd_comm {A} (a : list A) i j x y : i <> j -> upd (upd a i x) j y = upd (upd a j y) i x.
Proof.
  revert i j; induction a as [|z a IH]; intros [|i] [|j] H; simpl; auto; try congruence.
  rewrite IH; auto.
Qed.

Lemma chain_head h s l :
  chain h s l -> s = match l with [] => None | x :: _ => Some (Nd x) end.
Proof. destruct l; unfold chain; simpl; tauto. Qed.

Section Sim.
  Variable key : nat -> Z.

  Lemma other_list_fresh a l sl j slj x :
    sys_wf a -> nth_error a l = Some sl -> j <> l -> nth_error a j = Some slj ->
    In x (items slj) -> ~ In x (items sl).
  Proof.
    intros (_ & Wn) E Hne Ej Hx Hin.
    eapply (sys_disjoint a j l slj sl Wn Hne Ej E); eauto.
  Qed.

  Lemma in_flat a j slj x : nth_error a j = Some slj -> In x (items slj) -> In x (flat_map items a).
  Proof. intros E H. apply in_flat_map. exists slj. split; auto. eapply nth_error_In; eauto. Qed.

  (** insert_after, for the head link ([i = None]) or a node of the list *)
  Lemma sim_insert_after a p l sl o i nn sl' :
    sys_wf a -> R a p -> nth_error a l = Some sl -> nth_error (objs p) l = Some o ->
    ~ In nn (flat_map items a) ->
    (match i with None => True | Some x => In x (items sl) end) ->
    insert_after sl i nn = Ok sl' ->
    R (upd a l sl') (p_insert_after p l o (taddr l i) nn).
  Proof.
    intros W HR E Eo Hfresh Hi Hins.
    pose proof W as (Wf & Wn). pose proof (nth_error_Forall _ _ _ _ Wf E) as Wsl.
    destruct (proj2 HR _ _ E) as (o' & Eo' & C & Ht & Hc). rewrite Eo in Eo'. inversion Eo'; subst o'.
    assert (Hnn : ~ In nn (items sl)) by (intros H; apply Hfresh; eapply in_flat; eauto).
    unfold p_insert_after.
    assert (Hframe_h : forall j, j <> l ->
              hupd (hupd (nx p) (Nd nn) (nx p (taddr l i))) (taddr l i) (Some (Nd nn)) (Hd j) = nx p (Hd j)).
    { intros j Hj. rewrite !hupd_other; auto; try discriminate.
      destruct i; simpl; congruence. }
    destruct i as [x|].
    - (* after node x *)
      destruct (split_first x _ Hi) as (l1 & l2 & EL & Hx1).
      destruct (insert_after_mid sl x nn l1 l2 Wsl EL Hnn) as (sl2 & H1 & H2 & H3).
      rewrite Hins in H1. inversion H1; subst sl2.
      assert (Hnd : NoDup (l1 ++ x :: l2)) by (rewrite <- EL; apply Wsl).
      destruct (NoDup_mid_notin _ _ _ Hnd) as (_ & Hx2).
      apply R_upd_one with (sl := sl); auto.
      + rewrite H2. simpl taddr. unfold chain in *. rewrite EL in C.
        apply seg_app in C as (m & C1 & C2). simpl in C2. destruct C2 as (-> & C2).
        rewrite hupd_other by discriminate. rewrite hupd_other by discriminate.
        apply seg_app. exists (Some (Nd x)). split.
        * eapply seg_ext; [|exact C1]. intros y Hy.
          rewrite !hupd_other; auto; intros Eq; inversion Eq; subst;
            try tauto; apply Hnn; rewrite EL; apply in_or_app; auto.
        * simpl. split; auto. rewrite hupd_same. split; auto.
          rewrite hupd_other by (intros Eq; inversion Eq; subst; apply Hnn; rewrite EL; apply in_or_app; simpl; auto).
          rewrite hupd_same.
          eapply seg_ext; [|exact C2]. intros y Hy.
          rewrite !hupd_other; auto; intros Eq; inversion Eq; subst;
            try tauto; apply Hnn; rewrite EL; apply in_or_app; simpl; auto.
      + simpl. unfold insert_after in Hins. rewrite EL, link_after_app in Hins by auto.
        inversion Hins; subst sl'; simpl. rewrite Ht.
        change (Nd x) with (taddr l (Some x)). rewrite taddr_eqb.
        destruct (opt_eqb (tail sl) (Some x)); auto.
      + simpl. unfold insert_after in Hins. rewrite EL, link_after_app in Hins by auto.
        inversion Hins; subst sl'; simpl. rewrite Hc; auto.
      + intros j slj y Hj Ej Hy. simpl taddr.
        rewrite !hupd_other; auto; intros Eq; inversion Eq; subst;
          first [ solve [eapply (other_list_fresh a l sl j slj); eauto; rewrite EL; apply in_or_app; simpl; auto]
                | apply Hfresh; eapply in_flat; eauto ].
    - (* after the head link *)
      destruct (insert_after_head sl nn Wsl Hnn) as (sl2 & H1 & H2 & H3).
      rewrite Hins in H1. inversion H1; subst sl2.
      apply R_upd_one with (sl := sl); auto.
      + rewrite H2. simpl taddr. unfold chain in *. simpl. rewrite hupd_same. split; auto.
        rewrite hupd_other by discriminate. rewrite hupd_same.
        eapply seg_ext; [|exact C]. intros y Hy.
        rewrite !hupd_other; auto; try discriminate. intros Eq; inversion Eq; subst; tauto.
      + unfold insert_after in Hins. inversion Hins; subst sl'; simpl. rewrite Ht.
        change (Hd l) with (taddr l None). rewrite taddr_eqb.
        destruct (opt_eqb (tail sl) None); auto.
      + unfold insert_after in Hins. inversion Hins; subst sl'; simpl. rewrite Hc; auto.
      + intros j slj y Hj Ej Hy. simpl taddr.
        rewrite !hupd_other; auto; try discriminate. intros Eq; inversion Eq; subst.
        apply Hfresh. eapply in_flat; eauto.
  Qed.

  (** erase_after, for the head link ([e = None]) or a node of the list *)
  Lemma sim_erase_after a p l sl o e sl' n :
    sys_wf a -> R a p -> nth_error a l = Some sl -> nth_error (objs p) l = Some o ->
    erase_after sl e = Ok (sl', n) ->
    (match e with None => True | Some x => In x (items sl) end) ->
    exists p', p_erase_after p l o (taddr l e) = Ok (p', Nd n) /\ R (upd a l sl') p'.
  Proof.
    intros W HR E Eo Her Hin.
    pose proof W as (Wf & Wn). pose proof (nth_error_Forall _ _ _ _ Wf E) as Wsl.
    destruct (proj2 HR _ _ E) as (o' & Eo' & C & Ht & Hc). rewrite Eo in Eo'. inversion Eo'; subst o'.
    unfold p_erase_after. destruct e as [x|].
    - destruct (split_first x _ Hin) as (l1 & l2 & EL & Hx1).
      assert (Hnd : NoDup (l1 ++ x :: l2)) by (rewrite <- EL; apply Wsl).
      destruct (NoDup_mid_notin _ _ _ Hnd) as (_ & Hx2).
      unfold erase_after in Her. rewrite EL, next_of_app in Her by auto.
      destruct l2 as [|n' l2]; [discriminate|]. simpl hd_error in Her.
      rewrite unlink_after_app in Her by auto. simpl tl in Her.
      inversion Her; subst sl' n'. clear Her.
      unfold chain in C. rewrite EL in C. apply seg_app in C as (m & C1 & C2).
      simpl in C2. destruct C2 as (-> & Cn & C2). simpl taddr. rewrite Cn.
      eexists; split; [reflexivity|].
      assert (Hn2 : ~ In n l2 /\ n <> x /\ ~ In n l1).
      { change (l1 ++ x :: n :: l2) with (l1 ++ [x] ++ n :: l2) in Hnd. rewrite app_assoc in Hnd.
        destruct (NoDup_mid_notin _ _ _ Hnd) as (Ha & Hb). split; auto. split.
        - intros ->. apply Ha. apply in_or_app; simpl; auto.
        - intros Hi. apply Ha. apply in_or_app; auto. }
      apply R_upd_one with (sl := sl); auto; simpl.
      + unfold chain. rewrite hupd_other by discriminate.
        apply seg_app. exists (Some (Nd x)). split.
        * eapply seg_ext; [|exact C1]. intros y Hy. rewrite hupd_other; auto.
          intros Eq; inversion Eq; subst; tauto.
        * simpl. split; auto. rewrite hupd_same.
          eapply seg_ext; [|exact C2]. intros y Hy. rewrite hupd_other; auto.
          intros Eq; inversion Eq; subst; apply Hx2; simpl; auto.
      + rewrite Ht. change (Nd n) with (taddr l (Some n)). rewrite taddr_eqb.
        destruct (opt_eqb (tail sl) (Some n)); auto.
      + rewrite Hc; auto.
      + intros j slj y Hj Ej Hy. rewrite hupd_other; auto. intros Eq; inversion Eq; subst.
        eapply (other_list_fresh a l sl j slj); eauto; rewrite EL; apply in_or_app; simpl; auto.
    - unfold erase_after in Her. destruct (items sl) as [|n' r] eqn:EL; [discriminate|].
      simpl in Her. inversion Her; subst sl' n'. clear Her.
      unfold chain in C. simpl in C. destruct C as (Cn & C2). simpl taddr. rewrite Cn.
      eexists; split; [reflexivity|].
      apply R_upd_one with (sl := sl); auto; simpl.
      + unfold chain. rewrite hupd_same.
        eapply seg_ext; [|exact C2]. intros y Hy. rewrite hupd_other; auto. discriminate.
      + rewrite Ht. change (Nd n) with (taddr l (Some n)). rewrite taddr_eqb.
        destruct (opt_eqb (tail sl) (Some n)); auto.
      + rewrite Hc; auto.
      + intros j Hj. rewrite hupd_other; auto. congruence.
  Qed.

  (** the successor-first traversal used by foreach and clear *)
  Lemma p_walk_spec h stop : forall l s fuel k acc,
    chain h s l -> (length l < fuel)%nat -> (stop = 0 \/ k < stop)%nat ->
    p_walk fuel h s stop k acc =
    if ((0 <? stop) && (stop <=? k + length l))%nat
    then Ok (rev acc ++ firstn (stop - k) l, Z.of_nat stop)
    else Ok (rev acc ++ l, 0%Z).
  Proof.
    induction l as [|x r IH]; intros s fuel k acc C F Hk.
    - unfold chain in C; simpl in C; subst s. destruct fuel; [simpl in F; lia|]. simpl.
      destruct (Nat.ltb_spec 0 stop); simpl; rewrite ?app_nil_r; auto.
      destruct (Nat.leb_spec stop (k + 0)); [lia|]. auto.
    - destruct C as (-> & C). destruct fuel as [|f]; [simpl in F; lia|].
      cbn [p_walk elem_of].
      destruct (Nat.ltb_spec 0 stop) as [Hs|Hs]; cbn [andb].
      + destruct (Nat.eqb_spec (S k) stop) as [Es|Es].
        * subst stop. destruct (Nat.leb_spec (S k) (k + length (x :: r))); [|simpl in *; lia].
          replace (S k - k)%nat with 1%nat by lia. simpl. reflexivity.
        * rewrite (IH (h (Nd x)) f (S k) (x :: acc) C) by (simpl in F; lia).
          destruct (Nat.ltb_spec 0 stop); [|lia]. cbn [andb]. simpl length.
          replace (S k + length r)%nat with (k + S (length r))%nat by lia.
          destruct (Nat.leb_spec stop (k + S (length r))).
          -- replace (stop - k)%nat with (S (stop - S k))%nat by lia. simpl. rewrite <- app_assoc. reflexivity.
          -- simpl. rewrite <- app_assoc. reflexivity.
      + rewrite (IH (h (Nd x)) f (S k) (x :: acc) C) by (simpl in F; lia).
        destruct (Nat.ltb_spec 0 stop); [lia|]. cbn [andb]. simpl. rewrite <- app_assoc. reflexivity.
  Qed.

  (** the loop of cstl_slist_reverse *)
  Lemma p_rev_loop_spec hd c : forall rest fuel h front,
    NoDup (front ++ c :: rest) -> (forall x, hd <> Nd x) ->
    chain h (h hd) (front ++ c :: rest) -> (length rest <= fuel)%nat ->
    exists h', p_rev_loop fuel h hd (Nd c) = Ok h' /\
               chain h' (h' hd) (rev_loop front c rest) /\
               (forall b, b <> hd -> (forall x, In x (front ++ c :: rest) -> b <> Nd x) -> h' b = h b).
  Proof.
    induction rest as [|n r IH]; intros fuel h front Hnd Hhd C F.
    - unfold chain in C. apply seg_app in C as (m & C1 & C2). simpl in C2. destruct C2 as (-> & C2).
      destruct fuel; simpl; rewrite C2; (eexists; split; [reflexivity|]); split; auto;
        unfold chain; apply seg_app; exists (Some (Nd c)); simpl; auto.
    - destruct fuel as [|f]; [simpl in F; lia|].
      unfold chain in C. apply seg_app in C as (m & C1 & C2). simpl in C2.
      destruct C2 as (-> & Cn & C2). cbn [p_rev_loop]. rewrite Cn.
      assert (Hc : ~ In c front /\ c <> n /\ ~ In c r).
      { destruct (NoDup_mid_notin _ _ _ Hnd) as (A & B). split; auto. split.
        - intros ->. apply B; simpl; auto. - intros Hi; apply B; simpl; auto. }
      assert (Hn : ~ In n front /\ ~ In n r).
      { change (front ++ c :: n :: r) with (front ++ [c] ++ n :: r) in Hnd. rewrite app_assoc in Hnd.
        destruct (NoDup_mid_notin _ _ _ Hnd) as (A & B). split; auto.
        intros Hi. apply A. apply in_or_app; auto. }
      set (h1 := hupd h (Nd c) (h (Nd n))).
      set (h2 := hupd h1 (Nd n) (h1 hd)).
      set (h3 := hupd h2 hd (Some (Nd n))).
      destruct (IH f h3 (n :: front)) as (h' & E' & C' & Fr'); auto.
      + simpl. constructor.
        * rewrite in_app_iff. simpl. destruct Hc as (_ & Hcn & _). intros [?|[?|?]]; try tauto; congruence.
        * change (front ++ c :: n :: r) with (front ++ [c] ++ n :: r) in Hnd. rewrite app_assoc in Hnd.
          apply NoDup_remove_1 in Hnd. rewrite <- app_assoc in Hnd. exact Hnd.
      + unfold chain. unfold h3 at 2. rewrite hupd_same. simpl. split; auto.
        assert (E3n : h3 (Nd n) = h hd).
        { unfold h3, h2. rewrite hupd_other by (apply not_eq_sym; apply Hhd). rewrite hupd_same.
          unfold h1. rewrite hupd_other; auto. }
        rewrite E3n. apply seg_app. exists (Some (Nd c)). split.
        * eapply seg_ext; [|exact C1]. intros y Hy. unfold h3, h2, h1.
          rewrite !hupd_other; auto; try (apply not_eq_sym; apply Hhd);
            intros Eq; inversion Eq; subst; tauto.
        * simpl. split; auto.
          assert (E3c : h3 (Nd c) = h (Nd n)).
          { unfold h3, h2, h1. rewrite hupd_other by (apply not_eq_sym; apply Hhd).
            rewrite hupd_other by (intros Eq; inversion Eq; tauto). apply hupd_same. }
          rewrite E3c. eapply seg_ext; [|exact C2]. intros y Hy. unfold h3, h2, h1.
          rewrite !hupd_other; auto; try (apply not_eq_sym; apply Hhd);
            intros Eq; inversion Eq; subst; tauto.
      + simpl in F; lia.
      + exists h'. split; auto. split; auto.
        intros b Hb Hx. rewrite Fr'; auto.
        * unfold h3, h2, h1. rewrite !hupd_other; auto.
          -- apply Hx. apply in_or_app; simpl; auto.
          -- apply Hx. apply in_or_app; simpl; auto.
        * intros x Hin. apply Hx. simpl in Hin. destruct Hin as [<-|Hin].
          -- apply in_or_app; simpl; auto.
          -- apply in_app_or in Hin as [Hin|[<-|Hin]]; apply in_or_app; simpl; auto.
  Qed.

  Lemma R_upd_two a p d s sld sls sld' sls' h' od' os' :
    R a p -> d <> s -> nth_error a d = Some sld -> nth_error a s = Some sls ->
    chain h' (h' (Hd d)) (items sld') -> lt od' = taddr d (tail sld') -> lcount od' = count sld' ->
    chain h' (h' (Hd s)) (items sls') -> lt os' = taddr s (tail sls') -> lcount os' = count sls' ->
    (forall j, j <> d -> j <> s -> h' (Hd j) = nx p (Hd j)) ->
    (forall j slj x, j <> d -> j <> s -> nth_error a j = Some slj -> In x (items slj) -> h' (Nd x) = nx p (Nd x)) ->
    R (upd (upd a d sld') s sls') (mkP h' (upd (upd (objs p) d od') s os')).
  Proof.
    intros (Hlen & HR) Hne Ed Es Cd Htd Hcd Cs Hts Hcs Hh Hn. split; simpl.
    - rewrite !upd_length; auto.
    - intros i sli Hi. rewrite !nth_error_upd, !upd_length in Hi. rewrite !nth_error_upd, !upd_length.
      assert (Hd' : (d < length a)%nat) by (apply nth_error_Some; congruence).
      assert (Hs' : (s < length a)%nat) by (apply nth_error_Some; congruence).
      rewrite Hlen.
      destruct (Nat.eqb_spec s i) as [->|Hsi].
      + destruct (Nat.ltb_spec i (length a)); [|lia]. inversion Hi; subst sli. exists os'. auto.
      + destruct (Nat.eqb_spec d i) as [->|Hdi].
        * destruct (Nat.ltb_spec i (length a)); [|lia]. inversion Hi; subst sli. exists od'. auto.
        * destruct (HR _ _ Hi) as (o & Eo & Ci & Hti & Hci).
          exists o. split; auto. split; auto.
          rewrite Hh by auto. eapply seg_ext; [|exact Ci].
          intros x Hx. eapply Hn; eauto.
  Qed.

  Lemma chain_next h s l1 b l2 :
    chain h s (l1 ++ b :: l2) ->
    h (Nd b) = match l2 with [] => None | n :: _ => Some (Nd n) end.
  Proof.
    unfold chain. intros C. apply seg_app in C as (m & _ & C). simpl in C. destruct C as (_ & C).
    destruct l2; simpl in C; [auto|tauto].
  Qed.

  Lemma R_none a p l : R a p -> nth_error a l = None -> nth_error (objs p) l = None.
  Proof. intros (Hlen & _) H. apply nth_error_None. rewrite Hlen. apply nth_error_None; auto. Qed.

  Lemma existsb_eqb_In b l : existsb (Nat.eqb b) l = true <-> In b l.
  Proof.
    rewrite existsb_exists. split.
    - intros (x & Hx & E). apply Nat.eqb_eq in E. subst; auto.
    - intros H. exists b. split; auto. apply Nat.eqb_refl.
  Qed.

  (** ** foreach with the visitor that moves the visited element to list [d] *)

  (** One visit, from related states, with [e] the first element of [l]:
      pop_front(l) hands back [e] and push_back(d, e) links it behind [d]'s
      tail; the states are related again, and -- this is why
      cstl_slist_foreach has to read the successor first -- the link
      [n = c->n] the loop saved BEFORE calling the visitor is the first link
      of [l] afterwards: pop_front copies it into the head link, and
      push_back onto the other list writes only [e]'s own link and [d]'s
      tail link.  ([e]'s own link is overwritten by push_back, so reading
      [c->n] after the visit would see [d]'s end instead.) *)
  Lemma sim_fmove_visit a p l d sl dl e r sl1 dl1 :
    sys_wf a -> R a p -> l <> d ->
    nth_error a l = Some sl -> nth_error a d = Some dl -> items sl = e :: r ->
    pop_front sl = Ok (sl1, Some e) -> push_back dl e = Ok dl1 ->
    exists ol p1 od,
      nth_error (objs p) l = Some ol /\
      p_pop_front p l ol = Ok (p1, Some (Nd e)) /\
      nth_error (objs p1) d = Some od /\
      sys_wf (upd (upd a l sl1) d dl1) /\
      R (upd (upd a l sl1) d dl1) (p_insert_after p1 d od (lt od) e) /\
      nx (p_insert_after p1 d od (lt od) e) (Hd l) = nx p (Nd e) /\
      items sl1 = r.
  Proof.
    intros W HR Hne El Ed EL Epop Epush.
    pose proof W as (Wf & Wn).
    pose proof (nth_error_Forall _ _ _ _ Wf El) as Wl.
    pose proof (nth_error_Forall _ _ _ _ Wf Ed) as Wd.
    destruct (proj2 HR _ _ El) as (ol & Eol & Cl & Htl & Hcl).
    pose proof (pop_front_spec sl Wl) as P. rewrite EL in P.
    destruct P as (sl1' & E1 & I1 & W1). rewrite Epop in E1. inversion E1; subst sl1'. clear E1.
    (* pop_front = erase_after at the head link *)
    assert (Etl : opt_eqb (tail sl) None = false).
    { destruct (opt_eqb_spec (tail sl) None) as [Et|Et]; auto.
      apply (wf_tail_None _ Wl) in Et. congruence. }
    unfold pop_front in Epop. rewrite Etl in Epop.
    destruct (erase_after sl None) as [[sl1'' n]|] eqn:Eer; [|discriminate].
    inversion Epop; subst sl1'' n. clear Epop.
    destruct (sim_erase_after a p l sl ol None sl1 e W HR El Eol Eer I) as (p1 & Ep1 & HR1).
    simpl taddr in Ep1.
    assert (W1s : sys_wf (upd a l sl1)).
    { eapply sys_wf_upd; eauto. intros pre post Hnd Eq. rewrite I1.
      eapply NoDup_sub_mid; [rewrite <- I1; apply W1| |exact Hnd].
      rewrite EL. intros z Hz; simpl; auto. }
    assert (Ed1 : nth_error (upd a l sl1) d = Some dl) by (rewrite nth_error_upd_other; auto).
    destruct (proj2 HR1 _ _ Ed1) as (od & Eod & Cd & Htd & Hcd).
    assert (Hfresh : ~ In e (flat_map items (upd a l sl1))).
    { destruct (flat_map_upd_perm a l sl sl1 El) as (pre & post & F1 & F2).
      rewrite F2, I1. rewrite F1, EL in Wn. simpl in Wn. apply NoDup_remove_2 in Wn. exact Wn. }
    assert (Hed : ~ In e (items dl)) by (eapply notin_flat; eauto).
    destruct (push_back_spec dl e Wd Hed) as (dl1' & E2 & I2 & W2).
    rewrite Epush in E2. inversion E2; subst dl1'. clear E2.
    assert (W2s : sys_wf (upd (upd a l sl1) d dl1)).
    { eapply sys_wf_upd; eauto. intros pre post Hnd Eq. rewrite I2.
      eapply NoDup_add_mid with (e := e) (a := items dl); eauto. rewrite <- Eq; auto.
      apply Permutation_cons_append. }
    assert (HR2 : R (upd (upd a l sl1) d dl1) (p_insert_after p1 d od (lt od) e)).
    { rewrite Htd. apply (sim_insert_after (upd a l sl1) p1 d dl od (tail dl) e dl1); auto.
      destruct (tail dl) as [t|] eqn:Et; auto.
      destruct Wd as (Htl' & _). rewrite Et in Htl'. symmetry in Htl'. apply last_opt_In in Htl'. exact Htl'. }
    exists ol, p1, od. split; auto. split.
    { unfold p_pop_front. rewrite Htl. change (Hd l) with (taddr l None) at 1. rewrite taddr_eqb, Etl.
      simpl taddr. rewrite Ep1. reflexivity. }
    split; auto. split; auto. split; auto. split; auto.
    (* the saved successor *)
    assert (Hl2 : nth_error (upd (upd a l sl1) d dl1) l = Some sl1).
    { rewrite nth_error_upd_other by auto. apply nth_error_upd_same. apply nth_error_Some. congruence. }
    destruct (proj2 HR2 _ _ Hl2) as (ol2 & _ & Cl2 & _).
    apply chain_head in Cl2. rewrite I1 in Cl2. rewrite Cl2.
    rewrite EL in Cl. unfold chain in Cl. simpl in Cl. destruct Cl as (_ & Cl).
    apply chain_head in Cl. rewrite Cl. reflexivity.
  Qed.

  (** The pointer-level loop (successor saved before the visitor, visitor =
      the pointer-level pop_front and push_back) follows the sequence-level
      loop: same log, same result, same mismatch count, related states. *)
  Lemma sim_fmove_loop l d fuel : forall a p sl dl stop k acc bad sl' dl' log r bad',
    sys_wf a -> R a p -> l <> d -> nth_error a l = Some sl -> nth_error a d = Some dl ->
    fmove_loop fuel (hd_error (items sl)) sl dl stop k acc bad = Ok (sl', dl', log, r, bad') ->
    exists p', p_fmove_loop fuel p l d (nx p (Hd l)) stop k acc bad = Ok (p', log, r, bad') /\
               R (upd (upd a l sl') d dl') p'.
  Proof.
    assert (Hnil : forall fuel a p sl dl stop k acc bad sl' dl' log r bad',
      R a p -> nth_error a l = Some sl -> nth_error a d = Some dl -> items sl = [] ->
      fmove_loop fuel None sl dl stop k acc bad = Ok (sl', dl', log, r, bad') ->
      exists p', p_fmove_loop fuel p l d (nx p (Hd l)) stop k acc bad = Ok (p', log, r, bad') /\
                 R (upd (upd a l sl') d dl') p').
    { intros fuel0 a p sl dl stop k acc bad sl' dl' log r bad' HR El Ed EL H.
      destruct (proj2 HR _ _ El) as (ol & _ & Cl & _). rewrite EL in Cl. apply chain_head in Cl.
      rewrite Cl. assert (H' : Ok (sl, dl, rev acc, 0%Z, bad) = Ok (sl', dl', log, r, bad'))
        by (destruct fuel0; exact H).
      inversion H'; subst. exists p. split; [destruct fuel0; reflexivity|].
      rewrite (upd_same a l sl' El), (upd_same a d dl' Ed). exact HR. }
    induction fuel as [|f IH]; intros a p sl dl stop k acc bad sl' dl' log r bad' W HR Hne El Ed H;
      destruct (items sl) as [|e rr] eqn:EL; try (eapply Hnil; eauto; fail).
    - simpl in H. discriminate.
    - cbn [hd_error fmove_loop] in H. rewrite EL in H. cbn [next_of] in H. rewrite Nat.eqb_refl in H.
      pose proof W as (Wf & _). pose proof (nth_error_Forall _ _ _ _ Wf El) as Wl.
      pose proof (pop_front_spec sl Wl) as P. rewrite EL in P.
      destruct P as (sl1 & E1 & I1 & W1). rewrite E1 in H.
      cbn [opt_eqb] in H. rewrite Nat.eqb_refl in H.
      destruct (push_back dl e) as [dl1|] eqn:E2; [|discriminate].
      destruct (sim_fmove_visit a p l d sl dl e rr sl1 dl1 W HR Hne El Ed EL E1 E2)
        as (ol & p1 & od & Eol & Epp & Eod & W2 & HR2 & Hsucc & _).
      destruct (proj2 HR _ _ El) as (ol' & _ & Cl & _). rewrite EL in Cl. apply chain_head in Cl.
      rewrite Cl. cbn [p_fmove_loop elem_of]. rewrite Eol, Epp. cbn [addr_eqb]. rewrite Nat.eqb_refl, Eod.
      destruct ((0 <? stop)%nat && Nat.eqb (S k) stop).
      + inversion H; subst. eexists; split; [reflexivity|]. exact HR2.
      + assert (Hl : (l < length a)%nat) by (apply nth_error_Some; congruence).
        assert (Hd' : (d < length a)%nat) by (apply nth_error_Some; congruence).
        rewrite <- I1 in H.
        destruct (IH (upd (upd a l sl1) d dl1) (p_insert_after p1 d od (lt od) e)
                     sl1 dl1 stop (S k) (e :: acc) bad sl' dl' log r bad') as (p' & Ep & HR'); auto.
        * rewrite nth_error_upd_other by auto. apply nth_error_upd_same; auto.
        * apply nth_error_upd_same. rewrite upd_length; auto.
        * rewrite Hsucc in Ep. exists p'. split; auto.
          rewrite (upd_comm (upd a l sl1) d l dl1 sl') in HR' by auto.
          rewrite upd_upd_same, upd_upd_same in HR'. exact HR'.
  Qed.

  Notation astep := (SListModel.step key false).

  (** Forward simulation: every operation of the domain other than sort
      (sort: SListPtrSortProofs.v, which uses the [Concat] case below). *)
  Theorem sim_step_nosort a p o :
    sys_wf a -> R a p -> (forall l, o <> Sort l) ->
    match astep a o with
    | Done a' out => exists p', p_step key p o = Done p' out /\ R a' p'
    | Precond => p_step key p o = Precond
    | _ => True
    end.
  Proof.
    intros W HR Hns. pose proof W as (Wf & Wn).
    destruct o as [l e|l e|l b e|l b|l|l|l|l|l|l|d sr|x y|l stop|l|l d stop];
      cbn [SListModel.step p_step]; unfold with_list, with_obj.
    - (* PushFront *)
      destruct (nth_error a l) as [sl|] eqn:E; [|rewrite (R_none _ _ _ HR E); auto].
      destruct (proj2 HR _ _ E) as (ob & Eo & C & Ht & Hc). rewrite Eo.
      rewrite (linked_spec a p e W HR). destruct (in_any a e) eqn:Ein; auto.
      unfold push_front. destruct (insert_after sl None e) as [sl'|] eqn:Ei; simpl; auto.
      eexists; split; [reflexivity|].
      apply (sim_insert_after a p l sl ob None e sl'); auto.
      intros H. apply in_any_spec in H. congruence.
    - (* PushBack *)
      destruct (nth_error a l) as [sl|] eqn:E; [|rewrite (R_none _ _ _ HR E); auto].
      destruct (proj2 HR _ _ E) as (ob & Eo & C & Ht & Hc). rewrite Eo.
      rewrite (linked_spec a p e W HR). destruct (in_any a e) eqn:Ein; auto.
      unfold push_back. destruct (insert_after sl (tail sl) e) as [sl'|] eqn:Ei; simpl; auto.
      eexists; split; [reflexivity|]. rewrite Ht.
      apply (sim_insert_after a p l sl ob (tail sl) e sl'); auto.
      + intros H. apply in_any_spec in H. congruence.
      + destruct (tail sl) as [t|] eqn:Et; auto.
        pose proof (nth_error_Forall _ _ _ _ Wf E) as (Htl & _). rewrite Et in Htl.
        symmetry in Htl. apply last_opt_In in Htl. exact Htl.
    - (* InsertAfter *)
      destruct (nth_error a l) as [sl|] eqn:E; [|rewrite (R_none _ _ _ HR E); auto].
      destruct (proj2 HR _ _ E) as (ob & Eo & C & Ht & Hc). rewrite Eo.
      rewrite (linked_spec a p e W HR), (in_list_spec a p l sl ob b W HR E Eo).
      destruct (in_any a e) eqn:Ein; cbn [orb]; auto.
      destruct (existsb (Nat.eqb b) (items sl)) eqn:Eb; cbn [negb]; auto.
      destruct (insert_after sl (Some b) e) as [sl'|] eqn:Ei; simpl; auto.
      eexists; split; [reflexivity|].
      apply (sim_insert_after a p l sl ob (Some b) e sl'); auto.
      + intros H. apply in_any_spec in H. congruence.
      + apply existsb_eqb_In; auto.
    - (* EraseAfter *)
      destruct (nth_error a l) as [sl|] eqn:E; [|rewrite (R_none _ _ _ HR E); auto].
      destruct (proj2 HR _ _ E) as (ob & Eo & C & Ht & Hc). rewrite Eo.
      rewrite (in_list_spec a p l sl ob b W HR E Eo).
      destruct (next_of b (items sl)) as [[n|]|] eqn:En.
      + pose proof (next_of_In _ _ _ En) as Hb.
        assert (Eb : existsb (Nat.eqb b) (items sl) = true) by (apply existsb_eqb_In; auto).
        rewrite Eb. cbn [negb].
        destruct (split_first b _ Hb) as (l1 & l2 & EL & Hb1).
        rewrite EL, next_of_app in En by auto. destruct l2 as [|n' l2]; [discriminate|].
        simpl in En. inversion En; subst n'.
        rewrite EL in C. rewrite (chain_next _ _ _ _ _ C).
        destruct (erase_after sl (Some b)) as [[sl' n']|] eqn:Ee; auto.
        destruct (sim_erase_after a p l sl ob (Some b) sl' n' W HR E Eo Ee Hb) as (p' & Ep & HR').
        simpl taddr in Ep. rewrite Ep. eexists; split; [reflexivity|]; auto.
      + pose proof (next_of_In _ _ _ En) as Hb.
        assert (Eb : existsb (Nat.eqb b) (items sl) = true) by (apply existsb_eqb_In; auto).
        rewrite Eb. cbn [negb].
        destruct (split_first b _ Hb) as (l1 & l2 & EL & Hb1).
        rewrite EL, next_of_app in En by auto. destruct l2 as [|n' l2]; [|discriminate].
        rewrite EL in C. rewrite (chain_next _ _ _ _ _ C). reflexivity.
      + assert (Eb : existsb (Nat.eqb b) (items sl) = false).
        { destruct (existsb (Nat.eqb b) (items sl)) eqn:Eb; auto.
          apply existsb_eqb_In in Eb. destruct (split_first b _ Eb) as (l1 & l2 & EL & Hb1).
          rewrite EL, next_of_app in En by auto. discriminate. }
        rewrite Eb. reflexivity.
    - (* PopFront *)
      destruct (nth_error a l) as [sl|] eqn:E; [|rewrite (R_none _ _ _ HR E); auto].
      destruct (proj2 HR _ _ E) as (ob & Eo & C & Ht & Hc). rewrite Eo.
      unfold pop_front. rewrite Ht. change (Hd l) with (taddr l None). rewrite taddr_eqb.
      destruct (opt_eqb (tail sl) None) eqn:Et.
      + eexists; split; [reflexivity|]. rewrite upd_same; auto.
      + destruct (erase_after sl None) as [[sl' n]|] eqn:Ee; auto.
        destruct (sim_erase_after a p l sl ob None sl' n W HR E Eo Ee I) as (p' & Ep & HR').
        rewrite Ep. eexists; split; [reflexivity|]; auto.
    - (* Front *)
      destruct (nth_error a l) as [sl|] eqn:E; [|rewrite (R_none _ _ _ HR E); auto].
      destruct (proj2 HR _ _ E) as (ob & Eo & C & Ht & Hc). rewrite Eo.
      unfold front. rewrite Ht. change (Hd l) with (taddr l None). rewrite taddr_eqb.
      destruct (opt_eqb (tail sl) None) eqn:Et.
      + eexists; split; [reflexivity|]; auto.
      + destruct (items sl) as [|x r] eqn:EL; auto.
        simpl taddr. unfold chain in C; simpl in C. destruct C as (-> & _). eexists; split; [reflexivity|]; auto.
    - (* Back *)
      destruct (nth_error a l) as [sl|] eqn:E; [|rewrite (R_none _ _ _ HR E); auto].
      destruct (proj2 HR _ _ E) as (ob & Eo & C & Ht & Hc). rewrite Eo.
      unfold back. rewrite Ht. destruct (tail sl) as [t|]; simpl.
      + eexists; split; [reflexivity|]; auto.
      + rewrite Nat.eqb_refl. eexists; split; [reflexivity|]; auto.
    - (* Size *)
      destruct (nth_error a l) as [sl|] eqn:E; [|rewrite (R_none _ _ _ HR E); auto].
      destruct (proj2 HR _ _ E) as (ob & Eo & C & Ht & Hc). rewrite Eo, Hc.
      eexists; split; [reflexivity|]; auto.
    - (* Reverse *)
      destruct (nth_error a l) as [sl|] eqn:E; [|rewrite (R_none _ _ _ HR E); auto].
      destruct (proj2 HR _ _ E) as (ob & Eo & C & Ht & Hc). rewrite Eo.
      pose proof (nth_error_Forall _ _ _ _ Wf E) as Wsl.
      unfold reverse, lift. rewrite Hc. destruct (1 <? count sl) eqn:E1.
      + destruct (items sl) as [|c rest] eqn:EL; auto.
        pose proof C as C0. unfold chain in C0; simpl in C0. destruct C0 as (Ec & _). rewrite Ec.
        assert (A1 : NoDup ([] ++ c :: rest)) by (simpl; rewrite <- EL; apply Wsl).
        assert (A2 : forall x, Hd l <> Nd x) by discriminate.
        assert (A3 : chain (nx p) (nx p (Hd l)) ([] ++ c :: rest)) by (simpl; exact C).
        assert (A4 : (length rest <= N.to_nat (count sl))%nat).
        { rewrite (wf_count_len sl Wsl), EL; simpl; lia. }
        destruct (p_rev_loop_spec (Hd l) c rest _ (nx p) [] A1 A2 A3 A4) as (h' & El & Ch & Fr).
        rewrite El. eexists; split; [reflexivity|].
        apply R_upd_one with (sl := sl); auto.
        * intros j Hj. apply Fr; [congruence|discriminate].
        * intros j slj x Hj Ej Hx. apply Fr; [discriminate|].
          intros y Hy Eq. inversion Eq; subst y.
          eapply (other_list_fresh a l sl j slj); eauto. rewrite EL; auto.
      + eexists; split; [reflexivity|]. rewrite upd_same; auto.
    - (* Sort *) exfalso. eapply Hns; reflexivity.
    - (* Concat *)
      destruct (Nat.eqb_spec d sr) as [->|Hne]; auto.
      destruct (nth_error a d) as [dl|] eqn:Ed; [|rewrite (R_none _ _ _ HR Ed); auto].
      destruct (proj2 HR _ _ Ed) as (od & Eod & Cd & Htd & Hcd). rewrite Eod.
      destruct (nth_error a sr) as [sl|] eqn:Es; [|rewrite (R_none _ _ _ HR Es); auto].
      destruct (proj2 HR _ _ Es) as (os & Eos & Cs & Hts & Hcs). rewrite Eos.
      pose proof (nth_error_Forall _ _ _ _ Wf Ed) as Wd.
      pose proof (nth_error_Forall _ _ _ _ Wf Es) as Ws.
      pose proof (sys_disjoint a d sr dl sl Wn Hne Ed Es) as Hdis.
      destruct (concat_spec dl sl Wd Ws Hdis) as (d' & s' & C1 & C2 & C3 & C4 & C5).
      rewrite C1. eexists; split; [reflexivity|].
      unfold p_concat. unfold concat in C1. rewrite Hcs.
      destruct (0 <? count sl) eqn:E0.
      + destruct (set_next dl (tail dl) (items sl)) as [it|] eqn:Esn; [|discriminate].
        inversion C1; subst d' s'. simpl in C2. subst it. clear C1.
        assert (Hsne : items sl <> []).
        { intros En. apply (wf_count0 _ Ws) in En. rewrite En in E0. discriminate. }
        apply R_upd_two with (sld := dl) (sls := sl); auto; simpl.
        * (* chain of d *)
          rewrite hupd_other by congruence.
          destruct (tail dl) as [t|] eqn:Et.
          -- pose proof Wd as (Htl & _ & Hnd). rewrite Et in Htl. symmetry in Htl.
             destruct (last_split _ _ Htl) as (l1 & EL). rewrite EL in *.
             destruct (NoDup_mid_notin _ _ _ Hnd) as (Ht1 & _).
             rewrite Htd. simpl taddr. rewrite hupd_other by discriminate.
             unfold chain in *. apply seg_app in Cd as (m & Cd1 & Cd2). simpl in Cd2.
             destruct Cd2 as (-> & Cd2).
             rewrite <- app_assoc. apply seg_app. exists (Some (Nd t)). split.
             ++ eapply seg_ext; [|exact Cd1]. intros y Hy. rewrite !hupd_other; auto; try discriminate.
                intros Eq; inversion Eq; subst; tauto.
             ++ simpl. split; auto. rewrite hupd_other by discriminate. rewrite hupd_same.
                eapply seg_ext; [|exact Cs]. intros y Hy. rewrite !hupd_other; auto; try discriminate.
                intros Eq; inversion Eq; subst. eapply Hdis; eauto. apply in_or_app; simpl; auto.
          -- apply (wf_tail_None _ Wd) in Et. rewrite Et in *. simpl.
             rewrite Htd. replace (tail dl) with (@None nat) by (symmetry; apply (wf_tail_None _ Wd); auto).
             simpl taddr. rewrite hupd_same.
             eapply seg_ext; [|exact Cs]. intros y Hy. rewrite !hupd_other; auto; discriminate.
        * rewrite Hts. destruct (tail sl) as [t|] eqn:Et; auto.
          exfalso. apply Hsne. apply (wf_tail_None _ Ws); auto.
        * rewrite Hcd; auto.
        * unfold chain; simpl. apply hupd_same.
        * intros j Hjd Hjs. rewrite hupd_other by congruence.
          rewrite hupd_other; auto. rewrite Htd. destruct (tail dl); simpl; congruence.
        * intros j slj y Hjd Hjs Ej Hy. rewrite hupd_other by discriminate.
          rewrite hupd_other; auto. rewrite Htd. destruct (tail dl) as [t|] eqn:Et; simpl; try discriminate.
          intros Eq; inversion Eq; subst y.
          eapply (other_list_fresh a d dl j slj); eauto.
          pose proof Wd as (Htl & _). rewrite Et in Htl. symmetry in Htl. apply last_opt_In in Htl; auto.
      + inversion C1; subst d' s'. rewrite (upd_same a d dl Ed). rewrite (upd_same a sr sl Es). exact HR.
    - (* Swap *)
      destruct (nth_error a x) as [xl|] eqn:Ex; [|rewrite (R_none _ _ _ HR Ex); auto].
      destruct (proj2 HR _ _ Ex) as (ox & Eox & Cx & Htx & Hcx). rewrite Eox.
      destruct (nth_error a y) as [yl|] eqn:Ey; [|rewrite (R_none _ _ _ HR Ey); auto].
      destruct (proj2 HR _ _ Ey) as (oy & Eoy & Cy & Hty & Hcy). rewrite Eoy.
      destruct (Nat.eqb_spec x y) as [->|Hne].
      + eexists; split; [reflexivity|]; auto.
      + unfold swap. eexists; split; [reflexivity|].
        pose proof (nth_error_Forall _ _ _ _ Wf Ex) as Wx.
        pose proof (nth_error_Forall _ _ _ _ Wf Ey) as Wy.
        assert (Hfix : forall i j sl o, wf sl -> lt o = taddr j (tail sl) -> lcount o = count sl ->
                  lt (if lcount o =? 0 then mkLO (Hd i) (lcount o) else o) = taddr i (tail (swap_fix sl)) /\
                  lcount (if lcount o =? 0 then mkLO (Hd i) (lcount o) else o) = count (swap_fix sl) /\
                  items (swap_fix sl) = items sl).
        { intros i j sl o Wsl Hto Hco. unfold swap_fix. rewrite Hco.
          destruct (N.eqb_spec (count sl) 0) as [C0|C0]; simpl; auto.
          rewrite Hto. destruct (tail sl) as [t|] eqn:Et; simpl; auto.
          exfalso. apply C0. apply (wf_count0 _ Wsl). apply (wf_tail_None _ Wsl); auto. }
        destruct (Hfix x y yl oy Wy Hty Hcy) as (F1 & F2 & F3).
        destruct (Hfix y x xl ox Wx Htx Hcx) as (G1 & G2 & G3).
        apply R_upd_two with (sld := xl) (sls := yl); auto.
        * rewrite F3. rewrite hupd_other by congruence. rewrite hupd_same.
          eapply seg_ext; [|exact Cy]. intros z Hz. rewrite !hupd_other; auto; discriminate.
        * rewrite G3. rewrite hupd_same.
          eapply seg_ext; [|exact Cx]. intros z Hz. rewrite !hupd_other; auto; discriminate.
        * intros j Hjx Hjy. rewrite !hupd_other; auto; congruence.
    - (* Foreach *)
      destruct (nth_error a l) as [sl|] eqn:E; [|rewrite (R_none _ _ _ HR E); auto].
      destruct (proj2 HR _ _ E) as (ob & Eo & C & Ht & Hc). rewrite Eo.
      pose proof (nth_error_Forall _ _ _ _ Wf E) as Wsl.
      rewrite (p_walk_spec (nx p) stop (items sl)); auto.
      2:{ rewrite Hc, (wf_count_len sl Wsl). lia. }
      2:{ lia. }
      unfold foreach. simpl Nat.add. destruct stop as [|st].
      + simpl. eexists; split; [reflexivity|]; auto.
      + replace (0 <? S st)%nat with true by (symmetry; apply Nat.ltb_lt; lia). cbn [andb].
        rewrite Nat.sub_0_r. destruct (Nat.leb (S st) (length (items sl)));
          (eexists; split; [reflexivity|]; auto).
    - (* Clear *)
      destruct (nth_error a l) as [sl|] eqn:E; [|rewrite (R_none _ _ _ HR E); auto].
      destruct (proj2 HR _ _ E) as (ob & Eo & C & Ht & Hc). rewrite Eo.
      pose proof (nth_error_Forall _ _ _ _ Wf E) as Wsl.
      rewrite (p_walk_spec (nx p) 0%nat (items sl)); auto.
      2:{ rewrite Hc, (wf_count_len sl Wsl). lia. }
      simpl. eexists; split; [reflexivity|].
      apply R_upd_one with (sl := sl); auto; simpl.
      + unfold chain; simpl. apply hupd_same.
      + intros j Hj. rewrite hupd_other; auto. congruence.
    - (* FMove *)
      destruct (Nat.eqb_spec l d) as [->|Hne]; auto.
      destruct (nth_error a l) as [sl|] eqn:El; [|rewrite (R_none _ _ _ HR El); auto].
      destruct (proj2 HR _ _ El) as (ol & Eol & Cl & Htl & Hcl). rewrite Eol.
      destruct (nth_error a d) as [dl|] eqn:Ed; [|rewrite (R_none _ _ _ HR Ed); auto].
      destruct (proj2 HR _ _ Ed) as (od & Eod & _). rewrite Eod.
      unfold fmove. rewrite Hcl.
      destruct (fmove_loop (S (N.to_nat (count sl))) (hd_error (items sl)) sl dl stop 0 [] 0)
        as [[[[[sl' dl'] log] r] bad]|] eqn:EF; auto.
      destruct (sim_fmove_loop l d _ a p sl dl stop 0%nat [] 0%nat sl' dl' log r bad W HR Hne El Ed EF)
        as (p' & Ep & HR').
      rewrite Ep. eexists; split; [reflexivity|]; auto.
  Qed.
End Sim.
