(** C06 — interleaving model of the shared/weak pointer code of src/memory.c.

    ONE allocation (one bookkeeping block [struct cstl_shared_ptr_data] and
    the memory it manages), any number of threads.  Every thread owns its
    objects (shared pointer objects [sh], weak pointer objects [wk]) and runs
    a program (list of library calls on its own objects).  One small step =
    one atomic operation of memory.c, in the program order of the C code;
    thread-private pointer updates (guarded_ptr copy/set) are folded into the
    adjacent atomic step.  The non-atomic accesses to the bookkeeping block
    ([cstl_shared_ptr_get] reading [data->up], [cstl_unique_ptr_reset(&data->up)]
    at the last owner's reset, [free(data)]) are steps of their own, labelled,
    so that a data race is "two enabled conflicting labelled steps".

    No proofs here (extracted).  Proofs: ConcProofs.v; statements:
    Properties_C06.v. *)
From Cstl Require Import Prelude.

Inductive life := Live | Dead.

(** A shared pointer object.  The C object is just a (guarded) pointer: NULL
    or the bookkeeping block.  The model additionally records where the
    object stands with respect to the two counters (ghost information: the
    control flow below only ever tests [s_null]):
    - [SRaw]   pointer copied, nothing counted yet (share/lock after the copy)
    - [SHard]  counted in [hard] only (between the two increments)
    - [SProbe] the weak lock's increment that saw 0 and is about to be undone
    - [SFull]  counted in [hard] and [soft] (a proper owner)
    - [SSoft]  counted in [soft] only (reset: after fetch_sub hard) *)
Inductive sobj := SNull | SRaw | SHard | SProbe | SFull | SSoft.
(** A weak pointer object: NULL, copied-not-yet-counted, counted in [soft]. *)
Inductive wobj := WNull | WRaw | WFull.

Definition s_null (o : sobj) : bool := match o with SNull => true | _ => false end.
Definition w_null (o : wobj) : bool := match o with WNull => true | _ => false end.

(** Library calls; operands are indices into the calling thread's own
    [sh] / [wk].  [Share s d] = cstl_shared_ptr_share(&sh[s], &sh[d]),
    [WeakFrom s d] = cstl_weak_ptr_from(&wk[d], &sh[s]),
    [Lock w d] = cstl_weak_ptr_lock(&wk[w], &sh[d]). *)
Inductive op :=
| Share (s d : nat)
| Reset (i : nat)
| WeakFrom (s d : nat)
| Lock (w d : nat)
| WeakReset (i : nat)
| Get (i : nat).

(** Program counter inside the current call (the head of [prog]); operands
    are those of the current call.  Each value names the atomic (or
    labelled non-atomic) operation the thread performs NEXT. *)
Inductive pc :=
| PIdle        (* current call not started *)
| PResetHard   (* cstl_shared_ptr_reset: atomic_fetch_sub(&data->ref.hard, 1) *)
| PClear       (* ... returned 1: cstl_unique_ptr_reset(&data->up) *)
| PResetSoft   (* cstl_weak_ptr_reset: ptr := NULL; atomic_fetch_sub(&data->ref.soft, 1) *)
| PFree        (* ... returned 1: free(data) *)
| PShareHard   (* share: atomic_fetch_add(&data->ref.hard, 1) *)
| PShareSoft   (* share: atomic_fetch_add(&data->ref.soft, 1) *)
| PWeakSoft    (* weak_from: atomic_fetch_add(&data->ref.soft, 1) *)
| PLockSpin    (* lock: atomic_flag_test_and_set(&data->ref.lock) [; sched_yield()] *)
| PLockHard    (* lock: atomic_fetch_add(&data->ref.hard, 1) > 0 ? *)
| PLockSoft    (* lock, saw > 0: atomic_fetch_add(&data->ref.soft, 1) *)
| PLockUndo    (* lock, saw 0: atomic_fetch_sub(&data->ref.hard, 1); sp := NULL *)
| PLockClear.  (* lock: atomic_flag_clear(&data->ref.lock) *)

Record thread := mkT { sh : list sobj; wk : list wobj; prog : list op; tpc : pc }.

Record global := mkG {
  hard : N; soft : N; lock : bool;
  mem : life;      (* the managed memory *)
  data : life;     (* the bookkeeping block *)
  err : bool       (* set by: access to a freed bookkeeping block, second clear,
                      second free, counter underflow *)
}.

Inductive label :=
| LNop                 (* a call that performs no shared access at all *)
| LGet (acc : bool)    (* cstl_shared_ptr_get; acc = it reads data->up *)
| LSubHard | LAddHard | LSubSoft | LAddSoft | LTas | LFlagClear   (* atomics *)
| LClear               (* cstl_unique_ptr_reset(&data->up): reads and WRITES data->up *)
| LFreeData.           (* free(data) *)

Inductive event := EClear | EFreeMem | EFreeData | EYield | EUaf | EDouble | EUnderflow.

Record info := mkI {
  i_tid : nat; i_lab : label; i_ret : N; i_evs : list event;
  i_done : option (op * N)   (* the call completed in this step, its result *)
}.

Record state := mkS { g : global; ths : list thread; log : list info }.

(* ------------------------------------------------------------------ *)
(** * One step of one thread *)

Definition set_sh (t : thread) (i : nat) (x : sobj) : thread :=
  mkT (upd (sh t) i x) (wk t) (prog t) (tpc t).
Definition set_wk (t : thread) (i : nat) (x : wobj) : thread :=
  mkT (sh t) (upd (wk t) i x) (prog t) (tpc t).
Definition set_pc (t : thread) (p : pc) : thread :=
  mkT (sh t) (wk t) (prog t) p.
Definition get_sh (t : thread) (i : nat) : sobj := nth i (sh t) SNull.
Definition get_wk (t : thread) (i : nat) : wobj := nth i (wk t) WNull.

(** every access to the bookkeeping block, atomic or not *)
Definition touch (gl : global) : global * list event :=
  match data gl with
  | Live => (gl, [])
  | Dead => (mkG (hard gl) (soft gl) (lock gl) (mem gl) (data gl) true, [EUaf])
  end.

Definition set_hard (gl : global) (h : N) := mkG h (soft gl) (lock gl) (mem gl) (data gl) (err gl).
Definition set_soft (gl : global) (s : N) := mkG (hard gl) s (lock gl) (mem gl) (data gl) (err gl).
Definition set_lock (gl : global) (b : bool) := mkG (hard gl) (soft gl) b (mem gl) (data gl) (err gl).
Definition set_mem (gl : global) (m : life) := mkG (hard gl) (soft gl) (lock gl) m (data gl) (err gl).
Definition set_data (gl : global) (d : life) := mkG (hard gl) (soft gl) (lock gl) (mem gl) d (err gl).
Definition set_err (gl : global) := mkG (hard gl) (soft gl) (lock gl) (mem gl) (data gl) true.

(** fetch_sub(x, 1) on a counter holding [v]: new value and events.  The C
    counter would wrap to SIZE_MAX at 0; the model flags it instead. *)
Definition dec (v : N) : N * bool := if (v =? 0)%N then (0%N, true) else ((v - 1)%N, false).

(** What remains of the current call after the reset of its target object:
    the pointer copy (thread-private) and the decision whether there is
    anything to count.  Result pc [PIdle] = the call is over. *)
Definition enter (t : thread) (o : op) : thread :=
  match o with
  | Share s d => if s_null (get_sh t s) then set_pc t PIdle
                 else set_pc (set_sh t d SRaw) PShareHard
  | WeakFrom s d => if s_null (get_sh t s) then set_pc t PIdle
                    else set_pc (set_wk t d WRaw) PWeakSoft
  | Lock w d => if w_null (get_wk t w) then set_pc t PIdle
                else set_pc (set_sh t d SRaw) PLockSpin
  | Reset _ | WeakReset _ | Get _ => set_pc t PIdle
  end.

(** First thing a call does with its target: reset it if it holds a pointer. *)
Definition begin (t : thread) (o : op) : thread :=
  match o with
  | Share _ d | Lock _ d | Reset d =>
      if s_null (get_sh t d) then enter t o else set_pc t PResetHard
  | WeakFrom _ d | WeakReset d =>
      if w_null (get_wk t d) then enter t o else set_pc t PResetSoft
  | Get _ => set_pc t PIdle
  end.

(** the object a call resets first *)
Definition target_sh (o : op) : nat :=
  match o with Share _ d | Lock _ d | Reset d | Get d => d | _ => 0 end.
Definition target_is_weak (o : op) : bool :=
  match o with WeakFrom _ _ | WeakReset _ => true | _ => false end.
Definition target_wk (o : op) : nat :=
  match o with WeakFrom _ d | WeakReset d => d | _ => 0 end.

Record sres := mkR { r_g : global; r_t : thread; r_lab : label; r_ret : N; r_evs : list event }.

(** The atomic (or labelled) operation at program counter [tpc t] <> PIdle of
    the call [o]. *)
Definition exec (gl : global) (t : thread) (o : op) : sres :=
  match tpc t with
  | PIdle => mkR gl t LNop 0 []
  | PResetHard =>
      let d := target_sh o in
      let '(g1, ev) := touch gl in
      let r := hard g1 in
      let '(h', uf) := dec r in
      let g2 := set_hard g1 h' in
      let g3 := if uf then set_err g2 else g2 in
      mkR g3 (set_pc (set_sh t d SSoft) (if (r =? 1)%N then PClear else PResetSoft))
          LSubHard r (ev ++ if uf then [EUnderflow] else [])
  | PClear =>
      let '(g1, ev) := touch gl in
      match mem g1 with
      | Live => mkR (set_mem g1 Dead) (set_pc t PResetSoft) LClear 0 (ev ++ [EClear; EFreeMem])
      | Dead => mkR (set_err g1) (set_pc t PResetSoft) LClear 0 (ev ++ [EDouble])
      end
  | PResetSoft =>
      let t1 := if target_is_weak o then set_wk t (target_wk o) WNull
                else set_sh t (target_sh o) SNull in
      let '(g1, ev) := touch gl in
      let r := soft g1 in
      let '(s', uf) := dec r in
      let g2 := set_soft g1 s' in
      let g3 := if uf then set_err g2 else g2 in
      mkR g3 (if (r =? 1)%N then set_pc t1 PFree else enter t1 o)
          LSubSoft r (ev ++ if uf then [EUnderflow] else [])
  | PFree =>
      match data gl with
      | Live => mkR (set_data gl Dead) (enter t o) LFreeData 0 [EFreeData]
      | Dead => mkR (set_err gl) (enter t o) LFreeData 0 [EDouble]
      end
  | PShareHard =>
      let '(g1, ev) := touch gl in
      let r := hard g1 in
      mkR (set_hard g1 (r + 1)) (set_pc (set_sh t (target_sh o) SHard) PShareSoft) LAddHard r ev
  | PShareSoft =>
      let '(g1, ev) := touch gl in
      let r := soft g1 in
      mkR (set_soft g1 (r + 1)) (set_pc (set_sh t (target_sh o) SFull) PIdle) LAddSoft r ev
  | PWeakSoft =>
      let '(g1, ev) := touch gl in
      let r := soft g1 in
      mkR (set_soft g1 (r + 1)) (set_pc (set_wk t (target_wk o) WFull) PIdle) LAddSoft r ev
  | PLockSpin =>
      let '(g1, ev) := touch gl in
      if lock g1 then mkR g1 t LTas 1 (ev ++ [EYield])
      else mkR (set_lock g1 true) (set_pc t PLockHard) LTas 0 ev
  | PLockHard =>
      let '(g1, ev) := touch gl in
      let r := hard g1 in
      if (0 <? r)%N
      then mkR (set_hard g1 (r + 1)) (set_pc (set_sh t (target_sh o) SHard) PLockSoft) LAddHard r ev
      else mkR (set_hard g1 (r + 1)) (set_pc (set_sh t (target_sh o) SProbe) PLockUndo) LAddHard r ev
  | PLockSoft =>
      let '(g1, ev) := touch gl in
      let r := soft g1 in
      mkR (set_soft g1 (r + 1)) (set_pc (set_sh t (target_sh o) SFull) PLockClear) LAddSoft r ev
  | PLockUndo =>
      let '(g1, ev) := touch gl in
      let r := hard g1 in
      let '(h', uf) := dec r in
      let g2 := set_hard g1 h' in
      let g3 := if uf then set_err g2 else g2 in
      mkR g3 (set_pc (set_sh t (target_sh o) SNull) PLockClear) LSubHard r
          (ev ++ if uf then [EUnderflow] else [])
  | PLockClear =>
      let '(g1, ev) := touch gl in
      mkR (set_lock g1 false) (set_pc t PIdle) LFlagClear 0 ev
  end.

(** result reported for a completed call: share/weak_from/lock: 1 iff the
    destination ended up non-NULL; get: 0 NULL, 1 pointer to live memory,
    2 pointer to dead memory *)
Definition result (t : thread) (o : op) : N :=
  match o with
  | Share _ d | Lock _ d => if s_null (get_sh t d) then 0 else 1
  | WeakFrom _ d => if w_null (get_wk t d) then 0 else 1
  | _ => 0
  end%N.

(** pops the current call when the program counter is back at [PIdle] *)
Definition finish (t : thread) (o : op) : thread * option (op * N) :=
  match tpc t with
  | PIdle => (mkT (sh t) (wk t) (tl (prog t)) PIdle, Some (o, result t o))
  | _ => (t, None)
  end.

Record tstep := mkTS { ts_g : global; ts_t : thread; ts_lab : label; ts_ret : N;
                       ts_evs : list event; ts_done : option (op * N) }.

Definition step_thread (gl : global) (t : thread) : option tstep :=
  match prog t with
  | [] => None
  | o :: rest =>
    match tpc t with
    | PIdle =>
      match o with
      | Get i =>
        (* cstl_shared_ptr_get: NULL object -> NULL, no shared access;
           otherwise reads data->up (NULL once the memory was cleared) *)
        let t' := mkT (sh t) (wk t) rest PIdle in
        if s_null (get_sh t i) then Some (mkTS gl t' (LGet false) 0 [] (Some (o, 0%N)))
        else let '(g1, ev) := touch gl in
             Some (mkTS g1 t' (LGet true) 0 ev
                        (Some (o, match mem g1 with Live => 1 | Dead => 0 end%N)))
      | _ =>
        let t1 := begin t o in
        match tpc t1 with
        | PIdle => let '(t2, dn) := finish t1 o in Some (mkTS gl t2 LNop 0 [] dn)
        | _ => let r := exec gl t1 o in
               let '(t2, dn) := finish (r_t r) o in
               Some (mkTS (r_g r) t2 (r_lab r) (r_ret r) (r_evs r) dn)
        end
      end
    | _ =>
      let r := exec gl t o in
      let '(t2, dn) := finish (r_t r) o in
      Some (mkTS (r_g r) t2 (r_lab r) (r_ret r) (r_evs r) dn)
    end
  end.

Definition step (st : state) (tid : nat) : option state :=
  match nth_error (ths st) tid with
  | None => None
  | Some t =>
    match step_thread (g st) t with
    | None => None
    | Some r => Some (mkS (ts_g r) (upd (ths st) tid (ts_t r))
                          (log st ++ [mkI tid (ts_lab r) (ts_ret r) (ts_evs r) (ts_done r)]))
    end
  end.

(** a schedule is any list of thread ids; entries naming a finished or
    non-existent thread are skipped *)
Fixpoint run (st : state) (sched : list nat) : state :=
  match sched with
  | [] => st
  | tid :: r => match step st tid with Some st' => run st' r | None => run st r end
  end.

(* ------------------------------------------------------------------ *)
(** * Labels of enabled steps, conflicts, races *)

Definition next_label (st : state) (tid : nat) : option label :=
  match nth_error (ths st) tid with
  | None => None
  | Some t => option_map ts_lab (step_thread (g st) t)
  end.

(** kind of access to the bookkeeping block: 0 none, 1 atomic (the ref fields),
    2 non-atomic read of [up], 3 non-atomic write of [up], 4 free *)
Definition access (l : label) : nat :=
  match l with
  | LNop | LGet false => 0
  | LGet true => 2
  | LClear => 3
  | LFreeData => 4
  | _ => 1
  end.

Definition conflict (a b : label) : bool :=
  match access a, access b with
  | 0, _ | _, 0 => false
  | 4, _ | _, 4 => true          (* free against any access *)
  | 3, 2 | 2, 3 | 3, 3 => true   (* non-atomic write of up against read/write of up *)
  | _, _ => false
  end.

Definition race_at (st : state) (i j : nat) : bool :=
  match next_label st i, next_label st j with
  | Some a, Some b => negb (Nat.eqb i j) && conflict a b
  | _, _ => false
  end.

Definition has_race (st : state) : bool :=
  let n := seq 0 (length (ths st)) in
  existsb (fun i => existsb (fun j => race_at st i j) n) n.

(** a spin step: the failed test_and_set *)
Definition is_spin (i : info) : bool :=
  match i_lab i, i_ret i with LTas, Npos _ => true | _, _ => false end.

(* ------------------------------------------------------------------ *)
(** * Initial configurations *)

(** thread [k]: [nf] counted shared objects followed by [ne] empty ones,
    [wf] counted weak objects followed by [we] empty ones *)
Definition mk_thread (nf ne wf we : nat) (p : list op) : thread :=
  mkT (repeat SFull nf ++ repeat SNull ne) (repeat WFull wf ++ repeat WNull we) p PIdle.

Definition hardc_obj (o : sobj) : nat := match o with SHard | SProbe | SFull => 1 | _ => 0 end.
Definition softc_obj (o : sobj) : nat := match o with SFull | SSoft => 1 | _ => 0 end.
Definition softc_wobj (o : wobj) : nat := match o with WFull => 1 | _ => 0 end.
Definition nsum (l : list nat) : nat := fold_right Nat.add 0 l.
Definition hardc (t : thread) : nat := nsum (map hardc_obj (sh t)).
Definition softc (t : thread) : nat := nsum (map softc_obj (sh t)) + nsum (map softc_wobj (wk t)).

Definition init_state (ts : list thread) : state :=
  let h := nsum (map hardc ts) in
  let s := nsum (map softc ts) in
  mkS (mkG (N.of_nat h) (N.of_nat s) false
           (match h with O => Dead | _ => Live end)
           (match s with O => Dead | _ => Live end) false)
      ts [].

(** numeric encodings for the runner *)
Definition label_code (l : label) : nat :=
  match l with
  | LNop => 0 | LGet false => 1 | LGet true => 2 | LSubHard => 3 | LAddHard => 4
  | LSubSoft => 5 | LAddSoft => 6 | LTas => 7 | LFlagClear => 8 | LClear => 9 | LFreeData => 10
  end.
Definition event_code (e : event) : nat :=
  match e with EClear => 0 | EFreeMem => 1 | EFreeData => 2 | EYield => 3 | EUaf => 4
             | EDouble => 5 | EUnderflow => 6 end.
Definition finished (t : thread) : bool := match prog t with [] => true | _ => false end.
