(** C17 (a) — range proof for the binary32 model of cstl_hash_mul
    (DESIGN.md appendix A.4), on the reals through Flocq's *_correct lemmas. *)
From Coq Require Import ZArith NArith Reals Lia Lra Psatz.
From Flocq Require Import Core Relative IEEE754.BinarySingleNaN.
From Cstl Require Import HashMul.

Local Open Scope R_scope.

Notation fexp32 := (SpecFloat.fexp prec emax).
Notation RN := (round radix2 fexp32 ZnearestE).
Notation fmt := (generic_format radix2 fexp32).
Notation B2R32 := (B2R (prec := prec) (emax := emax)).

Lemma fexp32_FLT : forall e, fexp32 e = FLT_exp (-149) 24 e.
Proof. reflexivity. Qed.

Local Instance valid_fexp32 : Valid_exp fexp32 := fexp_correct prec emax _.

(** ** Small facts about the format *)

Lemma fmt_bpow e : (-149 <= e)%Z -> fmt (bpow radix2 e).
Proof. intros H. apply generic_format_FLT_bpow; [reflexivity|exact H]. Qed.

Lemma fmt_1 : fmt 1.
Proof. exact (fmt_bpow 0 ltac:(lia)). Qed.

Lemma fmt_0 : fmt 0.
Proof. apply generic_format_0. Qed.

Lemma bpow_128_big e : (e <= 127)%Z -> bpow radix2 e < bpow radix2 emax.
Proof. intros H. apply bpow_lt. unfold emax. lia. Qed.

(** a number on the grid [2^e Z], of magnitude below [2^(e+24)], is a binary32 *)
Lemma fmt_grid (z e : Z) :
  (-149 <= e)%Z -> (Z.abs z < 2 ^ 24)%Z -> fmt (IZR z * bpow radix2 e).
Proof.
  intros He Hz.
  apply (generic_format_FLT radix2 (-149) 24).
  exists (Float radix2 z e); simpl; auto.
Qed.

(** a binary32 of magnitude at least 1 (or zero) lies on the grid [2^-23 Z] *)
Lemma grid_of_fmt x :
  fmt x -> x = 0 \/ 1 <= Rabs x -> exists z : Z, x = IZR z * bpow radix2 (-23).
Proof.
  intros Hx [H0|H1].
  - exists 0%Z. rewrite H0. simpl. ring.
  - assert (Hc : (-23 <= cexp radix2 fexp32 x)%Z).
    { unfold cexp. assert (Hm : (1 <= mag radix2 x)%Z).
      { apply mag_ge_bpow. simpl. exact H1. }
      unfold SpecFloat.fexp, SpecFloat.emin, prec, emax. lia. }
    set (c := cexp radix2 fexp32 x) in *.
    exists (Ztrunc (scaled_mantissa radix2 fexp32 x) * 2 ^ (c + 23))%Z.
    rewrite Hx at 1. unfold F2R; cbn [Fnum Fexp]. fold c.
    rewrite mult_IZR, (IZR_Zpower radix2) by lia.
    rewrite Rmult_assoc, <- bpow_plus. f_equal. f_equal. lia.
Qed.

(** ** (float)n for 0 <= n <= 2^64 *)

Lemma RN_le_bpow x e : (-149 <= e)%Z -> Rabs x <= bpow radix2 e -> Rabs (RN x) <= bpow radix2 e.
Proof.
  intros He Hx. apply abs_round_le_generic; auto with typeclass_instances.
  apply fmt_bpow; auto.
Qed.

Lemma of_uint_correct n :
  (0 <= n <= 2 ^ 64)%Z ->
  B2R32 (of_uint n) = RN (IZR n) /\ is_finite (of_uint n) = true.
Proof.
  intros Hn. unfold of_uint.
  pose proof (binary_normalize_correct prec emax _ _ mode_NE n 0 false) as H.
  cbv zeta in H. unfold F2R in H; simpl in H. rewrite Rmult_1_r in H.
  rewrite Rlt_bool_true in H.
  - destruct H as (H1 & H2 & _). auto.
  - apply Rle_lt_trans with (bpow radix2 64); [|apply bpow_128_big; lia].
    apply RN_le_bpow; [lia|]. rewrite Rabs_pos_eq by (apply IZR_le; lia).
    change (bpow radix2 64) with (IZR (2 ^ 64)). apply IZR_le; lia.
Qed.

Lemma fmt_RN x : fmt (RN x).
Proof. apply generic_format_round; auto with typeclass_instances. Qed.

(** [RN] of a real at least 1 is at least 1; of a non-negative real, non-negative *)
Lemma RN_ge_1 x : 1 <= x -> 1 <= RN x.
Proof. intros H. apply round_ge_generic; auto with typeclass_instances. apply fmt_1. Qed.

Lemma RN_ge_0 x : 0 <= x -> 0 <= RN x.
Proof. intros H. apply round_ge_generic; auto with typeclass_instances. apply fmt_0. Qed.

Lemma RN_le_bpow_pos x e : (-149 <= e)%Z -> x <= bpow radix2 e -> RN x <= bpow radix2 e.
Proof. intros He H. apply round_le_generic; auto with typeclass_instances. apply fmt_bpow; auto. Qed.

(** relative error of one rounding, for numbers of magnitude >= 2^-126 *)
Definition u : R := / 2 * bpow radix2 (-23).

Lemma u_pos : 0 < u.
Proof. unfold u. pose proof (bpow_gt_0 radix2 (-23)). lra. Qed.

Lemma RN_rel_up x : bpow radix2 (-126) <= x -> RN x <= x * (1 + u).
Proof.
  intros Hx.
  assert (H0 : 0 < x) by (pose proof (bpow_gt_0 radix2 (-126)); lra).
  pose proof (relative_error_N_FLT radix2 (-149) 24 ltac:(lia) (fun z => negb (Z.even z)) x) as H.
  change ((-149) + 24 - 1)%Z with (-126)%Z in H.
  rewrite (Rabs_pos_eq x) in H by lra. specialize (H Hx).
  change (/ 2 * bpow radix2 (- (24) + 1)) with u in H. apply Rabs_le_inv in H.
  change (round radix2 (FLT_exp (-149) 24) (Znearest (fun z => negb (Z.even z))) x) with (RN x) in H.
  lra.
Qed.

(** ** The constant *)

Lemma phi_val : B2R32 phi = IZR 13573053 * bpow radix2 (-23).
Proof. reflexivity. Qed.

Lemma phi_bounds : 1 < B2R32 phi < 2.
Proof.
  rewrite phi_val. change (bpow radix2 (-23)) with (/ IZR (2 ^ 23)).
  assert (H : 0 < IZR (2 ^ 23)) by (apply IZR_lt; reflexivity).
  split.
  - apply Rmult_lt_reg_r with (IZR (2 ^ 23)); auto.
    rewrite Rmult_assoc, Rinv_l, Rmult_1_r, Rmult_1_l by lra. apply IZR_lt; reflexivity.
  - apply Rmult_lt_reg_r with (IZR (2 ^ 23)); auto.
    rewrite Rmult_assoc, Rinv_l, Rmult_1_r by lra.
    change 2 with (IZR 2). rewrite <- mult_IZR. apply IZR_lt; reflexivity.
Qed.

Lemma phi_finite : is_finite phi = true.
Proof. reflexivity. Qed.

(** ** The computation, step by step *)

Section Range.
  Variables k m : Z.
  Hypothesis Hk : (0 <= k < 2 ^ 64)%Z.
  Hypothesis Hm : (1 <= m < 2 ^ 64)%Z.

  Let K := of_uint k.
  Let Mf := of_uint m.
  Let M := Bmult mode_NE phi K.
  Let fl := Bnearbyint mode_DN M.
  Let fr := Bminus mode_NE M fl.
  Let r := Bmult mode_NE fr Mf.

  (** [(float)k] is 0 or in [1, 2^64] *)
  Lemma K_facts :
    is_finite K = true /\ (B2R32 K = 0 \/ 1 <= B2R32 K) /\ B2R32 K <= bpow radix2 64.
  Proof.
    destruct (of_uint_correct k ltac:(lia)) as (E & F). fold K in E, F.
    split; [exact F|]. rewrite E. split.
    - destruct (Z.eq_dec k 0) as [->|Hn].
      + left. apply round_0; auto with typeclass_instances.
      + right. apply RN_ge_1. apply (IZR_le 1). lia.
    - apply RN_le_bpow_pos; [lia|]. change (bpow radix2 64) with (IZR (2 ^ 64)). apply IZR_le; lia.
  Qed.

  (** [(float)m] is in [1, 2^64] and at most m (1 + 2^-24) *)
  Lemma Mf_facts :
    is_finite Mf = true /\ 1 <= B2R32 Mf <= bpow radix2 64 /\ B2R32 Mf <= IZR m * (1 + u).
  Proof.
    destruct (of_uint_correct m ltac:(lia)) as (E & F). fold Mf in E, F.
    split; [exact F|]. rewrite E.
    assert (H1 : 1 <= IZR m) by (apply (IZR_le 1); lia).
    repeat split.
    - apply RN_ge_1; auto.
    - apply RN_le_bpow_pos; [lia|]. change (bpow radix2 64) with (IZR (2 ^ 64)). apply IZR_le; lia.
    - apply RN_rel_up. apply Rle_trans with (2 := H1).
      change 1 with (bpow radix2 0). apply bpow_le. lia.
  Qed.

  (** [M = phi * (float)k], rounded: finite, 0 or at least 1 *)
  Lemma M_facts :
    is_finite M = true /\ (B2R32 M = 0 \/ 1 <= B2R32 M) /\ B2R32 M <= bpow radix2 65.
  Proof.
    destruct K_facts as (FK & HK & HK').
    pose proof phi_bounds as Hp.
    assert (HK0 : 0 <= B2R32 K) by (destruct HK; lra).
    assert (Hprod : 0 <= B2R32 phi * B2R32 K <= bpow radix2 65).
    { split; [apply Rmult_le_pos; lra|].
      change (bpow radix2 65) with (2 * bpow radix2 64).
      apply Rmult_le_compat; lra. }
    pose proof (Bmult_correct prec emax _ _ mode_NE phi K) as H.
    change (round radix2 fexp32 (round_mode mode_NE)) with RN in H.
    rewrite Rlt_bool_true in H.
    - destruct H as (E & F & _). fold M in E, F.
      rewrite F, FK, phi_finite. split; [reflexivity|]. rewrite E. split.
      + destruct HK as [HK|HK].
        * left. rewrite HK, Rmult_0_r. apply round_0; auto with typeclass_instances.
        * right. apply RN_ge_1. rewrite <- (Rmult_1_r 1). apply Rmult_le_compat; lra.
      + apply RN_le_bpow_pos; [lia|tauto].
    - apply Rle_lt_trans with (bpow radix2 65); [|apply bpow_128_big; lia].
      apply RN_le_bpow; [lia|]. rewrite Rabs_pos_eq; tauto.
  Qed.

  (** [floorf(M)] *)
  Lemma fl_facts : is_finite fl = true /\ B2R32 fl = IZR (Zfloor (B2R32 M)).
  Proof.
    destruct M_facts as (FM & _).
    destruct (Bnearbyint_correct prec emax _ mode_DN M) as (E & F & _). fold fl in E, F.
    split; [congruence|]. rewrite E. apply round_FIX_IZR.
  Qed.

  (** [M - floorf(M)] is computed exactly and lies on the grid 2^-23 Z in [0, 1) *)
  Lemma fr_facts :
    is_finite fr = true /\
    exists z : Z, (0 <= z < 2 ^ 23)%Z /\ B2R32 fr = IZR z * bpow radix2 (-23).
  Proof.
    destruct M_facts as (FM & HM & _). destruct fl_facts as (Ffl & Efl).
    assert (fmtM : fmt (B2R32 M)) by apply generic_format_B2R.
    destruct (grid_of_fmt _ fmtM) as (zM & EzM).
    { destruct HM as [HM|HM]; [left; auto|right]. rewrite Rabs_pos_eq; lra. }
    set (n := Zfloor (B2R32 M)) in *.
    set (z := (zM - n * 2 ^ 23)%Z).
    assert (Ed : B2R32 M - B2R32 fl = IZR z * bpow radix2 (-23)).
    { rewrite Efl, EzM. unfold z. rewrite minus_IZR, mult_IZR.
      change (IZR (2 ^ 23)) with (bpow radix2 23).
      rewrite Rmult_minus_distr_r, Rmult_assoc, <- bpow_plus. simpl (23 + -23)%Z.
      simpl (bpow radix2 0). ring. }
    assert (Hd : 0 <= B2R32 M - B2R32 fl < 1).
    { rewrite Efl. unfold n. pose proof (Zfloor_lb (B2R32 M)). pose proof (Zfloor_ub (B2R32 M)).
      lra. }
    assert (Hz : (0 <= z < 2 ^ 23)%Z).
    { rewrite Ed in Hd.
      assert (Hb : IZR z = IZR z * bpow radix2 (-23) * bpow radix2 23).
      { rewrite Rmult_assoc, <- bpow_plus. simpl. ring. }
      assert (Hp : 0 < bpow radix2 23) by apply bpow_gt_0.
      split.
      - apply le_IZR. rewrite Hb. apply Rmult_le_pos; lra.
      - apply lt_IZR. rewrite Hb. change (IZR (2 ^ 23)) with (bpow radix2 23).
        rewrite <- (Rmult_1_l (bpow radix2 23)) at 2. apply Rmult_lt_compat_r; lra. }
    assert (fmtd : fmt (B2R32 M - B2R32 fl)).
    { rewrite Ed. apply fmt_grid; lia. }
    pose proof (Bminus_correct prec emax _ _ mode_NE M fl FM Ffl) as H.
    change (round radix2 fexp32 (round_mode mode_NE)) with RN in H.
    rewrite (round_generic radix2 fexp32 ZnearestE _ fmtd) in H.
    rewrite Rlt_bool_true in H.
    - destruct H as (E & F & _). fold fr in E, F. split; [exact F|].
      exists z. split; [exact Hz|]. rewrite E. exact Ed.
    - rewrite Rabs_pos_eq by tauto.
      apply Rlt_trans with (bpow radix2 0); [simpl; tauto|apply bpow_128_big; lia].
  Qed.

  (** the scaled fraction, as a real number: finite, non-negative, below m *)
  Lemma r_facts : is_finite r = true /\ 0 <= B2R32 r < IZR m.
  Proof.
    destruct fr_facts as (Ffr & z & Hz & Efr). destruct Mf_facts as (FMf & (HMf1 & HMf2) & HMf3).
    pose proof u_pos as Hu.
    assert (Hm1 : 1 <= IZR m) by (apply (IZR_le 1); lia).
    assert (Hfr : 0 <= B2R32 fr <= 1 - 2 * u).
    { rewrite Efr. split.
      - apply Rmult_le_pos; [apply IZR_le; lia|apply bpow_ge_0].
      - unfold u. replace (1 - 2 * (/ 2 * bpow radix2 (-23))) with (IZR (2 ^ 23 - 1) * bpow radix2 (-23)).
        + apply Rmult_le_compat_r; [apply bpow_ge_0|]. apply IZR_le; lia.
        + rewrite minus_IZR. change (IZR (2 ^ 23)) with (bpow radix2 23).
          rewrite Rmult_minus_distr_r, <- bpow_plus. simpl (23 + -23)%Z. simpl (bpow radix2 0). lra. }
    assert (Hprod : 0 <= B2R32 fr * B2R32 Mf <= bpow radix2 64).
    { split; [apply Rmult_le_pos; lra|]. rewrite <- (Rmult_1_l (bpow radix2 64)).
      apply Rmult_le_compat; lra. }
    pose proof (Bmult_correct prec emax _ _ mode_NE fr Mf) as H.
    change (round radix2 fexp32 (round_mode mode_NE)) with RN in H.
    rewrite Rlt_bool_true in H.
    - destruct H as (E & F & _). fold r in E, F.
      rewrite F, Ffr, FMf. split; [reflexivity|]. rewrite E. split.
      + apply RN_ge_0; tauto.
      + destruct (Z.eq_dec z 0) as [Hz0|Hz0].
        * rewrite Efr, Hz0, !Rmult_0_l, round_0 by auto with typeclass_instances. lra.
        * assert (Hlow : bpow radix2 (-23) <= B2R32 fr).
          { rewrite Efr. rewrite <- (Rmult_1_l (bpow radix2 (-23))) at 1.
            apply Rmult_le_compat_r; [apply bpow_ge_0|]. apply (IZR_le 1); lia. }
          assert (Hp : 0 < bpow radix2 (-23)) by apply bpow_gt_0.
          assert (Hx : bpow radix2 (-126) <= B2R32 fr * B2R32 Mf).
          { apply Rle_trans with (bpow radix2 (-23)); [apply bpow_le; lia|].
            rewrite <- (Rmult_1_r (bpow radix2 (-23))). apply Rmult_le_compat; lra. }
          apply Rle_lt_trans with (1 := RN_rel_up _ Hx).
          (* fr * Mf * (1+u) <= (1-2u) * m (1+u) * (1+u) < m *)
          apply Rle_lt_trans with ((1 - 2 * u) * (IZR m * (1 + u)) * (1 + u)).
          { apply Rmult_le_compat_r; [lra|]. apply Rmult_le_compat; lra. }
          replace ((1 - 2 * u) * (IZR m * (1 + u)) * (1 + u))
            with (IZR m * ((1 - 2 * u) * (1 + u) * (1 + u))) by ring.
          rewrite <- (Rmult_1_r (IZR m)) at 2. apply Rmult_lt_compat_l; [lra|].
          assert (Hsq : 0 < u * u) by (apply Rmult_lt_0_compat; lra).
          assert (Hcu : 0 < u * u * u) by (apply Rmult_lt_0_compat; lra).
          replace ((1 - 2 * u) * (1 + u) * (1 + u)) with (1 - 3 * (u * u) - 2 * (u * u * u)) by ring.
          lra.
    - apply Rle_lt_trans with (bpow radix2 64); [|apply bpow_128_big; lia].
      apply RN_le_bpow; [lia|]. rewrite Rabs_pos_eq; tauto.
  Qed.

  Lemma hash_mul_float_finite : is_finite (hash_mul_float k m) = true.
  Proof. exact (proj1 r_facts). Qed.

  Lemma hash_mul_range : (0 <= hash_mul k m < m)%Z.
  Proof.
    destruct r_facts as (_ & Hr0 & Hrm).
    unfold hash_mul. change (hash_mul_float k m) with r.
    pose proof (Btrunc_correct prec emax _ r) as H. rewrite round_FIX_IZR in H.
    split.
    - apply le_IZR. rewrite H. apply IZR_le. rewrite <- (Ztrunc_IZR 0). apply Ztrunc_le. exact Hr0.
    - apply lt_IZR. rewrite H. apply Rle_lt_trans with (2 := Hrm).
      rewrite Ztrunc_floor by exact Hr0. apply Zfloor_lb.
  Qed.

  Lemma hash_mul_checked_some : hash_mul_checked k m = Some (hash_mul k m).
  Proof.
    unfold hash_mul_checked. fold (hash_mul k m). rewrite hash_mul_float_finite.
    pose proof hash_mul_range as H.
    destruct (Z.leb_spec 0 (hash_mul k m)); [|lia].
    destruct (Z.ltb_spec (hash_mul k m) (2 ^ 64)); [|lia]. reflexivity.
  Qed.
End Range.

(** ** Division hash *)
Lemma hash_div_range (k m : N) : (1 <= m)%N -> (hash_div k m < m)%N.
Proof. intros H. unfold hash_div. apply N.mod_lt. lia. Qed.

(** ** size_t view *)
Lemma hash_mul_N_range (k m : N) :
  (k < 2 ^ 64)%N -> (1 <= m < 2 ^ 64)%N -> (hash_mul_N k m < m)%N.
Proof.
  intros Hk Hm. unfold hash_mul_N.
  assert (H : (0 <= hash_mul (Z.of_N k) (Z.of_N m) < Z.of_N m)%Z).
  { apply hash_mul_range.
    - change (2 ^ 64)%Z with (Z.of_N (2 ^ 64)). lia.
    - change (2 ^ 64)%Z with (Z.of_N (2 ^ 64)). lia. }
  lia.
Qed.

(** ** The range check in front of every bucket access *)
Lemma get_bucket_failstop (hf : N -> N -> N) (k count : N) :
  match get_bucket hf k count with
  | Some i => i = hf k count /\ (i < count)%N
  | None => (count <= hf k count)%N
  end.
Proof.
  unfold get_bucket. destruct (N.leb_spec count (hf k count)); auto.
Qed.

Lemma get_bucket_in_range (hf : N -> N -> N) (k count : N) :
  (hf k count < count)%N -> get_bucket hf k count = Some (hf k count).
Proof.
  intros H. unfold get_bucket. destruct (N.leb_spec count (hf k count)); auto. lia.
Qed.
