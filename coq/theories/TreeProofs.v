(** Proofs about the binary-tree part of TreeModel.v (C01). *)
From Cstl Require Import Prelude TreeModel.
Local Open Scope Z_scope.

(** * In-order sequence of a plugged context *)

Definition before1 (f : frame) : list elem :=
  match fd f with Lf => [] | Rt => inorder (fs f) ++ [fe f] end.
Definition after1 (f : frame) : list elem :=
  match fd f with Lf => fe f :: inorder (fs f) | Rt => [] end.
Fixpoint cbefore (c : ctx) : list elem :=
  match c with [] => [] | f :: c' => cbefore c' ++ before1 f end.
Fixpoint cafter (c : ctx) : list elem :=
  match c with [] => [] | f :: c' => after1 f ++ cafter c' end.

Ltac lnorm := cbn [inorder app]; repeat (rewrite <- app_assoc; cbn [inorder app]).

Lemma inorder_mk d k a x b :
  inorder (mk d k a x b) = match d with Lf => inorder a ++ x :: inorder b | Rt => inorder b ++ x :: inorder a end.
Proof. destruct d; reflexivity. Qed.

Lemma inorder_plug1 f t : inorder (plug1 f t) = before1 f ++ inorder t ++ after1 f.
Proof.
  unfold plug1, before1, after1. rewrite inorder_mk. destruct (fd f); lnorm; auto.
  rewrite app_nil_r; auto.
Qed.

Lemma inorder_plug c t : inorder (plug c t) = cbefore c ++ inorder t ++ cafter c.
Proof.
  revert t; induction c as [|f c IH]; intros t; cbn [plug cbefore cafter].
  - cbn. rewrite app_nil_r; auto.
  - rewrite IH, inorder_plug1. lnorm. auto.
Qed.
