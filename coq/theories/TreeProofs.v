(** Proofs about the binary-tree part of TreeModel.v (C01). *)
From Cstl Require Import Prelude TreeModel.
Local Open Scope Z_scope.

(** * In-order sequence of a plugged context *)

Definition before1 (f : frame) : list elem :=
  match fd f with Lf => [] | Rt => inorder (fs f) ++ [fe f] end.
Definition after1 (f : frame) : list elem :=
  match fd f with Lf => fe f :: inorder (fs f) | Rt => [] end.
Fixpoint cbefore (c : ctx) : list elem :=
  match c with [] => [] | f :: c' => cbefore c' ++ before1 f end.
Fixpoint cafter (c : ctx) : list elem :=
  match c with [] => [] | f :: c' => after1 f ++ cafter c' end.

Ltac lnorm := cbn [inorder app]; repeat (rewrite <- app_assoc; cbn [inorder app]).

Lemma inorder_mk d k a x b :
  inorder (mk d k a x b) = match d with Lf => inorder a ++ x :: inorder b | Rt => inorder b ++ x :: inorder a end.
Proof. destruct d; reflexivity. Qed.

Lemma inorder_plug1 f t : inorder (plug1 f t) = before1 f ++ inorder t ++ after1 f.
Proof.
  unfold plug1, before1, after1. rewrite inorder_mk. destruct (fd f); lnorm; auto.
  rewrite app_nil_r; auto.
Qed.

Lemma inorder_plug c t : inorder (plug c t) = cbefore c ++ inorder t ++ cafter c.
Proof.
  revert t; induction c as [|f c IH]; intros t; cbn [plug cbefore cafter].
  - cbn. rewrite app_nil_r; auto.
  - rewrite IH, inorder_plug1. lnorm. auto.
Qed.

Lemma cbefore_app a b : cbefore (a ++ b) = cbefore b ++ cbefore a.
Proof. induction a as [|f a IH]; cbn; [rewrite app_nil_r; auto|]. rewrite IH, app_assoc; auto. Qed.
Lemma cafter_app a b : cafter (a ++ b) = cafter a ++ cafter b.
Proof. induction a as [|f a IH]; cbn; auto. rewrite IH, app_assoc; auto. Qed.

Lemma inorder_blacken t : inorder (blacken t) = inorder t.
Proof. destruct t; reflexivity. Qed.
Lemma inorder_setcol k t : inorder (setcol k t) = inorder t.
Proof. destruct t; reflexivity. Qed.

(** * Order *)

Definition kle (a b : elem) : Prop := ekey a <= ekey b.
Definition sorted (l : list elem) : Prop := StronglySorted kle l.
(** the tree is a search tree: its in-order sequence is non-decreasing *)
Definition bst (t : tree) : Prop := sorted (inorder t).

Lemma sorted_app l1 l2 :
  sorted (l1 ++ l2) <-> sorted l1 /\ sorted l2 /\ (forall a b, In a l1 -> In b l2 -> kle a b).
Proof.
  unfold sorted. induction l1 as [|x l1 IH]; cbn.
  - split; [intros H; repeat split; auto; [constructor|tauto]|tauto].
  - split.
    + intros H. inversion H as [|? ? H1 H2]; subst. apply IH in H1. destruct H1 as (S1 & S2 & S3).
      rewrite Forall_forall in H2. repeat split; auto.
      * constructor; auto. apply Forall_forall. intros y Hy. apply H2. apply in_or_app; auto.
      * intros a b [<-|Ha] Hb; auto. apply H2. apply in_or_app; auto.
    + intros (S1 & S2 & S3). inversion S1 as [|? ? H1 H2]; subst. constructor.
      * apply IH. repeat split; auto.
      * rewrite Forall_forall in *. intros y Hy. apply in_app_or in Hy. destruct Hy; auto.
Qed.

Lemma sorted_cons x l : sorted (x :: l) <-> sorted l /\ (forall b, In b l -> kle x b).
Proof.
  unfold sorted. split.
  - intros H. inversion H; subst. rewrite Forall_forall in *. auto.
  - intros (H1 & H2). constructor; auto. apply Forall_forall; auto.
Qed.

Lemma bst_node k l x r :
  bst (T k l x r) <->
  bst l /\ bst r /\ (forall y, In y (inorder l) -> ekey y <= ekey x)
  /\ (forall y, In y (inorder r) -> ekey x <= ekey y).
Proof.
  unfold bst. cbn [inorder]. rewrite sorted_app, sorted_cons. unfold kle. split.
  - intros (Sl & (Sr & Hx) & H). repeat split; auto. intros y Hy. apply (H y x); cbn; auto.
  - intros (Sl & Sr & Hl & Hr). repeat split; auto.
    intros a b Ha [<-|Hb]; auto. specialize (Hl a Ha). specialize (Hr b Hb). lia.
Qed.

Lemma sorted_remove l1 x l2 : sorted (l1 ++ x :: l2) -> sorted (l1 ++ l2).
Proof.
  rewrite !sorted_app, sorted_cons. intros (S1 & (S2 & _) & H). repeat split; auto.
  intros a b Ha Hb. apply H; cbn; auto.
Qed.

(** * Insert *)

(** where the element goes in a non-decreasing sequence: after the last
    element that is not greater *)
Fixpoint ins_sorted (x : elem) (l : list elem) : list elem :=
  match l with
  | [] => [x]
  | y :: r => if ekey x <? ekey y then x :: y :: r else y :: ins_sorted x r
  end.

Lemma ins_sorted_split x l :
  exists l1 l2, l = l1 ++ l2 /\ ins_sorted x l = l1 ++ x :: l2 /\
                (forall a, In a l1 -> ekey a <= ekey x) /\
                (match l2 with [] => True | b :: _ => ekey x < ekey b end).
Proof.
  induction l as [|y r IH]; cbn.
  - exists [], []; cbn; repeat split; auto; tauto.
  - destruct (Z.ltb_spec (ekey x) (ekey y)).
    + exists [], (y :: r); cbn; repeat split; auto; tauto.
    + destruct IH as (l1 & l2 & -> & -> & H1 & H2). exists (y :: l1), l2; cbn; repeat split; auto.
      intros a [<-|Ha]; auto.
Qed.

Lemma ins_sorted_perm x l : Permutation (ins_sorted x l) (x :: l).
Proof.
  induction l as [|y r IH]; cbn; auto. destruct (_ <? _); auto.
  rewrite IH. apply perm_swap.
Qed.

Lemma ins_sorted_sorted x l : sorted l -> sorted (ins_sorted x l).
Proof.
  induction l as [|y r IH]; cbn; intros H.
  - repeat constructor.
  - destruct (Z.ltb_spec (ekey x) (ekey y)).
    + apply sorted_cons. split; auto. apply sorted_cons in H. destruct H as (H1 & H2).
      intros b [<-|Hb]; unfold kle in *; [lia|]. specialize (H2 b Hb). lia.
    + apply sorted_cons in H. destruct H as (H1 & H2). apply sorted_cons. split; auto.
      intros b Hb. apply (Permutation_in _ (ins_sorted_perm x r)) in Hb.
      destruct Hb as [<-|Hb]; unfold kle; auto. apply H2; auto.
Qed.

Lemma ins_sorted_left x l1 y l2 :
  ekey x < ekey y -> ins_sorted x (l1 ++ y :: l2) = ins_sorted x l1 ++ y :: l2.
Proof.
  intros H. induction l1 as [|a l1 IH]; cbn.
  - destruct (Z.ltb_spec (ekey x) (ekey y)); auto; lia.
  - destruct (_ <? _); auto. rewrite IH; auto.
Qed.

Lemma ins_sorted_right x l1 y l2 :
  ekey y <= ekey x -> (forall a, In a l1 -> ekey a <= ekey y) ->
  ins_sorted x (l1 ++ y :: l2) = l1 ++ y :: ins_sorted x l2.
Proof.
  intros H. induction l1 as [|a l1 IH]; cbn; intros Hl.
  - destruct (Z.ltb_spec (ekey x) (ekey y)); auto; lia.
  - destruct (Z.ltb_spec (ekey x) (ekey a)).
    + specialize (Hl a (or_introl eq_refl)). lia.
    + rewrite IH; auto.
Qed.

(** recursive reading of the descent of cstl_bintree_insert *)
Fixpoint ins (t : tree) (x : elem) : tree :=
  match t with
  | E => T Black E x E
  | T k l y r => if ekey x <? ekey y then T k (ins l x) y r else T k l y (ins r x)
  end.

Lemma plug_descend x t : forall c n, plug (descend x t c) n = plug c (match t with E => n | _ => plug (descend x t []) n end).
Proof.
  induction t as [|k l IHl y r IHr]; intros c n; cbn [descend]; auto.
  destruct (_ <? _).
  - rewrite IHl. rewrite (IHl [_]). destruct l; reflexivity.
  - rewrite IHr. rewrite (IHr [_]). destruct r; reflexivity.
Qed.

Lemma descend_app x t : forall c, descend x t c = descend x t [] ++ c.
Proof.
  induction t as [|k l IHl y r IHr]; intros c; cbn [descend]; auto.
  destruct (_ <? _); [rewrite IHl, (IHl [_])|rewrite IHr, (IHr [_])]; rewrite <- app_assoc; reflexivity.
Qed.

Lemma plug_app a b t : plug (a ++ b) t = plug b (plug a t).
Proof. revert t; induction a as [|f a IH]; intros t; cbn; auto. Qed.

Lemma bt_insert_ins t x : bt_insert t x = ins t x.
Proof.
  unfold bt_insert. induction t as [|k l IHl y r IHr]; cbn [descend ins]; auto.
  destruct (_ <? _).
  - rewrite descend_app, plug_app, IHl. reflexivity.
  - rewrite descend_app, plug_app, IHr. reflexivity.
Qed.

Lemma inorder_ins t x : bst t -> inorder (ins t x) = ins_sorted x (inorder t).
Proof.
  induction t as [|k l IHl y r IHr]; cbn [ins inorder]; auto.
  intros H. apply bst_node in H. destruct H as (Bl & Br & Hl & Hr).
  destruct (Z.ltb_spec (ekey x) (ekey y)); cbn [inorder].
  - rewrite ins_sorted_left, IHl; auto.
  - rewrite ins_sorted_right, IHr; auto.
Qed.

(** the in-order sequence after the descent from any context *)
Lemma inorder_descend x t c n :
  inorder (plug (descend x t c) n) =
  cbefore c ++ inorder (plug (descend x t []) n) ++ cafter c.
Proof. rewrite descend_app, plug_app, inorder_plug. reflexivity. Qed.

Theorem bt_insert_inorder t x : bst t -> inorder (bt_insert t x) = ins_sorted x (inorder t).
Proof. intros H. rewrite bt_insert_ins. apply inorder_ins; auto. Qed.

Theorem bt_insert_bst t x : bst t -> bst (bt_insert t x).
Proof. intros H. unfold bst. rewrite bt_insert_inorder; auto. apply ins_sorted_sorted; auto. Qed.

(** * Find *)

Lemma find_ctx_plug k t : forall c sub c', find_ctx k t c = (sub, c') -> plug c' sub = plug c t.
Proof.
  induction t as [|kk l IHl y r IHr]; intros c sub c'; cbn [find_ctx].
  - intros [= <- <-]; auto.
  - destruct (_ =? _); [intros [= <- <-]; auto|].
    destruct (_ <? _); intros H; [apply IHl in H|apply IHr in H]; rewrite H; reflexivity.
Qed.

Lemma find_ctx_found k t : forall c nc nl ne nr c',
  find_ctx k t c = (T nc nl ne nr, c') -> ekey ne = k /\ In ne (inorder t).
Proof.
  induction t as [|kk l IHl y r IHr]; intros c nc nl ne nr c'; cbn [find_ctx].
  - discriminate.
  - destruct (Z.eqb_spec k (ekey y)).
    + intros [= -> -> -> -> <-]. split; auto. cbn. apply in_or_app; cbn; auto.
    + destruct (_ <? _); intros Hf; [apply IHl in Hf|apply IHr in Hf]; destruct Hf as (H1 & H2);
        split; auto; cbn; apply in_or_app; cbn; auto.
Qed.

Lemma find_ctx_none k t : forall c c',
  bst t -> find_ctx k t c = (E, c') -> forall e, In e (inorder t) -> ekey e <> k.
Proof.
  induction t as [|kk l IHl y r IHr]; intros c c' B; cbn [find_ctx].
  - intros _ e [].
  - apply bst_node in B. destruct B as (Bl & Br & Hl & Hr).
    destruct (Z.eqb_spec k (ekey y)); [discriminate|].
    destruct (Z.ltb_spec k (ekey y)) as [Hlt|Hge]; intros Hf e He; cbn in He; apply in_app_or in He.
    + destruct He as [He|[<-|He]]; [eapply IHl; eauto|congruence|]. specialize (Hr e He). lia.
    + destruct He as [He|[<-|He]]; [|congruence|eapply IHr; eauto]. specialize (Hl e He). lia.
Qed.

Theorem bt_find_spec t k :
  bst t ->
  match fst (bt_find t k) with
  | Some e => In e (inorder t) /\ ekey e = k
  | None => forall e, In e (inorder t) -> ekey e <> k
  end.
Proof.
  intros B. unfold bt_find. destruct (find_ctx k t []) as [sub c] eqn:Ef. cbn [fst].
  destruct sub as [|nc nl ne nr]; cbn [root_elem].
  - eapply find_ctx_none; eauto.
  - apply find_ctx_found in Ef. tauto.
Qed.

(** * Erase *)

Lemma slide_inorder l : forall k y r c yc ye yr c1,
  slide k l y r c = (yc, ye, yr, c1) ->
  cbefore c1 = cbefore c /\ inorder (T k l y r) ++ cafter c = ye :: inorder yr ++ cafter c1.
Proof.
  induction l as [|lk ll IHl ly lr _]; intros k y r c yc ye yr c1; cbn [slide].
  - intros [= <- <- <- <-]. split; auto.
  - intros H. apply IHl in H. destruct H as (H1 & H2). cbn [cbefore cafter before1 after1 fd fe fs] in *.
    rewrite app_nil_r in H1. split; auto. rewrite <- H2. cbn [inorder]. lnorm. reflexivity.
Qed.

(** what both erase functions do to the in-order sequence: the found node's
    element disappears, nothing else moves *)
Lemma erase_zip_inorder nc nl ne nr c yf' :
  let z := erase_zip nc nl ne nr in
  (match z_y z, yf' with
   | Some f, Some f' => fd f' = fd f /\ fe f' = fe f /\ fs f' = fs f
   | None, None => True
   | _, _ => False
   end) ->
  cbefore (hole_ctx z yf' c) ++ inorder (z_x z) ++ cafter (hole_ctx z yf' c) =
  cbefore c ++ inorder nl ++ inorder nr ++ cafter c.
Proof.
  unfold erase_zip, hole_ctx. destruct nl as [|lk ll le lr].
  - cbn. destruct yf'; tauto.
  - destruct nr as [|rk rl ry rr].
    + cbn. destruct yf'; [tauto|]. intros _. lnorm. reflexivity.
    + destruct (slide rk rl ry rr []) as [[[yc ye] yr] inner] eqn:Es.
      cbn [z_inner z_y z_x]. destruct yf' as [f'|]; [|tauto]. cbn [fd fe fs].
      intros (Hd & He & Hs). apply slide_inorder in Es. destruct Es as (E1 & E2).
      cbn [cbefore cafter] in E1, E2. rewrite app_nil_r in E2.
      rewrite cbefore_app, cafter_app. cbn [cbefore cafter]. unfold before1, after1.
      rewrite Hd, He, Hs, E1, E2. rewrite app_nil_r. cbn [app]. repeat (rewrite <- app_assoc; cbn [app]). reflexivity.
Qed.

Theorem bt_erase_at_inorder nc nl ne nr c :
  inorder (bt_erase_at nc nl ne nr c) = cbefore c ++ inorder nl ++ inorder nr ++ cafter c.
Proof.
  unfold bt_erase_at. rewrite inorder_plug. apply erase_zip_inorder.
  destruct (z_y _); auto.
Qed.

Theorem bt_erase_spec t k :
  match bt_erase t k with
  | (Some e, t') => ekey e = k /\ exists l1 l2, inorder t = l1 ++ e :: l2 /\ inorder t' = l1 ++ l2
  | (None, t') => t' = t /\ (bst t -> forall e, In e (inorder t) -> ekey e <> k)
  end.
Proof.
  unfold bt_erase. destruct (find_ctx k t []) as [sub c] eqn:Ef.
  destruct sub as [|nc nl ne nr].
  - split; auto. intros B. eapply find_ctx_none; eauto.
  - split; [apply find_ctx_found in Ef; tauto|].
    apply find_ctx_plug in Ef. cbn [plug] in Ef. rewrite <- Ef, inorder_plug, bt_erase_at_inorder.
    exists (cbefore c ++ inorder nl), (inorder nr ++ cafter c). cbn [inorder]. lnorm. auto.
Qed.

(** * Traversal *)

Section ForeachProofs.
  Context {S : Type} (visit : S -> vorder -> elem -> S * Z).

  (** the visit function folded over a sequence of events, stopping at the
      first non-zero answer *)
  Fixpoint run_visits (l : list (vorder * elem)) (s : S) : S * Z :=
    match l with
    | [] => (s, 0)
    | (o, e) :: r => let '(s', res) := visit s o e in
                     if res =? 0 then run_visits r s' else (s', res)
    end.

  Lemma run_visits_single o e s : run_visits [(o, e)] s = visit s o e.
  Proof. cbn. destruct (visit s o e) as [s' res]. destruct (Z.eqb_spec res 0); subst; auto. Qed.

  Lemma when_false f sr : when false f sr = sr :> S * Z.
  Proof. unfold when. rewrite andb_false_r. reflexivity. Qed.

  Lemma when_ext b f g (sr : S * Z) : (forall s, f s = g s) -> when b f sr = when b g sr.
  Proof. intros H. unfold when. destruct (_ && _); auto. Qed.

  Lemma when_cong b f g (sr sr' : S * Z) :
    (forall s, f s = g s) -> sr = sr' -> when b f sr = when b g sr'.
  Proof. intros H ->. apply when_ext; auto. Qed.

  Lemma when_nil (sr : S * Z) : when true (run_visits []) sr = sr.
  Proof. destruct sr as [s r]. unfold when. cbn. destruct (Z.eqb_spec r 0); subst; auto. Qed.

  Lemma run_visits_app a b s : run_visits (a ++ b) s = when true (run_visits b) (run_visits a s).
  Proof.
    revert s; induction a as [|[o e] a IH]; intros s; cbn [app run_visits].
    - reflexivity.
    - destruct (visit s o e) as [s' res]. destruct (Z.eqb_spec res 0) as [->|Hn]; auto.
      unfold when. cbn. destruct (Z.eqb_spec res 0); [contradiction|reflexivity].
  Qed.

  Lemma when_child d ln f (sr : S * Z) :
    (forall s, f s = run_visits (events d ln) s) ->
    when (negb (isE ln)) f sr = when true (run_visits (events d ln)) sr.
  Proof.
    intros H. destruct ln; cbn [isE negb].
    - rewrite when_false. cbn [events]. rewrite when_nil. reflexivity.
    - apply when_ext; auto.
  Qed.

  (** the recursive function of bintree.c performs exactly the documented
      visit sequence, up to and including the first non-zero answer *)
  Theorem foreach_node_events d t : forall s, foreach_node visit d t s = run_visits (events d t) s.
  Proof.
    induction t as [|k lt IHl x rt IHr]; intros s; [reflexivity|].
    cbn [foreach_node events].
    set (ln := match d with Lf => lt | Rt => rt end).
    set (rn := match d with Lf => rt | Rt => lt end).
    assert (Hl : forall s, foreach_node visit d ln s = run_visits (events d ln) s)
      by (subst ln; destruct d; auto).
    assert (Hr : forall s, foreach_node visit d rn s = run_visits (events d rn) s)
      by (subst rn; destruct d; auto).
    clearbody ln rn. destruct (isE ln && isE rn) eqn:El.
    - apply andb_prop in El. destruct El as (E1 & E2). destruct ln, rn; try discriminate.
      cbn [isE negb]. rewrite !when_false. rewrite run_visits_single. reflexivity.
    - cbn [negb].
      replace ((PRE, x) :: events d ln ++ (MID, x) :: events d rn ++ [(POST, x)])
        with (((([(PRE, x)] ++ events d ln) ++ [(MID, x)]) ++ events d rn) ++ [(POST, x)])
        by (repeat (rewrite <- app_assoc; cbn [app]); reflexivity).
      rewrite !run_visits_app, run_visits_single.
      rewrite (when_child d ln _ _ Hl), (when_child d rn _ _ Hr).
      repeat (apply when_cong; [intros s'; rewrite ?run_visits_single; reflexivity|]).
      reflexivity.
  Qed.

  Theorem foreach_events d t s : foreach visit d t s = run_visits (events d t) s.
  Proof. destruct t; [reflexivity|]. apply foreach_node_events. Qed.

  (** stops at, and returns, the first non-zero answer; the final state is
      the one right after that visit: nothing is called afterwards *)
  Theorem run_visits_stop a o e b s s1 s2 r :
    run_visits a s = (s1, 0) -> visit s1 o e = (s2, r) -> r <> 0 ->
    run_visits (a ++ (o, e) :: b) s = (s2, r).
  Proof.
    intros Ha Hv Hr. rewrite run_visits_app, Ha. unfold when. cbn. rewrite Hv.
    destruct (Z.eqb_spec r 0); [contradiction|reflexivity].
  Qed.
End ForeachProofs.

Definition is_mid (oe : vorder * elem) : bool :=
  match fst oe with MID | LEAF => true | _ => false end.
Definition is_last (oe : vorder * elem) : bool :=
  match fst oe with POST | LEAF => true | _ => false end.
Definition mid_leaf (l : list (vorder * elem)) : list elem := map snd (filter is_mid l).
Definition post_leaf (l : list (vorder * elem)) : list elem := map snd (filter is_last l).

Lemma mid_leaf_app a b : mid_leaf (a ++ b) = mid_leaf a ++ mid_leaf b.
Proof. unfold mid_leaf. rewrite filter_app, map_app. reflexivity. Qed.
Lemma post_leaf_app a b : post_leaf (a ++ b) = post_leaf a ++ post_leaf b.
Proof. unfold post_leaf. rewrite filter_app, map_app. reflexivity. Qed.

(** the MID/LEAF visits of a forward traversal are the in-order sequence,
    those of a reverse traversal its mirror image *)
Theorem events_mid_leaf d t :
  mid_leaf (events d t) = match d with Lf => inorder t | Rt => rev (inorder t) end.
Proof.
  induction t as [|k lt IHl x rt IHr]; [destruct d; reflexivity|].
  cbn [events inorder].
  destruct d.
  - destruct (isE lt && isE rt) eqn:El.
    + apply andb_prop in El. destruct El. destruct lt, rt; try discriminate. reflexivity.
    + change ((PRE, x) :: events Lf lt ++ (MID, x) :: events Lf rt ++ [(POST, x)])
        with ([(PRE, x)] ++ events Lf lt ++ [(MID, x)] ++ events Lf rt ++ [(POST, x)]).
      rewrite !mid_leaf_app, IHl, IHr. cbn. rewrite app_nil_r. reflexivity.
  - destruct (isE rt && isE lt) eqn:El.
    + apply andb_prop in El. destruct El. destruct lt, rt; try discriminate. reflexivity.
    + change ((PRE, x) :: events Rt rt ++ (MID, x) :: events Rt lt ++ [(POST, x)])
        with ([(PRE, x)] ++ events Rt rt ++ [(MID, x)] ++ events Rt lt ++ [(POST, x)]).
      rewrite !mid_leaf_app, IHl, IHr. cbn. rewrite app_nil_r.
      rewrite rev_app_distr. cbn. rewrite <- app_assoc. reflexivity.
Qed.

Lemma events_post_leaf d t : Permutation (post_leaf (events d t)) (inorder t).
Proof.
  induction t as [|k lt IHl x rt IHr]; [reflexivity|].
  cbn [events inorder].
  destruct d.
  - destruct (isE lt && isE rt) eqn:El.
    + apply andb_prop in El. destruct El. destruct lt, rt; try discriminate. reflexivity.
    + change ((PRE, x) :: events Lf lt ++ (MID, x) :: events Lf rt ++ [(POST, x)])
        with ([(PRE, x)] ++ events Lf lt ++ [(MID, x)] ++ events Lf rt ++ [(POST, x)]).
      rewrite !post_leaf_app, IHl, IHr. cbn.
      apply Permutation_app_head. apply Permutation_sym, Permutation_cons_append.
  - destruct (isE rt && isE lt) eqn:El.
    + apply andb_prop in El. destruct El. destruct lt, rt; try discriminate. reflexivity.
    + change ((PRE, x) :: events Rt rt ++ (MID, x) :: events Rt lt ++ [(POST, x)])
        with ([(PRE, x)] ++ events Rt rt ++ [(MID, x)] ++ events Rt lt ++ [(POST, x)]).
      rewrite !post_leaf_app, IHl, IHr. cbn.
      rewrite Permutation_app_comm. rewrite <- app_assoc. reflexivity.
Qed.

Lemma events_in d t o y : In (o, y) (events d t) -> In y (inorder t).
Proof.
  induction t as [|k lt IHl x rt IHr]; [intros []|].
  cbn [events inorder]. intros H.
  assert (G : (y = x \/ In (o, y) (events d lt) \/ In (o, y) (events d rt)) -> In y (inorder lt ++ x :: inorder rt)).
  { intros [->|[H1|H1]]; apply in_or_app; cbn; auto. }
  apply G. clear G.
  destruct d; match type of H with In _ (if ?b then _ else _) => destruct b end;
    cbn in H; repeat (rewrite in_app_iff in H; cbn in H);
    intuition (try congruence; auto).
Qed.

(** ** bracketing *)
Definition ids (t : tree) : list nat := map eid (inorder t).

Definition about (e : elem) (oe : vorder * elem) : bool := Nat.eqb (eid (snd oe)) (eid e).
(** the kinds of visit received by the element with the identity of [e] *)
Definition occ (e : elem) (l : list (vorder * elem)) : list vorder := map fst (filter (about e) l).

Lemma occ_app e a b : occ e (a ++ b) = occ e a ++ occ e b.
Proof. unfold occ. rewrite filter_app, map_app. reflexivity. Qed.

Lemma filter_none {A} (f : A -> bool) l : (forall x, In x l -> f x = false) -> filter f l = [].
Proof.
  induction l as [|a l IH]; cbn; auto. intros H. rewrite (H a) by auto. apply IH. auto.
Qed.

Lemma occ_none e d t : ~ In (eid e) (ids t) -> occ e (events d t) = [].
Proof.
  intros H. unfold occ. rewrite filter_none; auto.
  intros [o y] Hy. unfold about. cbn. apply Nat.eqb_neq. intros Heq. apply H.
  unfold ids. rewrite <- Heq. apply in_map. eapply events_in; eauto.
Qed.

Lemma occ_self e o x : eid x = eid e -> occ e [(o, x)] = [o].
Proof. intros H. unfold occ, about. cbn. rewrite H, Nat.eqb_refl. reflexivity. Qed.
Lemma occ_other e o x : eid x <> eid e -> occ e [(o, x)] = [].
Proof. intros H. unfold occ, about. cbn. apply Nat.eqb_neq in H. rewrite H. reflexivity. Qed.

Lemma NoDup_app_inv {A} (l1 l2 : list A) :
  NoDup (l1 ++ l2) -> NoDup l1 /\ NoDup l2 /\ (forall a, In a l1 -> ~ In a l2).
Proof.
  induction l1 as [|x l1 IH]; cbn; intros H.
  - repeat split; auto. constructor.
  - inversion H as [|? ? Hn Hd]; subst. destruct (IH Hd) as (N1 & N2 & N3).
    repeat split; auto.
    + constructor; auto. intros Hi. apply Hn. apply in_or_app; auto.
    + intros a [<-|Ha]; auto. intros Hi. apply Hn. apply in_or_app; auto.
Qed.

Lemma ids_node k l x r : ids (T k l x r) = ids l ++ eid x :: ids r.
Proof. unfold ids. cbn. rewrite map_app. reflexivity. Qed.

(** every held element receives either exactly one LEAF visit, or exactly
    one PRE, one MID and one POST visit, in this order *)
Theorem events_bracketing d t e :
  NoDup (ids t) -> In (eid e) (ids t) ->
  occ e (events d t) = [LEAF] \/ occ e (events d t) = [PRE; MID; POST].
Proof.
  induction t as [|k lt IHl x rt IHr]; [intros _ []|].
  rewrite ids_node. intros Hnd Hin. apply NoDup_app_inv in Hnd.
  destruct Hnd as (Nl & Nr & Hlr). inversion Nr as [|? ? Hxr Nr']; subst.
  assert (Hxl : ~ In (eid x) (ids lt)) by (intros Hi; apply (Hlr _ Hi); cbn; auto).
  assert (Hdis : forall a, In a (ids lt) -> ~ In a (ids rt))
    by (intros a Ha Hb; apply (Hlr _ Ha); cbn; auto).
  cbn [events].
  set (ln := match d with Lf => lt | Rt => rt end).
  set (rn := match d with Lf => rt | Rt => lt end).
  assert (Hev : forall P : tree -> list vorder -> Prop,
             P lt (occ e (events d lt)) -> P rt (occ e (events d rt)) ->
             P ln (occ e (events d ln)) /\ P rn (occ e (events d rn)))
    by (intros P; subst ln rn; destruct d; auto).
  apply in_app_or in Hin. cbn in Hin.
  destruct Hin as [Hin|[Hin|Hin]].
  - (* e is in the left subtree *)
    assert (Ol := IHl Nl Hin).
    assert (Or : occ e (events d rt) = []) by (apply occ_none; auto).
    assert (Hx : eid x <> eid e) by (intros Heq; apply Hxl; rewrite Heq; auto).
    destruct (isE ln && isE rn) eqn:El.
    + exfalso. apply andb_prop in El. destruct El. subst ln rn.
      destruct lt; [destruct Hin|]. destruct d, rt; discriminate.
    + change ((PRE, x) :: events d ln ++ (MID, x) :: events d rn ++ [(POST, x)])
        with ([(PRE, x)] ++ events d ln ++ [(MID, x)] ++ events d rn ++ [(POST, x)]).
      rewrite !occ_app, !occ_other by auto. subst ln rn. destruct d; rewrite Or; cbn [app];
        rewrite ?app_nil_r; auto.
  - (* e is this node *)
    assert (Ol : occ e (events d lt) = []) by (apply occ_none; rewrite <- Hin; auto).
    assert (Or : occ e (events d rt) = []) by (apply occ_none; rewrite <- Hin; auto).
    destruct (isE ln && isE rn) eqn:El.
    + left. apply occ_self; auto.
    + right.
      change ((PRE, x) :: events d ln ++ (MID, x) :: events d rn ++ [(POST, x)])
        with ([(PRE, x)] ++ events d ln ++ [(MID, x)] ++ events d rn ++ [(POST, x)]).
      rewrite !occ_app, !occ_self by auto. subst ln rn. destruct d; rewrite Ol, Or; reflexivity.
  - (* e is in the right subtree *)
    assert (Or := IHr Nr' Hin).
    assert (Ol : occ e (events d lt) = []).
    { apply occ_none. intros Hi. apply (Hdis _ Hi Hin). }
    assert (Hx : eid x <> eid e) by (intros Heq; apply Hxr; rewrite Heq; auto).
    destruct (isE ln && isE rn) eqn:El.
    + exfalso. apply andb_prop in El. destruct El. subst ln rn.
      destruct rt; [destruct Hin|]. destruct d, lt; discriminate.
    + change ((PRE, x) :: events d ln ++ (MID, x) :: events d rn ++ [(POST, x)])
        with ([(PRE, x)] ++ events d ln ++ [(MID, x)] ++ events d rn ++ [(POST, x)]).
      rewrite !occ_app, !occ_other by auto. subst ln rn. destruct d; rewrite Ol; cbn [app];
        rewrite ?app_nil_r; auto.
Qed.

(** ** the visitor of the scripts *)
Lemma run_script_visit stop l : forall n log,
  (n < stop \/ stop = O)%nat ->
  run_visits (script_visit stop) l (n, log) =
  if ((stop =? O)%nat || (n + length l <? stop)%nat)%bool
  then ((n + length l)%nat, rev l ++ log, 0)
  else (stop, rev (firstn (stop - n) l) ++ log, Z.of_nat stop).
Proof.
  induction l as [|[o e] l IH]; intros n log Hn; cbn [run_visits length].
  - rewrite Nat.add_0_r. destruct (Nat.eqb_spec stop O); cbn [orb]; auto.
    destruct (Nat.ltb_spec n stop); [reflexivity|lia].
  - unfold script_visit at 1. cbn [fst snd].
    destruct (Nat.eqb_spec (S n) stop) as [Heq|Hne].
    + subst stop. cbn [Nat.eqb orb]. destruct (Z.eqb_spec (Z.of_nat (S n)) 0); [lia|].
      destruct (Nat.ltb_spec (n + S (length l)) (S n)); [lia|].
      replace (S n - n)%nat with 1%nat by lia. reflexivity.
    + cbn [Z.eqb]. rewrite IH by lia.
      replace (S n + length l)%nat with (n + S (length l))%nat by lia.
      destruct (Nat.eqb_spec stop O); cbn [orb].
      * cbn [rev]. rewrite <- app_assoc. reflexivity.
      * destruct (Nat.ltb_spec (n + S (length l)) stop).
        -- cbn [rev]. rewrite <- app_assoc. reflexivity.
        -- replace (stop - n)%nat with (S (stop - S n)) by lia. cbn [firstn rev].
           rewrite <- app_assoc. reflexivity.
Qed.

(** foreach with the script visitor: the log is the first [stop] events and
    the result is [stop], or the whole sequence and 0 *)
Theorem foreach_script d t stop :
  let evs := events d t in
  foreach (script_visit stop) d t (O, []) =
  if ((stop =? O)%nat || (length evs <? stop)%nat)%bool
  then (length evs, rev evs, 0)
  else (stop, rev (firstn stop evs), Z.of_nat stop).
Proof.
  cbn zeta. rewrite foreach_events, run_script_visit by lia. cbn [Nat.add].
  rewrite Nat.sub_0_r, !app_nil_r. reflexivity.
Qed.

(** ** clear *)
Lemma run_clear l : forall log, run_visits clear_visit l log = (rev (post_leaf l) ++ log, 0).
Proof.
  induction l as [|[o e] l IH]; intros log; [reflexivity|].
  cbn [run_visits]. unfold clear_visit at 1. cbn [Z.eqb]. rewrite IH.
  unfold post_leaf, is_last. cbn [filter fst]. destruct o; cbn [map snd rev]; auto;
    rewrite <- app_assoc; reflexivity.
Qed.

Lemma bt_clear_post_leaf t : bt_clear t = post_leaf (events Lf t).
Proof.
  unfold bt_clear. rewrite foreach_events, run_clear. cbn [fst].
  rewrite app_nil_r, rev_involutive. reflexivity.
Qed.

(** the callback of clear runs exactly once for every held element *)
Theorem clear_log_perm t : Permutation (bt_clear t) (inorder t).
Proof. rewrite bt_clear_post_leaf. apply events_post_leaf. Qed.

Theorem clear_log_nodup t : NoDup (ids t) -> NoDup (map eid (bt_clear t)).
Proof.
  intros H. eapply Permutation_NoDup; [|exact H].
  apply Permutation_sym, Permutation_map, clear_log_perm.
Qed.

(** event view: reads of a node's memory and calls of the visit function *)
Definition tev_elem (ev : tev) : elem := match ev with Rd x => x | Vis _ x => x end.
(** the visits on which __cstl_bintree_clear_visit hands the element to the
    user's callback *)
Definition is_callback (ev : tev) : bool :=
  match ev with Vis POST _ | Vis LEAF _ => true | _ => false end.

Fixpoint visits (l : list tev) : list (vorder * elem) :=
  match l with
  | [] => []
  | Rd _ :: r => visits r
  | Vis o x :: r => (o, x) :: visits r
  end.

Lemma visits_app a b : visits (a ++ b) = visits a ++ visits b.
Proof. induction a as [|[x|o x] a IH]; cbn; auto. rewrite IH; auto. Qed.

Lemma visits_tevents d t : visits (tevents d t) = events d t.
Proof.
  induction t as [|k lt IHl x rt IHr]; [reflexivity|]. cbn [tevents events].
  set (ln := match d with Lf => lt | Rt => rt end).
  set (rn := match d with Lf => rt | Rt => lt end).
  assert (Hl : visits (tevents d ln) = events d ln) by (subst ln; destruct d; auto).
  assert (Hr : visits (tevents d rn) = events d rn) by (subst rn; destruct d; auto).
  destruct (isE ln && isE rn); [reflexivity|].
  cbn [visits]. rewrite visits_app. cbn [visits]. rewrite visits_app, Hl, Hr. reflexivity.
Qed.

(** after the callback for an element nothing mentions that element *)
Fixpoint quiet_after (l : list tev) : Prop :=
  match l with
  | [] => True
  | ev :: r => (is_callback ev = true ->
                forall ev', In ev' r -> eid (tev_elem ev') <> eid (tev_elem ev))
               /\ quiet_after r
  end.

Lemma quiet_app a b :
  quiet_after (a ++ b) <->
  quiet_after a /\ quiet_after b /\
  (forall ev ev', In ev a -> is_callback ev = true -> In ev' b ->
                  eid (tev_elem ev') <> eid (tev_elem ev)).
Proof.
  induction a as [|x a IH]; cbn [app quiet_after].
  - split; [intros H; repeat split; auto; intros ? ? []|tauto].
  - rewrite IH. split.
    + intros (H1 & H2 & H3 & H4). repeat split; auto.
      * intros Hc ev' Hi. apply H1; auto. apply in_or_app; auto.
      * intros ev ev' [<-|Hi] Hc Hb; eauto. apply H1; auto. apply in_or_app; auto.
    + intros ((H1 & H2) & H3 & H4). repeat split; auto.
      * intros Hc ev' Hi. apply in_app_or in Hi. destruct Hi; eauto. apply H4; cbn; auto.
      * intros ev ev' Hi. apply H4; cbn; auto.
Qed.

Lemma tevents_in d t ev : In ev (tevents d t) -> In (tev_elem ev) (inorder t).
Proof.
  induction t as [|k lt IHl x rt IHr]; [intros []|].
  cbn [tevents inorder]. intros H.
  assert (G : (tev_elem ev = x \/ In ev (tevents d lt) \/ In ev (tevents d rt))
              -> In (tev_elem ev) (inorder lt ++ x :: inorder rt)).
  { intros [->|[H1|H1]]; apply in_or_app; cbn; auto. }
  apply G. clear G.
  destruct d; match type of H with In _ (if ?b then _ else _) => destruct b end;
    cbn in H; repeat (rewrite in_app_iff in H; cbn in H);
    intuition (subst; cbn; auto).
Qed.

Lemma tevents_ids d t ev : In ev (tevents d t) -> In (eid (tev_elem ev)) (ids t).
Proof. intros H. apply in_map. eapply tevents_in; eauto. Qed.

(** children are captured before the first visit and the callback runs on
    the node's last visit: in the event sequence of the traversal no event
    about an element follows that element's callback *)
Theorem clear_no_read_after_callback d t : NoDup (ids t) -> quiet_after (tevents d t).
Proof.
  induction t as [|k lt IHl x rt IHr]; [intros _; exact I|].
  rewrite ids_node. intros Hnd. apply NoDup_app_inv in Hnd.
  destruct Hnd as (Nl & Nr & Hlr). inversion Nr as [|? ? Hxr Nr']; subst.
  assert (Hxl : ~ In (eid x) (ids lt)) by (intros Hi; apply (Hlr _ Hi); cbn; auto).
  assert (Hdis : forall a, In a (ids lt) -> ~ In a (ids rt))
    by (intros a Ha Hb; apply (Hlr _ Ha); cbn; auto).
  cbn [tevents].
  set (ln := match d with Lf => lt | Rt => rt end).
  set (rn := match d with Lf => rt | Rt => lt end).
  assert (Ql : quiet_after (tevents d ln)) by (subst ln; destruct d; auto).
  assert (Qr : quiet_after (tevents d rn)) by (subst rn; destruct d; auto).
  assert (Xl : ~ In (eid x) (ids ln)) by (subst ln; destruct d; auto).
  assert (Xr : ~ In (eid x) (ids rn)) by (subst rn; destruct d; auto).
  assert (Dis : forall a, In a (ids ln) -> ~ In a (ids rn)).
  { subst ln rn; destruct d; auto. intros a Ha Hb. apply (Hdis a); auto. }
  clearbody ln rn.
  destruct (isE ln && isE rn).
  - cbn. split; [discriminate|]. split; auto; try (intros _ ev' []).
  - cbn [quiet_after is_callback]. split; [discriminate|]. split; [discriminate|].
    apply quiet_app. split; auto. split.
    + cbn [quiet_after is_callback]. split; [discriminate|]. apply quiet_app. split; auto. split.
      * cbn. split; auto; try (intros _ ev' []).
      * intros ev ev' Hi Hc [<-|[]]. cbn [tev_elem]. intros Heq. apply Xr. rewrite Heq.
        apply (tevents_ids _ _ _ Hi).
    + intros ev ev' Hi Hc Hj Heq. apply tevents_ids in Hi.
      destruct Hj as [<-|Hj].
      * cbn [tev_elem] in Heq. apply Xl. rewrite Heq. auto.
      * apply in_app_or in Hj. destruct Hj as [Hj|[<-|[]]].
        -- apply tevents_ids in Hj. rewrite Heq in Hj. apply (Dis _ Hi Hj).
        -- cbn [tev_elem] in Heq. apply Xl. rewrite Heq. auto.
Qed.

Corollary clear_no_read_after_callback_split d t a ev b :
  NoDup (ids t) -> tevents d t = a ++ ev :: b -> is_callback ev = true ->
  forall ev', In ev' b -> eid (tev_elem ev') <> eid (tev_elem ev).
Proof.
  intros Hn He Hc. pose proof (clear_no_read_after_callback d t Hn) as Q.
  rewrite He in Q. apply quiet_app in Q. destruct Q as (_ & Q & _). cbn in Q. apply Q; auto.
Qed.

(** * Insert with the hint reported by find *)

Definition on_path (k : Z) (f : frame) : Prop :=
  k <> ekey (fe f) /\ (fd f = Lf <-> k < ekey (fe f)).

Lemma find_ctx_path k t : forall c sub c',
  find_ctx k t c = (sub, c') ->
  exists new, c' = new ++ c /\ Forall (on_path k) new /\ (forall f, In f new -> In (fe f) (inorder t)).
Proof.
  induction t as [|kk l IHl y r IHr]; intros c sub c'; cbn [find_ctx].
  - intros [= <- <-]. exists []. repeat split; auto; try (intros f []).
  - destruct (Z.eqb_spec k (ekey y)) as [Heq|Hne].
    + intros [= <- <-]. exists []. repeat split; auto; try (intros f []).
    + destruct (Z.ltb_spec k (ekey y)) as [Hlt|Hge]; intros Hf;
        [apply IHl in Hf|apply IHr in Hf]; destruct Hf as (new & -> & Hp & Hin);
        eexists (new ++ [_]); rewrite <- app_assoc; (split; [reflexivity|]); split.
      * apply Forall_app. split; auto. constructor; [|constructor]. split; cbn; intuition.
      * intros f Hf. apply in_app_or in Hf. cbn [inorder]. apply in_or_app.
        destruct Hf as [Hf|[<-|[]]]; cbn; auto.
      * apply Forall_app. split; auto. constructor; [|constructor]. split; cbn; auto.
        split; [discriminate|lia].
      * intros f Hf. apply in_app_or in Hf. cbn [inorder]. apply in_or_app.
        destruct Hf as [Hf|[<-|[]]]; cbn; auto.
Qed.

Lemma descend_find x t : forall c sub c',
  find_ctx (ekey x) t c = (sub, c') -> descend x t c = descend x sub c'.
Proof.
  induction t as [|kk l IHl y r IHr]; intros c sub c'; cbn [find_ctx descend].
  - intros [= <- <-]. reflexivity.
  - destruct (Z.eqb_spec (ekey x) (ekey y)).
    + intros [= <- <-]. reflexivity.
    + destruct (_ <? _); auto.
Qed.

Lemma descend_up x f sub c :
  on_path (ekey x) f -> descend x (plug1 f sub) c = descend x sub (f :: c).
Proof.
  destruct f as [d k y s]. unfold on_path, plug1. cbn [fd fc fe fs]. intros (Hne & Hd).
  destruct d; cbn [mk descend].
  - destruct (Z.ltb_spec (ekey x) (ekey y)); auto. destruct Hd as (Hd & _). specialize (Hd eq_refl). lia.
  - destruct (Z.ltb_spec (ekey x) (ekey y)); auto. destruct Hd as (_ & Hd). specialize (Hd H). discriminate.
Qed.

Lemma find_ctx_stay k t c sub : find_ctx k t c = (sub, c) -> sub = t.
Proof.
  destruct t as [|kk l y r]; cbn [find_ctx]; [intros [= <-]; auto|].
  destruct (_ =? _); [intros [= <-]; auto|].
  destruct (_ <? _); intros H; apply find_ctx_path in H; destruct H as (new & H & _);
    apply (f_equal (@length _)) in H; rewrite app_length in H; cbn in H; lia.
Qed.

Lemma locate_none h t : forall c, ~ In h (ids t) -> locate h t c = None.
Proof.
  induction t as [|k l IHl y r IHr]; intros c H; [reflexivity|].
  rewrite ids_node in H. cbn [locate].
  destruct (Nat.eqb_spec (eid y) h) as [<-|Hne].
  - exfalso. apply H. apply in_or_app. cbn; auto.
  - rewrite IHl, IHr; auto; intros Hi; apply H; apply in_or_app; cbn; auto.
Qed.

Lemma locate_find k t : forall c sub f new',
  NoDup (ids t) -> find_ctx k t c = (sub, f :: new' ++ c) ->
  locate (eid (fe f)) t c = Some (plug1 f sub, new' ++ c).
Proof.
  induction t as [|kk l IHl y r IHr]; intros c sub f new' Hnd; cbn [find_ctx].
  - intros [= _ Hc]. exfalso. apply (f_equal (@length _)) in Hc. cbn in Hc.
    rewrite app_length in Hc. lia.
  - rewrite ids_node in Hnd. apply NoDup_app_inv in Hnd.
    destruct Hnd as (Nl & Nr & Hlr). inversion Nr as [|? ? Hxr Nr']; subst.
    destruct (_ =? _).
    { intros [= _ Hc]. exfalso. apply (f_equal (@length _)) in Hc. cbn in Hc.
      rewrite app_length in Hc. lia. }
    destruct (_ <? _); intros Hf.
    + pose proof (find_ctx_path _ _ _ _ _ Hf) as (new2 & Hc & _ & Hin).
      assert (Hsplit : f :: new' = new2 ++ [mkF Lf kk y r]).
      { apply (app_inv_tail c). rewrite <- app_assoc. exact Hc. }
      destruct new2 as [|f2 n2]; cbn in Hsplit.
      * injection Hsplit as -> ->. cbn [app] in *. apply find_ctx_stay in Hf. subst sub.
        cbn [locate fe]. rewrite Nat.eqb_refl. reflexivity.
      * injection Hsplit as -> ->. rewrite <- app_assoc in Hf. cbn [app] in Hf.
        specialize (IHl _ _ _ _ Nl Hf). cbn [locate].
        assert (Hi : In (eid (fe f2)) (ids l)) by (apply in_map, Hin; cbn; auto).
        destruct (Nat.eqb_spec (eid y) (eid (fe f2))) as [Heq|_].
        { exfalso. apply (Hlr _ Hi). rewrite Heq. cbn; auto. }
        rewrite IHl, <- app_assoc. reflexivity.
    + pose proof (find_ctx_path _ _ _ _ _ Hf) as (new2 & Hc & _ & Hin).
      assert (Hsplit : f :: new' = new2 ++ [mkF Rt kk y l]).
      { apply (app_inv_tail c). rewrite <- app_assoc. exact Hc. }
      destruct new2 as [|f2 n2]; cbn in Hsplit.
      * injection Hsplit as -> ->. cbn [app] in *. apply find_ctx_stay in Hf. subst sub.
        cbn [locate fe]. rewrite Nat.eqb_refl. reflexivity.
      * injection Hsplit as -> ->. rewrite <- app_assoc in Hf. cbn [app] in Hf.
        specialize (IHr _ _ _ _ Nr' Hf). cbn [locate].
        assert (Hi : In (eid (fe f2)) (ids r)) by (apply in_map, Hin; cbn; auto).
        destruct (Nat.eqb_spec (eid y) (eid (fe f2))) as [Heq|_].
        { exfalso. apply Hxr. rewrite Heq. auto. }
        rewrite locate_none.
        -- rewrite IHr, <- app_assoc. reflexivity.
        -- intros Hl. apply (Hlr _ Hl). cbn; auto.
Qed.

(** the descent started at the parent reported by find ends at the same
    link as the descent from the root *)
Theorem insert_ctx_hint t x :
  NoDup (ids t) ->
  insert_ctx (option_map eid (snd (bt_find t (ekey x)))) t x = Some (descend x t []).
Proof.
  intros Hnd. unfold bt_find. destruct (find_ctx (ekey x) t []) as [sub c'] eqn:Ef. cbn [snd].
  destruct c' as [|f new']; cbn [top_elem option_map insert_ctx]; [reflexivity|].
  pose proof (find_ctx_path _ _ _ _ _ Ef) as (new & Hc & Hp & _). rewrite app_nil_r in Hc. subst new.
  assert (Ef' : find_ctx (ekey x) t [] = (sub, f :: new' ++ [])) by (rewrite app_nil_r; auto).
  rewrite (locate_find _ _ _ _ _ _ Hnd Ef'), app_nil_r.
  inversion Hp as [|? ? Hpf _]; subst.
  rewrite descend_up by auto. rewrite (descend_find _ _ _ _ _ Ef). reflexivity.
Qed.

Theorem bt_insert_hint_eq t x :
  NoDup (ids t) ->
  bt_insert_from (option_map eid (snd (bt_find t (ekey x)))) t x = Some (bt_insert t x).
Proof. intros H. unfold bt_insert_from. rewrite insert_ctx_hint; auto. Qed.

(** erase removes the element that find returns *)
Theorem bt_erase_finds t k : fst (bt_erase t k) = fst (bt_find t k).
Proof.
  unfold bt_erase, bt_find. destruct (find_ctx k t []) as [sub c].
  destruct sub; reflexivity.
Qed.
