(** Proofs about SortModel.v (C11), part 4: every comparison / swap callback
    call of a run that returns concerns indices inside the array it was
    given (and a swap never has the same element twice).  Independent of the
    comparison contract. *)
From Cstl Require Import Prelude SortModel SortProofs.

Definition ev_ok (n : nat) (e : ev) : Prop :=
  match e with
  | ECmp i j => i < n /\ j < n
  | ESwap i j => i < n /\ j < n /\ i <> j
  | EProbe i => i < n
  | ERand _ _ => True
  end.
Definition log_ok (n : nat) (l : list ev) : Prop := Forall (ev_ok n) l.

Lemma ev_ok_mono n n' e : n <= n' -> ev_ok n e -> ev_ok n' e.
Proof. destruct e; simpl; intros; lia. Qed.
Lemma log_ok_mono n n' l : n <= n' -> log_ok n l -> log_ok n' l.
Proof. intros H F. eapply Forall_impl; [|exact F]. intros e. apply ev_ok_mono; auto. Qed.
Lemma log_ok_app n l1 l2 : log_ok n l1 -> log_ok n l2 -> log_ok n (l1 ++ l2).
Proof. intros. apply Forall_app; auto. Qed.
Lemma log_ok_shift n d l : log_ok (n - d) l -> log_ok n (map (shift d) l).
Proof.
  intros F. apply Forall_map. eapply Forall_impl; [|exact F].
  intros [i j|i j|i|c v]; simpl; lia.
Qed.
Lemma log_ok_nil n : log_ok n [].
Proof. constructor. Qed.
Lemma log_ok_cons n e l : ev_ok n e -> log_ok n l -> log_ok n (e :: l).
Proof. constructor; auto. Qed.
#[local] Hint Resolve log_ok_nil log_ok_app log_ok_cons : lg.

Ltac bind_inv H :=
  match type of H with
  | bind ?r _ = Ok _ =>
    let E := fresh "E" in destruct r eqn:E; cbn [bind] in H; [|discriminate H|discriminate H]
  end.

Section Log.
  Context {A : Type}.
  Variable cmp : A -> A -> Z.

  Lemma cmpi_ev (a : list A) i j c : cmpi cmp a i j = Ok c -> ev_ok (length a) (ECmp i j).
  Proof.
    intros H. apply (cmpi_inv cmp) in H. destruct H as (x & y & Hi & Hj & _).
    apply nth_error_lt in Hi. apply nth_error_lt in Hj. simpl. lia.
  Qed.

  Lemma swap_ev (a : list A) i j a' : swap a i j = Ok a' -> ev_ok (length a) (ESwap i j).
  Proof.
    intros H. apply swap_inv in H. destruct H as (x & y & N & Hi & Hj & _).
    apply nth_error_lt in Hi. apply nth_error_lt in Hj. simpl. lia.
  Qed.

  Lemma scan_up_log fuel : forall (a : list A) i p i1 l,
    scan_up cmp fuel a i p = Ok (i1, l) -> log_ok (length a) l.
  Proof.
    induction fuel as [|f IH]; intros a i p i1 l H; [discriminate|].
    cbn [scan_up] in H. bind_inv H. pose proof (cmpi_ev _ _ _ _ E) as Ev.
    destruct (x <? 0)%Z.
    - bind_inv H. destruct x0 as [i' l']. injection H as <- <-.
      apply log_ok_cons; auto. eapply IH; eauto.
    - injection H as <- <-. auto with lg.
  Qed.

  Lemma scan_down_log (a : list A) p : forall j j1 l,
    scan_down cmp a j p = Ok (j1, l) -> log_ok (length a) l.
  Proof.
    induction j as [|j IH]; intros j1 l H; cbn [scan_down] in H; bind_inv H;
      pose proof (cmpi_ev _ _ _ _ E) as Ev.
    - destruct (x >? 0)%Z; [discriminate|]. injection H as <- <-. auto with lg.
    - destruct (x >? 0)%Z.
      + bind_inv H. destruct x0 as [j' l']. injection H as <- <-.
        apply log_ok_cons; auto. eapply IH; eauto.
      + injection H as <- <-. auto with lg.
  Qed.

  Lemma part_loop_log fuel : forall (a : list A) i j p m a' l,
    part_loop cmp fuel a i j p = Ok (m, a', l) -> log_ok (length a) l /\ length a' = length a.
  Proof.
    induction fuel as [|f IH]; intros a i j p m a' l H; [discriminate|].
    cbn [part_loop] in H. bind_inv H. destruct x as [i1 l1].
    pose proof (scan_up_log _ _ _ _ _ _ E) as L1.
    bind_inv H. destruct x as [j1 l2].
    pose proof (scan_down_log _ _ _ _ _ E0) as L2.
    destruct (i1 <? j1).
    - bind_inv H. pose proof (swap_ev _ _ _ _ E1) as Ev. pose proof (swap_length _ _ _ _ E1) as Len.
      bind_inv H. destruct x0 as [[m' a''] l3]. injection H as <- <- <-.
      apply IH in E2. destruct E2 as (L3 & Len3). rewrite Len in *.
      split; auto with lg.
    - injection H as <- <- <-. split; auto with lg.
  Qed.

  Lemma med3_log (a : list A) a' l :
    med3 cmp a = Ok (a', l) -> log_ok (length a) l /\ length a' = length a.
  Proof.
    unfold med3. intros H. bind_inv H. pose proof (cmpi_ev _ _ _ _ E) as Ev1.
    bind_inv H. destruct x0 as [a1 l1].
    assert (S1 : log_ok (length a) l1 /\ length a1 = length a).
    { destruct (x <? 0)%Z.
      - bind_inv E0. injection E0 as <- <-.
        pose proof (swap_ev _ _ _ _ E1). pose proof (swap_length _ _ _ _ E1). auto with lg.
      - injection E0 as <- <-. auto with lg. }
    destruct S1 as (L1 & Len1).
    bind_inv H. pose proof (cmpi_ev _ _ _ _ E1) as Ev2. rewrite Len1 in Ev2.
    destruct (x0 <? 0)%Z.
    - bind_inv H. injection H as <- <-.
      pose proof (swap_ev _ _ _ _ E2) as Ev3. rewrite Len1 in Ev3.
      rewrite (swap_length _ _ _ _ E2). auto with lg.
    - bind_inv H. pose proof (cmpi_ev _ _ _ _ E2) as Ev3. rewrite Len1 in Ev3.
      destruct (x1 <? 0)%Z.
      + bind_inv H. injection H as <- <-.
        pose proof (swap_ev _ _ _ _ E3) as Ev4. rewrite Len1 in Ev4.
        rewrite (swap_length _ _ _ _ E3). auto 6 with lg.
      + injection H as <- <-. auto with lg.
  Qed.

  Lemma qsort_log fuel : forall al rnd k (a : list A) a' k' l,
    qsort cmp fuel al rnd k a = Ok (a', k', l) -> log_ok (length a) l /\ length a' = length a.
  Proof.
    induction fuel as [|f IH]; intros al rnd k a a' k' l H.
    - rewrite qsort_0 in H. destruct (1 <? length a); [discriminate|].
      injection H as <- <- <-. auto with lg.
    - rewrite qsort_unfold in H. destruct (1 <? length a).
      2:{ injection H as <- <- <-. auto with lg. }
      bind_inv H. destruct x as [[[a1 p] k1] l1].
      assert (S1 : log_ok (length a) l1 /\ length a1 = length a).
      { destruct al; cbn [pivot_sel] in E.
        - injection E as <- <- <- <-. auto with lg.
        - injection E as <- <- <- <-. split; auto. apply log_ok_cons; simpl; auto with lg.
        - bind_inv E. destruct x as [a0 l0]. injection E as <- <- <- <-. eapply med3_log; eauto.
        - injection E as <- <- <- <-. auto with lg. }
      destruct S1 as (L1 & Len1).
      destruct (negb (is_m al) || (3 <? length a)).
      2:{ injection H as <- <- <-. auto. }
      bind_inv H. destruct x as [[m a2] l2].
      unfold qsort_p in E0. apply part_loop_log in E0. destruct E0 as (L2 & Len2).
      bind_inv H. destruct x as [[lo k2] l3]. apply IH in E0. destruct E0 as (L3 & Len3).
      bind_inv H. destruct x as [[hi k3] l4]. apply IH in E0. destruct E0 as (L4 & Len4).
      injection H as <- <- <-.
      rewrite firstn_length in *. rewrite skipn_length in *. rewrite Len2, Len1 in *.
      split.
      + apply log_ok_app; auto. apply log_ok_app; auto. apply log_ok_app.
        * eapply log_ok_mono; [|exact L3]. lia.
        * apply log_ok_shift. auto.
      + rewrite app_length. lia.
  Qed.

  Lemma pick_log (a : list A) n c l : pick cmp a n = Ok (c, l) -> log_ok (length a) l.
  Proof.
    unfold pick. intros H. bind_inv H. destruct x as [c1 l1].
    assert (L1 : log_ok (length a) l1).
    { destruct (2 * n + 1 <? length a).
      - bind_inv E. injection E as <- <-. pose proof (cmpi_ev _ _ _ _ E0). auto with lg.
      - injection E as <- <-. auto with lg. }
    destruct (2 * n + 1 + 1 <? length a).
    - bind_inv H. injection H as <- <-. pose proof (cmpi_ev _ _ _ _ E0). auto with lg.
    - injection H as <- <-. auto.
  Qed.

  Lemma sift_log fuel : forall (a : list A) n a' l,
    sift cmp fuel a n = Ok (a', l) -> log_ok (length a) l /\ length a' = length a.
  Proof.
    induction fuel as [|f IH]; intros a n a' l H; [discriminate|].
    cbn [sift] in H. bind_inv H. destruct x as [c l1]. pose proof (pick_log _ _ _ _ E) as L1.
    destruct (n =? c).
    - injection H as <- <-. auto.
    - bind_inv H. pose proof (swap_ev _ _ _ _ E0) as Ev. pose proof (swap_length _ _ _ _ E0) as Len.
      bind_inv H. destruct x0 as [a'' l2]. injection H as <- <-.
      apply IH in E1. destruct E1 as (L2 & Len2). rewrite Len in *. auto with lg.
  Qed.

  Lemma heapify_log k : forall (a : list A) a' l,
    heapify cmp k a = Ok (a', l) -> log_ok (length a) l /\ length a' = length a.
  Proof.
    induction k as [|i IH]; intros a a' l H; cbn [heapify] in H.
    - injection H as <- <-. auto with lg.
    - bind_inv H. destruct x as [a1 l1]. apply sift_log in E. destruct E as (L1 & Len1).
      bind_inv H. destruct x as [a2 l2]. apply IH in E. destruct E as (L2 & Len2).
      injection H as <- <-. rewrite Len1 in *. auto with lg.
  Qed.

  Lemma extract_log i : forall (a : list A) a' l,
    extract cmp i a = Ok (a', l) -> log_ok (length a) l /\ length a' = length a.
  Proof.
    induction i as [|i IH]; intros a a' l H; cbn [extract] in H.
    - injection H as <- <-. auto with lg.
    - bind_inv H. pose proof (swap_ev _ _ _ _ E) as Ev. pose proof (swap_length _ _ _ _ E) as Len.
      bind_inv H. destruct x0 as [h l1]. apply sift_log in E0. destruct E0 as (L1 & Len1).
      bind_inv H. destruct x0 as [a2 l2]. apply IH in E0. destruct E0 as (L2 & Len2).
      injection H as <- <-.
      rewrite app_length, skipn_length, Len1, firstn_length in *. rewrite Len in *.
      assert (S i < length a) by (simpl in Ev; lia).
      replace (Nat.min (S i) (length a) + (length a - S i)) with (length a) in * by lia.
      split; auto.
      apply log_ok_cons; auto. apply log_ok_app; auto.
      eapply log_ok_mono; [|exact L1]. lia.
  Qed.

  Lemma hsort_log (a : list A) a' l :
    hsort cmp a = Ok (a', l) -> log_ok (length a) l /\ length a' = length a.
  Proof.
    unfold hsort. intros H. destruct (1 <? length a).
    - bind_inv H. destruct x as [a1 l1]. apply heapify_log in E. destruct E as (L1 & Len1).
      bind_inv H. destruct x as [a2 l2]. apply extract_log in E. destruct E as (L2 & Len2).
      injection H as <- <-. rewrite Len1 in *. auto with lg.
    - injection H as <- <-. auto with lg.
  Qed.

  (** cstl_raw_array_sort, any selector *)
  Theorem sort_log sel extra rnd (a : list A) a' l :
    sort cmp sel extra rnd a = Ok (a', l) -> log_ok (length a) l /\ length a' = length a.
  Proof.
    unfold sort, sort_alg. intros H.
    destruct (decode sel); try (apply hsort_log; assumption);
      (bind_inv H; destruct x as [[a1 k1] l1]; injection H as <- <-; eapply qsort_log; eauto).
  Qed.

  Lemma search_loop_log bits mid ex fuel : forall (a : list A) i j r l,
    search_loop cmp bits mid ex fuel a i j = Ok (r, l) -> log_ok (length a) l.
  Proof.
    induction fuel as [|f IH]; intros a i j r l H; cbn [search_loop] in H.
    - destruct (i <=? j)%Z; [discriminate|]. injection H as <- <-. auto with lg.
    - destruct (i <=? j)%Z.
      2:{ injection H as <- <-. auto with lg. }
      bind_inv H. bind_inv H. destruct (nth_error a x0) as [y|] eqn:Hy; [|discriminate].
      apply nth_error_lt in Hy.
      destruct (cmp ex y =? 0)%Z.
      + injection H as <- <-. apply log_ok_cons; simpl; auto with lg.
      + destruct (cmp ex y <? 0)%Z; bind_inv H; bind_inv H; destruct x2 as [r' l'];
          injection H as <- <-; (apply log_ok_cons; [simpl; auto|eapply IH; eauto]).
  Qed.

  Theorem search_log ex (a : list A) r l : search cmp ex a = Ok (r, l) -> log_ok (length a) l.
  Proof. apply search_loop_log. Qed.

  Lemma find_from_log ex (l : list A) : forall i, log_ok (i + length l) (snd (find_from cmp ex l i)).
  Proof.
    induction l as [|x r IH]; intros i; cbn [find_from]; [apply log_ok_nil|].
    destruct (cmp ex x =? 0)%Z; cbn [snd length].
    - apply log_ok_cons; simpl; auto with lg. lia.
    - specialize (IH (S i)). destruct (find_from cmp ex r (S i)) as [z lg]. cbn [snd] in *.
      apply log_ok_cons; [simpl; lia|]. replace (i + S (length r)) with (S i + length r) by lia. auto.
  Qed.

  Theorem find_log ex (a : list A) : log_ok (length a) (snd (find cmp ex a)).
  Proof. apply (find_from_log ex a 0). Qed.

  Lemma rev_loop_log bits fuel : forall (a : list A) i j a' l,
    rev_loop bits fuel a i j = Ok (a', l) -> log_ok (length a) l /\ length a' = length a.
  Proof.
    induction fuel as [|f IH]; intros a i j a' l H; cbn [rev_loop] in H.
    - destruct (i <? j)%Z; [discriminate|]. injection H as <- <-. auto with lg.
    - destruct (i <? j)%Z.
      2:{ injection H as <- <-. auto with lg. }
      bind_inv H. bind_inv H. bind_inv H.
      pose proof (swap_ev _ _ _ _ E1) as Ev. pose proof (swap_length _ _ _ _ E1) as Len.
      bind_inv H. bind_inv H. bind_inv H. destruct x4 as [a'' l'']. injection H as <- <-.
      apply IH in E4. destruct E4 as (L & Len'). rewrite Len in *. auto with lg.
  Qed.

  Theorem reverse_log (a : list A) a' l : reverse a = Ok (a', l) -> log_ok (length a) l.
  Proof. intros H. apply rev_loop_log in H. tauto. Qed.
End Log.
