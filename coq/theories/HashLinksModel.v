(** Pointer-level executable model of src/hash.c (C03, C04, C19: the chains).

    HashModel.v keeps every bucket's chain as a Coq list.  Here a bucket is
    what it is in C -- a head pointer [hd : option nat] ([None] = NULL) and
    the clean bit -- and the [next] field of every node lives in one node
    memory shared by all tables of the system (a binary trie over
    [positive], so the extracted runner is fast; the proofs use only the two
    get/set laws).  A memory cell is [CNext n] (the node's [next] field holds
    [n]) or [CFreed] (the element was released by the visit function of a
    foreach / by the clear callback: the driver poisons and frees it); a cell
    that was never written holds an indeterminate pointer.  Reading the
    [next] field of a freed or never-linked node is [RFault].

    Every C statement that writes a link is one update, in source order, and
    every statement reads the memory left by the previous one.  Everything
    that is not about links -- the range check of [__cstl_hash_get_bucket]
    ([RAbort]), the hash-call log, the allocator events (AllocModel.v), the
    work log, all scalar fields of [struct cstl_hash] -- is as in HashModel.v
    (repaired code, [vers] = [fixed]), so that [lexec] produces the outputs
    and the work log of [HashModel.exec] on every script (proved in
    HashLinksSim.v, checked on every run by the runner component [hashl]).

    Loops over a chain are bounded by [fuel] = the size field + 1 (at least
    the length of every chain in a reachable state); running out of fuel is
    reported as [RFault] (the C code would loop forever: the chain is
    cyclic).  No proofs here: HashLinksProofs.v, HashLinksOps.v,
    HashLinksWalk.v, HashLinksSim.v. *)
From Cstl Require Import Prelude AllocModel HashModel.
Local Open Scope N_scope.

(** * Memory: a binary trie over positive addresses *)
Inductive ctrie (A : Type) : Type :=
| CLeaf
| CNode (l : ctrie A) (v : option A) (r : ctrie A).
Arguments CLeaf {A}.
Arguments CNode {A} l v r.

Fixpoint cget {A} (m : ctrie A) (p : positive) : option A :=
  match m with
  | CLeaf => None
  | CNode l v r =>
    match p with
    | xH => v
    | xO q => cget l q
    | xI q => cget r q
    end
  end.

Fixpoint cset {A} (m : ctrie A) (p : positive) (x : A) : ctrie A :=
  match p with
  | xH => match m with CLeaf => CNode CLeaf (Some x) CLeaf | CNode l _ r => CNode l (Some x) r end
  | xO q => match m with
            | CLeaf => CNode (cset CLeaf q x) None CLeaf
            | CNode l v r => CNode (cset l q x) v r
            end
  | xI q => match m with
            | CLeaf => CNode CLeaf None (cset CLeaf q x)
            | CNode l v r => CNode l v (cset r q x)
            end
  end.

Inductive cell :=
| CNext (n : option nat)    (* the [next] field; None = NULL *)
| CFreed.                   (* the element has been poisoned and freed *)

Definition mem := ctrie cell.

Definition cell_of (m : mem) (e : nat) : option cell := cget m (Pos.of_succ_nat e).

(** [e->next]; [None] = the read is undefined behaviour *)
Definition rd (m : mem) (e : nat) : option (option nat) :=
  match cell_of m e with
  | Some (CNext n) => Some n
  | _ => None
  end.
(** [e->next = v] *)
Definition wr (m : mem) (e : nat) (v : option nat) : mem := cset m (Pos.of_succ_nat e) (CNext v).
(** [memset(e, 0xA5, ..); free(e)] *)
Definition release (m : mem) (e : nat) : mem := cset m (Pos.of_succ_nat e) CFreed.

(** * Tables *)
Record lbucket := mkLB { hd : option nat; lbit : bool }.

Record ltable := mkLT {
  l_at : option nat;        (* bucket.at: allocator block, None = NULL *)
  lbks : list lbucket;      (* contents of that block *)
  l_bcount : N;             (* bucket.count *)
  l_cap : N;                (* bucket.capacity *)
  l_hash : option fn_id;    (* bucket.hash *)
  l_cst : bool;             (* bucket.cst *)
  l_rcount : N;             (* bucket.rh.count *)
  l_rclean : N;             (* bucket.rh.clean *)
  l_rhash : option fn_id;   (* bucket.rh.hash *)
  l_size : N                (* count *)
}.

Definition lt_init : ltable := mkLT None [] 0 0 None false 0 0 None 0.

Definition set_lbks (t : ltable) (b : list lbucket) : ltable :=
  mkLT (l_at t) b (l_bcount t) (l_cap t) (l_hash t) (l_cst t) (l_rcount t) (l_rclean t) (l_rhash t) (l_size t).
Definition set_lrclean (t : ltable) (c : N) : ltable :=
  mkLT (l_at t) (lbks t) (l_bcount t) (l_cap t) (l_hash t) (l_cst t) (l_rcount t) c (l_rhash t) (l_size t).
Definition set_lsize (t : ltable) (n : N) : ltable :=
  mkLT (l_at t) (lbks t) (l_bcount t) (l_cap t) (l_hash t) (l_cst t) (l_rcount t) (l_rclean t) (l_rhash t) n.

(** the scalar fields as a [HashModel.table] without buckets: the functions
    of HashModel.v that look at scalar fields only ([walk_bound],
    [tgt_count], [tgt_hash], [changed], [load]) are used through it *)
Definition skel (t : ltable) : table :=
  mkT (l_at t) [] (l_bcount t) (l_cap t) (l_hash t) (l_cst t) (l_rcount t) (l_rclean t) (l_rhash t) (l_size t).

(** bound of every loop over one chain *)
Definition lfuel (t : ltable) : nat := S (N.to_nat (l_size t)).

(** element handed back by realloc when the array grows (as [HashModel.junk]) *)
Definition ljunk : lbucket := mkLB None false.
Definition lresize_list (l : list lbucket) (n : nat) : list lbucket :=
  firstn n l ++ repeat ljunk (n - length l).

(** the chain that starts at [cur], as far as [fuel] reaches: [None] if a
    freed / never linked node is met or the walk does not end *)
Fixpoint l_chain (fuel : nat) (m : mem) (cur : option nat) : option (list nat) :=
  match cur with
  | None => Some []
  | Some e =>
    match fuel with
    | O => None
    | S fu =>
      match rd m e with
      | None => None
      | Some nn => option_map (cons e) (l_chain fu m nn)
      end
    end
  end.

(** where the pointer-to-pointer [hep.n] of cstl_hash_erase points: at the
    head field [bk->n] of the bucket, or at the [next] field of node [a] *)
Inductive slot := SHead | SNext (a : nat).

(** [*pp] when the bucket's head field holds [h] *)
Definition slot_get (m : mem) (h : option nat) (pp : slot) : option (option nat) :=
  match pp with
  | SHead => Some h
  | SNext a => rd m a
  end.
(** [*pp = v]: the new memory and the new head field *)
Definition slot_set (m : mem) (h : option nat) (pp : slot) (v : option nat) : mem * option nat :=
  match pp with
  | SHead => (m, v)
  | SNext a => (wr m a v, h)
  end.

(** which visit function __cstl_hash_foreach is driven with: the logging
    visitor of the driver, the library's manual_clear idiom (erase the
    visited element, then free it), cstl_hash_clear_visit with the driver's
    clear callback (free the element) *)
Inductive vkind := VPlain | VErase | VClear.

Section LModel.
  Variable hf : fn_id -> N -> N -> option N.
  Variable key : nat -> N.

  Notation bucket_raw := (bucket_raw hf).

  (** loop of cstl_clean_bucket over the detached chain:
      [HASH_LIST_FOREACH(n, n, nn) { _bk = get_bucket(..); HASH_LIST_INSERT(_bk->n, n); }] *)
  Fixpoint l_reinsert (fuel : nat) (m : mem) (cur : option nat) (f : option fn_id) (cnt : N)
           (bs : list lbucket) : res (mem * list lbucket) :=
    match cur with
    | None => Ok (m, bs) []
    | Some n =>
      match fuel with
      | O => RFault
      | S fu =>
        match rd m n with                                        (* nn = n->next *)
        | None => RFault
        | Some nn =>
          j <- bucket_raw f (key n) cnt ;;
          match nth_error bs j with
          | None => RFault
          | Some b =>
            let m1 := wr m n (hd b) in                           (* n->next = _bk->n *)
            let bs1 := upd bs j (mkLB (Some n) (lbit b)) in      (* _bk->n = n *)
            l_reinsert fu m1 nn f cnt bs1
          end
        end
      end
    end.

  (** cstl_clean_bucket(h, &h->bucket.at[i]) *)
  Definition l_clean_bucket (m : mem) (t : ltable) (i : nat) : res (mem * ltable) :=
    match nth_error (lbks t) i with
    | None => RFault
    | Some b =>
      if Bool.eqb (l_cst t) (lbit b) then Ok (m, t) []
      else
        (* n = bk->n; bk->n = NULL *)
        p <- l_reinsert (lfuel t) m (hd b) (l_rhash t) (l_rcount t) (upd (lbks t) i (mkLB None (lbit b))) ;;
        let '(m1, bs) := p in
        match nth_error bs i with
        | None => RFault
        | Some b' => Ok (m1, set_lbks t (upd bs i (mkLB (hd b') (l_cst t)))) [EvClean i]   (* bk->cst = h->bucket.cst *)
        end
    end.

  (** first loop of __cstl_hash_rehash (no link is read or written) *)
  Fixpoint l_skip_clean (fuel : nat) (t : ltable) : res ltable :=
    match fuel with
    | O => Ok t []
    | S fu =>
      if l_rclean t <? l_bcount t then
        match nth_error (lbks t) (N.to_nat (l_rclean t)) with
        | None => RFault
        | Some b =>
          if Bool.eqb (lbit b) (l_cst t) then l_skip_clean fu (set_lrclean t (l_rclean t + 1))
          else Ok t []
        end
      else Ok t []
    end.

  (** second loop: clean up to [n] buckets *)
  Fixpoint l_sweep (fuel : nat) (n : N) (m : mem) (t : ltable) : res (mem * ltable) :=
    match fuel with
    | O => Ok (m, t) []
    | S fu =>
      if (l_rclean t <? l_bcount t) && (0 <? n) then
        p <- l_clean_bucket m t (N.to_nat (l_rclean t)) ;;
        let '(m1, t1) := p in
        l_sweep fu (n - 1) m1 (set_lrclean t1 (l_rclean t1 + 1))
      else Ok (m, t) []
    end.

  (** end of __cstl_hash_rehash: adopt the pending geometry *)
  Definition l_finish (t : ltable) : ltable :=
    if l_bcount t <=? l_rclean t then
      mkLT (l_at t) (lbks t) (l_rcount t) (l_cap t) (l_rhash t) (l_cst t) (l_rcount t) (l_rclean t) None (l_size t)
    else t.

  (** __cstl_hash_rehash(h, n) *)
  Definition l_rehash_n (m : mem) (t : ltable) (n : N) : res (mem * ltable) :=
    t1 <- l_skip_clean (N.to_nat (l_bcount t - l_rclean t)) t ;;
    p <- l_sweep (N.to_nat (l_bcount t1 - l_rclean t1)) n m t1 ;;
    let '(m2, t2) := p in
    Ok (m2, l_finish t2) [].

  (** cstl_hash_rehash *)
  Definition l_rehash (m : mem) (t : ltable) : res (mem * ltable) :=
    match l_rhash t with
    | Some _ => l_rehash_n m t SIZE_MAX
    | None => Ok (m, t) []
    end.

  (** cstl_hash_get_bucket *)
  Definition l_get_bucket (m : mem) (t : ltable) (k : N) : res (mem * ltable * nat) :=
    i <- bucket_raw (l_hash t) k (l_bcount t) ;;
    match l_rhash t with
    | None => Ok (m, t, i) []
    | Some _ =>
      j <- bucket_raw (l_rhash t) k (l_rcount t) ;;
      p1 <- l_clean_bucket m t i ;;
      let '(m1, t1) := p1 in
      p2 <- l_clean_bucket m1 t1 j ;;
      let '(m2, t2) := p2 in
      p3 <- l_rehash_n m2 t2 1 ;;
      let '(m3, t3) := p3 in
      Ok (m3, t3, j) []
    end.

  (** cstl_hash_insert: [HASH_LIST_INSERT(bk->n, hn); h->count++] *)
  Definition l_insert (m : mem) (t : ltable) (e : nat) : res (mem * ltable) :=
    p <- l_get_bucket m t (key e) ;;
    let '(m1, t1, j) := p in
    match nth_error (lbks t1) j with
    | None => RFault
    | Some b =>
      let m2 := wr m1 e (hd b) in                                            (* hn->next = bk->n *)
      let t2 := set_lbks t1 (upd (lbks t1) j (mkLB (Some e) (lbit b))) in    (* bk->n = hn *)
      Ok (m2, set_lsize t2 (l_size t1 + 1)) []
    end.

  (** cstl_hash_bucket_foreach with cstl_hash_find_visit ([vis] as in
      [HashModel.find_chain]): the successor is read before the visit.
      [None] = undefined behaviour. *)
  Fixpoint l_find_chain (fuel : nat) (m : mem) (k : N) (vis : option (list nat)) (cur : option nat)
    : option (list nat * option nat) :=
    match cur with
    | None => Some ([], None)
    | Some e =>
      match fuel with
      | O => None
      | S fu =>
        match rd m e with                                        (* nn = n->next *)
        | None => None
        | Some nn =>
          if key e =? k then
            match vis with
            | None => Some ([], Some e)
            | Some acc =>
              if existsb (Nat.eqb e) acc then Some ([e], Some e)
              else match l_find_chain fu m k vis nn with
                   | Some (o, x) => Some (e :: o, x)
                   | None => None
                   end
            end
          else l_find_chain fu m k vis nn
        end
      end
    end.

  (** cstl_hash_find *)
  Definition l_find (m : mem) (t : ltable) (k : N) (vis : option (list nat)) : res (mem * ltable * option nat) :=
    p <- l_get_bucket m t k ;;
    let '(m1, t1, j) := p in
    match nth_error (lbks t1) j with
    | None => RFault
    | Some b =>
      match l_find_chain (lfuel t1) m1 k vis (hd b) with
      | None => RFault
      | Some (o, x) => Ok (m1, t1, x) (map EvOffer o)
      end
    end.

  (** cstl_hash_bucket_foreach with cstl_hash_erase_visit: [h] is the value
      of [bk->n], [cur] the loop variable NEXT of HASH_LIST_FOREACH, [pp] the
      pointer-to-pointer [hep->n].  [None] = undefined behaviour, [Some None]
      = the walk reached NULL (foreach returned 0), [Some (Some pp)] = the
      visit function returned 1 with [hep->n = pp]. *)
  Fixpoint l_erase_walk (fuel : nat) (m : mem) (h : option nat) (e : nat) (cur : option nat) (pp : slot)
    : option (option slot) :=
    match cur with
    | None => Some None
    | Some n =>
      match fuel with
      | O => None
      | S fu =>
        match rd m n with                                        (* nn = n->next *)
        | None => None
        | Some nn =>
          if Nat.eqb n e then Some (Some pp)                     (* hep->e == e: return 1 *)
          else
            match slot_get m h pp with                           (* hep->n = &( *hep->n)->next *)
            | Some (Some a) => l_erase_walk fu m h e nn (SNext a)
            | _ => None
            end
        end
      end
    end.

  (** cstl_hash_erase *)
  Definition l_erase (m : mem) (t : ltable) (e : nat) : res (mem * ltable) :=
    p <- l_get_bucket m t (key e) ;;
    let '(m1, t1, j) := p in
    match nth_error (lbks t1) j with
    | None => RFault
    | Some b =>
      match l_erase_walk (lfuel t1) m1 (hd b) e (hd b) SHead with   (* hep.n = &bk->n *)
      | None => RFault
      | Some None => Ok (m1, t1) []
      | Some (Some pp) =>
        (* *hep.n = ( *hep.n)->next; h->count--;  the erased node's own
           [next] field is left as it is *)
        match slot_get m1 (hd b) pp with
        | Some (Some a) =>
          match rd m1 a with
          | Some nx =>
            let '(m2, h2) := slot_set m1 (hd b) pp nx in
            Ok (m2, set_lsize (set_lbks t1 (upd (lbks t1) j (mkLB h2 (lbit b)))) (dec64 (l_size t1))) []
          | None => RFault
          end
        | _ => RFault
        end
      end
    end.

  (** one call of the visit function on [e] *)
  Definition l_visit (vk : vkind) (m : mem) (t : ltable) (e : nat) : res (mem * ltable) :=
    match vk with
    | VPlain => Ok (m, t) [EvVisit e]
    | VErase =>
      bind (Ok tt [EvVisit e]) (fun _ =>
        p <- l_erase m t e ;;                                    (* cstl_hash_erase(cur, e) *)
        let '(m1, t1) := p in
        Ok (release m1 e, t1) [])                                (* release(e) *)
    | VClear => Ok (release m e, t) [EvClear e]
    end.

  (** cstl_hash_bucket_foreach: [k] = calls of the visit function made so
      far; it answers non-zero at its [stop]-th call (0: never).  Returns
      the new state, the call count and whether the walk was stopped. *)
  Fixpoint l_chain_walk (fuel : nat) (vk : vkind) (stop : nat) (m : mem) (t : ltable) (k : nat)
           (cur : option nat) : res (mem * ltable * nat * bool) :=
    match cur with
    | None => Ok (m, t, k, false) []
    | Some n =>
      match fuel with
      | O => RFault
      | S fu =>
        match rd m n with                                        (* nn = n->next, before the visit *)
        | None => RFault
        | Some nn =>
          p <- bind (Ok tt [EvNext n]) (fun _ => l_visit vk m t n) ;;
          let '(m1, t1) := p in
          if Nat.ltb 0 stop && Nat.eqb (S k) stop then Ok (m1, t1, S k, true) []
          else l_chain_walk fu vk stop m1 t1 (S k) nn
        end
      end
    end.

  (** loop of __cstl_hash_foreach from bucket [i], [nb] buckets to go *)
  Fixpoint l_buckets_walk (nb i : nat) (vk : vkind) (stop : nat) (m : mem) (t : ltable) (k : nat)
    : res (mem * ltable * nat * bool) :=
    match nb with
    | O => Ok (m, t, k, false) []
    | S nb' =>
      match nth_error (lbks t) i with
      | None => RFault
      | Some b =>
        p <- l_chain_walk (lfuel t) vk stop m t k (hd b) ;;
        let '(m1, t1, k1, stopped) := p in
        if stopped then Ok (m1, t1, k1, true) []
        else l_buckets_walk nb' (S i) vk stop m1 t1 k1
      end
    end.

  (** __cstl_hash_foreach: the bucket count is read once, before the loop *)
  Definition l_foreach_raw (vk : vkind) (stop : nat) (m : mem) (t : ltable) : res (mem * ltable * nat * bool) :=
    l_buckets_walk (N.to_nat (walk_bound fixed (skel t))) 0 vk stop m t 0.

  Definition stop_result (stop : nat) (stopped : bool) : Z := if stopped then Z.of_nat stop else 0%Z.

  (** cstl_hash_foreach *)
  Definition l_foreach (m : mem) (t : ltable) (er : bool) (stop : nat) : res (mem * ltable * Z) :=
    p <- l_rehash m t ;;
    let '(m1, t1) := p in
    q <- l_foreach_raw (if er then VErase else VPlain) stop m1 t1 ;;
    let '(m2, t2, _, stopped) := q in
    Ok (m2, t2, stop_result stop stopped) [].

  (** cstl_hash_foreach_const *)
  Definition l_foreach_const (m : mem) (t : ltable) (stop : nat) : res (mem * ltable * Z) :=
    q <- l_foreach_raw VPlain stop m t ;;
    let '(m2, t2, _, stopped) := q in
    Ok (m2, t2, stop_result stop stopped) [].

  Definition l_cleared (t : ltable) : ltable :=
    mkLT None [] 0 0 None (l_cst t) (l_rcount t) (l_rclean t) None 0.

  Section LAlloc.
    Variable ok : nat -> N -> bool.

    (** cstl_hash_clear *)
    Definition l_clear (m : mem) (t : ltable) (a : alloc) (cb : bool) : res (mem * ltable * alloc) :=
      m1 <- (if cb then
               q <- l_foreach_raw VClear 0 m t ;;
               let '(m1, _, _, _) := q in Ok m1 []
             else Ok m []) ;;
      Ok (m1, l_cleared t, free a (l_at t)) [].

    (** __cstl_hash_set_capacity *)
    Definition l_set_capacity (t : ltable) (a : alloc) (sz : N) : ltable * alloc :=
      let '(a', r) := realloc ok a (l_at t) (BUCKET_BYTES * sz) in
      match r with
      | Some b =>
        (mkLT (Some b) (lresize_list (lbks t) (N.to_nat sz)) (l_bcount t) sz (l_hash t) (l_cst t)
              (l_rcount t) (l_rclean t) (l_rhash t) (l_size t), a')
      | None => (t, a')
      end.

    (** loop "for (i = h->bucket.count; i < count; i++)" of cstl_hash_resize:
        [at[i].n = NULL; at[i].cst = h->bucket.cst] *)
    Fixpoint l_init_loop (fuel i : nat) (c : bool) (bs : list lbucket) : option (list lbucket) :=
      match fuel with
      | O => Some bs
      | S fu => if Nat.ltb i (length bs) then l_init_loop fu (S i) c (upd bs i (mkLB None c)) else None
      end.

    (** cstl_hash_resize *)
    Definition l_resize (m : mem) (t : ltable) (a : alloc) (n : N) (f : option fn_id)
      : res (mem * ltable * alloc) :=
      if 0 <? n then
        let '(t1, a1) := if l_cap t <? n then l_set_capacity t a n else (t, a) in
        let cc := tgt_count (skel t1) in
        let ch := tgt_hash (skel t1) in
        if is_some (l_at t1) && (n <=? l_cap t1)
           && (negb (n =? cc) || (is_some f && negb (fopt_eqb f ch))) then
          p <- l_rehash m t1 ;;
          let '(m2, t2) := p in
          let c := negb (l_cst t2) in
          match l_init_loop (N.to_nat n - N.to_nat (l_bcount t2)) (N.to_nat (l_bcount t2)) c (lbks t2) with
          | None => RFault
          | Some bs =>
            let rh := match f with
                      | Some g => Some g
                      | None => match l_hash t2 with Some g => Some g | None => Some FN_MUL end
                      end in
            match l_hash t2 with
            | None =>   (* first resize *)
              Ok (m2, mkLT (l_at t2) bs n (l_cap t2) rh c n 0 None (l_size t2), a1) []
            | Some _ =>
              Ok (m2, mkLT (l_at t2) bs (l_bcount t2) (l_cap t2) (l_hash t2) c n 0 rh (l_size t2), a1) []
            end
          end
        else Ok (m, t1, a1) []
      else Ok (m, t, a) [].

    (** cstl_hash_shrink_to_fit *)
    Definition l_shrink_to_fit (m : mem) (t : ltable) (a : alloc) : res (mem * ltable * alloc) :=
      if tgt_count (skel t) <? l_cap t then
        p <- l_rehash m t ;;
        let '(m1, t1) := p in
        let '(t2, a2) := l_set_capacity t1 a (l_bcount t1) in
        Ok (m1, t2, a2) []
      else Ok (m, t, a) [].
  End LAlloc.
End LModel.

(** * The scripted system: tables, one node memory, one allocator *)
Record lsys := mkLSys { ltabs : list ltable; lmem : mem; lal : alloc }.

Definition lsys_init (n : nat) : lsys := mkLSys (repeat lt_init n) CLeaf alloc_init.

(** is [e] among the first [fuel] nodes of the chain starting at [cur]? *)
Fixpoint l_reach (fuel : nat) (m : mem) (e : nat) (cur : option nat) : bool :=
  match cur, fuel with
  | Some a, S fu =>
    Nat.eqb e a || match rd m a with Some nn => l_reach fu m e nn | None => false end
  | _, _ => false
  end.

Definition l_linked (m : mem) (t : ltable) (e : nat) : bool :=
  existsb (fun b => l_reach (lfuel t) m e (hd b)) (lbks t).

(** an element is linked iff some chain of some table reaches it *)
Definition l_in_any (s : lsys) (e : nat) : bool :=
  existsb (fun t => l_linked (lmem s) t e) (ltabs s).

Inductive lxres :=
| LDone (s : lsys) (r : list Z) (w : list ev)
| LAbort
| LFault
| LPrecond.

Section LStep.
  Variable hf : fn_id -> N -> N -> option N.
  Variable key : nat -> N.
  Variable ok : nat -> N -> bool.

  Definition lwith_tab (s : lsys) (i : nat) (f : ltable -> lxres) : lxres :=
    match nth_error (ltabs s) i with
    | None => LPrecond
    | Some t => f t
    end.

  (** a call that changes only table [i] (and the node memory) *)
  Definition llift {A} (s : lsys) (i : nat) (r : res A) (k : A -> mem * ltable * alloc * list Z) : lxres :=
    match r with
    | Ok a w => let '(m', t', a', out) := k a in LDone (mkLSys (upd (ltabs s) i t') m' a') out w
    | RAbort => LAbort
    | RFault => LFault
    end.

  Definition lexec (s : lsys) (o : op) : lxres :=
    let m := lmem s in
    match o with
    | Insert i e =>
      lwith_tab s i (fun t =>
        if l_in_any s e || negb (is_some (l_hash t)) then LPrecond
        else llift s i (l_insert hf key m t e) (fun p => (fst p, snd p, lal s, [])))
    | Find i k vis =>
      lwith_tab s i (fun t =>
        if negb (is_some (l_hash t)) then LPrecond
        else llift s i (l_find hf key m t k vis)
                   (fun p => (fst (fst p), snd (fst p), lal s, [zopt (snd p)])))
    | Erase i e =>
      lwith_tab s i (fun t =>
        if negb (is_some (l_hash t)) then LPrecond
        else llift s i (l_erase hf key m t e) (fun p => (fst p, snd p, lal s, [])))
    | Resize i n f =>
      lwith_tab s i (fun t =>
        if MAX_BUCKETS <? n then LPrecond
        else llift s i (l_resize hf key ok m t (lal s) n f)
                   (fun p => (fst (fst p), snd (fst p), snd p, [changed (skel t) (skel (snd (fst p)))])))
    | Rehash i =>
      lwith_tab s i (fun t =>
        llift s i (l_rehash hf key m t)
              (fun p => (fst p, snd p, lal s, [changed (skel t) (skel (snd p))])))
    | Shrink i =>
      lwith_tab s i (fun t =>
        llift s i (l_shrink_to_fit hf key ok m t (lal s))
              (fun p => (fst (fst p), snd (fst p), snd p, [changed (skel t) (skel (snd (fst p)))])))
    | Swap i j =>
      (* the two structures are exchanged; no node is touched *)
      lwith_tab s i (fun ti => lwith_tab s j (fun tj =>
        LDone (mkLSys (upd (upd (ltabs s) i tj) j ti) m (lal s)) [] []))
    | Foreach i er stop =>
      lwith_tab s i (fun t =>
        llift s i (l_foreach hf key m t er stop)
              (fun p => (fst (fst p), snd (fst p), lal s, [snd p])))
    | ForeachConst i stop =>
      lwith_tab s i (fun t =>
        llift s i (l_foreach_const hf key m t stop)
              (fun p => (fst (fst p), snd (fst p), lal s, [snd p])))
    | Clear i cb =>
      lwith_tab s i (fun t =>
        llift s i (l_clear hf key m t (lal s) cb)
              (fun p => (fst (fst p), snd (fst p), snd p, [])))
    | Size i => lwith_tab s i (fun t => LDone s [Z.of_N (l_size t)] [])
    | Load i =>
      lwith_tab s i (fun t =>
        if negb (is_some (l_hash t)) then LPrecond
        else LDone s [Z.of_N (fst (load (skel t))); Z.of_N (snd (load (skel t)))] [])
    end.

  (** the same step in the shared [outcome] format (as [HashModel.step]) *)
  Definition lstep (s : lsys) (o : op) : outcome lsys :=
    match lexec s o with
    | LDone s' r w => Done s' (Z.of_nat (length r) :: r ++ flat_map (ev_out) w)
    | LAbort => Abort
    | LFault => Fault
    | LPrecond => Precond
    end.
End LStep.
