(** Pointer-level executable model of src/bintree.c and src/rbtree.c (C02,
    parent links).

    A memory maps node addresses to nodes {p; l; r; colour}.  The node of
    the element with identity [e] lives at address [S e]; address 0 is
    reserved for the stack-local stand-in [_x] of __cstl_rbtree_erase.  A
    tree is a memory, the root pointer and the size field.  Every C
    statement that writes a link or a colour is one update of the memory, in
    the order of the source, and every statement reads the memory left by the
    previous one.  The (l, r) selector pair of __cstl_bintree_rotate and of
    the two fix-up functions is [d] = the side called "l" ([sel d], [sel (opp
    d)]).  Dereferencing NULL is [None] (reported as [Fault] by [lstep]); so
    is running out of [fuel], which only bounds the loops (the callers pass
    the size field + 1, at least the depth of the tree).  The asserts of the
    C code are not modelled (TreeModel.v does not model them either; a NULL
    [y] in rotate faults at its first dereference).

    The comparison callback is the order of the keys, [key] gives the key of
    an element identity (as in TreeModel.step).  Operations that write no
    link (foreach, the callback log of clear, height) and the "element is not
    linked yet" precondition of insert are answered on the tree decoded from
    the memory by [decode]; [decode] fails if a child's [p] does not point
    back at its parent, if the root's [p] is not NULL, or if a node is
    reached twice.  No proofs here: TreeLinksProofs*.v. *)
From Cstl Require Import Prelude TreeModel.
Local Open Scope Z_scope.

(** * Memory: a binary trie over positive addresses *)
Inductive ptrie (A : Type) : Type :=
| PLeaf
| PNode (l : ptrie A) (v : option A) (r : ptrie A).
Arguments PLeaf {A}.
Arguments PNode {A} l v r.

Fixpoint pget {A} (m : ptrie A) (p : positive) : option A :=
  match m with
  | PLeaf => None
  | PNode l v r =>
    match p with
    | xH => v
    | xO q => pget l q
    | xI q => pget r q
    end
  end.

Fixpoint pset {A} (m : ptrie A) (p : positive) (x : A) : ptrie A :=
  match p with
  | xH => match m with PLeaf => PNode PLeaf (Some x) PLeaf | PNode l _ r => PNode l (Some x) r end
  | xO q => match m with
            | PLeaf => PNode (pset PLeaf q x) None PLeaf
            | PNode l v r => PNode (pset l q x) v r
            end
  | xI q => match m with
            | PLeaf => PNode PLeaf None (pset PLeaf q x)
            | PNode l v r => PNode l v (pset r q x)
            end
  end.

Record node := mkN { n_p : option nat; n_l : option nat; n_r : option nat; n_c : colour }.
Definition node0 : node := mkN None None None Black.
Definition mem := ptrie node.

Definition mget (m : mem) (a : nat) : node :=
  match pget m (Pos.of_succ_nat a) with Some n => n | None => node0 end.
Definition mset (m : mem) (a : nat) (n : node) : mem := pset m (Pos.of_succ_nat a) n.

Definition setp (m : mem) (a : nat) (v : option nat) : mem :=
  let n := mget m a in mset m a (mkN v (n_l n) (n_r n) (n_c n)).
Definition setl (m : mem) (a : nat) (v : option nat) : mem :=
  let n := mget m a in mset m a (mkN (n_p n) v (n_r n) (n_c n)).
Definition setr (m : mem) (a : nat) (v : option nat) : mem :=
  let n := mget m a in mset m a (mkN (n_p n) (n_l n) v (n_c n)).
Definition setc (m : mem) (a : nat) (k : colour) : mem :=
  let n := mget m a in mset m a (mkN (n_p n) (n_l n) (n_r n) k).
(** [*a = v] for a [struct cstl_bintree_node]: the three links; the colour
    lives in the enclosing [struct cstl_rbtree_node] and is not copied *)
Definition setlinks (m : mem) (a : nat) (v : node) : mem :=
  mset m a (mkN (n_p v) (n_l v) (n_r v) (n_c (mget m a))).

(** [if (o != NULL) o->p = v;] *)
Definition setp_opt (m : mem) (o : option nat) (v : option nat) : mem :=
  match o with Some a => setp m a v | None => m end.

Definition sel (d : dir) (n : node) : option nat := match d with Lf => n_l n | Rt => n_r n end.
Definition setsel (d : dir) (m : mem) (a : nat) (v : option nat) : mem :=
  match d with Lf => setl m a v | Rt => setr m a v end.

Definition oeqb (a b : option nat) : bool :=
  match a, b with
  | Some x, Some y => Nat.eqb x y
  | None, None => true
  | _, _ => false
  end.

Definition is_black (k : colour) : bool := match k with Black => true | Red => false end.

(** address of the stand-in [_x] of __cstl_rbtree_erase, of an element *)
Definition XADDR : nat := O.
Definition addr (e : nat) : nat := S e.
Definition zptr (o : option nat) : Z := match o with Some a => zid (pred a) | None => znull end.

Definition bind {A B} (o : option A) (f : A -> option B) : option B :=
  match o with Some x => f x | None => None end.
Notation "'do' x <- a ; b" := (bind a (fun x => b))
  (at level 200, x pattern, a at level 100, b at level 200, right associativity).

Record lstate := mkL { lm : mem; lroot : option nat; lsz : N }.
Definition l_init : lstate := mkL PLeaf None 0.

Section WithKey.
  Variable key : nat -> Z.

  (** key of the element whose node is at address [a] *)
  Definition akey (a : nat) : Z := key (pred a).

  (** * bintree.c *)

  (** where [bc] points: at [bt->root], at the local variable [bp] (hinted
      insert before the first iteration), at a child field of a node *)
  Inductive slot := SRoot | SLocal | SField (a : nat) (d : dir).

  (** [while ( *bc != NULL) { bp = *bc; bc = cmp(bn, bp) < 0 ? &bp->l : &bp->r; }];
      [cur] is the value of [*bc] *)
  Fixpoint l_descend (fuel : nat) (m : mem) (k : Z) (cur bp : option nat) (bc : slot)
    : option (option nat * slot) :=
    match cur with
    | None => Some (bp, bc)
    | Some a =>
      match fuel with
      | O => None
      | S f =>
        if k <? akey a then l_descend f m k (n_l (mget m a)) (Some a) (SField a Lf)
        else l_descend f m k (n_r (mget m a)) (Some a) (SField a Rt)
      end
    end.

  (** cstl_bintree_insert(bt, n, hint) without the size update *)
  Definition l_bt_insert (fuel : nat) (m : mem) (root : option nat) (n : nat) (hint : option nat)
    : option (mem * option nat) :=
    let '(cur, bp, bc) :=
        match hint with
        | None => (root, root, SRoot)                 (* bc = &bt->root, bp = *bc *)
        | Some p => (Some p, Some p, SLocal)          (* bp = node(p); bc = &bp *)
        end in
    do (bp', bc') <- l_descend fuel m (akey n) cur bp bc;
    let m1 := setp m n bp' in                         (* bn->p = bp *)
    let m2 := setl m1 n None in                       (* bn->l = NULL *)
    let m3 := setr m2 n None in                       (* bn->r = NULL *)
    Some (match bc' with                              (* *bc = bn *)
          | SRoot => (m3, Some n)
          | SLocal => (m3, root)
          | SField a d => (setsel d m3 a (Some n), root)
          end).

  (** loop of cstl_bintree_find: (bn, p) at loop exit *)
  Fixpoint l_find (fuel : nat) (m : mem) (k : Z) (bn p : option nat) : option (option nat * option nat) :=
    match bn with
    | None => Some (None, p)
    | Some a =>
      if k =? akey a then Some (bn, p)
      else match fuel with
           | O => None
           | S f =>
             if k <? akey a then l_find f m k (n_l (mget m a)) (Some a)
             else l_find f m k (n_r (mget m a)) (Some a)
           end
    end.

  (** cstl_bintree_slide(bn, ch) *)
  Fixpoint l_slide (fuel : nat) (m : mem) (d : dir) (bn : nat) : option nat :=
    match sel d (mget m bn) with
    | None => Some bn
    | Some c => match fuel with O => None | S f => l_slide f m d c end
    end.

  (** the upward walk of __cstl_bintree_adjacent:
      [while (bn->p != NULL && *l(bn->p) == bn) bn = bn->p;  bn = bn->p;] *)
  Fixpoint l_climb (fuel : nat) (m : mem) (d : dir) (bn : nat) : option (option nat) :=
    match n_p (mget m bn) with
    | None => Some None
    | Some p =>
      if oeqb (sel d (mget m p)) (Some bn)
      then match fuel with O => None | S f => l_climb f m d p end
      else Some (Some p)
    end.

  (** __cstl_bintree_adjacent(bn, l, r) with l = [sel d] *)
  Definition l_adjacent (fuel : nat) (m : mem) (d : dir) (bn : nat) : option (option nat) :=
    match sel d (mget m bn) with
    | Some c => do y <- l_slide fuel m (opp d) c; Some (Some y)
    | None => l_climb fuel m d bn
    end.

  (** [if (par == NULL) bt->root = new; else if (old == *l(par)) *l(par) = new;
      else *r(par) = new;] with l = [sel d] *)
  Definition l_replace (m : mem) (root : option nat) (par : option nat) (old : nat)
             (new : option nat) (d : dir) : mem * option nat :=
    match par with
    | None => (m, new)
    | Some g =>
      if oeqb (Some old) (sel d (mget m g)) then (setsel d m g new, root)
      else (setsel (opp d) m g new, root)
    end.

  (** __cstl_bintree_erase(bt, bn) without the size update; returns y *)
  Definition l_bt_erase (fuel : nat) (m : mem) (root : option nat) (bn : nat)
    : option (mem * option nat * nat) :=
    do yo <- (match n_l (mget m bn), n_r (mget m bn) with
              | Some _, Some _ => l_adjacent fuel m Rt bn       (* __cstl_bintree_next *)
              | _, _ => Some (Some bn)
              end);
    do y <- yo;                                                 (* y->l *)
    let x := match n_l (mget m y) with Some a => Some a | None => n_r (mget m y) end in
    let m1 := setp_opt m x (n_p (mget m y)) in                  (* if (x) x->p = y->p *)
    let '(m2, root2) := l_replace m1 root (n_p (mget m1 y)) y x Lf in
    if Nat.eqb y bn then Some (m2, root2, y)
    else
      let t := mget m2 y in                                     (* t = *y *)
      let '(m3, root3) := l_replace m2 root2 (n_p (mget m2 bn)) bn (Some y) Lf in
      let m4 := setp_opt m3 (n_l (mget m3 bn)) (Some y) in      (* if (bn->l) bn->l->p = y *)
      let m5 := setp_opt m4 (n_r (mget m4 bn)) (Some y) in      (* if (bn->r) bn->r->p = y *)
      let m6 := setlinks m5 y (mget m5 bn) in                   (* *y = *bn *)
      let m7 := setlinks m6 bn t in                             (* *bn = t *)
      let m8 := if oeqb (n_p (mget m7 bn)) (Some bn) then setp m7 bn (Some y) else m7 in
      Some (m8, root3, y).

  (** __cstl_bintree_rotate(bt, x, l, r) with l = [sel d] *)
  Definition l_rotate (m : mem) (root : option nat) (x : nat) (d : dir) : option (mem * option nat) :=
    do y <- sel (opp d) (mget m x);                             (* y = *r(x); y->... *)
    let m1 := setsel (opp d) m x (sel d (mget m y)) in          (* *r(x) = *l(y) *)
    let m2 := setp_opt m1 (sel d (mget m1 y)) (Some x) in       (* if ( *l(y)) ( *l(y))->p = x *)
    let m3 := setp m2 y (n_p (mget m2 x)) in                    (* y->p = x->p *)
    let '(m4, root4) := l_replace m3 root (n_p (mget m3 x)) x (Some y) d in
    let m5 := setsel d m4 y (Some x) in                         (* *l(y) = x *)
    Some (setp m5 x (Some y), root4).                           (* x->p = y *)

  (** * rbtree.c *)

  (** [x->p->p] *)
  Definition l_gp (m : mem) (x : nat) : option nat :=
    do p <- n_p (mget m x); n_p (mget m p).

  (** cstl_rbtree_fix_insertion(t, x, l, r) with l = [sel d]; returns x *)
  Definition l_fix_insertion (m : mem) (root : option nat) (x : nat) (d : dir)
    : option (mem * option nat * nat) :=
    do g <- l_gp m x;
    let y := sel (opp d) (mget m g) in                          (* y = *r(x->p->p) *)
    match (match y with
           | Some yy => if is_black (n_c (mget m yy)) then None else Some yy
           | None => None
           end) with
    | Some yy =>
      do p1 <- n_p (mget m x);
      let m1 := setc m p1 Black in                              (* colour(x->p) = B *)
      let m2 := setc m1 yy Black in                             (* colour(y) = B *)
      do g2 <- l_gp m2 x;
      let m3 := setc m2 g2 Red in                               (* colour(x->p->p) = R *)
      do g3 <- l_gp m3 x;                                       (* x = x->p->p *)
      Some (m3, root, g3)
    | None =>
      do p0 <- n_p (mget m x);
      do (m1, root1, x1) <-
         (if oeqb (Some x) (sel (opp d) (mget m p0))            (* x == *r(x->p) *)
          then do (m', root') <- l_rotate m root p0 d;         (* x = x->p; rotate(t, x, l, r) *)
               Some (m', root', p0)
          else Some (m, root, x));
      do p1 <- n_p (mget m1 x1);
      let m2 := setc m1 p1 Black in                             (* colour(x->p) = B *)
      do g2 <- l_gp m2 x1;
      let m3 := setc m2 g2 Red in                               (* colour(x->p->p) = R *)
      do g3 <- l_gp m3 x1;
      do (m4, root4) <- l_rotate m3 root1 g3 (opp d);          (* rotate(t, x->p->p, r, l) *)
      Some (m4, root4, x1)
    end.

  (** [while (x->p != NULL && colour(x->p) == R)] of cstl_rbtree_insert *)
  Fixpoint l_ins_loop (fuel : nat) (m : mem) (root : option nat) (x : nat) : option (mem * option nat) :=
    match n_p (mget m x) with
    | None => Some (m, root)
    | Some p =>
      match n_c (mget m p) with
      | Black => Some (m, root)
      | Red =>
        match fuel with
        | O => None
        | S f =>
          do g <- n_p (mget m p);                               (* x->p->p->l *)
          let d := if oeqb (Some p) (n_l (mget m g)) then Lf else Rt in
          do (m', root', x') <- l_fix_insertion m root x d;
          l_ins_loop f m' root' x'
        end
      end
    end.

  (** cstl_rbtree_insert(t, n, hint) without the size update *)
  Definition l_rb_insert (fuel : nat) (m : mem) (root : option nat) (n : nat) (hint : option nat)
    : option (mem * option nat) :=
    do (m1, root1) <- l_bt_insert fuel m root n hint;
    let m2 := setc m1 n Red in                                  (* n->c = R *)
    do (m3, root3) <- l_ins_loop fuel m2 root1 n;
    do r <- root3;                                              (* colour(root) = B *)
    Some (setc m3 r Black, root3).

  (** [o == NULL || colour(o) == B] *)
  Definition l_blk (m : mem) (o : option nat) : bool :=
    match o with None => true | Some a => is_black (n_c (mget m a)) end.

  (** cstl_rbtree_fix_deletion(t, x, l, r) with l = [sel d]; returns x
      ([t->root] in the last case) *)
  Definition l_fix_deletion (m : mem) (root : option nat) (x : nat) (d : dir)
    : option (mem * option nat * option nat) :=
    do xp <- n_p (mget m x);
    do w <- sel (opp d) (mget m xp);                            (* w = *r(x->p); colour(w) *)
    do (m1, root1, w1) <-
       (if is_black (n_c (mget m w)) then Some (m, root, Some w)
        else
          let ma := setc m w Black in                           (* colour(w) = B *)
          do xpa <- n_p (mget ma x);
          let mb := setc ma xpa Red in                          (* colour(x->p) = R *)
          do xpb <- n_p (mget mb x);
          do (mc, rc) <- l_rotate mb root xpb d;               (* rotate(t, x->p, l, r) *)
          do xpc <- n_p (mget mc x);
          Some (mc, rc, sel (opp d) (mget mc xpc)));            (* w = *r(x->p) *)
    do w <- w1;                                                 (* *l(w) *)
    if l_blk m1 (sel d (mget m1 w)) && l_blk m1 (sel (opp d) (mget m1 w)) then
      let m2 := setc m1 w Red in                                (* colour(w) = R *)
      Some (m2, root1, n_p (mget m2 x))                         (* x = x->p *)
    else
      do (m2, root2, w2) <-
         (if l_blk m1 (sel (opp d) (mget m1 w)) then
            do lw <- sel d (mget m1 w);
            let ma := setc m1 lw Black in                       (* colour( *l(w)) = B *)
            let mb := setc ma w Red in                          (* colour(w) = R *)
            do (mc, rc) <- l_rotate mb root1 w (opp d);        (* rotate(t, w, r, l) *)
            do xpc <- n_p (mget mc x);
            Some (mc, rc, sel (opp d) (mget mc xpc))            (* w = *r(x->p) *)
          else Some (m1, root1, Some w));
      do w' <- w2;
      do xp2 <- n_p (mget m2 x);
      let m3 := setc m2 w' (n_c (mget m2 xp2)) in               (* colour(w) = colour(x->p) *)
      do xp3 <- n_p (mget m3 x);
      let m4 := setc m3 xp3 Black in                            (* colour(x->p) = B *)
      do rw <- sel (opp d) (mget m4 w');
      let m5 := setc m4 rw Black in                             (* colour( *r(w)) = B *)
      do xp5 <- n_p (mget m5 x);
      do (m6, root6) <- l_rotate m5 root2 xp5 d;               (* rotate(t, x->p, l, r) *)
      Some (m6, root6, root6).                                  (* x = t->root *)

  (** [while (x->p != NULL && colour(x) == B)] of __cstl_rbtree_erase *)
  Fixpoint l_del_loop (fuel : nat) (m : mem) (root : option nat) (x : nat)
    : option (mem * option nat * nat) :=
    match n_p (mget m x) with
    | None => Some (m, root, x)
    | Some xp =>
      if is_black (n_c (mget m x)) then
        match fuel with
        | O => None
        | S f =>
          (* x == x->p->l || (x == &_x.n && x->p->l == NULL) *)
          let d := if oeqb (Some x) (n_l (mget m xp))
                      || (Nat.eqb x XADDR && oeqb (n_l (mget m xp)) None)
                   then Lf else Rt in
          do (m', root', xo) <- l_fix_deletion m root x d;
          do x' <- xo;                                          (* x->p *)
          l_del_loop f m' root' x'
        end
      else Some (m, root, x)
    end.

  (** __cstl_rbtree_erase(t, n) without the size update *)
  Definition l_rb_erase (fuel : nat) (m : mem) (root : option nat) (n : nat)
    : option (mem * option nat) :=
    do (m1, root1, y) <- l_bt_erase fuel m root n;
    let c := n_c (mget m1 y) in                                 (* c = colour(y) *)
    let m2 := setc m1 y (n_c (mget m1 n)) in                    (* colour(y) = n->c *)
    if is_black c then
      let '(m3, x) :=
          match n_l (mget m2 n) with
          | Some a => (m2, a)
          | None =>
            match n_r (mget m2 n) with
            | Some a => (m2, a)
            | None =>                                           (* x = &_x.n *)
              let ma := setp m2 XADDR (n_p (mget m2 n)) in      (* x->p = n->n.p *)
              (setc ma XADDR Black, XADDR)                      (* colour(x) = B *)
            end
          end in
      do (m4, root4, x4) <- l_del_loop fuel m3 root1 x;
      Some (setc m4 x4 Black, root4)                            (* colour(x) = B *)
    else Some (m2, root1).

  (** * Decoder *)

  (** rebuilds the inductive tree below the pointer [a] whose parent must be
      [par]; [seen] = the addresses met so far *)
  Fixpoint dec (fuel : nat) (m : mem) (par a : option nat) (seen : ptrie unit)
    : option (tree * ptrie unit) :=
    match a with
    | None => Some (E, seen)
    | Some i =>
      match fuel with
      | O => None
      | S f =>
        match i with
        | O => None                                             (* the stand-in is not an element *)
        | S e =>
          match pget seen (Pos.of_succ_nat i) with
          | Some _ => None                                      (* reached twice *)
          | None =>
            if oeqb (n_p (mget m i)) par then
              do (l, seen1) <- dec f m a (n_l (mget m i)) (pset seen (Pos.of_succ_nat i) tt);
              do (r, seen2) <- dec f m a (n_r (mget m i)) seen1;
              Some (T (n_c (mget m i)) l (mkE e (key e)) r, seen2)
            else None                                           (* parent link does not point back *)
          end
        end
      end
    end.

  Definition lfuel (s : lstate) : nat := S (N.to_nat (lsz s)).

  Definition decode (s : lstate) : option tree :=
    do (t, _) <- dec (lfuel s) (lm s) None (lroot s) PLeaf; Some t.

  (** * The scripted system (same operations and outputs as TreeModel.step) *)
  Variable kd : kind.

  Definition l_do_insert (s : lstate) (hint : option nat) (e : nat) (out : list Z) : outcome lstate :=
    match kd with
    | Bin =>
      match l_bt_insert (lfuel s) (lm s) (lroot s) (addr e) hint with
      (* the colour field is not part of a plain binary tree; TreeModel.v
         carries Black in its place *)
      | Some (m', root') => Done (mkL (setc m' (addr e) Black) root' (lsz s + 1)) out
      | None => Fault
      end
    | RB =>
      match l_rb_insert (lfuel s) (lm s) (lroot s) (addr e) hint with
      | Some (m', root') => Done (mkL m' root' (lsz s + 1)) out
      | None => Fault
      end
    end.

  Definition lstep (s : lstate) (o : op) : outcome lstate :=
    match o with
    | Insert e =>
      match decode s with
      | None => Fault
      | Some t => if held t e then Precond else l_do_insert s None e []
      end
    | InsertH e =>
      match decode s with
      | None => Fault
      | Some t =>
        if held t e then Precond
        else match l_find (lfuel s) (lm s) (key e) (lroot s) None with
             | None => Fault
             | Some (_, par) => l_do_insert s par e [zptr par]
             end
      end
    | Find k =>
      match l_find (lfuel s) (lm s) k (lroot s) None with
      | None => Fault
      | Some (f, p) => Done s [zptr f; zptr p]
      end
    | Erase k =>
      match l_find (lfuel s) (lm s) k (lroot s) None with
      | None => Fault
      | Some (None, _) => Done s [znull]
      | Some (Some a, _) =>
        match (match kd with
               | Bin => do (m', root', _) <- l_bt_erase (lfuel s) (lm s) (lroot s) a; Some (m', root')
               | RB => l_rb_erase (lfuel s) (lm s) (lroot s) a
               end) with
        | Some (m', root') => Done (mkL m' root' (lsz s - 1)) [zptr (Some a)]
        | None => Fault
        end
      end
    | Foreach rev stop =>
      match decode s with
      | None => Fault
      | Some t =>
        let '((_, log), res) := foreach (script_visit stop) (if rev then Rt else Lf) t (O, []) in
        Done s (res :: zevents (List.rev log))
      end
    | Clear =>
      match lroot s with
      | None => Done s []
      | Some _ =>
        match decode s with
        | None => Fault
        | Some t => Done (mkL (lm s) None 0) (map (fun e => zid (eid e)) (bt_clear t))
        end
      end
    | Height =>
      match decode s with
      | None => Fault
      | Some t => let '(mn, mx) := bt_height t in Done s [Z.of_N mn; Z.of_N mx]
      end
    | Size => Done s [Z.of_N (lsz s)]
    end.
End WithKey.
