(** Proofs about SortModel.v (C11), part 5: cstl_raw_array_sort as a whole
    (selector dispatch), assembled from the parts. *)
From Cstl Require Import Prelude SortModel SortProofs SortHeapProofs SortSearchProofs SortLogProofs.

Lemma decode_out_of_range sel : (sel < 0 \/ 3 < sel)%Z -> decode sel = QuickM.
Proof.
  intros H. destruct sel as [|p|p]; try lia; [|reflexivity].
  destruct p as [[p|p|]|[p|p|]|]; try lia; reflexivity.
Qed.

Lemma decode_cases sel :
  (sel = 0%Z /\ decode sel = Quick) \/ (sel = 1%Z /\ decode sel = QuickR) \/
  (sel = 2%Z /\ decode sel = QuickM) \/ (sel = 3%Z /\ decode sel = Heap) \/
  ((sel < 0 \/ 3 < sel)%Z /\ decode sel = QuickM).
Proof.
  destruct (Z.eq_dec sel 0) as [->|]; [auto|].
  destruct (Z.eq_dec sel 1) as [->|]; [auto|].
  destruct (Z.eq_dec sel 2) as [->|]; [auto 6|].
  destruct (Z.eq_dec sel 3) as [->|]; [auto 6|].
  right; right; right; right. split; [lia|]. apply decode_out_of_range. lia.
Qed.

Section Top.
  Context {A : Type}.
  Variable cmp : A -> A -> Z.
  Hypothesis contract : cmp_contract cmp.
  Local Notation le := (le cmp).

  Definition sorted_result (a a' : list A) (l : list ev) : Prop :=
    Permutation a a' /\ StronglySorted le a' /\ log_ok (length a) l.

  (** every algorithm except the randomised one, hence QUICK, QUICK_M, HEAP
      and every out-of-range selector: returns, sorted permutation, every
      callback argument inside the array *)
  Lemma sort_alg_det al extra rnd (a : list A) :
    al <> QuickR ->
    exists a' l, sort_alg cmp al extra rnd a = Ok (a', l) /\ sorted_result a a' l.
  Proof.
    intros Hal.
    assert (Q : al <> Heap ->
      exists a' l, ('(a', _, l) <- qsort cmp (length a + extra) al rnd 0 a ;; Ok (a', l)) = Ok (a', l) /\
                   sorted_result a a' l).
    { intros _.
      pose proof (qsort_spec cmp contract (length a + extra) al rnd 0 a) as S.
      pose proof (qsort_terminates_det cmp contract (length a + extra) al rnd 0 a Hal) as T.
      destruct (qsort cmp (length a + extra) al rnd 0 a) as [[[a' k'] l]| |] eqn:E; try tauto.
      - cbn [bind]. exists a', l. split; auto. destruct S as (P & SS & _).
        repeat split; auto. eapply qsort_log; eauto.
      - exfalso. apply T; auto. lia. }
    destruct al; cbn [sort_alg]; try (apply Q; discriminate); try congruence.
    destruct (hsort_correct cmp contract a) as (a' & l & E & P & SS).
    exists a', l. repeat split; auto. eapply hsort_log; eauto.
  Qed.

  Lemma sort_det sel extra rnd (a : list A) :
    sel <> 1%Z ->
    exists a' l, sort cmp sel extra rnd a = Ok (a', l) /\ sorted_result a a' l.
  Proof.
    intros H. unfold sort. apply sort_alg_det.
    destruct (decode_cases sel) as [(-> & ->)|[(-> & ->)|[(-> & ->)|[(-> & ->)|(_ & ->)]]]];
      congruence.
  Qed.

  (** the randomised variant, any oracle, any fuel *)
  Lemma sort_R_partial extra rnd (a : list A) :
    match sort cmp 1 extra rnd a with
    | Ok (a', l) => sorted_result a a' l
    | Ub => False
    | NoFuel => True
    end.
  Proof.
    unfold sort. cbn [decode sort_alg].
    pose proof (qsort_spec cmp contract (length a + extra) QuickR rnd 0 a) as S.
    destruct (qsort cmp (length a + extra) QuickR rnd 0 a) as [[[a' k'] l]| |] eqn:E; cbn [bind]; auto.
    destruct S as (P & SS & _). repeat split; auto. eapply qsort_log; eauto.
  Qed.

  Lemma sort_R_terminates K extra rnd (a : list A) :
    never_last_from rnd K -> K <= extra ->
    exists a' l, sort cmp 1 extra rnd a = Ok (a', l) /\ sorted_result a a' l.
  Proof.
    intros HK Hx. pose proof (sort_R_partial extra rnd a) as S.
    unfold sort in *. cbn [decode sort_alg] in *.
    pose proof (qsort_terminates_R cmp contract (length a + extra) rnd K 0 a HK) as T.
    destruct (qsort cmp (length a + extra) QuickR rnd 0 a) as [[[a' k'] l]| |] eqn:E; cbn [bind] in *.
    - eauto.
    - tauto.
    - exfalso. apply T; auto. lia.
  Qed.

  Lemma sort_R_retries_forever x y extra :
    (cmp x y < 0)%Z -> sort cmp 1 extra (fun _ => 1%N) [x; y] = NoFuel.
  Proof.
    intros H. unfold sort. cbn [decode sort_alg].
    rewrite (qsortR_retries_forever cmp contract x y 0 H). reflexivity.
  Qed.

  (** fuel is a device of the model only: once a run returns, more fuel
      gives the same array, rand() counter and callback log *)
  Lemma qsort_fuel_mono f : forall al rnd k (a : list A) r,
    qsort cmp f al rnd k a = Ok r -> forall f', f <= f' -> qsort cmp f' al rnd k a = Ok r.
  Proof.
    induction f as [|f IH]; intros al rnd k a r H f' Hf.
    - rewrite qsort_0 in H. destruct (1 <? length a) eqn:L; [discriminate|].
      destruct f'; [rewrite qsort_0|rewrite qsort_unfold]; rewrite L; auto.
    - destruct f' as [|f']; [lia|]. rewrite qsort_unfold in *.
      destruct (1 <? length a); auto.
      bind_inv H. destruct x as [[[a1 p] k1] l1]. cbn [bind].
      destruct (negb (is_m al) || (3 <? length a)); auto.
      bind_inv H. destruct x as [[m a2] l2]. cbn [bind].
      bind_inv H. rewrite (IH _ _ _ _ _ E1 f') by lia. destruct x as [[lo k2] l3]. cbn [bind].
      bind_inv H. rewrite (IH _ _ _ _ _ E2 f') by lia. destruct x as [[hi k3] l4]. cbn [bind].
      auto.
  Qed.

  Lemma sort_extra_irrelevant sel extra extra' rnd (a : list A) r :
    sort cmp sel extra rnd a = Ok r -> extra <= extra' -> sort cmp sel extra' rnd a = Ok r.
  Proof.
    unfold sort, sort_alg. intros H Hx.
    destruct (decode sel); auto;
      (bind_inv H; rewrite (qsort_fuel_mono _ _ _ _ _ _ E (length a + extra')) by lia; auto).
  Qed.

  Lemma le_transitive : Relations_1.Transitive le.
  Proof. intros x y z. apply (le_trans cmp contract). Qed.

  Lemma sorted_strongly (a : list A) : Sorted le a -> StronglySorted le a.
  Proof. apply Sorted_StronglySorted. exact le_transitive. Qed.
End Top.
