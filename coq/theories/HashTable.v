(** Proofs about HashModel.v, part 4: enumeration (foreach, foreach_const),
    clear, resize and shrink_to_fit of the repaired code ([fixed]). *)
From Cstl Require Import Prelude AllocModel HashModel HashProofs HashInv HashOps.
Local Open Scope N_scope.

Arguments HashModel.bucket_raw : simpl never.
Arguments N.mul : simpl never.

Lemma nth_error_ext_map {A B} (f : A -> B) (l l' : list A) :
  length l = length l' ->
  (forall x b, nth_error l x = Some b -> exists b0, nth_error l' x = Some b0 /\ f b = f b0) ->
  map f l = map f l'.
Proof.
  revert l'. induction l as [|a l IH]; intros [|a' l'] HL H; simpl in *; try discriminate; auto.
  f_equal.
  - destruct (H 0%nat a eq_refl) as (b0 & [= <-] & E). auto.
  - apply IH; [lia|]. intros x b Hb. apply (H (S x) b Hb).
Qed.

Lemma visits_walk_events l : visits (walk_events l) = l.
Proof. induction l; simpl; congruence. Qed.

Lemma clears_clear_events l : clears (clear_events l) = l.
Proof. induction l; simpl; congruence. Qed.

Lemma visit_upto_prefix stop l :
  exists rest, l = fst (visit_upto stop l) ++ rest /\
               (snd (visit_upto stop l) = 0%Z -> rest = []) /\
               (snd (visit_upto stop l) <> 0%Z ->
                snd (visit_upto stop l) = Z.of_nat stop /\ length (fst (visit_upto stop l)) = stop).
Proof.
  unfold visit_upto. destruct stop as [|s].
  - exists []. simpl. rewrite app_nil_r. repeat split; auto; congruence.
  - destruct (Nat.leb_spec (S s) (length l)).
    + exists (skipn (S s) l). cbn [fst snd]. rewrite firstn_skipn. split; auto. split; [lia|].
      intros _. split; auto. apply firstn_length_le; auto.
    + exists []. simpl. rewrite app_nil_r. repeat split; auto; congruence.
Qed.

(** no node is read (successor link) after it has been handed to the visit
    function / clear callback.  [order_ok called w]: scanning the log, a node
    already handed over is never read again. *)
Fixpoint order_ok (called : list nat) (w : list ev) : Prop :=
  match w with
  | [] => True
  | EvNext e :: r => ~ In e called /\ order_ok called r
  | EvVisit e :: r => order_ok (e :: called) r
  | EvClear e :: r => order_ok (e :: called) r
  | _ :: r => order_ok called r
  end.

Definition reads_before_calls (w : list ev) : Prop :=
  forall e w1 w2, (w = w1 ++ EvVisit e :: w2 \/ w = w1 ++ EvClear e :: w2) -> ~ In (EvNext e) w2.

Lemma order_ok_called c w e : order_ok c w -> In e c -> ~ In (EvNext e) w.
Proof.
  revert c. induction w as [|x w IH]; intros c H Hc; simpl; auto.
  destruct x; simpl in H; intros [E|Hin]; try discriminate;
    try (eapply IH; eauto; fail); try (eapply IH; [exact H|right; exact Hc|exact Hin]).
  - injection E as ->. tauto.
  - destruct H as (_ & H). eapply IH; eauto.
Qed.

Lemma order_ok_reads c w : order_ok c w -> reads_before_calls w.
Proof.
  intros H e w1. revert c w H. induction w1 as [|x w1 IH]; intros c w H w2 E.
  - destruct E as [->| ->]; simpl in H; eapply order_ok_called; eauto; now left.
  - destruct E as [->| ->]; simpl in H; destruct x; simpl in H;
      try (eapply IH; [exact H|]; auto; fail);
      try (destruct H as (_ & H); eapply IH; [exact H|]; auto).
Qed.

Lemma order_ok_internal c wi w : internal wi -> order_ok c w -> order_ok c (wi ++ w).
Proof.
  induction 1 as [|x wi Hx _ IH]; simpl; auto. intros H. destruct x; simpl in *; tauto.
Qed.

Lemma order_ok_walk_events c l : NoDup l -> (forall x, In x c -> ~ In x l) -> order_ok c (walk_events l).
Proof.
  revert c. induction l as [|e r IH]; intros c Nd Hd; simpl; auto.
  inversion Nd; subst. split.
  - intros Hc. apply (Hd e Hc). now left.
  - apply IH; auto. intros x [<-|Hx] Hr; auto. apply (Hd x Hx). now right.
Qed.

Lemma order_ok_clear_events c l : NoDup l -> (forall x, In x c -> ~ In x l) -> order_ok c (clear_events l).
Proof.
  revert c. induction l as [|e r IH]; intros c Nd Hd; simpl; auto.
  inversion Nd; subst. split.
  - intros Hc. apply (Hd e Hc). now left.
  - apply IH; auto. intros x [<-|Hx] Hr; auto. apply (Hd x Hx). now right.
Qed.

Section Table.
  Variable hf : fn_id -> N -> N -> option N.
  Variable key : nat -> N.
  Hypothesis Hdef : hf_def hf.

  Notation safe := (HashProofs.safe hf).
  Notation inv := (inv hf key).
  Notation invw := (invw hf key).

  (** ** every node lies below the walk bound *)

  Lemma node_below_bound t i b e :
    invw t -> nth_error (bks t) i = Some b -> In e (chain b) ->
    (i < N.to_nat (walk_bound fixed t))%nat.
  Proof.
    intros I Hb He. pose proof (inv_placed _ _ t I i b e Hb He) as O.
    unfold ok_at, walk_bound in *. simpl. destruct (rhash t).
    - destruct O as [O|(_ & O)]; apply hidx_lt in O; lia.
    - apply hidx_lt in O. auto.
  Qed.

  Lemma walk_bound_cap t : shape t -> walk_bound fixed t <= cap t.
  Proof.
    intros S. unfold walk_bound. simpl. pose proof (sh_cnt t S).
    destruct (rhash t) eqn:E; auto.
    destruct (sh_rh t S ltac:(congruence)). lia.
  Qed.

  Lemma walk_seq_live t : invw t -> walk_seq fixed t = Some (live t).
  Proof.
    intros I. pose proof (inv_shape _ _ t I) as S. unfold walk_seq.
    pose proof (walk_bound_cap t S).
    destruct (Nat.leb_spec (N.to_nat (walk_bound fixed t)) (length (bks t))) as [_|Hl].
    2: { rewrite (sh_len t S) in Hl. lia. }
    f_equal. rewrite live_lv. fold (lv (firstn (N.to_nat (walk_bound fixed t)) (bks t))).
    apply concat_nil_tail. intros i b Hi Hb.
    destruct (chain b) as [|e r] eqn:Ec; auto.
    pose proof (node_below_bound t i b e I Hb ltac:(rewrite Ec; now left)). lia.
  Qed.

  (** ** foreach_const *)

  Lemma foreach_const_spec t stop :
    invw t ->
    foreach_const fixed t stop =
    Ok (t, snd (visit_upto stop (live t))) (walk_events (fst (visit_upto stop (live t)))).
  Proof.
    intros I. unfold foreach_const. rewrite (walk_seq_live t I).
    destruct (visit_upto stop (live t)); auto.
  Qed.

  (** ** foreach with the erasing visit function *)

  Lemma settled_hash_none_empty t : invw t -> hash t = None -> live t = [].
  Proof.
    intros I Hh. destruct (live t) as [|e r] eqn:E; auto. exfalso.
    assert (He : In e (live t)) by (rewrite E; now left).
    rewrite live_lv in He. apply in_lv in He. destruct He as (i & b & Hb & He).
    pose proof (node_below_bound t i b e I Hb He) as Hlt.
    destruct (sh_none t (inv_shape _ _ t I) Hh) as (Hc & Hr).
    unfold walk_bound in Hlt. simpl in Hlt. rewrite Hr, Hc in Hlt. lia.
  Qed.


  Lemma walk_erase_spec l : forall t dead,
    inv t -> rhash t = None -> (l <> [] -> hash t <> None) -> NoDup l ->
    (forall x, In x l -> In x (live t)) -> (forall x, In x dead -> ~ In x (live t)) ->
    safe (walk_erase hf key t dead l) (fun t' w =>
      inv t' /\ rhash t' = None /\ bcount t' = bcount t /\ hash t' = hash t /\
      cap t' = cap t /\ at_blk t' = at_blk t /\ cst t' = cst t /\
      (forall x, In x (live t') <-> In x (live t) /\ ~ In x l) /\
      size t' + N.of_nat (length l) = size t /\
      visits w = l /\ clears w = [] /\ offers w = [] /\ order_ok dead w /\
      (forall g, hash t = Some g -> hcalls w = map (fun e => (g, key e, bcount t)) l)).
  Proof.
    induction l as [|e r IH]; intros t dead I Hr Hh Nd Hsub Hdead; simpl.
    - split; auto. split; auto. repeat (split; [reflexivity|]).
      split; [intros x; tauto|]. split; [lia|]. repeat (split; [first [reflexivity|exact Logic.I]|]). auto.
    - specialize (Hh ltac:(discriminate)).
      inversion Nd as [|? ? Hne Nd']; subst.
      assert (He : In e (live t)) by (apply Hsub; now left).
      destruct (existsb (Nat.eqb e) dead) eqn:Ed.
      { apply existsb_eqb_in in Ed. exfalso. apply (Hdead e Ed He). }
      pose proof (erase_d_spec hf key Hdef dead t e I Hh Hdead) as E.
      destruct (erase_d hf key dead t e) as [t1 w1| |]; simpl in *; auto.
      destruct E as (I1 & (TC & TH & Hh1 & C1 & A1 & T1) & _ & _ & Hi1 & L1 & Lin & _ & Hs1).
      destruct (Lin He) as (P1 & Z1).
      destruct (Hs1 Hr) as (Hr1 & Hc1 & Hh1' & g & Eg & ->).
      specialize (IH t1 (e :: dead) I1 Hr1 (fun _ => Hh1) Nd').
      assert (Hsub1 : forall x, In x r -> In x (live t1)).
      { intros x Hx. apply L1. split; [apply Hsub; now right|]. intros ->. contradiction. }
      assert (Hdead1 : forall x, In x (e :: dead) -> ~ In x (live t1)).
      { intros x [<-|Hx] Hl; apply L1 in Hl; destruct Hl as (Hl & Hn); [congruence|].
        apply (Hdead x Hx Hl). }
      specialize (IH Hsub1 Hdead1).
      destruct (walk_erase hf key t1 (e :: dead) r) as [t2 w2| |]; simpl in *; auto.
      destruct IH as (I2 & Hr2 & Hc2 & Hh2 & C2 & A2 & T2 & L2 & Z2 & V2 & X2 & O2 & Ord2 & H2).
      split; auto. repeat (split; [congruence|]).
      split.
      { intros x. rewrite L2, L1. split.
        - intros ((Hx & Hne') & Hnr). split; auto. intros [<-|Hx']; auto.
        - intros (Hx & Hn). split; [split; [auto|]|].
          + intros ->. apply Hn. now left.
          + intros Hr'. apply Hn. now right. }
      split; [lia|].
      split; [now rewrite V2|]. split; [auto|]. split; [auto|].
      split.
      { split.
        - intros Hd. apply (Hdead e Hd He).
        - exact Ord2. }
      intros g' Eg'. rewrite Eg in Eg'. injection Eg' as <-. simpl.
      rewrite (H2 g) by congruence. now rewrite Hc1.
  Qed.

  (** ** foreach *)

  Lemma visit_upto_sub stop l : forall x, In x (fst (visit_upto stop l)) -> In x l.
  Proof.
    destruct (visit_upto_prefix stop l) as (rest & E & _). intros x Hx.
    rewrite E. apply in_or_app. now left.
  Qed.

  Lemma visit_upto_nodup stop l : NoDup l -> NoDup (fst (visit_upto stop l)).
  Proof.
    destruct (visit_upto_prefix stop l) as (rest & E & _). intros Nd.
    rewrite E in Nd. eapply NoDup_app_l; eauto.
  Qed.

  Lemma foreach_spec t er stop :
    inv t ->
    safe (foreach hf key fixed t er stop) (fun p w =>
      let t' := fst p in
      inv t' /\ rhash t' = None /\
      bcount t' = tgt_count t /\ hash t' = tgt_hash t /\ cap t' = cap t /\ at_blk t' = at_blk t /\
      (exists order, Permutation order (live t) /\
         visits w = fst (visit_upto stop order) /\ snd p = snd (visit_upto stop order)) /\
      clears w = [] /\ offers w = [] /\ order_ok [] w /\
      (if er then
         (forall x, In x (live t') <-> In x (live t) /\ ~ In x (visits w)) /\
         size t' + N.of_nat (length (visits w)) = size t
       else Permutation (live t') (live t) /\ size t' = size t)).
  Proof.
    intros I. unfold foreach.
    pose proof (rehash_inv hf key Hdef t I) as R.
    pose proof (internal_rehash hf key t) as Hint.
    destruct (rehash hf key t) as [t1 w1| |]; simpl in *; auto.
    destruct R as (I1 & Hr1 & P1 & Hc1 & Hh1 & C1 & A1 & Z1 & T1 & L1 & _).
    specialize (Hint t1 w1 eq_refl).
    rewrite (walk_seq_live t1 (proj1 I1)).
    pose proof (inv_nodup _ _ t1 (proj1 I1)) as Nd.
    destruct (visit_upto stop (live t1)) as [log r] eqn:Ev.
    assert (Elog : log = fst (visit_upto stop (live t1))) by (now rewrite Ev).
    assert (Er : r = snd (visit_upto stop (live t1))) by (now rewrite Ev).
    destruct er.
    - assert (Nl : NoDup log) by (rewrite Elog; apply visit_upto_nodup; auto).
      assert (Sl : forall x, In x log -> In x (live t1)) by (rewrite Elog; apply visit_upto_sub).
      assert (Hh : log <> [] -> hash t1 <> None).
      { intros Hl Hn. pose proof (settled_hash_none_empty t1 (proj1 I1) Hn) as E.
        destruct log as [|x ?]; [congruence|]. specialize (Sl x ltac:(now left)). rewrite E in Sl. destruct Sl. }
      pose proof (walk_erase_spec log t1 [] I1 Hr1 Hh Nl Sl ltac:(intros x []) ) as W.
      destruct (walk_erase hf key t1 [] log) as [t2 w2| |]; simpl in *; auto.
      destruct W as (I2 & Hr2 & Hc2 & Hh2 & C2 & A2 & T2 & L2 & Z2 & V2 & X2 & O2 & Ord2 & _).
      split; auto. repeat (split; [congruence|]).
      rewrite app_nil_r.
      rewrite visits_app, clears_app, offers_app, (internal_visits _ Hint), (internal_clears _ Hint),
        (internal_offers _ Hint). simpl.
      split; [exists (live t1); repeat split; auto; congruence|].
      split; [auto|]. split; [auto|].
      split; [apply order_ok_internal; auto|].
      rewrite V2. split; [|lia].
      intros x. rewrite L2. split; intros (Hx & Hn); split; auto.
      + eapply Permutation_in; eauto.
      + eapply Permutation_in; [symmetry|]; eauto.
    - simpl. split; auto. repeat (split; [congruence|]).
      rewrite visits_app, clears_app, offers_app, (internal_visits _ Hint), (internal_clears _ Hint),
        (internal_offers _ Hint), visits_walk_events. simpl.
      split; [exists (live t1); repeat split; auto; congruence|].
      split; [clear; induction log; simpl; auto|].
      split; [clear; induction log; simpl; auto|].
      split.
      { apply order_ok_internal; auto. apply order_ok_walk_events; [|intros x []].
        rewrite Elog. apply visit_upto_nodup; auto. }
      split; auto.
  Qed.

  (** ** clear *)

  Lemma revisits_false seen l :
    NoDup l -> (forall x, In x seen -> ~ In x l) -> revisits seen l = false.
  Proof.
    revert seen. induction l as [|e r IH]; intros seen Nd Hd; simpl; auto.
    inversion Nd; subst.
    destruct (existsb (Nat.eqb e) seen) eqn:E.
    - apply existsb_eqb_in in E. exfalso. apply (Hd e E). now left.
    - simpl. apply IH; auto. intros x [<-|Hx] Hr; auto. apply (Hd x Hx). now right.
  Qed.

  Lemma inv_cleared t : inv (cleared fixed t).
  Proof.
    split; [|simpl; congruence]. unfold cleared. split; simpl; auto.
    - split; simpl; auto; try lia; try congruence.
    - intros [|i] b e H; discriminate.
    - congruence.
    - constructor.
    - intros [|i] b H; discriminate.
  Qed.

  Lemma clear_spec t a cb :
    inv t ->
    clear fixed t a cb = Ok (cleared fixed t, free a (at_blk t)) (clear_events (if cb then live t else [])).
  Proof.
    intros I. unfold clear. destruct cb.
    - rewrite (walk_seq_live t (proj1 I)).
      rewrite revisits_false; auto. apply (inv_nodup _ _ t (proj1 I)).
    - reflexivity.
  Qed.

  (** ** capacity changes *)

  Lemma lv_repeat_junk k : lv (repeat junk k) = [].
  Proof. induction k; simpl; auto. Qed.

  Lemma resize_list_length bs n : length (resize_list bs n) = n.
  Proof. unfold resize_list. rewrite app_length, firstn_length, repeat_length. lia. Qed.

  Lemma nth_error_repeat {A} (x : A) k i : (i < k)%nat -> nth_error (repeat x k) i = Some x.
  Proof. revert i. induction k; intros [|i] H; simpl; try lia; auto. apply IHk. lia. Qed.

  Lemma nth_error_resize_list bs n i b :
    nth_error (resize_list bs n) i = Some b ->
    nth_error bs i = Some b \/ ((length bs <= i)%nat /\ b = junk).
  Proof.
    unfold resize_list. intros H.
    destruct (Nat.lt_ge_cases i (length (firstn n bs))) as [Hl|Hg].
    - rewrite nth_error_app1 in H by auto. left.
      rewrite <- (firstn_skipn n bs) at 1. rewrite nth_error_app1; auto.
    - rewrite nth_error_app2 in H by auto. right.
      assert (Hin := nth_error_In _ _ H). apply repeat_spec in Hin. split; auto.
      apply nth_error_some_lt in H. rewrite repeat_length in H.
      rewrite firstn_length in *. lia.
  Qed.

  Lemma nth_error_resize_list_lt bs n i :
    (i < n)%nat -> (i < length bs)%nat -> nth_error (resize_list bs n) i = nth_error bs i.
  Proof.
    intros H1 H2. unfold resize_list. rewrite nth_error_app1 by (rewrite firstn_length; lia).
    rewrite <- (firstn_skipn n bs) at 2. rewrite nth_error_app1; auto. rewrite firstn_length; lia.
  Qed.

  (** changing the capacity to [sz] keeps the invariant as long as the
      buckets in use and every node are below [sz] *)
  Lemma invw_recap t b sz :
    invw t -> bcount t <= sz -> (rhash t <> None -> rcount t <= sz) -> sz <= MAX_BUCKETS ->
    (forall i bk e, nth_error (bks t) i = Some bk -> In e (chain bk) -> (i < N.to_nat sz)%nat) ->
    let t' := mkT (Some b) (resize_list (bks t) (N.to_nat sz)) (bcount t) sz (hash t) (cst t)
                  (rcount t) (rclean t) (rhash t) (size t) in
    invw t' /\ live t' = live t.
  Proof.
    intros I Hc Hr Hm Hn t'.
    assert (El : live t' = live t).
    { unfold t'. rewrite !live_lv. simpl. unfold resize_list. rewrite lv_app, lv_repeat_junk, app_nil_r.
      apply concat_nil_tail. intros i bk Hi Hb. destruct (chain bk) as [|e r] eqn:Ec; auto.
      specialize (Hn i bk e Hb ltac:(rewrite Ec; now left)). lia. }
    split; auto. pose proof (inv_shape _ _ t I) as S. split.
    - split; simpl; auto.
      + apply resize_list_length.
      + apply (sh_pos t S).
      + apply (sh_none t S).
      + intros Hp. destruct (sh_rh t S Hp). auto.
      + congruence.
    - intros i bk e Hb He. unfold t' in Hb. simpl in Hb.
      destruct (nth_error_resize_list _ _ _ _ Hb) as [Hb'|(_ & ->)]; [|destruct He].
      pose proof (inv_placed _ _ t I i bk e Hb' He) as O. unfold ok_at in *. simpl. exact O.
    - intros Hp. simpl in Hp. destruct (inv_swept _ _ t I Hp) as (Hle & Hs). split; auto.
      intros i bk Hi Hb. unfold t' in Hb. simpl in *.
      destruct (nth_error_resize_list _ _ _ _ Hb) as [Hb'|(Hge & _)]; [eapply Hs; eauto|].
      rewrite (sh_len t S) in Hge. pose proof (sh_cnt t S). lia.
    - rewrite El. apply (inv_nodup _ _ t I).
    - rewrite El. apply (inv_size _ _ t I).
    - intros i bk Hb Hf. unfold t' in Hb. simpl in Hb.
      destruct (nth_error_resize_list _ _ _ _ Hb) as [Hb'|(Hge & _)].
      + apply (inv_fresh _ _ t I i bk Hb'). unfold fresh_range in *. simpl in Hf. exact Hf.
      + exfalso. rewrite (sh_len t S) in Hge. pose proof (sh_cnt t S).
        unfold fresh_range in Hf. simpl in Hf. destruct (rhash t) eqn:E; [|lia].
        destruct (sh_rh t S ltac:(congruence)). lia.
  Qed.

  Section WithAlloc.
    Variable ok : nat -> N -> bool.

    (** growing *)
    Lemma set_capacity_grow t a sz :
      inv t -> cap t < sz -> sz <= MAX_BUCKETS ->
      let p := set_capacity ok t a sz in
      inv (fst p) /\ live (fst p) = live t /\ size (fst p) = size t /\
      bcount (fst p) = bcount t /\ hash (fst p) = hash t /\ cst (fst p) = cst t /\
      rcount (fst p) = rcount t /\ rclean (fst p) = rclean t /\ rhash (fst p) = rhash t /\
      snd p = fst (realloc ok a (at_blk t) (BUCKET_BYTES * sz)) /\
      match snd (realloc ok a (at_blk t) (BUCKET_BYTES * sz)) with
      | Some b => cap (fst p) = sz /\ at_blk (fst p) = Some b
      | None => fst p = t
      end.
    Proof.
      intros [I Hlt] Hc Hm. unfold set_capacity.
      destruct (realloc ok a (at_blk t) (BUCKET_BYTES * sz)) as [a' [b|]]; simpl.
      2: { split; [split; auto|]. repeat split; auto. }
      pose proof (inv_shape _ _ t I) as S.
      destruct (invw_recap t b sz I) as (I' & El); auto.
      - pose proof (sh_cnt t S). lia.
      - intros Hp. destruct (sh_rh t S Hp). lia.
      - intros i bk e Hb He. apply nth_error_some_lt in Hb. rewrite (sh_len t S) in Hb. lia.
      - split; [split; auto|]. repeat split; auto.
    Qed.

    (** ** resize *)

    Lemma init_loop_spec fuel : forall i c bs,
      (i + fuel <= length bs)%nat ->
      exists bs', init_loop fuel i c bs = Some bs' /\ length bs' = length bs /\
        (forall x, (x < i \/ i + fuel <= x)%nat -> nth_error bs' x = nth_error bs x) /\
        (forall x, (i <= x < i + fuel)%nat -> nth_error bs' x = Some (mkB [] c)).
    Proof.
      induction fuel as [|fu IH]; intros i c bs H; simpl.
      - exists bs. repeat split; auto. intros x Hx. lia.
      - destruct (Nat.ltb_spec i (length bs)); [|lia].
        destruct (IH (S i) c (upd bs i (mkB [] c))) as (bs' & E & L & Ho & Hi).
        { rewrite upd_length. lia. }
        exists bs'. rewrite upd_length in L. repeat split; auto.
        + intros x Hx. rewrite Ho by lia. apply nth_error_upd_other. lia.
        + intros x Hx. destruct (Nat.eq_dec x i) as [->|Hne].
          * rewrite Ho by lia. apply nth_error_upd_same. auto.
          * apply Hi. lia.
    Qed.

    (** the function a satisfiable request puts in force *)
    Definition new_hash (t : table) (f : option fn_id) : option fn_id :=
      match f with
      | Some g => Some g
      | None => match tgt_hash t with Some g => Some g | None => Some FN_MUL end
      end.

    Lemma settled_below t i b e :
      invw t -> rhash t = None -> nth_error (bks t) i = Some b -> In e (chain b) ->
      (i < N.to_nat (bcount t))%nat.
    Proof.
      intros I Hr Hb He. pose proof (node_below_bound t i b e I Hb He) as H.
      unfold walk_bound in H. simpl in H. now rewrite Hr in H.
    Qed.

    Lemma resize_spec t a n f :
      inv t -> n <= MAX_BUCKETS ->
      safe (resize hf key fixed ok t a n f) (fun p w =>
        let t' := fst p in
        inv t' /\ Permutation (live t') (live t) /\ size t' = size t /\
        (0 < n -> n <= cap t' -> tgt_count t' = n /\ tgt_hash t' = new_hash t f) /\
        (cap t' < n -> t' = t) /\
        (n = 0 -> p = (t, a)) /\
        (0 < n -> snd p = if cap t <? n then fst (realloc ok a (at_blk t) (BUCKET_BYTES * n)) else a) /\
        (0 < n -> cap t < n ->
           match snd (realloc ok a (at_blk t) (BUCKET_BYTES * n)) with
           | Some b => at_blk t' = Some b /\ cap t' = n
           | None => t' = t
           end) /\
        (cap t >= n -> at_blk t' = at_blk t /\ cap t' = cap t) /\
        clears w = [] /\ visits w = [] /\ offers w = [] /\
        (hash t = None -> rhash t' = None)).
    Proof.
      intros I Hm. unfold resize.
      destruct (N.ltb_spec 0 n) as [Hn|Hn]; simpl.
      2: { split; auto. split; auto. split; auto. split; [lia|]. split; [lia|].
           repeat (split; [first [reflexivity|lia|solve [auto]]|]).
           intros Hh0. apply (sh_none t (inv_shape _ _ t (proj1 I)) Hh0). }
      (* capacity step *)
      set (p1 := if cap t <? n then set_capacity ok t a n else (t, a)).
      assert (H1 : inv (fst p1) /\ live (fst p1) = live t /\ size (fst p1) = size t /\
                   bcount (fst p1) = bcount t /\ hash (fst p1) = hash t /\ cst (fst p1) = cst t /\
                   rcount (fst p1) = rcount t /\ rclean (fst p1) = rclean t /\ rhash (fst p1) = rhash t /\
                   snd p1 = (if cap t <? n then fst (realloc ok a (at_blk t) (BUCKET_BYTES * n)) else a) /\
                   (cap t < n -> match snd (realloc ok a (at_blk t) (BUCKET_BYTES * n)) with
                                 | Some b => cap (fst p1) = n /\ at_blk (fst p1) = Some b
                                 | None => fst p1 = t end) /\
                   (n <= cap t -> fst p1 = t)).
      { unfold p1. destruct (N.ltb_spec (cap t) n) as [Hlt|Hge].
        - destruct (set_capacity_grow t a n I Hlt Hm) as (A & B & C & D & E & F & G & H & J & K & L).
          repeat (split; [assumption|]). split; [auto|lia].
        - simpl. repeat (split; [solve [auto]|]). split; [lia|auto]. }
      destruct p1 as [t1 a1]. simpl in H1.
      destruct H1 as (I1 & L1 & Z1 & Ec1 & Eh1 & Et1 & Erc1 & Ecl1 & Erh1 & Ea1 & Hgrow & Hsame).
      assert (Tg1 : tgt_count t1 = tgt_count t /\ tgt_hash t1 = tgt_hash t).
      { unfold tgt_count, tgt_hash. rewrite Erh1, Erc1, Ec1, Eh1. auto. }
      destruct Tg1 as (Tc1 & Th1).
      pose proof (inv_shape _ _ t1 (proj1 I1)) as S1.
      (* facts about the capacity step that the conclusion needs, whichever branch is taken *)
      assert (Kcap : (0 < n -> cap t < n ->
                       match snd (realloc ok a (at_blk t) (BUCKET_BYTES * n)) with
                       | Some b => at_blk t1 = Some b /\ cap t1 = n
                       | None => t1 = t end) /\
                     (cap t >= n -> at_blk t1 = at_blk t /\ cap t1 = cap t)).
      { split.
        - intros _ Hlt. specialize (Hgrow Hlt).
          destruct (snd (realloc ok a (at_blk t) (BUCKET_BYTES * n))); tauto.
        - intros Hge. rewrite Hsame by lia. auto. }
      destruct Kcap as (Kc1 & Kc2).
      destruct (is_some (at_blk t1) && (n <=? cap t1)
                && (negb (n =? tgt_count t1) || is_some f && negb (fopt_eqb f (tgt_hash t1)))) eqn:Econd;
        simpl.
      2: { (* nothing changes beyond the capacity *)
        split; auto. split; [rewrite L1; auto|]. split; auto.
        split.
        { intros _ Hle. apply andb_false_iff in Econd. destruct Econd as [Econd|Econd].
          - apply andb_false_iff in Econd. destruct Econd as [Econd|Econd].
            + destruct (at_blk t1) eqn:Eat; [discriminate|].
              rewrite (sh_at t1 S1 Eat) in Hle. lia.
            + apply N.leb_gt in Econd. lia.
          - apply orb_false_iff in Econd. destruct Econd as (E1 & E2).
            apply negb_false_iff, N.eqb_eq in E1. split; [congruence|].
            rewrite Th1. unfold new_hash. destruct f as [g|]; simpl in E2.
            + apply negb_false_iff in E2. destruct (tgt_hash t1) as [g'|] eqn:Eg; simpl in E2; [|discriminate].
              apply Nat.eqb_eq in E2. congruence.
            + destruct (tgt_hash t) as [g'|] eqn:Eg; auto.
              exfalso. unfold tgt_hash, tgt_count in *.
              destruct (rhash t) eqn:Er; [discriminate|]. rewrite Erh1 in *.
              destruct (sh_none t (inv_shape _ _ t (proj1 I)) Eg) as (Hc0 & _). lia. }
        split.
        { intros Hlt. destruct (N.ltb_spec (cap t) n) as [Hl|Hg].
          - specialize (Hgrow Hl). destruct (snd (realloc ok a (at_blk t) (BUCKET_BYTES * n))); [|auto].
            destruct Hgrow as (Hc & _). lia.
          - auto. }
        split; [intros ->; lia|]. split; [auto|]. split; [exact Kc1|]. split; [exact Kc2|]. split; [auto|]. split; [auto|]. split; [auto|].
        intros Hh0. rewrite Erh1. apply (sh_none t (inv_shape _ _ t (proj1 I)) Hh0). }
      (* the request takes effect *)
      apply andb_true_iff in Econd. destruct Econd as (Econd & _).
      apply andb_true_iff in Econd. destruct Econd as (Eat & Ele).
      apply N.leb_le in Ele.
      pose proof (rehash_inv hf key Hdef t1 I1) as R.
      pose proof (internal_rehash hf key t1) as Hint.
      destruct (rehash hf key t1) as [t2 w2| |]; simpl in *; auto.
      specialize (Hint t2 w2 eq_refl).
      destruct R as (I2 & Hr2 & P2 & Hc2 & Hh2 & C2 & A2 & Z2 & T2 & Ln2 & _).
      pose proof (inv_shape _ _ t2 (proj1 I2)) as S2.
      destruct (init_loop_spec (N.to_nat n - N.to_nat (bcount t2)) (N.to_nat (bcount t2)) (negb (cst t2)) (bks t2))
        as (bs & Ei & Lb & Ho & Hi).
      { rewrite (sh_len t2 S2). pose proof (sh_cnt t2 S2). lia. }
      rewrite Ei.
      (* chains are untouched: the re-initialised buckets were empty *)
      assert (Hchain : forall x b, nth_error bs x = Some b ->
                exists b0, nth_error (bks t2) x = Some b0 /\ chain b = chain b0 /\
                           ((x < N.to_nat (bcount t2))%nat -> b = b0) /\
                           ((N.to_nat (bcount t2) <= x < N.to_nat n)%nat -> bbit b = negb (cst t2))).
      { intros x b Hb.
        destruct (Nat.lt_ge_cases x (N.to_nat (bcount t2))) as [Hl|Hg].
        - rewrite Ho in Hb by lia. exists b. repeat split; auto. lia.
        - destruct (Nat.lt_ge_cases x (N.to_nat n)) as [Hl2|Hg2].
          + rewrite Hi in Hb by lia. injection Hb as <-.
            destruct (nth_error_lt (bks t2) x) as (b0 & Hb0).
            { rewrite (sh_len t2 S2). lia. }
            exists b0. split; auto. split; [|split; [lia|auto]]. simpl.
            destruct (chain b0) as [|e r] eqn:Ec; auto.
            pose proof (settled_below t2 x b0 e (proj1 I2) Hr2 Hb0 ltac:(rewrite Ec; now left)). lia.
          + rewrite Ho in Hb by lia. exists b. repeat split; auto; lia. }
      assert (Elv : lv bs = lv (bks t2)).
      { unfold lv. f_equal. apply nth_error_ext_map. - congruence.
        - intros x b Hb. destruct (Hchain x b Hb) as (b0 & Hb0 & Ec & _). exists b0. auto. }
      assert (Pl : Permutation (lv bs) (live t)).
      { rewrite Elv, <- live_lv, P2, L1. auto. }
      destruct (hash t2) as [g2|] eqn:Eh2.
      - (* a rehash towards (n, f) starts *)
        set (rh := match f with Some g => Some g | None => Some g2 end).
        set (t3 := mkT (at_blk t2) bs (bcount t2) (cap t2) (Some g2) (negb (cst t2)) n 0 rh (size t2)).
        assert (Hrh : rh <> None) by (unfold rh; destruct f; congruence).
        assert (Hpos : 0 < bcount t2) by (apply (sh_pos t2 S2); congruence).
        split; [|split; [exact Pl|]].
        + split; [|simpl; intros _; exact Hpos]. split.
          * split; simpl; auto; try congruence.
            -- rewrite Lb. apply (sh_len t2 S2).
            -- apply (sh_cnt t2 S2).
            -- intros _. split; [auto|lia].
            -- apply (sh_max t2 S2).
            -- apply (sh_at t2 S2).
          * intros x b e Hb He. simpl in Hb. destruct (Hchain x b Hb) as (b0 & Hb0 & Ec & Hsame0 & _).
            rewrite Ec in He.
            pose proof (settled_below t2 x b0 e (proj1 I2) Hr2 Hb0 He) as Hlt.
            pose proof (inv_placed _ _ t2 (proj1 I2) x b0 e Hb0 He) as O. unfold ok_at in *.
            rewrite Hr2, Eh2 in O. simpl. destruct rh; [|congruence]. right.
            rewrite (Hsame0 Hlt). split; auto.
            rewrite (inv_fresh _ _ t2 (proj1 I2) x b0 Hb0) by (unfold fresh_range; rewrite Hr2; auto).
            destruct (cst t2); discriminate.
          * intros _. simpl. split; [lia|]. intros x b Hx. lia.
          * unfold live. simpl. fold (lv bs). eapply Permutation_NoDup; [symmetry; exact Pl|].
            apply (inv_nodup _ _ t (proj1 I)).
          * simpl. rewrite Z2, Z1. unfold live at 1. simpl. fold (lv bs).
            rewrite (Permutation_length Pl). apply (inv_size _ _ t (proj1 I)).
          * intros x b Hb Hf. simpl in Hb. unfold fresh_range in Hf. simpl in Hf.
            destruct rh; [|congruence].
            destruct (Hchain x b Hb) as (_ & _ & _ & _ & Hbit). simpl. apply Hbit. lia.
        + split; [simpl; congruence|].
          split.
          { intros _ _. unfold tgt_count, tgt_hash, new_hash. simpl.
            destruct rh eqn:Erh; [|congruence]. split; auto.
            unfold rh in Erh. rewrite <- Th1, <- Hh2. destruct f; congruence. }
          split; [simpl; intros; lia|]. split; [intros ->; lia|].
          split; [auto|]. split.
          { intros H0 Hlt. specialize (Kc1 H0 Hlt). simpl.
            destruct (snd (realloc ok a (at_blk t) (BUCKET_BYTES * n))); [|subst t1; lia].
            destruct Kc1. split; congruence. }
          split; [intros Hge; destruct (Kc2 Hge); simpl; split; congruence|].
          rewrite app_nil_r. rewrite (internal_clears _ Hint), (internal_visits _ Hint), (internal_offers _ Hint).
          split; [auto|]. split; [auto|]. split; [auto|]. intros Hh0. exfalso.
          assert (Er0 : rhash t = None) by apply (sh_none t (inv_shape _ _ t (proj1 I)) Hh0).
          unfold tgt_hash in Th1, Hh2. rewrite Er0 in Th1. rewrite Erh1, Er0 in Hh2. congruence.
      - (* first resize: the geometry is adopted at once *)
        destruct (sh_none t2 S2 Eh2) as (Hc0 & _).
        set (rh := match f with Some g => Some g | None => Some FN_MUL end).
        assert (Hrh : rh <> None) by (unfold rh; destruct f; congruence).
        assert (Hemp : forall x b, nth_error bs x = Some b -> chain b = []).
        { intros x b Hb. destruct (Hchain x b Hb) as (b0 & Hb0 & Ec & _). rewrite Ec.
          destruct (chain b0) as [|e r] eqn:Ec0; auto.
          pose proof (settled_below t2 x b0 e (proj1 I2) Hr2 Hb0 ltac:(rewrite Ec0; now left)). lia. }
        split; [|split; [exact Pl|]].
        + split; [|simpl; congruence]. split.
          * split; simpl; auto; try congruence.
            -- rewrite Lb. apply (sh_len t2 S2).
            -- apply (sh_max t2 S2).
            -- apply (sh_at t2 S2).
          * intros x b e Hb He. simpl in Hb. rewrite (Hemp x b Hb) in He. destruct He.
          * simpl. congruence.
          * unfold live. simpl. fold (lv bs). eapply Permutation_NoDup; [symmetry; exact Pl|].
            apply (inv_nodup _ _ t (proj1 I)).
          * simpl. rewrite Z2, Z1. unfold live at 1. simpl. fold (lv bs).
            rewrite (Permutation_length Pl). apply (inv_size _ _ t (proj1 I)).
          * intros x b Hb Hf. simpl in Hb. unfold fresh_range in Hf. simpl in Hf.
            destruct (Hchain x b Hb) as (_ & _ & _ & _ & Hbit). simpl. apply Hbit. lia.
        + split; [simpl; congruence|].
          split.
          { intros _ _. unfold tgt_count, tgt_hash, new_hash. simpl. split; auto.
            rewrite <- Th1, <- Hh2. unfold rh. destruct f; auto. }
          split; [simpl; intros; lia|]. split; [intros ->; lia|].
          split; [auto|]. split.
          { intros H0 Hlt. specialize (Kc1 H0 Hlt). simpl.
            destruct (snd (realloc ok a (at_blk t) (BUCKET_BYTES * n))); [|subst t1; lia].
            destruct Kc1. split; congruence. }
          split; [intros Hge; destruct (Kc2 Hge); simpl; split; congruence|].
          rewrite app_nil_r. rewrite (internal_clears _ Hint), (internal_visits _ Hint), (internal_offers _ Hint). auto.
    Qed.

    (** ** shrink_to_fit *)

    Lemma shrink_spec t a :
      inv t ->
      safe (shrink_to_fit hf key ok t a) (fun p w =>
        let t' := fst p in
        inv t' /\ Permutation (live t') (live t) /\ size t' = size t /\
        tgt_count t' = tgt_count t /\ tgt_hash t' = tgt_hash t /\
        (cap t <= tgt_count t -> p = (t, a)) /\
        (tgt_count t < cap t ->
           rhash t' = None /\
           snd p = fst (realloc ok a (at_blk t) (BUCKET_BYTES * tgt_count t)) /\
           match snd (realloc ok a (at_blk t) (BUCKET_BYTES * tgt_count t)) with
           | Some b => at_blk t' = Some b /\ cap t' = tgt_count t
           | None => at_blk t' = at_blk t /\ cap t' = cap t
           end) /\
        clears w = [] /\ visits w = [] /\ offers w = []).
    Proof.
      intros I. unfold shrink_to_fit.
      destruct (N.ltb_spec (tgt_count t) (cap t)) as [Hlt|Hge]; cbn [HashProofs.safe fst snd].
      2: { split; auto. split; auto. split; auto. split; auto. split; auto. split; auto.
           split; [lia|auto]. }
      pose proof (rehash_inv hf key Hdef t I) as R.
      pose proof (internal_rehash hf key t) as Hint.
      destruct (rehash hf key t) as [t1 w1| |]; cbn [bind HashProofs.safe fst snd] in *; auto.
      specialize (Hint t1 w1 eq_refl).
      destruct R as (I1 & Hr1 & P1 & Hc1 & Hh1 & C1 & A1 & Z1 & T1 & L1 & _).
      pose proof (inv_shape _ _ t1 (proj1 I1)) as S1.
      unfold set_capacity. rewrite A1, Hc1.
      assert (Tg : tgt_count t1 = tgt_count t /\ tgt_hash t1 = tgt_hash t).
      { unfold tgt_count at 1, tgt_hash at 1. rewrite Hr1. auto. }
      destruct Tg as (Tg1 & Tg2).
      rewrite app_nil_r, (internal_clears _ Hint), (internal_visits _ Hint), (internal_offers _ Hint).
      destruct (realloc ok a (at_blk t) (BUCKET_BYTES * tgt_count t)) as [a' [b|]]; cbn [fst snd].
      - destruct (invw_recap t1 b (bcount t1) (proj1 I1)) as (I' & El); try lia.
        + rewrite Hr1. congruence.
        + pose proof (sh_cnt t1 S1). pose proof (sh_max t1 S1). lia.
        + intros i bk e Hb He. eapply settled_below; eauto. apply (proj1 I1).
        + rewrite Hc1 in *. split; [split; [exact I'|simpl; congruence]|].
          split; [rewrite El; auto|]. split; [simpl; auto|].
          split; [unfold tgt_count; simpl; now rewrite Hr1|].
          split; [unfold tgt_hash at 1; simpl; rewrite Hr1; congruence|].
          split; [lia|]. split; [intros _; simpl; auto|auto].
      - split; auto. split; auto. split; auto. split; auto. split; auto.
        split; [lia|]. split; [intros _; auto|auto].
    Qed.
  End WithAlloc.
End Table.
