(** Refutations: properties that the faithful model of the code *as found*
    (before the "fix:" commits in /repo) does not satisfy, each with a
    concrete witness computed by the kernel. *)
From Cstl Require Import Prelude SListModel.

(** F5 / C13: cstl_slist_pop_front on an empty list dereferenced NULL. *)
Theorem F5_pop_front_empty_refuted :
  exists key n, SListModel.step key true (sys_init n) (PopFront 0) = Fault.
Proof. exists (fun _ => 0%Z), 1%nat. vm_compute. reflexivity. Qed.
