(** C17 (a) — executable models of the two built-in hash functions of
    src/hash.c.

      size_t cstl_hash_div(const size_t k, const size_t m) { return k % m; }

      size_t cstl_hash_mul(const size_t k, const size_t m)
      {
          static const float phi = 1.61803398875f;
          const float M = phi * k;
          return (M - floorf(M)) * m;
      }

    [hash_mul] transcribes the second one operation by operation in IEEE-754
    binary32 with round-to-nearest-even (Flocq's executable
    [BinarySingleNaN], prec = 24, emax = 128):

      (float)k, (float)m   [binary_normalize mode_NE n 0]   (usual arithmetic
                           conversions: size_t operand of a float operator)
      phi                  the float the literal denotes: 0x3FCF1BBD =
                           13573053 * 2^-23 (checked against gcc by the driver)
      phi * k              [Bmult mode_NE]
      floorf(M)            [Bnearbyint mode_DN]
      M - floorf(M)        [Bminus mode_NE]
      (...) * m            [Bmult mode_NE]
      (size_t) of return   [Btrunc] (truncation toward zero)

    FLT_EVAL_METHOD == 0 (every operation rounded to binary32) and the default
    rounding direction are assumptions about the target, checked by
    harness/drv_hashfn.c on every run.

    This file is deliberately NOT named *Model.v: it is not extracted.  The
    correspondence check evaluates it inside Coq with [vm_compute]
    (DESIGN.md 5.2), so extraction of Flocq is not in the trusted base. *)
From Coq Require Import ZArith NArith List.
From Flocq Require Import Core IEEE754.BinarySingleNaN.

Definition prec : Z := 24.
Definition emax : Z := 128.

#[global] Instance prec_gt_0_32 : Prec_gt_0 prec.
Proof. reflexivity. Qed.
#[global] Instance prec_lt_emax_32 : Prec_lt_emax prec emax.
Proof. reflexivity. Qed.

Definition float32 : Set := binary_float prec emax.

(** [(float)n] for an unsigned integer [n] *)
Definition of_uint (n : Z) : float32 := binary_normalize prec emax _ _ mode_NE n 0 false.

(** [1.61803398875f] = 0x3FCF1BBD *)
Definition phi_mant : positive := 13573053.
Lemma phi_bounded : SpecFloat.bounded prec emax phi_mant (-23) = true.
Proof. reflexivity. Qed.
Definition phi : float32 := B754_finite false phi_mant (-23) phi_bounded.

(** the float value computed by the return expression, before the implicit
    conversion to [size_t] *)
Definition hash_mul_float (k m : Z) : float32 :=
  let M  := Bmult mode_NE phi (of_uint k) in
  let fl := Bnearbyint mode_DN M in
  let fr := Bminus mode_NE M fl in
  Bmult mode_NE fr (of_uint m).

(** [cstl_hash_mul].  The conversion float -> size_t is defined by C99
    6.3.1.4 only when the truncated value is representable;
    [HashMulProofs.hash_mul_float_finite] and [hash_mul_range] show that it
    always is (finite, in [0, m)). *)
Definition hash_mul (k m : Z) : Z := Btrunc (hash_mul_float k m).

(** The conversion made explicit: [None] = the C conversion would be
    undefined (NaN, infinity, or truncated value outside [0, 2^64)). *)
Definition hash_mul_checked (k m : Z) : option Z :=
  let r := hash_mul_float k m in
  let t := Btrunc r in
  if (is_finite r && (0 <=? t) && (t <? 2 ^ 64))%bool%Z then Some t else None.

(** [cstl_hash_div]; [m = 0] is division by zero in C (outside the property:
    table sizes are at least 1) *)
Definition hash_div (k m : N) : N := N.modulo k m.

(** [size_t] view of [hash_mul], for use as a hash function of the table
    model (keys and sizes are [N] there) *)
Definition hash_mul_N (k m : N) : N := Z.to_N (hash_mul (Z.of_N k) (Z.of_N m)).

(** bit pattern of a finite, positive, normal binary32 (used only to compare
    [phi] with the constant the compiler emits for the literal) *)
Definition bits_of_normal (x : float32) : Z :=
  match x with
  | B754_finite false m e _ => ((e + 23 + 127) * 2 ^ 23 + (Zpos m - 2 ^ 23))%Z
  | _ => (-1)%Z
  end.
Definition phi_bits : Z := bits_of_normal phi.

(** The range check every bucket lookup of src/hash.c goes through
    (__cstl_hash_get_bucket, used with the current and with the pending
    geometry):

      const size_t i = hash(k, count);
      if (i >= count) { abort(); }
      return &h->bucket.at[i];

    [None] = abort(); [Some i] = the bucket index that is dereferenced.  The
    hash function is arbitrary (caller supplied). *)
Definition get_bucket (hash : N -> N -> N) (k count : N) : option N :=
  let i := hash k count in
  if (count <=? i)%N then None else Some i.
