(** Proofs about DListModel.v, part 1: memory lemmas, the representation
    predicate [ring], framing, the mirror heap [flip], raw traversals, and
    the two primitives __cstl_dlist_insert / __cstl_dlist_erase. *)
From Cstl Require Import Prelude DListModel.

(** * Field views of the memory *)

Definition gnx (h : heap) (a : addr) : option addr := option_map nx (hm h a).
Definition gpv (h : heap) (a : addr) : option addr := option_map pv (hm h a).
Definition valid (h : heap) (a : addr) : Prop := hm h a <> None.

Lemma valid_gnx h a : valid h a <-> gnx h a <> None.
Proof. unfold valid, gnx. destruct (hm h a); simpl; split; congruence. Qed.
Lemma valid_gpv h a : valid h a <-> gpv h a <> None.
Proof. unfold valid, gpv. destruct (hm h a); simpl; split; congruence. Qed.
Lemma gnx_valid h a b : gnx h a = Some b -> valid h a.
Proof. intros E. apply valid_gnx. congruence. Qed.
Lemma gpv_valid h a b : gpv h a = Some b -> valid h a.
Proof. intros E. apply valid_gpv. congruence. Qed.

Lemma rnx_gnx h a b : gnx h a = Some b -> rnx h a = Ok b.
Proof. unfold gnx, rnx. destruct (hm h a); simpl; congruence. Qed.
Lemma rpv_gpv h a b : gpv h a = Some b -> rpv h a = Ok b.
Proof. unfold gpv, rpv. destruct (hm h a); simpl; congruence. Qed.
Lemma rnx_inv h a b : rnx h a = Ok b -> gnx h a = Some b.
Proof. unfold gnx, rnx. destruct (hm h a); simpl; congruence. Qed.
Lemma rpv_inv h a b : rpv h a = Ok b -> gpv h a = Some b.
Proof. unfold gpv, rpv. destruct (hm h a); simpl; congruence. Qed.

(** [h'] is [h] with the field [nx] (resp. [pv]) of [a] set to [v] *)
Definition is_wnx (h : heap) (a v : addr) (h' : heap) : Prop :=
  (forall x, gnx h' x = if Nat.eqb x a then Some v else gnx h x) /\
  (forall x, gpv h' x = gpv h x) /\ hs h' = hs h.
Definition is_wpv (h : heap) (a v : addr) (h' : heap) : Prop :=
  (forall x, gnx h' x = gnx h x) /\
  (forall x, gpv h' x = if Nat.eqb x a then Some v else gpv h x) /\ hs h' = hs h.

Lemma wnx_spec h a v : valid h a -> exists h', wnx h a v = Ok h' /\ is_wnx h a v h'.
Proof.
  unfold valid, wnx, is_wnx, gnx, gpv. destruct (hm h a) as [c|] eqn:E; [|congruence]. intros _.
  eexists; split; [reflexivity|]. simpl. unfold setm. repeat split; intros x.
  - destruct (Nat.eqb_spec x a); subst; simpl; auto.
  - destruct (Nat.eqb_spec x a); subst; simpl; auto. rewrite E; auto.
Qed.
Lemma wpv_spec h a v : valid h a -> exists h', wpv h a v = Ok h' /\ is_wpv h a v h'.
Proof.
  unfold valid, wpv, is_wpv, gnx, gpv. destruct (hm h a) as [c|] eqn:E; [|congruence]. intros _.
  eexists; split; [reflexivity|]. simpl. unfold setm. repeat split; intros x.
  - destruct (Nat.eqb_spec x a); subst; simpl; auto. rewrite E; auto.
  - destruct (Nat.eqb_spec x a); subst; simpl; auto.
Qed.

Lemma is_wnx_valid h a v h' x : is_wnx h a v h' -> valid h a -> (valid h' x <-> valid h x).
Proof.
  intros (Hn & Hp & _) Va. rewrite !valid_gpv, Hp. tauto.
Qed.
Lemma is_wpv_valid h a v h' x : is_wpv h a v h' -> valid h a -> (valid h' x <-> valid h x).
Proof.
  intros (Hn & Hp & _) Va. rewrite !valid_gnx, Hn. tauto.
Qed.

(** cells outside [a] are untouched by a field write *)
Lemma wnx_hm h a v h' x : wnx h a v = Ok h' -> x <> a -> hm h' x = hm h x.
Proof.
  unfold wnx. destruct (hm h a); [|discriminate]. intros [= <-] Hx. simpl. unfold setm.
  destruct (Nat.eqb_spec x a); congruence.
Qed.
Lemma wpv_hm h a v h' x : wpv h a v = Ok h' -> x <> a -> hm h' x = hm h x.
Proof.
  unfold wpv. destruct (hm h a); [|discriminate]. intros [= <-] Hx. simpl. unfold setm.
  destruct (Nat.eqb_spec x a); congruence.
Qed.

Lemma gnx_wsz h l v x : gnx (wsz h l v) x = gnx h x. Proof. reflexivity. Qed.
Lemma gpv_wsz h l v x : gpv (wsz h l v) x = gpv h x. Proof. reflexivity. Qed.
Lemma hm_wsz h l v : hm (wsz h l v) = hm h. Proof. reflexivity. Qed.
Lemma rsz_wsz_same h l v : rsz (wsz h l v) l = v.
Proof. unfold rsz, wsz; simpl. rewrite Nat.eqb_refl; auto. Qed.
Lemma rsz_wsz_other h l v x : x <> l -> rsz (wsz h l v) x = rsz h x.
Proof. unfold rsz, wsz; simpl. intros H. destruct (Nat.eqb_spec x l); congruence. Qed.

(** two heaps with the same links at [x] *)
Lemma hm_eq_fields h h' x : hm h' x = hm h x -> gnx h' x = gnx h x /\ gpv h' x = gpv h x.
Proof. unfold gnx, gpv. intros ->; auto. Qed.
Lemma fields_eq_hm h h' x : gnx h' x = gnx h x -> gpv h' x = gpv h x -> hm h' x = hm h x.
Proof.
  unfold gnx, gpv. destruct (hm h' x) as [[a b]|], (hm h x) as [[c d]|]; simpl; congruence.
Qed.

(** * Paths and rings *)

Definition link (h : heap) (a b : addr) : Prop := gnx h a = Some b /\ gpv h b = Some a.

(** [a -> l1 -> l2 -> ...]: every step is linked in both directions *)
Fixpoint path (h : heap) (a : addr) (l : list addr) : Prop :=
  match l with
  | [] => True
  | b :: r => link h a b /\ path h b r
  end.

(** The representation predicate: starting at the head node [hd] the [nx]
    links spell [l] and return to [hd], every [pv] link is the inverse of the
    [nx] link arriving at the node, and no node occurs twice. *)
Definition ring (h : heap) (hd : addr) (l : list addr) : Prop :=
  NoDup (hd :: l) /\ path h hd (l ++ [hd]).

Lemma last_cons_def {A} (x : A) l d d' : last (x :: l) d = last (x :: l) d'.
Proof. revert x; induction l as [|y r IH]; intros x; simpl; auto. simpl in IH. apply IH. Qed.
Lemma last_cons {A} (x : A) l d : last (x :: l) d = last l x.
Proof. destruct l as [|y r]; auto. change (last (x :: y :: r) d) with (last (y :: r) d). apply last_cons_def. Qed.
Lemma last_app1 {A} (l : list A) x d : last (l ++ [x]) d = x.
Proof. induction l as [|y r IH]; simpl; auto. destruct (r ++ [x]) eqn:E; auto. destruct r; discriminate. Qed.
Lemma last_In {A} (l : list A) d : l <> [] -> In (last l d) l.
Proof.
  induction l as [|y r IH]; [congruence|]. intros _. destruct r; [left; auto|].
  right. apply IH. congruence.
Qed.
Lemma last_In_cons {A} (l : list A) d : In (last l d) (d :: l).
Proof. destruct l; [left; auto|]. right. apply last_In. congruence. Qed.

Lemma path_app h l1 : forall a l2,
  path h a (l1 ++ l2) <-> path h a l1 /\ path h (last l1 a) l2.
Proof.
  induction l1 as [|b r IH]; intros a l2; [simpl; tauto|].
  rewrite last_cons. simpl. rewrite IH. tauto.
Qed.

Lemma path_snoc h a l z : path h a (l ++ [z]) <-> path h a l /\ link h (last l a) z.
Proof. rewrite path_app. simpl. tauto. Qed.

Lemma path_valid h a l x : path h a l -> In x l -> valid h x.
Proof.
  revert a; induction l as [|b r IH]; intros a P I; [destruct I|].
  destruct P as ((_ & Pv) & P). destruct I as [<-|I]; eauto using gpv_valid.
Qed.
Lemma path_valid_start h a l : path h a l -> l <> [] -> valid h a.
Proof. destruct l; [congruence|]. intros ((Nx & _) & _) _. eauto using gnx_valid. Qed.

Lemma ring_valid h hd l x : ring h hd l -> In x (hd :: l) -> valid h x.
Proof.
  intros (_ & P) I. apply (path_valid h hd (l ++ [hd])); auto.
  rewrite in_app_iff. simpl in *. tauto.
Qed.

(** [path h a l] reads the [nx] field of [a] and of all of [l] but its last
    node, and the [pv] field of all of [l] *)
Lemma path_frame h h' l : forall a,
  (forall y, In y (a :: removelast l) -> gnx h' y = gnx h y) ->
  (forall y, In y l -> gpv h' y = gpv h y) ->
  path h a l -> path h' a l.
Proof.
  induction l as [|b r IH]; intros a Hn Hp P; simpl; auto.
  destruct P as ((Nx & Pv) & P). split.
  - split; [rewrite Hn; auto; left; auto | rewrite Hp; auto; left; auto].
  - destruct r as [|c r]; [exact I|]. apply IH; auto.
    + intros y Hy. apply Hn. right. exact Hy.
    + intros y Hy. apply Hp. right; auto.
Qed.

Lemma path_frame_hm h h' l a :
  (forall y, In y (a :: l) -> hm h' y = hm h y) -> path h a l -> path h' a l.
Proof.
  intros H. apply path_frame.
  - intros y [<-|Hy]; apply hm_eq_fields, H; [left; auto|right].
    clear -Hy. induction l as [|b r IH]; [destruct Hy|]. destruct r; [destruct Hy|].
    destruct Hy as [<-|Hy]; [left; auto|right; auto].
  - intros y Hy. apply hm_eq_fields, H. right; auto.
Qed.

Lemma ring_frame h h' hd l :
  (forall y, In y (hd :: l) -> hm h' y = hm h y) -> ring h hd l -> ring h' hd l.
Proof.
  intros H (N & P). split; auto. revert P. apply path_frame_hm.
  intros y Hy. apply H. simpl in Hy. rewrite in_app_iff in Hy. simpl in *. tauto.
Qed.

(** neighbours of the nodes of a ring *)
Definition hd_or (l : list addr) (d : addr) : addr := match l with [] => d | x :: _ => x end.

Lemma path_first h a l : path h a l -> l <> [] -> gnx h a = Some (hd_or l a).
Proof. destruct l; [congruence|]. intros ((Nx & _) & _) _. auto. Qed.

Lemma ring_head_nx h hd l : ring h hd l -> gnx h hd = Some (hd_or l hd).
Proof. intros (_ & P). destruct l; simpl in P; destruct P as ((Nx & _) & _); auto. Qed.
Lemma ring_head_pv h hd l : ring h hd l -> gpv h hd = Some (last l hd).
Proof. intros (_ & P). apply path_snoc in P. destruct P as (_ & (_ & Pv)). auto. Qed.

Lemma ring_mid h hd l1 c l2 :
  ring h hd (l1 ++ c :: l2) ->
  gnx h c = Some (hd_or l2 hd) /\ gpv h c = Some (last l1 hd).
Proof.
  intros (_ & P). rewrite <- app_assoc in P. simpl in P.
  apply path_app in P. destruct P as (P1 & P2). simpl in P2. destruct P2 as ((_ & Pv) & P2). split; auto.
  destruct l2; simpl in P2; destruct P2 as ((Nx & _) & _); auto.
Qed.

(** * The mirror heap: [nx] and [pv] exchanged *)

Definition flip (h : heap) : heap :=
  mkH (fun a => option_map (fun c => mkN (pv c) (nx c)) (hm h a)) (hs h).

Lemma gnx_flip h a : gnx (flip h) a = gpv h a.
Proof. unfold gnx, gpv, flip; simpl. destruct (hm h a); auto. Qed.
Lemma gpv_flip h a : gpv (flip h) a = gnx h a.
Proof. unfold gnx, gpv, flip; simpl. destruct (hm h a); auto. Qed.
Lemma link_flip h a b : link (flip h) a b <-> link h b a.
Proof. unfold link. rewrite gnx_flip, gpv_flip. tauto. Qed.

Lemma path_flip h l : forall a z,
  path h a (l ++ [z]) <-> path (flip h) z (rev l ++ [a]).
Proof.
  induction l as [|b r IH]; intros a z; simpl.
  - rewrite link_flip. tauto.
  - rewrite (path_snoc (flip h) z (rev r ++ [b]) a). rewrite last_app1, link_flip, <- IH. tauto.
Qed.

Lemma NoDup_rev {A} (l : list A) : NoDup l -> NoDup (rev l).
Proof. intros H. eapply Permutation_NoDup; [apply Permutation_rev|auto]. Qed.

Lemma ring_flip h hd l : ring h hd l <-> ring (flip h) hd (rev l).
Proof.
  unfold ring. rewrite (path_flip h l hd hd). split; intros (N & P); split; auto.
  - inversion N; subst. constructor; [rewrite <- in_rev; auto|apply NoDup_rev; auto].
  - inversion N; subst. constructor; [rewrite in_rev; auto|].
    rewrite <- (rev_involutive l). apply NoDup_rev; auto.
Qed.

Lemma rd_flip d h a : rd d (flip h) a = rd (match d with Fwd => Rev | Rev => Fwd end) h a.
Proof. destruct d; unfold rd, rnx, rpv, flip; simpl; destruct (hm h a); auto. Qed.

(** * Raw traversals: forward walk = the sequence, backward walk = its mirror *)

Lemma walk_path h hd l : forall a fuel,
  path h a (l ++ [hd]) -> ~ In hd l -> length l <= fuel ->
  walk Fwd h hd fuel (hd_or l hd) = l.
Proof.
  induction l as [|b r IH]; intros a fuel P NI Hf; simpl.
  - destruct fuel; simpl; rewrite Nat.eqb_refl; auto.
  - simpl in P. destruct P as (_ & P).
    destruct fuel; [simpl in Hf; lia|]. simpl.
    destruct (Nat.eqb_spec b hd) as [->|_]; [exfalso; apply NI; left; auto|].
    assert (gnx h b = Some (hd_or r hd)) as E.
    { destruct r; simpl in P; destruct P as ((Nx & _) & _); auto. }
    rewrite (rnx_gnx _ _ _ E). f_equal. apply (IH b); auto.
    + intros I; apply NI; right; auto.
    + simpl in Hf; lia.
Qed.

Theorem traverse_fwd h hd l fuel :
  ring h hd l -> length l <= fuel -> traverse Fwd h hd fuel = l.
Proof.
  intros R Hf. unfold traverse. simpl. rewrite (rnx_gnx _ _ _ (ring_head_nx _ _ _ R)).
  destruct R as (N & P). apply (walk_path h hd l hd); auto. inversion N; auto.
Qed.

Lemma walk_flip h hd fuel : forall c, walk Rev h hd fuel c = walk Fwd (flip h) hd fuel c.
Proof.
  induction fuel as [|f IH]; intros c; simpl; auto.
  destruct (Nat.eqb c hd); auto.
  change (rnx (flip h) c) with (rd Fwd (flip h) c). rewrite rd_flip.
  simpl. destruct (rpv h c); auto. rewrite IH; auto.
Qed.

Theorem traverse_rev h hd l fuel :
  ring h hd l -> length l <= fuel -> traverse Rev h hd fuel = rev l.
Proof.
  intros R Hf. apply ring_flip in R.
  rewrite <- (traverse_fwd (flip h) hd (rev l) fuel R) by (rewrite rev_length; auto).
  unfold traverse. change (rd Fwd (flip h) hd) with (rnx (flip h) hd).
  change (rnx (flip h) hd) with (rd Fwd (flip h) hd). rewrite rd_flip. simpl.
  destruct (rpv h hd); auto. apply walk_flip.
Qed.

(** a ring determines its sequence *)
Lemma ring_fun h hd l l' : ring h hd l -> ring h hd l' -> l = l'.
Proof.
  intros R R'.
  transitivity (traverse Fwd h hd (length l + length l'));
    [symmetry; apply traverse_fwd | apply traverse_fwd]; auto; lia.
Qed.

(** * Rings as sets of links

    [pairs a l] lists the consecutive pairs of [a :: l]; a path is a list of
    links.  An operation of dlist.c replaces a few links and writes only the
    [nx] field of the sources and the [pv] field of the targets of the links
    it replaces (and fields of nodes that are not part of the structure), so
    all other links survive: [keep_part]. *)

Definition pairs (a : addr) (l : list addr) : list (addr * addr) := combine (a :: l) l.
Definition linkp (h : heap) (p : addr * addr) : Prop := link h (fst p) (snd p).

Lemma pairs_cons a b r : pairs a (b :: r) = (a, b) :: pairs b r.
Proof. reflexivity. Qed.
Lemma pairs_nil a : pairs a [] = [].
Proof. reflexivity. Qed.

Lemma pairs_app l1 : forall a l2, pairs a (l1 ++ l2) = pairs a l1 ++ pairs (last l1 a) l2.
Proof.
  induction l1 as [|b r IH]; intros a l2; [reflexivity|].
  rewrite last_cons. change ((b :: r) ++ l2) with (b :: (r ++ l2)). rewrite !pairs_cons, IH. reflexivity.
Qed.

Lemma path_pairs h l : forall a, path h a l <-> Forall (linkp h) (pairs a l).
Proof.
  induction l as [|b r IH]; intros a.
  - simpl. split; auto. intros _. constructor.
  - rewrite pairs_cons. simpl. rewrite IH. split.
    + intros (L & F). constructor; auto.
    + intros F. inversion F; subst. auto.
Qed.

Lemma map_snd_pairs l : forall a, map snd (pairs a l) = l.
Proof. induction l as [|b r IH]; intros a; [reflexivity|]. rewrite pairs_cons. simpl. rewrite IH; auto. Qed.
Lemma map_fst_pairs l : forall a z, map fst (pairs a (l ++ [z])) = a :: l.
Proof.
  induction l as [|b r IH]; intros a z; [reflexivity|].
  change ((b :: r) ++ [z]) with (b :: (r ++ [z])). rewrite pairs_cons. simpl. rewrite IH; auto.
Qed.

Lemma NoDup_snoc {A} (l : list A) x : NoDup (x :: l) -> NoDup (l ++ [x]).
Proof.
  intros H. eapply Permutation_NoDup; [|exact H].
  change (x :: l) with ([x] ++ l). apply Permutation_app_comm.
Qed.

(** the cyclic list of links of a ring *)
Definition cpairs (hd : addr) (l : list addr) := pairs hd (l ++ [hd]).

Lemma ring_pairs h hd l :
  ring h hd l <-> NoDup (hd :: l) /\ Forall (linkp h) (cpairs hd l).
Proof. unfold ring, cpairs. rewrite path_pairs. tauto. Qed.

Lemma cpairs_fst hd l : map fst (cpairs hd l) = hd :: l.
Proof. apply map_fst_pairs. Qed.
Lemma cpairs_snd hd l : map snd (cpairs hd l) = l ++ [hd].
Proof. apply map_snd_pairs. Qed.

Lemma NoDup_app_l {A} (a b : list A) : NoDup (a ++ b) -> NoDup a.
Proof. induction a as [|x a IH]; simpl; intros H; [constructor|]. inversion H; subst. constructor; auto. rewrite in_app_iff in *; tauto. Qed.
Lemma NoDup_app_r {A} (a b : list A) : NoDup (a ++ b) -> NoDup b.
Proof. induction a as [|x a IH]; simpl; intros H; auto. inversion H; auto. Qed.
Lemma NoDup_app_disj {A} (a b : list A) x : NoDup (a ++ b) -> In x a -> In x b -> False.
Proof.
  induction a as [|y a IH]; simpl; intros H Ia Ib; [auto|]. inversion H; subst.
  destruct Ia as [->|Ia]; [apply H2; rewrite in_app_iff; auto|eauto].
Qed.

Lemma NoDup_app_intro {A} (a b : list A) :
  NoDup a -> NoDup b -> (forall x, In x a -> In x b -> False) -> NoDup (a ++ b).
Proof.
  induction a as [|x a IH]; intros NA NB Dj; simpl; auto.
  inversion NA; subst. constructor.
  - rewrite in_app_iff. intros [I|I]; auto. apply (Dj x); auto. left; auto.
  - apply IH; auto. intros y I1 I2. apply (Dj y); auto. right; auto.
Qed.

(** The links [K] survive an update that writes [nx] only at [Wn] and [pv]
    only at [Wp], when [K] sits inside a link list [A ++ K ++ B] without
    repeated sources or targets and every written address is the source
    (resp. target) of a link outside [K], or not a source (target) at all. *)
Lemma keep_part h h' A K B Wn Wp :
  Forall (linkp h) K ->
  NoDup (map fst (A ++ K ++ B)) -> NoDup (map snd (A ++ K ++ B)) ->
  (forall x, ~ In x Wn -> gnx h' x = gnx h x) ->
  (forall x, ~ In x Wp -> gpv h' x = gpv h x) ->
  (forall x, In x Wn -> In x (map fst (A ++ B)) \/ ~ In x (map fst (A ++ K ++ B))) ->
  (forall x, In x Wp -> In x (map snd (A ++ B)) \/ ~ In x (map snd (A ++ K ++ B))) ->
  Forall (linkp h') K.
Proof.
  intros F Nf Ns Hn Hp In_n In_p.
  rewrite Forall_forall in *. intros p Ip. specialize (F p Ip). destruct F as (Fn & Fp).
  assert (forall (f : addr * addr -> addr) x, NoDup (map f (A ++ K ++ B)) ->
            In x (map f (A ++ B)) \/ ~ In x (map f (A ++ K ++ B)) -> f p <> x) as Sep.
  { intros f x N [I|I] E; subst x.
    - rewrite !map_app in *. rewrite in_app_iff in I. destruct I as [I|I].
      + eapply (NoDup_app_disj (map f A)); [exact N|exact I|].
        rewrite in_app_iff. left. apply in_map; auto.
      + apply NoDup_app_r in N. eapply (NoDup_app_disj (map f K)); [exact N| |exact I].
        apply in_map; auto.
    - apply I. apply in_map. rewrite !in_app_iff; auto. }
  split.
  - rewrite Hn; auto. intros I. apply (Sep fst _ Nf (In_n _ I)); auto.
  - rewrite Hp; auto. intros I. apply (Sep snd _ Ns (In_p _ I)); auto.
Qed.

(** * The two primitives, evaluated *)

Ltac inv_ok := repeat match goal with
  | H : Ok _ = Ok _ |- _ => inversion H; clear H; subst
  end.

(** __cstl_dlist_insert(l, p, n): closed form of the resulting memory *)
Lemma insert_eval h l p n q :
  gnx h p = Some q -> valid h n -> valid h q -> n <> p -> n <> q ->
  exists h', insert h l p n = Ok h' /\
    (forall x, gnx h' x = if Nat.eqb x p then Some n else if Nat.eqb x n then Some q else gnx h x) /\
    (forall x, gpv h' x = if Nat.eqb x q then Some n else if Nat.eqb x n then Some p else gpv h x) /\
    hs h' = hs (wsz h l (rsz h l + 1)%N).
Proof.
  intros Nx Vn Vq Np Nq. unfold insert.
  rewrite (rnx_gnx _ _ _ Nx).
  destruct (wnx_spec h n q Vn) as (h1 & E1 & W1). rewrite E1.
  assert (valid h1 n) as V1 by (apply (is_wnx_valid _ _ _ _ n W1); auto).
  destruct (wpv_spec h1 n p V1) as (h2 & E2 & W2). rewrite E2.
  destruct W1 as (N1 & P1 & S1), W2 as (N2 & P2 & S2).
  assert (gnx h2 n = Some q) as Nn by (rewrite N2, N1, Nat.eqb_refl; auto).
  rewrite (rnx_gnx _ _ _ Nn).
  assert (valid h2 q) as V2.
  { apply valid_gnx. rewrite N2, N1. destruct (Nat.eqb q n); [congruence|]. apply valid_gnx; auto. }
  destruct (wpv_spec h2 q n V2) as (h3 & E3 & (N3 & P3 & S3)). rewrite E3.
  assert (valid h3 p) as V3.
  { apply valid_gnx. rewrite N3, N2, N1. destruct (Nat.eqb p n); congruence. }
  destruct (wnx_spec h3 p n V3) as (h4 & E4 & (N4 & P4 & S4)). rewrite E4.
  eexists; split; [reflexivity|]. repeat split.
  - intros x. rewrite gnx_wsz, N4, N3, N2, N1. auto.
  - intros x. rewrite gpv_wsz, P4, P3, P2, P1. auto.
  - simpl. unfold rsz. rewrite S4, S3, S2, S1. auto.
Qed.

(** __cstl_dlist_erase(l, n) *)
Lemma erase_eval h l n nn np :
  gnx h n = Some nn -> gpv h n = Some np -> valid h nn -> valid h np ->
  exists h', erase h l n = Ok h' /\
    (forall x, gnx h' x = if Nat.eqb x np then Some nn else gnx h x) /\
    (forall x, gpv h' x = if Nat.eqb x nn then Some np else gpv h x) /\
    hs h' = hs (wsz h l (dec (rsz h l))).
Proof.
  intros Nx Pv Vn Vp. unfold erase.
  rewrite (rnx_gnx _ _ _ Nx), (rpv_gpv _ _ _ Pv).
  destruct (wpv_spec h nn np Vn) as (h1 & E1 & (N1 & P1 & S1)). rewrite E1.
  assert (gpv h1 n = Some np) as Pn by (rewrite P1; destruct (Nat.eqb n nn); auto).
  assert (gnx h1 n = Some nn) as Nn by (rewrite N1; auto).
  rewrite (rpv_gpv _ _ _ Pn), (rnx_gnx _ _ _ Nn).
  assert (valid h1 np) as V1 by (apply valid_gnx; rewrite N1; apply valid_gnx; auto).
  destruct (wnx_spec h1 np nn V1) as (h2 & E2 & (N2 & P2 & S2)). rewrite E2.
  eexists; split; [reflexivity|]. repeat split.
  - intros x. rewrite gnx_wsz, N2, N1. auto.
  - intros x. rewrite gpv_wsz, P2, P1. auto.
  - simpl. unfold rsz. rewrite S2, S1. auto.
Qed.

Lemma keep_X h h' X E Y Wn Wp :
  Forall (linkp h) (X ++ E ++ Y) ->
  NoDup (map fst (X ++ E ++ Y)) -> NoDup (map snd (X ++ E ++ Y)) ->
  (forall x, ~ In x Wn -> gnx h' x = gnx h x) ->
  (forall x, ~ In x Wp -> gpv h' x = gpv h x) ->
  (forall x, In x Wn -> In x (map fst (E ++ Y)) \/ ~ In x (map fst (X ++ E ++ Y))) ->
  (forall x, In x Wp -> In x (map snd (E ++ Y)) \/ ~ In x (map snd (X ++ E ++ Y))) ->
  Forall (linkp h') X.
Proof.
  intros F Nf Ns Hn Hp In_n In_p.
  apply (keep_part h h' [] X (E ++ Y) Wn Wp); auto.
  apply Forall_app in F. tauto.
Qed.

Lemma keep_Y h h' X E Y Wn Wp :
  Forall (linkp h) (X ++ E ++ Y) ->
  NoDup (map fst (X ++ E ++ Y)) -> NoDup (map snd (X ++ E ++ Y)) ->
  (forall x, ~ In x Wn -> gnx h' x = gnx h x) ->
  (forall x, ~ In x Wp -> gpv h' x = gpv h x) ->
  (forall x, In x Wn -> In x (map fst (X ++ E)) \/ ~ In x (map fst (X ++ E ++ Y))) ->
  (forall x, In x Wp -> In x (map snd (X ++ E)) \/ ~ In x (map snd (X ++ E ++ Y))) ->
  Forall (linkp h') Y.
Proof.
  intros F Nf Ns Hn Hp In_n In_p.
  apply (keep_part h h' (X ++ E) Y [] Wn Wp); rewrite ?app_nil_r, <- ?app_assoc; auto.
  apply Forall_app in F. destruct F as (_ & F). apply Forall_app in F. tauto.
Qed.

Lemma pairs_hd a l z :
  pairs a (l ++ [z]) = (a, hd_or l z) :: pairs (hd_or l z) (tl (l ++ [z])).
Proof. destruct l; reflexivity. Qed.

Lemma if_neq {A} x y (u v : A) : x <> y -> (if Nat.eqb x y then u else v) = v.
Proof. intros H. destruct (Nat.eqb_spec x y); congruence. Qed.

(** [forall x, ~ In x W -> g h' x = g h x] from a closed form [E] of [g h'] *)
Ltac wframe E :=
  let x := fresh "x" in let Hx := fresh "Hx" in
  intros x Hx; rewrite E;
  repeat (rewrite if_neq; [|intros ->; apply Hx; simpl; auto 10]); auto.

(** decomposition of the links of a ring around the node [n] *)
Lemma cpairs_mid hd l1 n l2 :
  cpairs hd (l1 ++ n :: l2) =
  pairs hd l1 ++ [(last l1 hd, n); (n, hd_or l2 hd)] ++ pairs (hd_or l2 hd) (tl (l2 ++ [hd])).
Proof.
  unfold cpairs. rewrite <- app_assoc. rewrite pairs_app. f_equal.
  change ((n :: l2) ++ [hd]) with (n :: (l2 ++ [hd])). rewrite pairs_cons, pairs_hd. reflexivity.
Qed.
(** ... and around the gap between [l1] and [l2] *)
Lemma cpairs_gap hd l1 l2 :
  cpairs hd (l1 ++ l2) =
  pairs hd l1 ++ [(last l1 hd, hd_or l2 hd)] ++ pairs (hd_or l2 hd) (tl (l2 ++ [hd])).
Proof.
  unfold cpairs. rewrite <- app_assoc. rewrite pairs_app. f_equal. apply pairs_hd.
Qed.

Lemma NoDup_remove_mid {A} (l1 l2 : list A) x : NoDup (l1 ++ x :: l2) -> NoDup (l1 ++ l2).
Proof. apply NoDup_remove_1. Qed.

(** ** __cstl_dlist_erase unlinks one node of a ring *)
Theorem erase_ring h l hd l1 n l2 :
  ring h hd (l1 ++ n :: l2) ->
  exists h', erase h l n = Ok h' /\ ring h' hd (l1 ++ l2) /\
    (forall x, x <> last l1 hd -> x <> hd_or l2 hd -> hm h' x = hm h x) /\
    (forall x, valid h' x <-> valid h x) /\
    hs h' = hs (wsz h l (dec (rsz h l))).
Proof.
  intros R. destruct (ring_mid _ _ _ _ _ R) as (Nx & Pv).
  set (np := last l1 hd) in *. set (nn := hd_or l2 hd) in *.
  assert (In np (hd :: l1 ++ n :: l2)) as Inp.
  { destruct (last_In_cons l1 hd) as [E|I]; [left; auto|right; rewrite in_app_iff; auto]. }
  assert (In nn (hd :: l1 ++ n :: l2)) as Inn.
  { unfold nn. destruct l2; simpl; auto. right. rewrite in_app_iff. simpl; auto. }
  destruct (erase_eval h l n nn np Nx Pv (ring_valid _ _ _ _ R Inn) (ring_valid _ _ _ _ R Inp))
    as (h' & E & N' & P' & S').
  exists h'. split; auto.
  assert (forall x, x <> np -> x <> nn -> hm h' x = hm h x) as Fr.
  { intros x H1 H2. apply fields_eq_hm; [rewrite N'|rewrite P']; apply if_neq; auto. }
  split; [|split; [exact Fr|split; auto]].
  - apply ring_pairs in R. destruct R as (ND & F). apply ring_pairs. split.
    { inversion ND; subst. constructor.
      - rewrite in_app_iff in *. simpl in *. tauto.
      - eapply NoDup_remove_mid; eauto. }
    pose proof (cpairs_fst hd (l1 ++ n :: l2)) as Mf. pose proof (cpairs_snd hd (l1 ++ n :: l2)) as Ms.
    rewrite cpairs_mid in F, Mf, Ms. fold np nn in F, Mf, Ms. rewrite cpairs_gap. fold np nn.
    assert (NoDup (l1 ++ n :: l2 ++ [hd])) as ND2.
    { change (l1 ++ n :: l2 ++ [hd]) with (l1 ++ (n :: l2) ++ [hd]). rewrite app_assoc. apply NoDup_snoc; auto. }
    rewrite <- Mf in ND. rewrite <- app_assoc in Ms. simpl in Ms. rewrite <- Ms in ND2.
    apply Forall_app; split; [|apply Forall_app; split].
    + eapply (keep_X h h' _ _ _ [np] [nn]); eauto.
      * wframe N'.
      * wframe P'.
      * intros x [<-|[]]. left. simpl. auto.
      * intros x [<-|[]]. left. simpl. auto.
    + constructor; [|constructor]. split; simpl; [rewrite N'|rewrite P']; rewrite Nat.eqb_refl; auto.
    + eapply (keep_Y h h' _ _ _ [np] [nn]); eauto.
      * wframe N'.
      * wframe P'.
      * intros x [<-|[]]. left. rewrite map_app, in_app_iff. simpl. auto.
      * intros x [<-|[]]. left. rewrite map_app, in_app_iff. simpl. auto.
  - intros x. rewrite !valid_gnx, N'. destruct (Nat.eqb_spec x np) as [->|]; [|tauto].
    split; [intros _|congruence]. apply valid_gnx. apply (ring_valid _ _ _ _ R Inp).
Qed.

Lemma ring_gap h hd l1 l2 :
  ring h hd (l1 ++ l2) -> link h (last l1 hd) (hd_or l2 hd).
Proof.
  intros R. apply ring_pairs in R. destruct R as (_ & F). rewrite cpairs_gap in F.
  apply Forall_app in F. destruct F as (_ & F). inversion F; auto.
Qed.

(** ** __cstl_dlist_insert links a new node into a ring, after position [l1] *)
Theorem insert_ring h l hd l1 l2 n :
  ring h hd (l1 ++ l2) -> valid h n -> ~ In n (hd :: l1 ++ l2) ->
  exists h', insert h l (last l1 hd) n = Ok h' /\ ring h' hd (l1 ++ n :: l2) /\
    (forall x, x <> last l1 hd -> x <> hd_or l2 hd -> x <> n -> hm h' x = hm h x) /\
    (forall x, valid h' x <-> valid h x) /\
    hs h' = hs (wsz h l (rsz h l + 1)%N).
Proof.
  intros R Vn Fn. destruct (ring_gap _ _ _ _ R) as (Nx & Pv).
  set (p := last l1 hd) in *. set (q := hd_or l2 hd) in *.
  assert (In p (hd :: l1 ++ l2)) as Ip.
  { destruct (last_In_cons l1 hd) as [E|I]; [left; auto|right; rewrite in_app_iff; auto]. }
  assert (In q (hd :: l1 ++ l2)) as Iq.
  { unfold q. destruct l2; simpl; auto. right. rewrite in_app_iff. simpl; auto. }
  assert (n <> p) as Np by (intros ->; auto).
  assert (n <> q) as Nq by (intros ->; auto).
  destruct (insert_eval h l p n q Nx Vn (ring_valid _ _ _ _ R Iq) Np Nq) as (h' & E & N' & P' & S').
  exists h'. split; auto.
  split; [|split; [|split; auto]].
  - apply ring_pairs in R. destruct R as (ND & F). apply ring_pairs. split.
    { inversion ND; subst. constructor.
      - rewrite in_app_iff in *. simpl in *. intros [I|[I|I]]; [tauto| |tauto].
        apply Fn. left; auto.
      - clear -H2 Fn. induction l1 as [|a r IH]; simpl in *.
        + constructor; auto.
        + inversion H2; subst. constructor.
          * rewrite in_app_iff in *. simpl. intros [I|[->|I]]; [tauto| |tauto]. apply Fn. right; left; auto.
          * apply IH; auto. intros [->|I]; apply Fn; auto. }
    pose proof (cpairs_fst hd (l1 ++ l2)) as Mf. pose proof (cpairs_snd hd (l1 ++ l2)) as Ms.
    rewrite cpairs_gap in F, Mf, Ms. fold p q in F, Mf, Ms. rewrite cpairs_mid. fold p q.
    assert (NoDup ((l1 ++ l2) ++ [hd])) as ND2 by (apply NoDup_snoc; auto).
    assert (~ In n ((l1 ++ l2) ++ [hd])) as Fn2.
    { rewrite in_app_iff. simpl in *. tauto. }
    rewrite <- Mf in ND, Fn. rewrite <- Ms in ND2, Fn2.
    apply Forall_app; split; [|apply Forall_app; split].
    + eapply (keep_X h h' _ _ _ [p; n] [q; n]); eauto.
      * wframe N'.
      * wframe P'.
      * intros x [<-|[<-|[]]]; [left; simpl; auto|right; auto].
      * intros x [<-|[<-|[]]]; [left; simpl; auto|right; auto].
    + constructor; [|constructor; [|constructor]]; split; simpl.
      * rewrite N', Nat.eqb_refl; auto.
      * rewrite P'. rewrite (if_neq n q); auto. rewrite Nat.eqb_refl; auto.
      * rewrite N'. rewrite (if_neq n p); auto. rewrite Nat.eqb_refl; auto.
      * rewrite P', Nat.eqb_refl; auto.
    + eapply (keep_Y h h' _ _ _ [p; n] [q; n]); eauto.
      * wframe N'.
      * wframe P'.
      * intros x [<-|[<-|[]]]; [left; rewrite map_app, in_app_iff; simpl; auto|right; auto].
      * intros x [<-|[<-|[]]]; [left; rewrite map_app, in_app_iff; simpl; auto|right; auto].
  - intros x H1 H2 H3. apply fields_eq_hm; [rewrite N'|rewrite P']; rewrite !if_neq; auto.
  - intros x. rewrite !valid_gnx, N'.
    destruct (Nat.eqb_spec x p) as [->|].
    { split; [intros _|congruence]. apply valid_gnx. apply (ring_valid _ _ _ _ R Ip). }
    destruct (Nat.eqb_spec x n) as [->|]; [|tauto].
    split; [intros _|congruence]. apply valid_gnx; auto.
Qed.

(** * List objects: a ring whose [size] field is the number of nodes *)

Definition dl (h : heap) (hd : addr) (l : list addr) : Prop :=
  ring h hd l /\ rsz h hd = N.of_nat (length l).

(** what an operation on the list object at [hd] may change: cells inside
    the footprint [foot], the size field of [hd]; nothing is allocated or
    released *)
Record upd1 (h h' : heap) (hd : addr) (foot : list addr) : Prop := mkU {
  u_hm : forall x, ~ In x foot -> hm h' x = hm h x;
  u_hs : forall x, x <> hd -> hs h' x = hs h x;
  u_valid : forall x, valid h' x <-> valid h x }.

Lemma upd1_refl h hd foot : upd1 h h hd foot.
Proof. split; intros; tauto. Qed.

Lemma upd1_weaken h h' hd foot foot' :
  upd1 h h' hd foot -> incl foot foot' -> upd1 h h' hd foot'.
Proof. intros [A B C] I. split; auto. Qed.

Lemma upd1_trans h h1 h2 hd foot :
  upd1 h h1 hd foot -> upd1 h1 h2 hd foot -> upd1 h h2 hd foot.
Proof.
  intros [A B C] [A' B' C']. split; intros.
  - rewrite A', A; auto.
  - rewrite B', B; auto.
  - rewrite C', C; tauto.
Qed.

Lemma dl_frame h h' hd l :
  (forall y, In y (hd :: l) -> hm h' y = hm h y) -> hs h' hd = hs h hd -> dl h hd l -> dl h' hd l.
Proof. intros H S (R & Z). split; [eapply ring_frame; eauto|unfold rsz in *; congruence]. Qed.

Lemma dl_pos h hd x r : dl h hd (x :: r) -> (0 <? rsz h hd)%N = true.
Proof. intros (_ & ->). apply N.ltb_lt. simpl length. lia. Qed.
Lemma dl_zero h hd : dl h hd [] -> rsz h hd = 0%N.
Proof. intros (_ & ->). auto. Qed.

Lemma hs_rsz h h' l v : hs h' = hs (wsz h l v) -> rsz h' l = v /\ forall x, x <> l -> hs h' x = hs h x.
Proof.
  intros E. unfold rsz. rewrite E. simpl. rewrite Nat.eqb_refl. split; auto.
  intros x Hx. destruct (Nat.eqb_spec x l); congruence.
Qed.

Lemma dec_succ n : dec (N.of_nat (S n)) = N.of_nat n.
Proof. unfold dec. destruct (N.eqb_spec (N.of_nat (S n)) 0); lia. Qed.

Lemma in_cons_app_mid {A} (x y hd : A) l1 l2 :
  In x (hd :: l1 ++ l2) -> In x (hd :: l1 ++ y :: l2).
Proof. simpl. rewrite !in_app_iff. simpl. tauto. Qed.

(** insert after position [l1] of a list object *)
Lemma insert_dl h hd l1 l2 n :
  dl h hd (l1 ++ l2) -> valid h n -> ~ In n (hd :: l1 ++ l2) ->
  exists h', insert h hd (last l1 hd) n = Ok h' /\ dl h' hd (l1 ++ n :: l2) /\
             upd1 h h' hd (hd :: l1 ++ n :: l2).
Proof.
  intros (R & Z) Vn Fn.
  destruct (insert_ring h hd hd l1 l2 n R Vn Fn) as (h' & E & R' & Fr & Va & S').
  apply hs_rsz in S'. destruct S' as (S1 & S2).
  exists h'. split; auto. split; [split; auto|split; auto].
  - rewrite S1, Z, !app_length. simpl. lia.
  - intros x Hx. apply Fr; intros ->; apply Hx.
    + apply in_cons_app_mid. destruct (last_In_cons l1 hd) as [<-|I]; [left; auto|right; rewrite in_app_iff; auto].
    + destruct l2; simpl; auto. right. rewrite in_app_iff. simpl. auto.
    + right. rewrite in_app_iff. simpl. auto.
Qed.

Lemma erase_dl h hd l1 n l2 :
  dl h hd (l1 ++ n :: l2) ->
  exists h', erase h hd n = Ok h' /\ dl h' hd (l1 ++ l2) /\ upd1 h h' hd (hd :: l1 ++ l2) /\
             hm h' n = hm h n.
Proof.
  intros (R & Z).
  destruct (erase_ring h hd hd l1 n l2 R) as (h' & E & R' & Fr & Va & S').
  apply hs_rsz in S'. destruct S' as (S1 & S2).
  assert (forall x, ~ In x (hd :: l1 ++ l2) -> x <> last l1 hd /\ x <> hd_or l2 hd) as Out.
  { intros x Hx. split; intros ->; apply Hx.
    - destruct (last_In_cons l1 hd) as [<-|I]; [left; auto|right; rewrite in_app_iff; auto].
    - destruct l2; simpl; auto. right. rewrite in_app_iff. simpl. auto. }
  exists h'. split; auto. split; [split; auto|split; [split; auto|]].
  - rewrite S1, Z, !app_length. simpl length. rewrite Nat.add_succ_r. apply dec_succ.
  - intros x Hx. apply Fr; apply Out; auto.
  - apply Fr; apply Out; destruct R as (ND & _); inversion ND; subst.
    + intros [<-|I]; [apply H1; rewrite in_app_iff; simpl; auto|].
      apply NoDup_remove_2 in H2. auto.
    + intros [<-|I]; [apply H1; rewrite in_app_iff; simpl; auto|].
      apply NoDup_remove_2 in H2. auto.
Qed.

(** ** push / pop / front / back / insert / erase *)

Lemma push_front_dl h hd l e :
  dl h hd l -> valid h e -> ~ In e (hd :: l) ->
  exists h', push_front h hd e = Ok h' /\ dl h' hd (e :: l) /\ upd1 h h' hd (hd :: e :: l).
Proof. intros D V F. exact (insert_dl h hd [] l e D V F). Qed.

Lemma push_back_dl h hd l e :
  dl h hd l -> valid h e -> ~ In e (hd :: l) ->
  exists h', push_back h hd e = Ok h' /\ dl h' hd (l ++ [e]) /\ upd1 h h' hd (hd :: l ++ [e]).
Proof.
  intros D V F. unfold push_back.
  rewrite (rpv_gpv _ _ _ (ring_head_pv _ _ _ (proj1 D))).
  rewrite <- (app_nil_r l) in D, F. exact (insert_dl h hd l [] e D V F).
Qed.

Lemma front_dl h hd l : dl h hd l -> front h hd = Ok (hd_error l).
Proof.
  intros D. unfold front. destruct l as [|x r].
  - rewrite (dl_zero _ _ D). reflexivity.
  - rewrite (dl_pos _ _ _ _ D). rewrite (rnx_gnx _ _ _ (ring_head_nx _ _ _ (proj1 D))). reflexivity.
Qed.

Lemma back_dl h hd l : dl h hd l -> back h hd = Ok (last_opt l).
Proof.
  intros D. unfold back. destruct l as [|x r] eqn:El.
  - rewrite (dl_zero _ _ D). reflexivity.
  - rewrite (dl_pos _ _ _ _ D). rewrite (rpv_gpv _ _ _ (ring_head_pv _ _ _ (proj1 D))).
    rewrite <- El. f_equal. assert (l <> []) as Ne by congruence. clear -Ne.
    destruct (exists_last Ne) as (l' & y & ->). rewrite last_app1, last_opt_app. auto.
Qed.

Lemma pop_front_dl h hd l :
  dl h hd l ->
  exists h', pop_front h hd = Ok (h', hd_error l) /\ dl h' hd (tl l) /\ upd1 h h' hd (hd :: tl l) /\
             forall x, In x l -> hm h' x = hm h x \/ In x (tl l).
Proof.
  intros D. unfold pop_front. destruct l as [|x r].
  - rewrite (dl_zero _ _ D). exists h. simpl. split; [reflexivity|]. split; [exact D|].
    split; [apply upd1_refl|]. intros x [].
  - rewrite (dl_pos _ _ _ _ D). rewrite (rnx_gnx _ _ _ (ring_head_nx _ _ _ (proj1 D))). simpl hd_or.
    destruct (erase_dl h hd [] x r D) as (h' & E & D' & U & Hx). rewrite E.
    exists h'. simpl. split; [reflexivity|]. split; [exact D'|]. split; [exact U|].
    intros y [<-|I]; auto.
Qed.

Lemma pop_back_dl h hd l :
  dl h hd l ->
  exists h', pop_back h hd = Ok (h', last_opt l) /\ dl h' hd (removelast l) /\
             upd1 h h' hd (hd :: removelast l) /\
             forall x, In x l -> hm h' x = hm h x \/ In x (removelast l).
Proof.
  intros D. unfold pop_back. destruct l as [|x r] eqn:El.
  - rewrite (dl_zero _ _ D). exists h. simpl. split; [reflexivity|]. split; [exact D|].
    split; [apply upd1_refl|]. intros x [].
  - rewrite (dl_pos _ _ _ _ D). rewrite (rpv_gpv _ _ _ (ring_head_pv _ _ _ (proj1 D))).
    rewrite <- El in *. assert (l <> []) as Ne by congruence. clear El.
    destruct (exists_last Ne) as (l' & y & ->). rewrite last_app1, last_opt_app, removelast_last.
    destruct (erase_dl h hd l' y [] D) as (h' & E & D' & U & Hx). rewrite E.
    rewrite app_nil_r in *.
    exists h'. split; [reflexivity|]. split; [exact D'|]. split; [exact U|].
    intros z I. rewrite in_app_iff in I. destruct I as [I|[<-|[]]]; auto.
Qed.

Lemma last_snoc (l : list addr) b d : last (l ++ [b]) d = b.
Proof. apply last_app1. Qed.

(** cstl_dlist_insert(l, b, e): [e] goes right after [b] *)
Lemma insert_after_dl h hd l1 b l2 e :
  dl h hd (l1 ++ b :: l2) -> valid h e -> ~ In e (hd :: l1 ++ b :: l2) ->
  exists h', insert h hd b e = Ok h' /\ dl h' hd (l1 ++ b :: e :: l2) /\
             upd1 h h' hd (hd :: l1 ++ b :: e :: l2).
Proof.
  intros D V F.
  replace (l1 ++ b :: l2) with ((l1 ++ [b]) ++ l2) in D, F by (rewrite <- app_assoc; auto).
  destruct (insert_dl h hd (l1 ++ [b]) l2 e D V F) as (h' & E & D' & U).
  rewrite last_snoc in E. rewrite <- app_assoc in D', U. simpl in D', U. eauto.
Qed.
